# Layer 0: the Vec backend of the array interface (src/array/vec/vec_array.rs, trait default
# methods of src/array/traits.rs).  Property C07; reused by every other layer.
VA = 'src/array/vec/vec_array.rs'
TR = 'src/array/traits.rs'

module('vec_array', uses=['core::ops::{Deref, DerefMut}', 'vstd::std_specs::cmp::*'])

typedef(VA, 'VecArray')

raw(r'''
impl<T> View for VecArray<T> {
    type V = Seq<T>;
    open spec fn view(&self) -> Seq<T> { self.0@ }
}

// #[derive(Clone)] on VecArray: field-wise clone of the Vec (trusted: derive macro semantics)
impl<T: Clone> Clone for VecArray<T> {
    #[verifier::external_body]
    fn clone(&self) -> (r: Self)
        ensures r@.len() == self@.len(),
            lawful_clone::<T>() ==> r@ == self@,
    { VecArray(self.0.clone()) }
}

impl<T: PartialEq> PartialEqSpecImpl for VecArray<T> {
    open spec fn obeys_eq_spec() -> bool { <Vec<T> as PartialEqSpec>::obeys_eq_spec() }
    open spec fn eq_spec(&self, other: &Self) -> bool { PartialEqSpec::eq_spec(&self.0, &other.0) }
}

/// `==` on index arrays is equality of views
pub proof fn lemma_vecarray_usize_eq()
    ensures forall|a: VecArray<usize>, b: VecArray<usize>| #[trigger] PartialEqSpec::eq_spec(&a, &b) <==> a@ =~= b@,
        <VecArray<usize> as PartialEqSpec>::obeys_eq_spec(),
{
    assert forall|a: VecArray<usize>, b: VecArray<usize>| #[trigger] PartialEqSpec::eq_spec(&a, &b) <==> a@ =~= b@ by {
        assert(a.0@ == a@ && b.0@ == b@);
    }
}

/// `==` on the label type is structural equality
pub open spec fn lawful_eq<T: PartialEq>() -> bool {
    &&& T::obeys_eq_spec()
    &&& forall|x: T, y: T| #[trigger] x.eq_spec(&y) <==> x == y
}
''')

group('impl<T: PartialEq> PartialEq for VecArray<T>')
fn(VA, 'eq', trait='PartialEq', self_ty='VecArray', status='P', props=['C07'])
endgroup()

group('impl<T> Deref for VecArray<T>', preamble='    type Target = Vec<T>;\n')
fn(VA, 'deref', trait='Deref', self_ty='VecArray', status='P', props=['C07'],
   ensures=[('C07.deref', 'r@ == self@')])
endgroup()
group('impl<T> DerefMut for VecArray<T>')
fn(VA, 'deref_mut', trait='DerefMut', self_ty='VecArray', status='P', props=['C07'],
   ensures=[('C07.deref_mut', 'r@ == old(self)@'), ('C07.deref_mut-final', 'final(self)@ == final(r)@')])
endgroup()

# ---------------------------------------------------------------------------------------------
# impl Array<VecKind, T> for VecArray<T>
# ---------------------------------------------------------------------------------------------
raw(r'''
pub open spec fn in_bounds(idx: Seq<usize>, n: int) -> bool {
    forall|i: int| 0 <= i < idx.len() ==> (#[trigger] idx[i]) < n
}

/// the last position i < n with idx[i] == j, or -1: "which write to cell j wins"
pub open spec fn last_write(idx: Seq<usize>, j: int, n: int) -> int
    decreases n
{
    if n <= 0 { -1 } else if idx[n - 1] == j { n - 1 } else { last_write(idx, j, n - 1) }
}

pub proof fn lemma_last_write(idx: Seq<usize>, j: int, n: int)
    requires 0 <= n <= idx.len()
    ensures -1 <= last_write(idx, j, n) < n,
        last_write(idx, j, n) >= 0 ==> idx[last_write(idx, j, n)] == j,
        forall|i: int| last_write(idx, j, n) < i < n ==> idx[i] != j,
    decreases n
{
    if n > 0 && idx[n - 1] != j { lemma_last_write(idx, j, n - 1); }
}
''')

group('impl<T: Clone> VecArray<T>')
fn(VA, 'empty', trait='Array', self_ty='VecArray', status='P', props=['C07'],
   ensures=[('C07.empty', 'r@.len() == 0')])
fn(VA, 'len', trait='Array', self_ty='VecArray', status='P', props=['C07'],
   ensures=[('C07.len', 'r == self@.len()')])
fn(TR, 'is_empty', kind='trait', trait='Array', status='P', props=['C07'],
   ensures=[('C07.is_empty', 'r <==> self@.len() == 0'), 'self@.len() <= usize::MAX'])
fn(VA, 'concatenate', trait='Array', self_ty='VecArray', status='P', props=['C07'],
   requires=['self@.len() + other@.len() <= usize::MAX'],
   ensures=[('C07.concatenate-len', 'r@.len() == self@.len() + other@.len()'),
            ('C07.concatenate', 'lawful_clone::<T>() ==> r@ == self@ + other@')])
fn(VA, 'fill', trait='Array', self_ty='VecArray', status='P', props=['C07'],
   ensures=[('C07.fill-len', 'r@.len() == n'),
            ('C07.fill', 'lawful_clone::<T>() ==> forall|i: int| 0 <= i < n ==> r@[i] == x')])
fn(VA, 'get', trait='Array', self_ty='VecArray', status='P', props=['C07'],
   requires=['i < self@.len()'],
   ensures=[('C07.get', 'lawful_clone::<T>() ==> r == self@[i as int]')])
fn(VA, 'gather', trait='Array', self_ty='VecArray', status='P', props=['C07'],
   requires=['in_bounds(idx@, self@.len() as int)'],
   ensures=[('C07.gather-len', 'r@.len() == idx@.len()'),
            ('C07.gather', 'lawful_clone::<T>() ==> forall|i: int| 0 <= i < idx@.len() ==> r@[i] == self@[idx@[i] as int]')],
   # T9 (generic element type: Verus has no spec for collect() into Vec<T> for a type parameter T)
   rules={'t9': True},
   loops={1: {'iter': 'it', 'invariant': [
       'it.seq().len() == idx@.len()',
       'forall|i: int| 0 <= i < idx@.len() ==> *it.seq()[i] == idx@[i]',
       'in_bounds(idx@, self@.len() as int)',
       'vx_v1@.len() == it.index@',
       'lawful_clone::<T>() ==> forall|i: int| 0 <= i < it.index@ ==> vx_v1@[i] == self@[idx@[i] as int]',
   ]}})
fn(VA, 'scatter', trait='Array', self_ty='VecArray', status='P', props=['C07', 'C20'],
   requires=['idx@.len() == self@.len()', 'in_bounds(idx@, n as int)'],
   ensures=[('C07.scatter-len', 'self@.len() > 0 ==> r@.len() == n'),
            ('C07.scatter-empty', 'self@.len() == 0 ==> r@.len() == 0'),
            # every written position holds the value written last; unwritten positions are unspecified (filler)
            ('C07.scatter', 'lawful_clone::<T>() ==> forall|j: int| 0 <= j < r@.len() && #[trigger] last_write(idx@, j, idx@.len() as int) >= 0 '
                            '==> r@[j] == self@[last_write(idx@, j, idx@.len() as int)]'),
            ('C07.scatter-filler!vec', 'lawful_clone::<T>() ==> forall|j: int| 0 <= j < r@.len() && #[trigger] last_write(idx@, j, idx@.len() as int) < 0 '
                            '==> r@[j] == self@[0]')],
   loops={1: {'iter': 'it', 'invariant': [
       'it.seq().len() == self@.len()',
       'forall|i: int| 0 <= i < self@.len() ==> *it.seq()[i] == self@[i]',
       'vx_i1 == it.index@',
       'idx@.len() == self@.len()', 'in_bounds(idx@, n as int)', 'y@.len() == n', 'self@.len() > 0',
       'lawful_clone::<T>() ==> forall|j: int| 0 <= j < n ==> y@[j] == (if #[trigger] last_write(idx@, j, it.index@) >= 0 { self@[last_write(idx@, j, it.index@)] } else { self@[0] })',
       'self@.len() <= usize::MAX',
   ]}},
   proofs=[('before:y[idx[i]] = x.clone()', 'assert(*x == self@[it.index@]);'),
           ('after:y[idx[i]] = x.clone()',
            'assert forall|j: int| 0 <= j < n implies #[trigger] last_write(idx@, j, it.index@ + 1) == (if idx@[it.index@] == j { it.index@ as int } else { last_write(idx@, j, it.index@ as int) }) by {}')])
fn(VA, 'scatter_assign_constant', trait='Array', self_ty='VecArray', status='P', props=['C07'],
   requires=['in_bounds(ixs@, old(self)@.len() as int)'],
   ensures=[('C07.scatter_assign_constant-len', 'final(self)@.len() == old(self)@.len()'),
            ('C07.scatter_assign_constant', 'lawful_clone::<T>() ==> forall|j: int| 0 <= j < old(self)@.len() ==> '
             'final(self)@[j] == (if #[trigger] last_write(ixs@, j, ixs@.len() as int) >= 0 { arg } else { old(self)@[j] })')],
   loops={1: {'iter': 'it', 'invariant': [
       'it.seq().len() == ixs@.len()',
       'forall|i: int| 0 <= i < ixs@.len() ==> *it.seq()[i] == ixs@[i]',
       'in_bounds(ixs@, self@.len() as int)', 'self@.len() == old(self)@.len()',
       'lawful_clone::<T>() ==> forall|j: int| 0 <= j < self@.len() ==> '
       'self@[j] == (if #[trigger] last_write(ixs@, j, it.index@) >= 0 { arg } else { old(self)@[j] })',
   ]}},
   proofs=[('before:self[idx] = arg.clone()', 'let ghost pre = self@; assert(idx == ixs@[it.index@]);'),
           ('after:self[idx] = arg.clone()',
            'assert forall|j: int| 0 <= j < self@.len() implies #[trigger] last_write(ixs@, j, it.index@ + 1) == (if ixs@[it.index@] == j { it.index@ as int } else { last_write(ixs@, j, it.index@ as int) }) by {}')])
fn(VA, 'scatter_assign', trait='Array', self_ty='VecArray', status='P', props=['C07'],
   requires=['in_bounds(ixs@, old(self)@.len() as int)'],
   ensures=[('C07.scatter_assign-len', 'final(self)@.len() == old(self)@.len()'),
            # sequential semantics over the first min(|ixs|,|values|) pairs: the last write wins, the rest is untouched
            ('C07.scatter_assign', 'lawful_clone::<T>() && ixs@.len() <= values@.len() ==> '
             'forall|j: int| 0 <= j < old(self)@.len() ==> '
             'final(self)@[j] == (if #[trigger] last_write(ixs@, j, ixs@.len() as int) >= 0 { values@[last_write(ixs@, j, ixs@.len() as int)] } else { old(self)@[j] })'),
            ('C07.scatter_assign-short', 'lawful_clone::<T>() && ixs@.len() > values@.len() ==> '
             'forall|j: int| 0 <= j < old(self)@.len() ==> '
             'final(self)@[j] == (if #[trigger] last_write(ixs@, j, values@.len() as int) >= 0 { values@[last_write(ixs@, j, values@.len() as int)] } else { old(self)@[j] })')],
   loops={1: {'iter': 'it', 'invariant': [
       'it.seq().len() == (if ixs@.len() <= values@.len() { ixs@.len() } else { values@.len() })',
       'forall|i: int| 0 <= i < it.seq().len() ==> *it.seq()[i].0 == ixs@[i] && *it.seq()[i].1 == values@[i]',
       'in_bounds(ixs@, self@.len() as int)', 'self@.len() == old(self)@.len()',
       'lawful_clone::<T>() ==> forall|j: int| 0 <= j < self@.len() ==> '
       'self@[j] == (if #[trigger] last_write(ixs@, j, it.index@) >= 0 { values@[last_write(ixs@, j, it.index@)] } else { old(self)@[j] })',
   ]}},
   proofs=[('before:self[*i] = x.clone()', 'assert(*i == ixs@[it.index@] && *x == values@[it.index@]);'),
           ('after:self[*i] = x.clone()',
            'assert forall|j: int| 0 <= j < self@.len() implies #[trigger] last_write(ixs@, j, it.index@ + 1) == (if ixs@[it.index@] == j { it.index@ as int } else { last_write(ixs@, j, it.index@ as int) }) by {}')])
endgroup()

# ---------------------------------------------------------------------------------------------
# slice plumbing: get_range / set_range / from_slice go through RangeBounds / Index<Range> /
# clone_from_slice, which Verus does not take.  T6 monomorphizes `get_range(<range literal>)`
# into the four forms below; their contracts are assumed here, checked against the real
# `get_range` by the bounded checker (status B), and `to_range` itself is proved by Kani (K).
# ---------------------------------------------------------------------------------------------
raw(r'''
impl<T: Clone> VecArray<T> {
    #[verifier::external_body]
    pub fn get_range_full(&self) -> (r: &[T])
        ensures r@ == self@, /*@C:C07.get_range-full@*/
    { unimplemented!() }
    #[verifier::external_body]
    pub fn get_range_from(&self, a: usize) -> (r: &[T])
        requires a <= self@.len(),
        ensures r@ == self@.subrange(a as int, self@.len() as int), /*@C:C07.get_range-from@*/
    { unimplemented!() }
    #[verifier::external_body]
    pub fn get_range_to(&self, b: usize) -> (r: &[T])
        requires b <= self@.len(),
        ensures r@ == self@.subrange(0, b as int), /*@C:C07.get_range-to@*/
    { unimplemented!() }
    #[verifier::external_body]
    pub fn get_range_range(&self, a: usize, b: usize) -> (r: &[T])
        requires a <= b <= self@.len(),
        ensures r@ == self@.subrange(a as int, b as int), /*@C:C07.get_range-range@*/
    { unimplemented!() }
}
''', tag='B:get_range')

group('impl<T: Clone> VecArray<T>')
fn(VA, 'from_slice', trait='Array', self_ty='VecArray', status='B', props=['C07'],
   ensures=[('C07.from_slice-len', 'r@.len() == slice@.len()'),
            ('C07.from_slice', 'lawful_clone::<T>() ==> r@ == slice@')], mirror='chk_from_slice')
endgroup()

# ---------------------------------------------------------------------------------------------
# element-wise arithmetic (operator impls of vec_array.rs, generic in T there, used at usize)
# ---------------------------------------------------------------------------------------------
opimpl(VA, 'Add', 'usize', 'add_scalar', 'n', 'usize', "&'b VecArray<usize>", 'VecArray<usize>',
       req='forall|i: int| 0 <= i < rhs@.len() ==> n + rhs@[i] <= usize::MAX',
       ens=['r@.len() == rhs@.len()', 'forall|i: int| 0 <= i < rhs@.len() ==> r@[i] == n + rhs@[i]'],
       labels=['C07.add_scalar-len', 'C07.add_scalar'], impl_generics="<'b>", props=['C07'],
       closures={1: {'header': '|x: &usize| -> (y: usize)', 'spec': 'requires *x + n <= usize::MAX, ensures y == *x + n,'}})

opimpl(VA, 'Add', 'VecArray', 'array_add', 'a', 'VecArray<usize>', 'VecArray<usize>', 'VecArray<usize>',
       req=['a@.len() == rhs@.len()', 'forall|i: int| 0 <= i < a@.len() ==> a@[i] + rhs@[i] <= usize::MAX'],
       ens=['r@.len() == a@.len()', 'forall|i: int| #![trigger r@[i]] #![trigger a@[i]] #![trigger rhs@[i]] 0 <= i < a@.len() ==> r@[i] == a@[i] + rhs@[i]'],
       labels=['C07.add-len', 'C07.add'], props=['C07'], rules={'subst': {'T': 'usize'}},
       closures={1: {'header': '|xy: (&usize, &usize)| -> (z: usize)', 'spec': 'requires *xy.0 + *xy.1 <= usize::MAX, ensures z == *xy.0 + *xy.1,',
                     'destructure': 'xy'}})

opimpl(VA, 'Sub', 'VecArray', 'array_sub', 'a', 'VecArray<usize>', 'VecArray<usize>', 'VecArray<usize>',
       req=['a@.len() == rhs@.len()', 'forall|i: int| 0 <= i < a@.len() ==> a@[i] >= rhs@[i]'],
       ens=['r@.len() == a@.len()', 'forall|i: int| #![trigger r@[i]] #![trigger a@[i]] #![trigger rhs@[i]] 0 <= i < a@.len() ==> r@[i] == a@[i] - rhs@[i]'],
       labels=['C07.sub-len', 'C07.sub'], props=['C07'], rules={'subst': {'T': 'usize'}},
       closures={1: {'header': '|xy: (&usize, &usize)| -> (z: usize)', 'spec': 'requires *xy.0 >= *xy.1, ensures z == *xy.0 - *xy.1,',
                     'destructure': 'xy'}})

# ---------------------------------------------------------------------------------------------
# OrdArray / NaturalArray for VecArray<usize>
# ---------------------------------------------------------------------------------------------
raw(r'''
/// p is a permutation of 0..n  (as a finite function: in range and injective)
pub open spec fn is_perm(p: Seq<usize>, n: int) -> bool {
    &&& p.len() == n
    &&& forall|i: int| 0 <= i < n ==> (#[trigger] p[i]) < n
    &&& forall|i: int, j: int| 0 <= i < n && 0 <= j < n && i != j ==> p[i] != p[j]
}

/// p is a permutation that sorts `key` (ties in any order: the documented argsort contract)
pub open spec fn sorts(p: Seq<usize>, key: Seq<usize>) -> bool {
    &&& is_perm(p, key.len() as int)
    &&& forall|i: int, j: int| 0 <= i < j < key.len() ==> key[p[i] as int] <= key[p[j] as int]
}

/// ties keep their original order (an accident of the Vec backend: `sort_by_key` is stable)
pub open spec fn stable(p: Seq<usize>, key: Seq<usize>) -> bool {
    forall|i: int, j: int| 0 <= i < j < key.len() && key[p[i] as int] == key[p[j] as int] ==> p[i] < p[j]
}

/// total amount subtracted from cell j by the first n (index, amount) pairs
pub open spec fn sub_total(ixs: Seq<usize>, rhs: Seq<usize>, j: int, n: int) -> int
    decreases n
{
    if n <= 0 { 0 } else { sub_total(ixs, rhs, j, n - 1) + (if ixs[n - 1] == j { rhs[n - 1] as int } else { 0int }) }
}

pub proof fn lemma_sub_total_mono(ixs: Seq<usize>, rhs: Seq<usize>, j: int, m: int, n: int)
    requires 0 <= m <= n <= ixs.len(), n <= rhs.len()
    ensures 0 <= sub_total(ixs, rhs, j, m) <= sub_total(ixs, rhs, j, n)
    decreases n
{
    if m < n { lemma_sub_total_mono(ixs, rhs, j, m, n - 1); }
    else if n > 0 { lemma_sub_total_mono(ixs, rhs, j, m - 1, n - 1); }
}

/// indices of the zero entries of s among the first n, in increasing order
pub open spec fn zeros_upto(s: Seq<usize>, n: int) -> Seq<usize>
    decreases n
{
    if n <= 0 { Seq::empty() } else if s[n - 1] == 0 { zeros_upto(s, n - 1).push((n - 1) as usize) } else { zeros_upto(s, n - 1) }
}
''')

group('impl VecArray<usize>')
fn(VA, 'argsort', trait='OrdArray', self_ty='VecArray', status='B', props=['C07', 'C20'], rules={'subst': {'T': 'usize'}},
   ensures=[('C07.argsort', 'sorts(r@, self@)'), ('C07.argsort-stable!vec', 'stable(r@, self@)')],
   mirror='chk_argsort', note='std sort_by_key is trusted (T); contract checked by the bounded checker')
fn(TR, 'sort_by', kind='trait', trait='OrdArray', status='P', props=['C07', 'C20'],
   requires=['key@.len() <= self@.len()'],
   ensures=[('C07.sort_by-len', 'r@.len() == key@.len()'),
            ('C07.sort_by', 'exists|p: Seq<usize>| sorts(p, key@) && (forall|i: int| 0 <= i < key@.len() ==> r@[i] == self@[p[i] as int])'),
            ('C07.sort_by-stable!vec', 'exists|p: Seq<usize>| sorts(p, key@) && stable(p, key@) && (forall|i: int| 0 <= i < key@.len() ==> r@[i] == self@[p[i] as int])')],
   proofs=[('start', 'assert(lawful_clone::<usize>());')])
fn(VA, 'max', trait='NaturalArray', self_ty='VecArray', status='B', props=['C07'],
   ensures=[('C07.max-none', 'r.is_none() <==> self@.len() == 0'),
            ('C07.max-upper', 'r.is_some() ==> forall|i: int| 0 <= i < self@.len() ==> self@[i] <= r.unwrap()'),
            ('C07.max-attained', 'r.is_some() ==> exists|i: int| 0 <= i < self@.len() && self@[i] == r.unwrap()')],
   mirror='chk_max', note='Iterator::max / Option::copied are trusted std (T)')
fn(VA, 'quot_rem', trait='NaturalArray', self_ty='VecArray', status='P', props=['C07'],
   requires=['d != 0'],
   ensures=[('C07.quot_rem-len', 'r.0@.len() == self@.len() && r.1@.len() == self@.len()'),
            ('C07.quot_rem', 'forall|i: int| 0 <= i < self@.len() ==> r.0@[i] == self@[i] / d && r.1@[i] == self@[i] % d')],
   loops={1: {'iter': 'it', 'invariant': [
       'it.seq().len() == self@.len()', 'forall|i: int| 0 <= i < self@.len() ==> *it.seq()[i] == self@[i]',
       'd != 0', 'q@.len() == it.index@', 'r@.len() == it.index@',
       'forall|i: int| 0 <= i < it.index@ ==> q@[i] == self@[i] / d && r@[i] == self@[i] % d']}})
fn(VA, 'mul_constant_add', trait='NaturalArray', self_ty='VecArray', status='P', props=['C07'],
   requires=['self@.len() == x@.len()', 'forall|i: int| 0 <= i < self@.len() ==> self@[i] * c + x@[i] <= usize::MAX'],
   ensures=[('C07.mul_constant_add-len', 'r@.len() == self@.len()'),
            ('C07.mul_constant_add', 'forall|i: int| 0 <= i < self@.len() ==> r@[i] == self@[i] * c + x@[i]')],
   # the loop variable `x` shadows the parameter `x`: name the parameter's view first
   loops={1: {'iter': 'it', 'invariant': [
       'self@.len() == xs.len()', 'forall|i: int| 0 <= i < self@.len() ==> self@[i] * c + xs[i] <= usize::MAX',
       'it.seq().len() == self@.len()',
       'forall|i: int| 0 <= i < self@.len() ==> *it.seq()[i].0 == self@[i] && *it.seq()[i].1 == xs[i]',
       'r@.len() == it.index@', 'forall|i: int| 0 <= i < it.index@ ==> r@[i] == self@[i] * c + xs[i]']}},
   proofs=[G('before:for (s, x) in', 'let ghost xs = x@;'),
           ('before:r.push(s * c + x)', 'assert(*s == self@[it.index@] && *x == xs[it.index@]); assert(s * c >= 0) by (nonlinear_arith) requires s >= 0, c >= 0;')])
fn(VA, 'cumulative_sum', trait='NaturalArray', self_ty='VecArray', status='P', props=['C07'], rules={'deref_assign_rhs': True},
   requires=['total(self@) <= usize::MAX', 'self@.len() < usize::MAX'],
   ensures=[('C07.cumulative_sum-len', 'r@.len() == self@.len() + 1'),
            ('C07.cumulative_sum', 'forall|i: int| 0 <= i <= self@.len() ==> r@[i] == psum(self@, i)')],
   loops={1: {'iter': 'it', 'invariant': [
       'it.seq().len() == self@.len()', 'forall|i: int| 0 <= i < self@.len() ==> *it.seq()[i] == self@[i]',
       'total(self@) <= usize::MAX', 'v@.len() == it.index@', 'a == psum(self@, it.index@)',
       'forall|i: int| 0 <= i < it.index@ ==> v@[i] == psum(self@, i)']}},
   proofs=[('before:a += x', 'assert(*x == self@[it.index@]); lemma_psum_mono(self@, it.index@ + 1, self@.len() as int); assert(psum(self@, it.index@ + 1) == psum(self@, it.index@ as int) + self@[it.index@ as int]);')])
fn(TR, 'sum', kind='trait', trait='NaturalArray', status='P', props=['C07'],
   requires=['total(self@) <= usize::MAX', 'self@.len() < usize::MAX'],
   ensures=[('C07.sum', 'r == total(self@)')],
   proofs=[('start', 'assert(lawful_clone::<usize>());')])
fn(VA, 'arange', trait='NaturalArray', self_ty='VecArray', status='P', props=['C07'],
   requires=['*start <= *stop'],
   ensures=[('C07.arange-len', 'r@.len() == *stop - *start'),
            ('C07.arange', 'forall|i: int| 0 <= i < r@.len() ==> r@[i] == *start + i')],
   loops={1: {'iter': 'it', 'invariant': [
       'n == *stop - *start', 'v@.len() == i', 'forall|k: int| 0 <= k < i ==> v@[k] == *start + k']}})
fn(VA, 'repeat', trait='NaturalArray', self_ty='VecArray', status='B', props=['C07'],
   requires=['self@.len() == x@.len()', 'total(self@) <= usize::MAX'],
   ensures=[('C07.repeat-len', 'r@.len() == total(self@)'),
            ('C07.repeat', 'forall|i: int, j: int| 0 <= i < self@.len() && 0 <= j < self@[i] ==> r@[#[trigger] seg_at(self@, i, j)] == x@[i]')],
   mirror='chk_repeat', note='Vec::extend(repeat_n(..)) is outside Verus; bounded check of the real body')
fn(VA, 'connected_components', trait='NaturalArray', self_ty='VecArray', status='P', props=['C07', 'C06', 'C01', 'C20'],
   requires=['sources@.len() == targets@.len()', 'in_bounds(sources@, n as int)', 'in_bounds(targets@, n as int)'],
   ensures=[('C07.connected_components', 'is_coeq(r.0@, r.1 as int, sources@, targets@, n as int)'), ('C07.connected_components-count', 'r.1 <= n')])
fn(VA, 'bincount', trait='NaturalArray', self_ty='VecArray', status='P', props=['C07'],
   requires=['in_bounds(self@, size as int)'],
   ensures=[('C07.bincount-len', 'r@.len() == size'),
            ('C07.bincount', 'forall|v: int| 0 <= v < size ==> r@[v] == count(self@, v, self@.len() as int)')],
   loops={1: {'iter': 'it', 'invariant': [
       'it.seq().len() == self@.len()', 'forall|i: int| 0 <= i < self@.len() ==> *it.seq()[i] == self@[i]',
       'in_bounds(self@, size as int)', 'counts@.len() == size', 'self@.len() <= usize::MAX',
       'forall|v: int| 0 <= v < size ==> counts@[v] == count(self@, v, it.index@)']}},
   proofs=[('start', 'let ghost _n = self.0@.len(); assert(self@.len() <= usize::MAX) by { vstd::std_specs::vec::axiom_spec_len(&self.0); }'),
           ('before:counts[idx] += 1', 'assert(idx == self@[it.index@]); lemma_count_bounds(self@, idx as int, it.index@);')])
fn(VA, 'zero', trait='NaturalArray', self_ty='VecArray', status='P', props=['C07'],
   ensures=[('C07.zero', 'r@ == zeros_upto(self@, self@.len() as int)')],
   loops={1: {'iter': 'it', 'invariant': [
       'it.seq().len() == self@.len()', 'forall|i: int| 0 <= i < self@.len() ==> *it.seq()[i] == self@[i]',
       'vx_i1 == it.index@', 'self@.len() <= usize::MAX',
       'zero_indices@ == zeros_upto(self@, it.index@)']}},
   proofs=[('start', 'assert(self@.len() <= usize::MAX) by { vstd::std_specs::vec::axiom_spec_len(&self.0); }')])
fn(VA, 'sparse_bincount', trait='NaturalArray', self_ty='VecArray', status='B', props=['C07', 'C20'],
   ensures=[('C07.sparse_bincount-len', 'r.0@.len() == r.1@.len()'),
            ('C07.sparse_bincount-distinct', 'injective(r.0@)'),
            ('C07.sparse_bincount-counts', 'forall|k: int| 0 <= k < r.0@.len() ==> r.1@[k] == count(self@, r.0@[k] as int, self@.len() as int) && r.1@[k] > 0'),
            ('C07.sparse_bincount-occurs', 'forall|k: int| 0 <= k < r.0@.len() ==> count(self@, (#[trigger] r.0@[k]) as int, self@.len() as int) > 0'),
            ('C07.sparse_bincount-complete', 'forall|i: int| 0 <= i < self@.len() ==> #[trigger] hit(r.0@, self@[i] as int, r.0@.len() as int)'),
            ('C07.sparse_bincount-sorted!vec', 'forall|a: int, b: int| 0 <= a < b < r.0@.len() ==> r.0@[a] < r.0@[b]')],
   mirror='chk_sparse_bincount', note='HashMap entry API + sort_unstable are outside Verus; bounded check of the real body')
fn(VA, 'scatter_sub_assign', trait='NaturalArray', self_ty='VecArray', status='P', props=['C07'],
   requires=['ixs@.len() <= rhs@.len()', 'in_bounds(ixs@, old(self)@.len() as int)',
             'forall|j: int| 0 <= j < old(self)@.len() ==> old(self)@[j] >= sub_total(ixs@, rhs@, j, ixs@.len() as int)'],
   ensures=[('C07.scatter_sub_assign-len', 'final(self)@.len() == old(self)@.len()'),
            ('C07.scatter_sub_assign', 'forall|j: int| 0 <= j < old(self)@.len() ==> final(self)@[j] == old(self)@[j] - sub_total(ixs@, rhs@, j, ixs@.len() as int)')],
   loops={1: {'iter': 'it', 'invariant': [
       'ixs@.len() <= rhs@.len()', 'in_bounds(ixs@, self@.len() as int)', 'self@.len() == old(self)@.len()',
       'forall|j: int| 0 <= j < old(self)@.len() ==> old(self)@[j] >= sub_total(ixs@, rhs@, j, ixs@.len() as int)',
       'forall|j: int| 0 <= j < self@.len() ==> self@[j] == old(self)@[j] - sub_total(ixs@, rhs@, j, i as int)']}},
   proofs=[('before:self[ixs[i]] -= rhs[i]', 'lemma_sub_total_mono(ixs@, rhs@, ixs@[i as int] as int, i as int + 1, ixs@.len() as int);')])
fn(TR, 'segmented_sum', kind='trait', trait='NaturalArray', status='P', props=['C07'], rules={'ops': ['sub']},
   requires=['total(self@) <= x@.len()', 'total(x@) <= usize::MAX', 'x@.len() < usize::MAX', 'self@.len() < usize::MAX'],
   ensures=[('C07.segmented_sum-len', 'r@.len() == self@.len()'),
            ('C07.segmented_sum', 'forall|i: int| 0 <= i < self@.len() ==> r@[i] == psum(x@, psum(self@, i + 1)) - psum(x@, psum(self@, i))')],
   proofs=[('start', 'assert(lawful_clone::<usize>());'),
           ('before:let n = ptr.len()', 'assert forall|i: int| 0 <= i <= self@.len() implies 0 <= #[trigger] psum(self@, i) <= x@.len() by { lemma_psum_mono(self@, i, self@.len() as int); lemma_psum_mono(self@, 0, i); }'),
           ('end', 'assert forall|i: int| 0 <= i < self@.len() implies psum(x@, #[trigger] psum(self@, i + 1)) >= psum(x@, psum(self@, i)) by { lemma_psum_mono(x@, psum(self@, i), psum(self@, i + 1)); }')])
fn(TR, 'segmented_arange', kind='trait', trait='NaturalArray', status='P', props=['C07'], rules={'ops': ['sub']},
   requires=['total(self@) <= usize::MAX', 'self@.len() < usize::MAX'],
   ensures=[('C07.segmented_arange-len', 'r@.len() == total(self@)'),
            ('C07.segmented_arange', 'forall|i: int, j: int| 0 <= i < self@.len() && 0 <= j < self@[i] ==> r@[#[trigger] seg_at(self@, i, j)] == j')],
   proofs=[('start', 'assert(lawful_clone::<usize>());'),
           ('end', '''assert forall|m: int| 0 <= m < i@.len() implies i@[m] >= r@[m] by {
                let (a, b) = lemma_seg_find(self@, m);
                assert(r@[seg_at(self@, a, b)] == p@[a]);
            }
            assert forall|a: int, b: int| 0 <= a < self@.len() && 0 <= b < self@[a] implies 0 <= #[trigger] seg_at(self@, a, b) < i@.len() && i@[seg_at(self@, a, b)] - r@[seg_at(self@, a, b)] == b by {
                lemma_psum_mono(self@, a + 1, self@.len() as int); lemma_psum_mono(self@, 0, a);
                assert(r@[seg_at(self@, a, b)] == p@[a]);
            }''')])
endgroup()
