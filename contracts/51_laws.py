# Laws of C03 that follow from the contract of `compose` alone (lemmas over contracts, no code of /repo is extracted here):
# identities are left and right units of composition up to isomorphism.
module('laws')

raw(r'''
/// b is a with its nodes renamed by the bijection phi, hyperedges in the same order: an isomorphism of open hypergraphs
/// (node labels, edge labels, ordered source and target lists and both interfaces are preserved position by position)
pub open spec fn node_iso<O, A>(a: OpenHypergraph<O, A>, b: OpenHypergraph<O, A>, phi: Seq<usize>) -> bool {
    let n = a.h.w@.len() as int;
    &&& b.h.w@.len() == n && phi.len() == n && in_bounds(phi, n) && injective(phi)
    &&& forall|v: int| 0 <= v < n ==> b.h.w@[(#[trigger] phi[v]) as int] == a.h.w@[v]
    &&& b.h.x@ == a.h.x@
    &&& b.h.s.sources.table@ == a.h.s.sources.table@ && b.h.t.sources.table@ == a.h.t.sources.table@
    &&& b.h.s.values.table@.len() == a.h.s.values.table@.len()
    &&& forall|i: int| 0 <= i < a.h.s.values.table@.len() ==> (#[trigger] b.h.s.values.table@[i]) == phi[a.h.s.values.table@[i] as int]
    &&& b.h.t.values.table@.len() == a.h.t.values.table@.len()
    &&& forall|i: int| 0 <= i < a.h.t.values.table@.len() ==> (#[trigger] b.h.t.values.table@[i]) == phi[a.h.t.values.table@[i] as int]
    &&& b.s.table@.len() == a.s.table@.len() && forall|i: int| 0 <= i < a.s.table@.len() ==> (#[trigger] b.s.table@[i]) == phi[a.s.table@[i] as int]
    &&& b.t.table@.len() == a.t.table@.len() && forall|i: int| 0 <= i < a.t.table@.len() ==> (#[trigger] b.t.table@[i]) == phi[a.t.table@[i] as int]
}

/// r is the identity diagram on the type w (the postcondition of OpenHypergraph::identity, as one predicate)
pub open spec fn is_identity_on<O, A>(r: OpenHypergraph<O, A>, w: Seq<O>) -> bool {
    &&& r.wf() && r.h.w@ == w && r.h.x@.len() == 0 && r.h.s.sources.table@.len() == 0 && r.h.t.sources.table@.len() == 0
    &&& r.s.table@.len() == w.len() && r.t.table@.len() == w.len()
    &&& forall|i: int| 0 <= i < w.len() ==> r.s.table@[i] == i && r.t.table@[i] == i
}

/// r is the symmetry a ● b -> b ● a (the postcondition of OpenHypergraph::twist, as one predicate)
pub open spec fn is_twist<O, A>(r: OpenHypergraph<O, A>, a: Seq<O>, b: Seq<O>) -> bool {
    &&& r.wf() && r.h.x@.len() == 0 && r.h.s.sources.table@.len() == 0 && r.h.t.sources.table@.len() == 0
    &&& r.h.w@ == b + a && r.s.table@.len() == a.len() + b.len() && r.t.table@.len() == a.len() + b.len()
    &&& forall|i: int| 0 <= i < a.len() ==> r.s.table@[i] == b.len() + i
    &&& forall|i: int| a.len() <= i < a.len() + b.len() ==> r.s.table@[i] == i - a.len()
    &&& forall|i: int| 0 <= i < a.len() + b.len() ==> r.t.table@[i] == i
}

/// a diagram without hyperedges has empty incidence arrays
pub proof fn lemma_no_edges<O, A>(r: OpenHypergraph<O, A>)
    requires r.wf(), r.h.s.sources.table@.len() == 0, r.h.t.sources.table@.len() == 0
    ensures r.h.s.values.table@.len() == 0, r.h.t.values.table@.len() == 0
{
    lemma_psum_const(r.h.s.sources.table@, 0usize, 0); lemma_psum_const(r.h.t.sources.table@, 0usize, 0);
}

/// a representative of class c of q
pub open spec fn rep(q: Seq<usize>, n: int, c: int) -> int { choose|a: int| 0 <= a < n && #[trigger] q[a] == c }

/// A surjection h with the same kernel as a coequalizer q factors through q by a bijection:
/// phi[q[a]] == h[a], phi injective onto 0..m, and the two codomains have the same size.
pub proof fn lemma_factor_iso(q: Seq<usize>, k: int, s: Seq<usize>, t: Seq<usize>, n: int, h: Seq<usize>, m: int) -> (phi: Seq<usize>)
    requires is_coeq(q, k, s, t, n), s.len() == t.len(), 0 <= k, 0 <= m, n <= usize::MAX,
        forall|j: int| 0 <= j < s.len() ==> 0 <= #[trigger] s[j] < n && 0 <= t[j] < n,
        h.len() == n, in_bounds(h, m), forall|c: int| 0 <= c < m ==> #[trigger] hit(h, c, n),
        forall|j: int| 0 <= j < s.len() ==> h[#[trigger] s[j] as int] == h[t[j] as int],
        forall|a: int, b: int| 0 <= a < n && 0 <= b < n && #[trigger] h[a] == #[trigger] h[b] ==> q[a] == q[b],
    ensures phi.len() == k, in_bounds(phi, m), injective(phi), k == m,
        forall|a: int| 0 <= a < n ==> phi[(#[trigger] q[a]) as int] == h[a],
{
    let phi = Seq::new(k as nat, |c: int| h[rep(q, n, c)]);
    let r = |a: int, b: int| h[a] == h[b];
    assert(compat(r, s, t, n));
    assert forall|c: int| 0 <= c < k implies 0 <= rep(q, n, c) < n && q[rep(q, n, c)] == c by { assert(hit(q, c, n)); }
    assert forall|a: int| 0 <= a < n implies phi[(#[trigger] q[a]) as int] == h[a] by {
        let a2 = rep(q, n, q[a] as int);
        assert(r(a2, a));
    }
    assert forall|c1: int, c2: int| 0 <= c1 < k && 0 <= c2 < k && c1 != c2 implies phi[c1] != phi[c2] by {
        let a1 = rep(q, n, c1); let a2 = rep(q, n, c2);
        if h[a1] == h[a2] { assert(q[a1] == q[a2]); }
    }
    assert forall|c: int| 0 <= c < k implies (#[trigger] phi[c]) < m by { assert(h[rep(q, n, c)] < m); }
    lemma_injective_small(phi, m);
    // the other direction: class representatives of h inject into the classes of q
    let psi = Seq::new(m as nat, |c: int| q[choose|a: int| 0 <= a < n && #[trigger] h[a] == c]);
    assert forall|c: int| 0 <= c < m implies (#[trigger] psi[c]) < k by { assert(hit(h, c, n)); }
    assert forall|c1: int, c2: int| 0 <= c1 < m && 0 <= c2 < m && c1 != c2 implies psi[c1] != psi[c2] by {
        assert(hit(h, c1, n) && hit(h, c2, n));
        let a1 = choose|a: int| 0 <= a < n && #[trigger] h[a] == c1;
        let a2 = choose|a: int| 0 <= a < n && #[trigger] h[a] == c2;
        if q[a1] == q[a2] { assert(r(a1, a2)); }
    }
    lemma_injective_small(psi, k);
    phi
}

/// left unit: id_A ; f is isomorphic to f, for any result of `compose` on an identity diagram on the source type of f
pub proof fn lemma_compose_left_unit<O, A>(ia: OpenHypergraph<O, A>, f: OpenHypergraph<O, A>, r: OpenHypergraph<O, A>) -> (phi: Seq<usize>)
    requires f.wf(), is_pushout(ia, f, r), ia.h.w@.len() + f.h.w@.len() <= usize::MAX,
        is_identity_on(ia, f.src_type()),
    ensures node_iso(r, f, phi)
{
    lemma_no_edges(ia);
    assert(f.s.table@.len() == ia.h.w@.len());
    assert forall|i: int| 0 <= i < ia.h.w@.len() implies f.h.w@[f.s.table@[i] as int] == ia.h.w@[i] by { assert(f.src_type()[i] == ia.h.w@[i]); }
    let (q, k) = choose|q: Seq<usize>, k: int| is_coeq(q, k, glue_left(ia), glue_right(ia, f), (ia.h.w@.len() + f.h.w@.len()) as int) && #[trigger] is_quotient_of_jux(ia, f, r, q, k);
    let na = ia.h.w@.len() as int; let nf = f.h.w@.len() as int; let n = na + nf;
    let s = glue_left(ia); let t = glue_right(ia, f);
    let h = Seq::new(n as nat, |v: int| if v < na { f.s.table@[v] } else { (v - na) as usize });
    assert forall|c: int| 0 <= c < nf implies #[trigger] hit(h, c, n) by { assert(h[na + c] == c); }
    assert forall|j: int| 0 <= j < s.len() implies h[#[trigger] s[j] as int] == h[t[j] as int] && 0 <= s[j] < n && 0 <= t[j] < n by {
        assert(s[j] == j && t[j] == na + f.s.table@[j]);
    }
    assert forall|a: int, b: int| 0 <= a < n && 0 <= b < n && #[trigger] h[a] == #[trigger] h[b] implies q[a] == q[b] by {
        // every boundary node a < na is identified with its image na + f.s[a]
        if a < na { assert(s[a] == a && t[a] == na + f.s.table@[a]); assert(q[s[a] as int] == q[t[a] as int]); }
        if b < na { assert(s[b] == b && t[b] == na + f.s.table@[b]); assert(q[s[b] as int] == q[t[b] as int]); }
    }
    let phi = lemma_factor_iso(q, k, s, t, n, h, nf);
    assert forall|c: int| 0 <= c < k implies f.h.w@[(#[trigger] phi[c]) as int] == r.h.w@[c] by {
        assert(hit(q, c, n));
        let a = choose|a: int| 0 <= a < n && #[trigger] q[a] == c;
        assert(phi[q[a] as int] == h[a]);
        assert(r.h.w@[q[a] as int] == jux_label(ia, f, a));
    }
    assert(r.h.x@ =~= f.h.x@);
    assert(r.h.s.sources.table@ =~= f.h.s.sources.table@ && r.h.t.sources.table@ =~= f.h.t.sources.table@);
    assert forall|i: int| 0 <= i < r.h.s.values.table@.len() implies (#[trigger] f.h.s.values.table@[i]) == phi[r.h.s.values.table@[i] as int] by {
        assert(phi[q[na + f.h.s.values.table@[i]] as int] == h[na + f.h.s.values.table@[i]]);
    }
    assert forall|i: int| 0 <= i < r.h.t.values.table@.len() implies (#[trigger] f.h.t.values.table@[i]) == phi[r.h.t.values.table@[i] as int] by {
        assert(phi[q[na + f.h.t.values.table@[i]] as int] == h[na + f.h.t.values.table@[i]]);
    }
    assert forall|i: int| 0 <= i < r.s.table@.len() implies (#[trigger] f.s.table@[i]) == phi[r.s.table@[i] as int] by {
        assert(phi[q[i] as int] == h[i]);
    }
    assert forall|i: int| 0 <= i < r.t.table@.len() implies (#[trigger] f.t.table@[i]) == phi[r.t.table@[i] as int] by {
        assert(phi[q[na + f.t.table@[i]] as int] == h[na + f.t.table@[i]]);
    }
    phi
}

/// right unit: f ; id_B is isomorphic to f
pub proof fn lemma_compose_right_unit<O, A>(f: OpenHypergraph<O, A>, ib: OpenHypergraph<O, A>, r: OpenHypergraph<O, A>) -> (phi: Seq<usize>)
    requires f.wf(), is_pushout(f, ib, r), ib.h.w@.len() + f.h.w@.len() <= usize::MAX,
        is_identity_on(ib, f.tgt_type()),
    ensures node_iso(r, f, phi)
{
    lemma_no_edges(ib);
    assert(f.t.table@.len() == ib.h.w@.len());
    assert forall|i: int| 0 <= i < ib.h.w@.len() implies f.h.w@[f.t.table@[i] as int] == ib.h.w@[i] by { assert(f.tgt_type()[i] == ib.h.w@[i]); }
    let (q, k) = choose|q: Seq<usize>, k: int| is_coeq(q, k, glue_left(f), glue_right(f, ib), (f.h.w@.len() + ib.h.w@.len()) as int) && #[trigger] is_quotient_of_jux(f, ib, r, q, k);
    let nf = f.h.w@.len() as int; let nb = ib.h.w@.len() as int; let n = nf + nb;
    let s = glue_left(f); let t = glue_right(f, ib);
    let h = Seq::new(n as nat, |v: int| if v < nf { v as usize } else { f.t.table@[v - nf] });
    assert forall|c: int| 0 <= c < nf implies #[trigger] hit(h, c, n) by { assert(h[c] == c); }
    assert forall|j: int| 0 <= j < s.len() implies h[#[trigger] s[j] as int] == h[t[j] as int] && 0 <= s[j] < n && 0 <= t[j] < n by {
        assert(s[j] == f.t.table@[j] && t[j] == nf + j);
    }
    assert forall|a: int, b: int| 0 <= a < n && 0 <= b < n && #[trigger] h[a] == #[trigger] h[b] implies q[a] == q[b] by {
        if a >= nf { assert(s[a - nf] == f.t.table@[a - nf] && t[a - nf] == a); assert(q[s[a - nf] as int] == q[t[a - nf] as int]); }
        if b >= nf { assert(s[b - nf] == f.t.table@[b - nf] && t[b - nf] == b); assert(q[s[b - nf] as int] == q[t[b - nf] as int]); }
    }
    let phi = lemma_factor_iso(q, k, s, t, n, h, nf);
    assert forall|c: int| 0 <= c < k implies f.h.w@[(#[trigger] phi[c]) as int] == r.h.w@[c] by {
        assert(hit(q, c, n));
        let a = choose|a: int| 0 <= a < n && #[trigger] q[a] == c;
        assert(phi[q[a] as int] == h[a]);
        assert(r.h.w@[q[a] as int] == jux_label(f, ib, a));
    }
    assert(r.h.x@ =~= f.h.x@);
    assert(r.h.s.sources.table@ =~= f.h.s.sources.table@ && r.h.t.sources.table@ =~= f.h.t.sources.table@);
    assert forall|i: int| 0 <= i < r.h.s.values.table@.len() implies (#[trigger] f.h.s.values.table@[i]) == phi[r.h.s.values.table@[i] as int] by {
        assert(phi[q[f.h.s.values.table@[i] as int] as int] == h[f.h.s.values.table@[i] as int]);
    }
    assert forall|i: int| 0 <= i < r.h.t.values.table@.len() implies (#[trigger] f.h.t.values.table@[i]) == phi[r.h.t.values.table@[i] as int] by {
        assert(phi[q[f.h.t.values.table@[i] as int] as int] == h[f.h.t.values.table@[i] as int]);
    }
    assert forall|i: int| 0 <= i < r.s.table@.len() implies (#[trigger] f.s.table@[i]) == phi[r.s.table@[i] as int] by {
        assert(phi[q[f.s.table@[i] as int] as int] == h[f.s.table@[i] as int]);
    }
    assert forall|i: int| 0 <= i < r.t.table@.len() implies (#[trigger] f.t.table@[i]) == phi[r.t.table@[i] as int] by {
        assert(phi[q[nf + i] as int] == h[nf + i]);
    }
    phi
}

/// the symmetry is self-inverse: twist(a, b) ; twist(b, a) is isomorphic to the identity on a ++ b
/// (tab, tba, id are any diagrams satisfying the postconditions of `twist` and `identity`)
pub proof fn lemma_twist_self_inverse<O, A>(a: Seq<O>, b: Seq<O>, tab: OpenHypergraph<O, A>, tba: OpenHypergraph<O, A>, id: OpenHypergraph<O, A>, r: OpenHypergraph<O, A>) -> (phi: Seq<usize>)
    requires is_pushout(tab, tba, r), 2 * (a.len() + b.len()) <= usize::MAX,
        is_twist(tab, a, b), is_twist(tba, b, a), is_identity_on(id, a + b),
    ensures node_iso(r, id, phi)
{
    lemma_no_edges(tab); lemma_no_edges(tba); lemma_no_edges(id);
    let (q, k) = choose|q: Seq<usize>, k: int| is_coeq(q, k, glue_left(tab), glue_right(tab, tba), (tab.h.w@.len() + tba.h.w@.len()) as int) && #[trigger] is_quotient_of_jux(tab, tba, r, q, k);
    let na = a.len() as int; let nb = b.len() as int; let nn = na + nb; let n = 2 * nn;
    let s = glue_left(tab); let t = glue_right(tab, tba);
    let h = Seq::new(n as nat, |v: int| if v < nb { (na + v) as usize } else if v < nn { (v - nb) as usize } else { (v - nn) as usize });
    assert forall|c: int| 0 <= c < nn implies #[trigger] hit(h, c, n) by { assert(h[nn + c] == c); }
    assert forall|j: int| 0 <= j < s.len() implies h[#[trigger] s[j] as int] == h[t[j] as int] && 0 <= s[j] < n && 0 <= t[j] < n by {
        assert(s[j] == j && t[j] == nn + tba.s.table@[j]);
    }
    assert forall|x: int, y: int| 0 <= x < n && 0 <= y < n && #[trigger] h[x] == #[trigger] h[y] implies q[x] == q[y] by {
        if x < nn { assert(s[x] == x && t[x] == nn + tba.s.table@[x]); assert(q[s[x] as int] == q[t[x] as int]); }
        if y < nn { assert(s[y] == y && t[y] == nn + tba.s.table@[y]); assert(q[s[y] as int] == q[t[y] as int]); }
    }
    let phi = lemma_factor_iso(q, k, s, t, n, h, nn);
    assert forall|c: int| 0 <= c < k implies id.h.w@[(#[trigger] phi[c]) as int] == r.h.w@[c] by {
        assert(hit(q, c, n));
        let v = choose|v: int| 0 <= v < n && #[trigger] q[v] == c;
        assert(phi[q[v] as int] == h[v]);
        assert(r.h.w@[q[v] as int] == jux_label(tab, tba, v));
    }
    assert(r.h.x@ =~= id.h.x@);
    assert(r.h.s.sources.table@ =~= id.h.s.sources.table@ && r.h.t.sources.table@ =~= id.h.t.sources.table@);
    assert forall|i: int| 0 <= i < r.s.table@.len() implies (#[trigger] id.s.table@[i]) == phi[r.s.table@[i] as int] by {
        assert(phi[q[tab.s.table@[i] as int] as int] == h[tab.s.table@[i] as int]);
    }
    assert forall|i: int| 0 <= i < r.t.table@.len() implies (#[trigger] id.t.table@[i]) == phi[r.t.table@[i] as int] by {
        assert(phi[q[nn + i] as int] == h[nn + i]);
    }
    phi
}

/// C20 for composition: any two results allowed by the contract of `compose` (whatever numbering of connected components
/// the backend chooses) are isomorphic
pub proof fn lemma_compose_unique<O, A>(f: OpenHypergraph<O, A>, g: OpenHypergraph<O, A>, r1: OpenHypergraph<O, A>, r2: OpenHypergraph<O, A>) -> (phi: Seq<usize>)
    requires f.wf(), g.wf(), is_pushout(f, g, r1), is_pushout(f, g, r2), f.h.w@.len() + g.h.w@.len() <= usize::MAX, f.t.table@.len() == g.s.table@.len(),
    ensures node_iso(r1, r2, phi)
{
    let n = (f.h.w@.len() + g.h.w@.len()) as int; let nf = f.h.w@.len() as int;
    let s = glue_left(f); let t = glue_right(f, g);
    let (q1, k1) = choose|q: Seq<usize>, k: int| is_coeq(q, k, s, t, n) && #[trigger] is_quotient_of_jux(f, g, r1, q, k);
    let (q2, k2) = choose|q: Seq<usize>, k: int| is_coeq(q, k, s, t, n) && #[trigger] is_quotient_of_jux(f, g, r2, q, k);
    assert forall|j: int| 0 <= j < s.len() implies 0 <= #[trigger] s[j] < n && 0 <= t[j] < n by { assert(f.t.table@[j] < f.t.target); assert(g.s.table@[j] < g.s.target); }
    lemma_coeq_unique(q1, k1, q2, k2, s, t, n);
    if n == 0 && k1 > 0 { assert(hit(q1, 0, 0)); }
    if n == 0 && k2 > 0 { assert(hit(q2, 0, 0)); }
    let phi = lemma_factor_iso(q1, k1, s, t, n, q2, k2);
    assert forall|c: int| 0 <= c < k1 implies r2.h.w@[(#[trigger] phi[c]) as int] == r1.h.w@[c] by {
        assert(hit(q1, c, n));
        let a = choose|a: int| 0 <= a < n && #[trigger] q1[a] == c;
        assert(phi[q1[a] as int] == q2[a]);
        assert(r1.h.w@[q1[a] as int] == jux_label(f, g, a) && r2.h.w@[q2[a] as int] == jux_label(f, g, a));
    }
    assert(r1.h.x@ =~= r2.h.x@);
    assert forall|i: int| 0 <= i < r1.h.s.values.table@.len() implies (#[trigger] r2.h.s.values.table@[i]) == phi[r1.h.s.values.table@[i] as int] by {
        if i < f.h.s.values.table@.len() { assert(f.h.s.values.table@[i] < f.h.s.values.target); assert(phi[q1[f.h.s.values.table@[i] as int] as int] == q2[f.h.s.values.table@[i] as int]); }
        else { let v = g.h.s.values.table@[i - f.h.s.values.table@.len()]; assert(v < g.h.s.values.target); assert(phi[q1[nf + v] as int] == q2[nf + v]); }
    }
    assert forall|i: int| 0 <= i < r1.h.t.values.table@.len() implies (#[trigger] r2.h.t.values.table@[i]) == phi[r1.h.t.values.table@[i] as int] by {
        if i < f.h.t.values.table@.len() { assert(f.h.t.values.table@[i] < f.h.t.values.target); assert(phi[q1[f.h.t.values.table@[i] as int] as int] == q2[f.h.t.values.table@[i] as int]); }
        else { let v = g.h.t.values.table@[i - f.h.t.values.table@.len()]; assert(v < g.h.t.values.target); assert(phi[q1[nf + v] as int] == q2[nf + v]); }
    }
    assert forall|i: int| 0 <= i < r1.s.table@.len() implies (#[trigger] r2.s.table@[i]) == phi[r1.s.table@[i] as int] by {
        assert(f.s.table@[i] < f.s.target); assert(phi[q1[f.s.table@[i] as int] as int] == q2[f.s.table@[i] as int]);
    }
    assert forall|i: int| 0 <= i < r1.t.table@.len() implies (#[trigger] r2.t.table@[i]) == phi[r1.t.table@[i] as int] by {
        assert(g.t.table@[i] < g.t.target); assert(phi[q1[nf + g.t.table@[i]] as int] == q2[nf + g.t.table@[i]]);
    }
    phi
}

/// C20 for layering: the contract of `layer` determines its result (order and flags), whatever the backend does
pub proof fn lemma_layer_unique(t: IndexedCoproduct<FiniteFunction>, s: IndexedCoproduct<FiniteFunction>, n: int,
                                o1: Seq<usize>, u1: Seq<usize>, o2: Seq<usize>, u2: Seq<usize>)
    requires layer_ok(t, s, n, o1, u1), layer_ok(t, s, n, o2, u2), n <= usize::MAX
    ensures forall|y: int| #![trigger u1[y]] 0 <= y < n ==> u1[y] == u2[y] && (u1[y] == 0 ==> o1[y] == o2[y])
{
    assert forall|y: int| #![trigger u1[y]] 0 <= y < n implies u1[y] == u2[y] && (u1[y] == 0 ==> o1[y] == o2[y]) by {
        lemma_unvisited_iff_cycle(t, s, n, o1, u1, y);
        lemma_unvisited_iff_cycle(t, s, n, o2, u2, y);
        assert(u1[y] <= 1 && u2[y] <= 1);
        if u1[y] == 0 {
            let p1 = lemma_layer_chain(t, s, n, o1, u1, y);
            lemma_layer_upper(t, s, n, o2, u2, p1);
            let p2 = lemma_layer_chain(t, s, n, o2, u2, y);
            lemma_layer_upper(t, s, n, o1, u1, p2);
        }
    }
}

''')

raw(r'''
// ---------------------------------------------------------------------------------------------
// pasting of coequalizers (towards associativity of composition)
// ---------------------------------------------------------------------------------------------
/// the order in which the pairs are listed does not matter
pub proof fn lemma_coeq_pairs_swap(q: Seq<usize>, k: int, sa: Seq<usize>, ta: Seq<usize>, sb: Seq<usize>, tb: Seq<usize>, n: int)
    requires is_coeq(q, k, sa + sb, ta + tb, n), sa.len() == ta.len(), sb.len() == tb.len()
    ensures is_coeq(q, k, sb + sa, tb + ta, n)
{
    let s1 = sa + sb; let t1 = ta + tb; let s2 = sb + sa; let t2 = tb + ta;
    assert forall|j: int| 0 <= j < s2.len() implies q[#[trigger] s2[j] as int] == q[t2[j] as int] by {
        if j < sb.len() { assert(s1[sa.len() + j] == sb[j] && t1[sa.len() + j] == tb[j]); assert(q[s1[sa.len() + j] as int] == q[t1[sa.len() + j] as int]); }
        else { let j2 = j - sb.len(); assert(s1[j2] == sa[j2] && t1[j2] == ta[j2]); assert(q[s1[j2] as int] == q[t1[j2] as int]); }
    }
    assert forall|r: spec_fn(int, int) -> bool| #[trigger] compat(r, s2, t2, n) implies (forall|a: int, b: int| 0 <= a < n && 0 <= b < n && q[a] == q[b] ==> #[trigger] r(a, b)) by {
        assert(compat(r, s1, t1, n)) by {
            assert forall|j: int| 0 <= j < s1.len() implies #[trigger] r(s1[j] as int, t1[j] as int) by {
                if j < sa.len() { assert(s2[sb.len() + j] == sa[j] && t2[sb.len() + j] == ta[j]); assert(r(s2[sb.len() + j] as int, t2[sb.len() + j] as int)); }
                else { let j2 = j - sa.len(); assert(s2[j2] == sb[j2] && t2[j2] == tb[j2]); assert(r(s2[j2] as int, t2[j2] as int)); }
            }
        }
    }
}

/// two coequalizers in a row are one coequalizer: if q1 is a coequalizer of (s1, t1) on 0..n and q2 one of (s2, t2) on its
/// classes, and (s2l, t2l) are representatives of the second pairs, then q2 after q1 is a coequalizer of all pairs
pub proof fn lemma_coeq_paste(q1: Seq<usize>, k1: int, s1: Seq<usize>, t1: Seq<usize>, n: int,
                              q2: Seq<usize>, k2: int, s2: Seq<usize>, t2: Seq<usize>, s2l: Seq<usize>, t2l: Seq<usize>)
    requires is_coeq(q1, k1, s1, t1, n), is_coeq(q2, k2, s2, t2, k1), s1.len() == t1.len(), s2.len() == t2.len(), s2l.len() == s2.len(), t2l.len() == s2.len(),
        forall|j: int| 0 <= j < s1.len() ==> 0 <= #[trigger] s1[j] < n && 0 <= t1[j] < n,
        forall|j: int| 0 <= j < s2.len() ==> 0 <= #[trigger] s2l[j] < n && 0 <= t2l[j] < n && q1[s2l[j] as int] == s2[j] && q1[t2l[j] as int] == t2[j],
    ensures is_coeq(Seq::new(n as nat, |a: int| q2[q1[a] as int]), k2, s1 + s2l, t1 + t2l, n)
{
    let qq = Seq::new(n as nat, |a: int| q2[q1[a] as int]);
    let s = s1 + s2l; let t = t1 + t2l;
    assert forall|i: int| 0 <= i < n implies (#[trigger] qq[i]) < k2 by { assert(q1[i] < k1); assert(q2[q1[i] as int] < k2); }
    assert forall|c: int| 0 <= c < k2 implies #[trigger] hit(qq, c, n) by {
        assert(hit(q2, c, k1));
        let b = choose|b: int| 0 <= b < k1 && #[trigger] q2[b] == c;
        assert(hit(q1, b, n));
        let a = choose|a: int| 0 <= a < n && #[trigger] q1[a] == b;
        assert(qq[a] == c);
    }
    assert forall|j: int| 0 <= j < s.len() implies qq[#[trigger] s[j] as int] == qq[t[j] as int] by {
        if j < s1.len() { assert(s[j] == s1[j] && t[j] == t1[j]); assert(q1[s1[j] as int] == q1[t1[j] as int]); }
        else { let j2 = j - s1.len(); assert(s[j] == s2l[j2] && t[j] == t2l[j2]); assert(q2[s2[j2] as int] == q2[t2[j2] as int]); }
    }
    assert forall|r: spec_fn(int, int) -> bool| #[trigger] compat(r, s, t, n) implies (forall|a: int, b: int| 0 <= a < n && 0 <= b < n && qq[a] == qq[b] ==> #[trigger] r(a, b)) by {
        // (*) r contains the kernel of q1
        assert(compat(r, s1, t1, n)) by {
            assert forall|j: int| 0 <= j < s1.len() implies #[trigger] r(s1[j] as int, t1[j] as int) by { assert(s[j] == s1[j] && t[j] == t1[j]); assert(r(s[j] as int, t[j] as int)); }
        }
        assert forall|a: int, b: int| 0 <= a < n && 0 <= b < n && q1[a] == q1[b] implies #[trigger] r(a, b) by {}
        // r descends to the classes of q1
        let r1 = |c: int, d: int| r(rep(q1, n, c), rep(q1, n, d));
        assert forall|c: int| 0 <= c < k1 implies 0 <= #[trigger] rep(q1, n, c) < n && q1[rep(q1, n, c)] == c by { assert(hit(q1, c, n)); }
        assert(compat(r1, s2, t2, k1)) by {
            assert forall|c: int| 0 <= c < k1 implies #[trigger] r1(c, c) by { assert(r(rep(q1, n, c), rep(q1, n, c))); }
            assert forall|c: int, d: int| 0 <= c < k1 && 0 <= d < k1 && #[trigger] r1(c, d) implies r1(d, c) by { assert(r(rep(q1, n, c), rep(q1, n, d))); }
            assert forall|c: int, d: int, e: int| 0 <= c < k1 && 0 <= d < k1 && 0 <= e < k1 && #[trigger] r1(c, d) && #[trigger] r1(d, e) implies r1(c, e) by {
                assert(r(rep(q1, n, c), rep(q1, n, d)) && r(rep(q1, n, d), rep(q1, n, e)));
            }
            assert forall|j: int| 0 <= j < s2.len() implies #[trigger] r1(s2[j] as int, t2[j] as int) by {
                let a = s2l[j] as int; let b = t2l[j] as int;
                assert(s[s1.len() + j] == s2l[j] && t[s1.len() + j] == t2l[j]);
                assert(r(s[s1.len() + j] as int, t[s1.len() + j] as int));
                assert(s2[j] < k1 && t2[j] < k1) by { assert(q1[a] < k1 && q1[b] < k1); }
                let ra = rep(q1, n, s2[j] as int); let rb = rep(q1, n, t2[j] as int);
                assert(r(ra, a)); assert(r(a, b)); assert(r(b, rb));
                assert(r(ra, b));
            }
        }
        assert forall|a: int, b: int| 0 <= a < n && 0 <= b < n && qq[a] == qq[b] implies #[trigger] r(a, b) by {
            let c = q1[a] as int; let d = q1[b] as int;
            assert(c < k1 && d < k1);
            assert(q2[c] == q2[d]);
            assert(r1(c, d));
            assert(r(a, rep(q1, n, c))); assert(r(rep(q1, n, d), b));
            assert(r(rep(q1, n, c), rep(q1, n, d)));
            assert(r(a, rep(q1, n, d)));
        }
    }
}
''')

raw(r'''
/// q followed by the identity on e extra nodes
pub open spec fn ext_right(q: Seq<usize>, k: int, e: int) -> Seq<usize> {
    Seq::new((q.len() + e) as nat, |a: int| if a < q.len() { q[a] } else { (k + (a - q.len())) as usize })
}
/// the identity on e extra nodes followed by q (shifted)
pub open spec fn ext_left(q: Seq<usize>, e: int) -> Seq<usize> {
    Seq::new((e + q.len()) as nat, |a: int| if a < e { a as usize } else { (e + q[a - e]) as usize })
}
pub open spec fn shifted(s: Seq<usize>, e: int) -> Seq<usize> { Seq::new(s.len(), |j: int| (e + s[j]) as usize) }

pub proof fn lemma_coeq_ext_right(q: Seq<usize>, k: int, s: Seq<usize>, t: Seq<usize>, n: int, e: int)
    requires is_coeq(q, k, s, t, n), s.len() == t.len(), 0 <= e, 0 <= k, k + e <= usize::MAX,
        forall|j: int| 0 <= j < s.len() ==> 0 <= #[trigger] s[j] < n && 0 <= t[j] < n,
    ensures is_coeq(ext_right(q, k, e), k + e, s, t, n + e)
{
    let qe = ext_right(q, k, e);
    assert forall|c: int| 0 <= c < k + e implies #[trigger] hit(qe, c, n + e) by {
        if c < k { assert(hit(q, c, n)); let a = choose|a: int| 0 <= a < n && #[trigger] q[a] == c; assert(qe[a] == c); }
        else { assert(qe[n + (c - k)] == c); }
    }
    assert forall|j: int| 0 <= j < s.len() implies qe[#[trigger] s[j] as int] == qe[t[j] as int] by { assert(q[s[j] as int] == q[t[j] as int]); }
    assert forall|r: spec_fn(int, int) -> bool| #[trigger] compat(r, s, t, n + e) implies (forall|a: int, b: int| 0 <= a < n + e && 0 <= b < n + e && qe[a] == qe[b] ==> #[trigger] r(a, b)) by {
        assert(compat(r, s, t, n));
        assert forall|a: int, b: int| 0 <= a < n + e && 0 <= b < n + e && qe[a] == qe[b] implies #[trigger] r(a, b) by {
            if a < n && b < n { assert(q[a] == q[b]); }
            else if a >= n && b >= n { assert(a == b); }
            else if a < n { assert(q[a] < k); }
            else { assert(q[b] < k); }
        }
    }
}

pub proof fn lemma_coeq_ext_left(q: Seq<usize>, k: int, s: Seq<usize>, t: Seq<usize>, n: int, e: int)
    requires is_coeq(q, k, s, t, n), s.len() == t.len(), 0 <= e, 0 <= k, e + k <= usize::MAX, e + n <= usize::MAX,
        forall|j: int| 0 <= j < s.len() ==> 0 <= #[trigger] s[j] < n && 0 <= t[j] < n,
    ensures is_coeq(ext_left(q, e), e + k, shifted(s, e), shifted(t, e), e + n)
{
    let qe = ext_left(q, e); let se = shifted(s, e); let te = shifted(t, e);
    assert forall|i: int| 0 <= i < e + n implies (#[trigger] qe[i]) < e + k by { if i >= e { assert(q[i - e] < k); } }
    assert forall|c: int| 0 <= c < e + k implies #[trigger] hit(qe, c, e + n) by {
        if c < e { assert(qe[c] == c); }
        else { assert(hit(q, c - e, n)); let a = choose|a: int| 0 <= a < n && #[trigger] q[a] == c - e; assert(qe[e + a] == c); }
    }
    assert forall|j: int| 0 <= j < se.len() implies qe[#[trigger] se[j] as int] == qe[te[j] as int] by { assert(q[s[j] as int] == q[t[j] as int]); }
    assert forall|r: spec_fn(int, int) -> bool| #[trigger] compat(r, se, te, e + n) implies (forall|a: int, b: int| 0 <= a < e + n && 0 <= b < e + n && qe[a] == qe[b] ==> #[trigger] r(a, b)) by {
        let r0 = |a: int, b: int| r(e + a, e + b);
        assert(compat(r0, s, t, n)) by {
            assert forall|a: int| 0 <= a < n implies #[trigger] r0(a, a) by { assert(r(e + a, e + a)); }
            assert forall|a: int, b: int| 0 <= a < n && 0 <= b < n && #[trigger] r0(a, b) implies r0(b, a) by { assert(r(e + a, e + b)); }
            assert forall|a: int, b: int, c: int| 0 <= a < n && 0 <= b < n && 0 <= c < n && #[trigger] r0(a, b) && #[trigger] r0(b, c) implies r0(a, c) by { assert(r(e + a, e + b) && r(e + b, e + c)); }
            assert forall|j: int| 0 <= j < s.len() implies #[trigger] r0(s[j] as int, t[j] as int) by { assert(r(se[j] as int, te[j] as int)); }
        }
        assert forall|a: int, b: int| 0 <= a < e + n && 0 <= b < e + n && qe[a] == qe[b] implies #[trigger] r(a, b) by {
            if a >= e && b >= e { assert(q[a - e] == q[b - e]); assert(r0(a - e, b - e)); }
            else if a < e && b < e { assert(a == b); }
            else if a < e { assert(q[b - e] < k); }
            else { assert(q[a - e] < k); }
        }
    }
}
''')

raw(r'''
/// label of node a of the juxtaposition f + g + h
pub open spec fn label3<O, A>(f: OpenHypergraph<O, A>, g: OpenHypergraph<O, A>, h: OpenHypergraph<O, A>, a: int) -> O {
    if a < f.h.w@.len() { f.h.w@[a] } else if a < f.h.w@.len() + g.h.w@.len() { g.h.w@[a - f.h.w@.len()] } else { h.h.w@[a - f.h.w@.len() - g.h.w@.len()] }
}

/// Associativity of composition up to isomorphism: for ANY results r1 = f;g, r = r1;h, r2 = g;h, rp = f;r2 allowed by the
/// contract of `compose`, r and rp are isomorphic (both are the quotient of f + g + h by the two families of boundary pairs)
pub proof fn lemma_compose_assoc<O, A>(f: OpenHypergraph<O, A>, g: OpenHypergraph<O, A>, h: OpenHypergraph<O, A>,
                                       r1: OpenHypergraph<O, A>, r: OpenHypergraph<O, A>, r2: OpenHypergraph<O, A>, rp: OpenHypergraph<O, A>) -> (phi: Seq<usize>)
    requires f.wf(), g.wf(), h.wf(), is_pushout(f, g, r1), is_pushout(r1, h, r), is_pushout(g, h, r2), is_pushout(f, r2, rp),
        f.t.table@.len() == g.s.table@.len(), g.t.table@.len() == h.s.table@.len(),
        f.h.w@.len() + g.h.w@.len() + h.h.w@.len() <= usize::MAX,
    ensures node_iso(r, rp, phi)
{
    let nf = f.h.w@.len() as int; let ng = g.h.w@.len() as int; let nh = h.h.w@.len() as int; let nn = nf + ng + nh;
    let (q1, k1) = choose|q: Seq<usize>, k: int| is_coeq(q, k, glue_left(f), glue_right(f, g), nf + ng) && #[trigger] is_quotient_of_jux(f, g, r1, q, k);
    let (q, k) = choose|q: Seq<usize>, k: int| is_coeq(q, k, glue_left(r1), glue_right(r1, h), (r1.h.w@.len() + nh) as int) && #[trigger] is_quotient_of_jux(r1, h, r, q, k);
    let (q2, k2) = choose|q: Seq<usize>, k: int| is_coeq(q, k, glue_left(g), glue_right(g, h), ng + nh) && #[trigger] is_quotient_of_jux(g, h, r2, q, k);
    let (qp, kp) = choose|q: Seq<usize>, k: int| is_coeq(q, k, glue_left(f), glue_right(f, r2), (nf + r2.h.w@.len()) as int) && #[trigger] is_quotient_of_jux(f, r2, rp, q, k);
    assert(r1.h.w@.len() == k1 && r2.h.w@.len() == k2 && r.h.w@.len() == k && rp.h.w@.len() == kp);
    if nf + ng == 0 && k1 > 0 { assert(hit(q1, 0, 0)); }
    if ng + nh == 0 && k2 > 0 { assert(hit(q2, 0, 0)); }
    assert(k1 <= nf + ng) by { if k1 > nf + ng { lemma_surjection_small(q1, k1, nf + ng); } }
    assert(k2 <= ng + nh) by { if k2 > ng + nh { lemma_surjection_small(q2, k2, ng + nh); } }
    // the two families of pairs on f + g + h
    let s1 = glue_left(f); let t1 = glue_right(f, g);
    let s2l = Seq::new(g.t.table@.len(), |j: int| (nf + g.t.table@[j]) as usize);
    let t2l = Seq::new(h.s.table@.len(), |j: int| (nf + ng + h.s.table@[j]) as usize);
    assert forall|j: int| 0 <= j < s1.len() implies 0 <= #[trigger] s1[j] < nf + ng && 0 <= t1[j] < nf + ng by { assert(f.t.table@[j] < f.t.target && g.s.table@[j] < g.s.target); }
    assert forall|j: int| 0 <= j < s2l.len() implies 0 <= #[trigger] s2l[j] < nn && 0 <= t2l[j] < nn by { assert(g.t.table@[j] < g.t.target && h.s.table@[j] < h.s.target); }
    // left bracketing: q after (q1 + id)
    lemma_coeq_ext_right(q1, k1, s1, t1, nf + ng, nh);
    let q1e = ext_right(q1, k1, nh);
    let s2 = glue_left(r1); let t2 = glue_right(r1, h);
    assert forall|j: int| 0 <= j < s2.len() implies q1e[s2l[j] as int] == s2[j] && q1e[t2l[j] as int] == t2[j] by {
        assert(g.t.table@[j] < g.t.target && h.s.table@[j] < h.s.target);
        assert(r1.t.table@[j] == q1[nf + g.t.table@[j]]);
    }
    lemma_coeq_paste(q1e, k1 + nh, s1, t1, nn, q, k, s2, t2, s2l, t2l);
    let ql = Seq::new(nn as nat, |a: int| q[q1e[a] as int]);
    // right bracketing: qp after (id + q2)
    assert forall|j: int| 0 <= j < glue_left(g).len() implies 0 <= #[trigger] glue_left(g)[j] < ng + nh && 0 <= glue_right(g, h)[j] < ng + nh by {
        assert(g.t.table@[j] < g.t.target && h.s.table@[j] < h.s.target);
    }
    lemma_coeq_ext_left(q2, k2, glue_left(g), glue_right(g, h), ng + nh, nf);
    let q2e = ext_left(q2, nf);
    assert(shifted(glue_left(g), nf) =~= s2l && shifted(glue_right(g, h), nf) =~= t2l);
    let sb = glue_left(f); let tb = glue_right(f, r2);
    assert forall|j: int| 0 <= j < sb.len() implies q2e[s1[j] as int] == sb[j] && q2e[t1[j] as int] == tb[j] by {
        assert(f.t.table@[j] < f.t.target && g.s.table@[j] < g.s.target);
        assert(r2.s.table@[j] == q2[g.s.table@[j] as int]);
    }
    lemma_coeq_paste(q2e, nf + k2, s2l, t2l, nn, qp, kp, sb, tb, s1, t1);
    let qr = Seq::new(nn as nat, |a: int| qp[q2e[a] as int]);
    lemma_coeq_pairs_swap(qr, kp, s2l, t2l, s1, t1, nn);
    // both are coequalizers of the same pairs: the codomains are in bijection
    let ss = s1 + s2l; let tt = t1 + t2l;
    assert forall|j: int| 0 <= j < ss.len() implies 0 <= #[trigger] ss[j] < nn && 0 <= tt[j] < nn by {
        if j < s1.len() { assert(ss[j] == s1[j] && tt[j] == t1[j]); } else { assert(ss[j] == s2l[j - s1.len()] && tt[j] == t2l[j - s1.len()]); }
    }
    lemma_coeq_unique(ql, k, qr, kp, ss, tt, nn);
    if nn == 0 && k > 0 { assert(hit(ql, 0, 0)); }
    if nn == 0 && kp > 0 { assert(hit(qr, 0, 0)); }
    let phi = lemma_factor_iso(ql, k, ss, tt, nn, qr, kp);
    // what ql and qr are on the three parts
    assert forall|a: int| 0 <= a < nf + ng implies (#[trigger] ql[a]) == q[q1[a] as int] by {}
    assert forall|a: int| 0 <= a < nh implies (#[trigger] ql[nf + ng + a]) == q[k1 + a] by {}
    assert forall|a: int| 0 <= a < nf implies (#[trigger] qr[a]) == qp[a] by {}
    assert forall|a: int| 0 <= a < ng + nh implies (#[trigger] qr[nf + a]) == qp[nf + q2[a]] by {}
    assert forall|a: int| 0 <= a < nn implies r.h.w@[(#[trigger] ql[a]) as int] == label3(f, g, h, a) && rp.h.w@[qr[a] as int] == label3(f, g, h, a) by {
        if a < nf + ng {
            assert(q1[a] < k1);
            assert(r.h.w@[q[q1[a] as int] as int] == jux_label(r1, h, q1[a] as int));
            assert(r1.h.w@[q1[a] as int] == jux_label(f, g, a));
        } else {
            assert(r.h.w@[q[k1 + (a - nf - ng)] as int] == jux_label(r1, h, k1 + (a - nf - ng)));
        }
        if a < nf {
            assert(rp.h.w@[qp[a] as int] == jux_label(f, r2, a));
        } else {
            assert(q2[a - nf] < k2);
            assert(rp.h.w@[qp[nf + q2[a - nf]] as int] == jux_label(f, r2, nf + q2[a - nf]));
            assert(r2.h.w@[q2[a - nf] as int] == jux_label(g, h, a - nf));
        }
    }
    assert forall|c: int| 0 <= c < k implies rp.h.w@[(#[trigger] phi[c]) as int] == r.h.w@[c] by {
        assert(hit(ql, c, nn));
        let a = choose|a: int| 0 <= a < nn && #[trigger] ql[a] == c;
        assert(phi[ql[a] as int] == qr[a]);
    }
    assert(r.h.x@ =~= rp.h.x@);
    assert(r.h.s.sources.table@ =~= rp.h.s.sources.table@ && r.h.t.sources.table@ =~= rp.h.t.sources.table@);
    let lf = f.h.s.values.table@.len() as int; let lg = g.h.s.values.table@.len() as int; let lh = h.h.s.values.table@.len() as int;
    assert forall|i: int| 0 <= i < r.h.s.values.table@.len() implies (#[trigger] rp.h.s.values.table@[i]) == phi[r.h.s.values.table@[i] as int] by {
        if i < lf {
            let v = f.h.s.values.table@[i] as int; assert(v < f.h.s.values.target);
            assert(r1.h.s.values.table@[i] == q1[v]); assert(r.h.s.values.table@[i] == q[r1.h.s.values.table@[i] as int]);
            assert(phi[ql[v] as int] == qr[v]);
        } else if i < lf + lg {
            let v = g.h.s.values.table@[i - lf] as int; assert(v < g.h.s.values.target);
            assert(r1.h.s.values.table@[i] == q1[nf + v]); assert(r.h.s.values.table@[i] == q[r1.h.s.values.table@[i] as int]);
            assert(r2.h.s.values.table@[i - lf] == q2[v]);
            assert(phi[ql[nf + v] as int] == qr[nf + v]);
        } else {
            let v = h.h.s.values.table@[i - lf - lg] as int; assert(v < h.h.s.values.target);
            assert(r.h.s.values.table@[i] == q[k1 + v]);
            assert(r2.h.s.values.table@[i - lf] == q2[ng + v]);
            assert(phi[ql[nf + ng + v] as int] == qr[nf + ng + v]);
        }
    }
    let mf = f.h.t.values.table@.len() as int; let mg = g.h.t.values.table@.len() as int;
    assert forall|i: int| 0 <= i < r.h.t.values.table@.len() implies (#[trigger] rp.h.t.values.table@[i]) == phi[r.h.t.values.table@[i] as int] by {
        if i < mf {
            let v = f.h.t.values.table@[i] as int; assert(v < f.h.t.values.target);
            assert(r1.h.t.values.table@[i] == q1[v]); assert(r.h.t.values.table@[i] == q[r1.h.t.values.table@[i] as int]);
            assert(phi[ql[v] as int] == qr[v]);
        } else if i < mf + mg {
            let v = g.h.t.values.table@[i - mf] as int; assert(v < g.h.t.values.target);
            assert(r1.h.t.values.table@[i] == q1[nf + v]); assert(r.h.t.values.table@[i] == q[r1.h.t.values.table@[i] as int]);
            assert(r2.h.t.values.table@[i - mf] == q2[v]);
            assert(phi[ql[nf + v] as int] == qr[nf + v]);
        } else {
            let v = h.h.t.values.table@[i - mf - mg] as int; assert(v < h.h.t.values.target);
            assert(r.h.t.values.table@[i] == q[k1 + v]);
            assert(r2.h.t.values.table@[i - mf] == q2[ng + v]);
            assert(phi[ql[nf + ng + v] as int] == qr[nf + ng + v]);
        }
    }
    assert forall|i: int| 0 <= i < r.s.table@.len() implies (#[trigger] rp.s.table@[i]) == phi[r.s.table@[i] as int] by {
        let v = f.s.table@[i] as int; assert(v < f.s.target);
        assert(r1.s.table@[i] == q1[v]); assert(r.s.table@[i] == q[r1.s.table@[i] as int]);
        assert(phi[ql[v] as int] == qr[v]);
    }
    assert forall|i: int| 0 <= i < r.t.table@.len() implies (#[trigger] rp.t.table@[i]) == phi[r.t.table@[i] as int] by {
        let v = h.t.table@[i] as int; assert(v < h.t.target);
        assert(r.t.table@[i] == q[k1 + v]);
        assert(r2.t.table@[i] == q2[ng + v]);
        assert(phi[ql[nf + ng + v] as int] == qr[nf + ng + v]);
    }
    phi
}

/// a map onto 0..k from 0..n needs k <= n
pub proof fn lemma_surjection_small(q: Seq<usize>, k: int, n: int)
    requires q.len() == n, forall|c: int| 0 <= c < k ==> #[trigger] hit(q, c, n), k > n, n >= 0, n <= usize::MAX
    ensures false
{
    // choose a preimage for each of the classes 0..n: an injection of n + 1 values into 0..n
    let pre = Seq::new((n + 1) as nat, |c: int| (choose|a: int| 0 <= a < n && #[trigger] q[a] == c) as usize);
    assert forall|c: int| 0 <= c < n + 1 implies (#[trigger] pre[c]) < n && q[pre[c] as int] == c by { assert(hit(q, c, n)); }
    assert(injective(pre)) by {
        assert forall|c1: int, c2: int| 0 <= c1 < n + 1 && 0 <= c2 < n + 1 && c1 != c2 implies pre[c1] != pre[c2] by { assert(q[pre[c1] as int] == c1 && q[pre[c2] as int] == c2); }
    }
    lemma_injective_small(pre, n);
}
''')
