# Laws of C03 that follow from the contract of `compose` alone (lemmas over contracts, no code of /repo is extracted here):
# identities are left and right units of composition up to isomorphism.
module('laws')

raw(r'''
/// b is a with its nodes renamed by the bijection phi, hyperedges in the same order: an isomorphism of open hypergraphs
/// (node labels, edge labels, ordered source and target lists and both interfaces are preserved position by position)
pub open spec fn node_iso<O, A>(a: OpenHypergraph<O, A>, b: OpenHypergraph<O, A>, phi: Seq<usize>) -> bool {
    let n = a.h.w@.len() as int;
    &&& b.h.w@.len() == n && phi.len() == n && in_bounds(phi, n) && injective(phi)
    &&& forall|v: int| 0 <= v < n ==> b.h.w@[(#[trigger] phi[v]) as int] == a.h.w@[v]
    &&& b.h.x@ == a.h.x@
    &&& b.h.s.sources.table@ == a.h.s.sources.table@ && b.h.t.sources.table@ == a.h.t.sources.table@
    &&& b.h.s.values.table@.len() == a.h.s.values.table@.len()
    &&& forall|i: int| 0 <= i < a.h.s.values.table@.len() ==> (#[trigger] b.h.s.values.table@[i]) == phi[a.h.s.values.table@[i] as int]
    &&& b.h.t.values.table@.len() == a.h.t.values.table@.len()
    &&& forall|i: int| 0 <= i < a.h.t.values.table@.len() ==> (#[trigger] b.h.t.values.table@[i]) == phi[a.h.t.values.table@[i] as int]
    &&& b.s.table@.len() == a.s.table@.len() && forall|i: int| 0 <= i < a.s.table@.len() ==> (#[trigger] b.s.table@[i]) == phi[a.s.table@[i] as int]
    &&& b.t.table@.len() == a.t.table@.len() && forall|i: int| 0 <= i < a.t.table@.len() ==> (#[trigger] b.t.table@[i]) == phi[a.t.table@[i] as int]
}

/// r is the identity diagram on the type w (the postcondition of OpenHypergraph::identity, as one predicate)
pub open spec fn is_identity_on<O, A>(r: OpenHypergraph<O, A>, w: Seq<O>) -> bool {
    &&& r.wf() && r.h.w@ == w && r.h.x@.len() == 0 && r.h.s.sources.table@.len() == 0 && r.h.t.sources.table@.len() == 0
    &&& r.s.table@.len() == w.len() && r.t.table@.len() == w.len()
    &&& forall|i: int| 0 <= i < w.len() ==> r.s.table@[i] == i && r.t.table@[i] == i
}

/// r is the symmetry a ● b -> b ● a (the postcondition of OpenHypergraph::twist, as one predicate)
pub open spec fn is_twist<O, A>(r: OpenHypergraph<O, A>, a: Seq<O>, b: Seq<O>) -> bool {
    &&& r.wf() && r.h.x@.len() == 0 && r.h.s.sources.table@.len() == 0 && r.h.t.sources.table@.len() == 0
    &&& r.h.w@ == b + a && r.s.table@.len() == a.len() + b.len() && r.t.table@.len() == a.len() + b.len()
    &&& forall|i: int| 0 <= i < a.len() ==> r.s.table@[i] == b.len() + i
    &&& forall|i: int| a.len() <= i < a.len() + b.len() ==> r.s.table@[i] == i - a.len()
    &&& forall|i: int| 0 <= i < a.len() + b.len() ==> r.t.table@[i] == i
}

/// a diagram without hyperedges has empty incidence arrays
pub proof fn lemma_no_edges<O, A>(r: OpenHypergraph<O, A>)
    requires r.wf(), r.h.s.sources.table@.len() == 0, r.h.t.sources.table@.len() == 0
    ensures r.h.s.values.table@.len() == 0, r.h.t.values.table@.len() == 0
{
    lemma_psum_const(r.h.s.sources.table@, 0usize, 0); lemma_psum_const(r.h.t.sources.table@, 0usize, 0);
}

/// a representative of class c of q
pub open spec fn rep(q: Seq<usize>, n: int, c: int) -> int { choose|a: int| 0 <= a < n && #[trigger] q[a] == c }

/// A surjection h with the same kernel as a coequalizer q factors through q by a bijection:
/// phi[q[a]] == h[a], phi injective onto 0..m, and the two codomains have the same size.
pub proof fn lemma_factor_iso(q: Seq<usize>, k: int, s: Seq<usize>, t: Seq<usize>, n: int, h: Seq<usize>, m: int) -> (phi: Seq<usize>)
    requires is_coeq(q, k, s, t, n), s.len() == t.len(), 0 <= k, 0 <= m, n <= usize::MAX,
        forall|j: int| 0 <= j < s.len() ==> 0 <= #[trigger] s[j] < n && 0 <= t[j] < n,
        h.len() == n, in_bounds(h, m), forall|c: int| 0 <= c < m ==> #[trigger] hit(h, c, n),
        forall|j: int| 0 <= j < s.len() ==> h[#[trigger] s[j] as int] == h[t[j] as int],
        forall|a: int, b: int| 0 <= a < n && 0 <= b < n && #[trigger] h[a] == #[trigger] h[b] ==> q[a] == q[b],
    ensures phi.len() == k, in_bounds(phi, m), injective(phi), k == m,
        forall|a: int| 0 <= a < n ==> phi[(#[trigger] q[a]) as int] == h[a],
{
    let phi = Seq::new(k as nat, |c: int| h[rep(q, n, c)]);
    let r = |a: int, b: int| h[a] == h[b];
    assert(compat(r, s, t, n));
    assert forall|c: int| 0 <= c < k implies 0 <= rep(q, n, c) < n && q[rep(q, n, c)] == c by { assert(hit(q, c, n)); }
    assert forall|a: int| 0 <= a < n implies phi[(#[trigger] q[a]) as int] == h[a] by {
        let a2 = rep(q, n, q[a] as int);
        assert(r(a2, a));
    }
    assert forall|c1: int, c2: int| 0 <= c1 < k && 0 <= c2 < k && c1 != c2 implies phi[c1] != phi[c2] by {
        let a1 = rep(q, n, c1); let a2 = rep(q, n, c2);
        if h[a1] == h[a2] { assert(q[a1] == q[a2]); }
    }
    assert forall|c: int| 0 <= c < k implies (#[trigger] phi[c]) < m by { assert(h[rep(q, n, c)] < m); }
    lemma_injective_small(phi, m);
    // the other direction: class representatives of h inject into the classes of q
    let psi = Seq::new(m as nat, |c: int| q[choose|a: int| 0 <= a < n && #[trigger] h[a] == c]);
    assert forall|c: int| 0 <= c < m implies (#[trigger] psi[c]) < k by { assert(hit(h, c, n)); }
    assert forall|c1: int, c2: int| 0 <= c1 < m && 0 <= c2 < m && c1 != c2 implies psi[c1] != psi[c2] by {
        assert(hit(h, c1, n) && hit(h, c2, n));
        let a1 = choose|a: int| 0 <= a < n && #[trigger] h[a] == c1;
        let a2 = choose|a: int| 0 <= a < n && #[trigger] h[a] == c2;
        if q[a1] == q[a2] { assert(r(a1, a2)); }
    }
    lemma_injective_small(psi, k);
    phi
}

/// left unit: id_A ; f is isomorphic to f, for any result of `compose` on an identity diagram on the source type of f
pub proof fn lemma_compose_left_unit<O, A>(ia: OpenHypergraph<O, A>, f: OpenHypergraph<O, A>, r: OpenHypergraph<O, A>) -> (phi: Seq<usize>)
    requires f.wf(), is_pushout(ia, f, r), ia.h.w@.len() + f.h.w@.len() <= usize::MAX,
        is_identity_on(ia, f.src_type()),
    ensures node_iso(r, f, phi)
{
    lemma_no_edges(ia);
    assert(f.s.table@.len() == ia.h.w@.len());
    assert forall|i: int| 0 <= i < ia.h.w@.len() implies f.h.w@[f.s.table@[i] as int] == ia.h.w@[i] by { assert(f.src_type()[i] == ia.h.w@[i]); }
    let (q, k) = choose|q: Seq<usize>, k: int| is_coeq(q, k, glue_left(ia), glue_right(ia, f), (ia.h.w@.len() + f.h.w@.len()) as int) && #[trigger] is_quotient_of_jux(ia, f, r, q, k);
    let na = ia.h.w@.len() as int; let nf = f.h.w@.len() as int; let n = na + nf;
    let s = glue_left(ia); let t = glue_right(ia, f);
    let h = Seq::new(n as nat, |v: int| if v < na { f.s.table@[v] } else { (v - na) as usize });
    assert forall|c: int| 0 <= c < nf implies #[trigger] hit(h, c, n) by { assert(h[na + c] == c); }
    assert forall|j: int| 0 <= j < s.len() implies h[#[trigger] s[j] as int] == h[t[j] as int] && 0 <= s[j] < n && 0 <= t[j] < n by {
        assert(s[j] == j && t[j] == na + f.s.table@[j]);
    }
    assert forall|a: int, b: int| 0 <= a < n && 0 <= b < n && #[trigger] h[a] == #[trigger] h[b] implies q[a] == q[b] by {
        // every boundary node a < na is identified with its image na + f.s[a]
        if a < na { assert(s[a] == a && t[a] == na + f.s.table@[a]); assert(q[s[a] as int] == q[t[a] as int]); }
        if b < na { assert(s[b] == b && t[b] == na + f.s.table@[b]); assert(q[s[b] as int] == q[t[b] as int]); }
    }
    let phi = lemma_factor_iso(q, k, s, t, n, h, nf);
    assert forall|c: int| 0 <= c < k implies f.h.w@[(#[trigger] phi[c]) as int] == r.h.w@[c] by {
        assert(hit(q, c, n));
        let a = choose|a: int| 0 <= a < n && #[trigger] q[a] == c;
        assert(phi[q[a] as int] == h[a]);
        assert(r.h.w@[q[a] as int] == jux_label(ia, f, a));
    }
    assert(r.h.x@ =~= f.h.x@);
    assert(r.h.s.sources.table@ =~= f.h.s.sources.table@ && r.h.t.sources.table@ =~= f.h.t.sources.table@);
    assert forall|i: int| 0 <= i < r.h.s.values.table@.len() implies (#[trigger] f.h.s.values.table@[i]) == phi[r.h.s.values.table@[i] as int] by {
        assert(phi[q[na + f.h.s.values.table@[i]] as int] == h[na + f.h.s.values.table@[i]]);
    }
    assert forall|i: int| 0 <= i < r.h.t.values.table@.len() implies (#[trigger] f.h.t.values.table@[i]) == phi[r.h.t.values.table@[i] as int] by {
        assert(phi[q[na + f.h.t.values.table@[i]] as int] == h[na + f.h.t.values.table@[i]]);
    }
    assert forall|i: int| 0 <= i < r.s.table@.len() implies (#[trigger] f.s.table@[i]) == phi[r.s.table@[i] as int] by {
        assert(phi[q[i] as int] == h[i]);
    }
    assert forall|i: int| 0 <= i < r.t.table@.len() implies (#[trigger] f.t.table@[i]) == phi[r.t.table@[i] as int] by {
        assert(phi[q[na + f.t.table@[i]] as int] == h[na + f.t.table@[i]]);
    }
    phi
}

/// right unit: f ; id_B is isomorphic to f
pub proof fn lemma_compose_right_unit<O, A>(f: OpenHypergraph<O, A>, ib: OpenHypergraph<O, A>, r: OpenHypergraph<O, A>) -> (phi: Seq<usize>)
    requires f.wf(), is_pushout(f, ib, r), ib.h.w@.len() + f.h.w@.len() <= usize::MAX,
        is_identity_on(ib, f.tgt_type()),
    ensures node_iso(r, f, phi)
{
    lemma_no_edges(ib);
    assert(f.t.table@.len() == ib.h.w@.len());
    assert forall|i: int| 0 <= i < ib.h.w@.len() implies f.h.w@[f.t.table@[i] as int] == ib.h.w@[i] by { assert(f.tgt_type()[i] == ib.h.w@[i]); }
    let (q, k) = choose|q: Seq<usize>, k: int| is_coeq(q, k, glue_left(f), glue_right(f, ib), (f.h.w@.len() + ib.h.w@.len()) as int) && #[trigger] is_quotient_of_jux(f, ib, r, q, k);
    let nf = f.h.w@.len() as int; let nb = ib.h.w@.len() as int; let n = nf + nb;
    let s = glue_left(f); let t = glue_right(f, ib);
    let h = Seq::new(n as nat, |v: int| if v < nf { v as usize } else { f.t.table@[v - nf] });
    assert forall|c: int| 0 <= c < nf implies #[trigger] hit(h, c, n) by { assert(h[c] == c); }
    assert forall|j: int| 0 <= j < s.len() implies h[#[trigger] s[j] as int] == h[t[j] as int] && 0 <= s[j] < n && 0 <= t[j] < n by {
        assert(s[j] == f.t.table@[j] && t[j] == nf + j);
    }
    assert forall|a: int, b: int| 0 <= a < n && 0 <= b < n && #[trigger] h[a] == #[trigger] h[b] implies q[a] == q[b] by {
        if a >= nf { assert(s[a - nf] == f.t.table@[a - nf] && t[a - nf] == a); assert(q[s[a - nf] as int] == q[t[a - nf] as int]); }
        if b >= nf { assert(s[b - nf] == f.t.table@[b - nf] && t[b - nf] == b); assert(q[s[b - nf] as int] == q[t[b - nf] as int]); }
    }
    let phi = lemma_factor_iso(q, k, s, t, n, h, nf);
    assert forall|c: int| 0 <= c < k implies f.h.w@[(#[trigger] phi[c]) as int] == r.h.w@[c] by {
        assert(hit(q, c, n));
        let a = choose|a: int| 0 <= a < n && #[trigger] q[a] == c;
        assert(phi[q[a] as int] == h[a]);
        assert(r.h.w@[q[a] as int] == jux_label(f, ib, a));
    }
    assert(r.h.x@ =~= f.h.x@);
    assert(r.h.s.sources.table@ =~= f.h.s.sources.table@ && r.h.t.sources.table@ =~= f.h.t.sources.table@);
    assert forall|i: int| 0 <= i < r.h.s.values.table@.len() implies (#[trigger] f.h.s.values.table@[i]) == phi[r.h.s.values.table@[i] as int] by {
        assert(phi[q[f.h.s.values.table@[i] as int] as int] == h[f.h.s.values.table@[i] as int]);
    }
    assert forall|i: int| 0 <= i < r.h.t.values.table@.len() implies (#[trigger] f.h.t.values.table@[i]) == phi[r.h.t.values.table@[i] as int] by {
        assert(phi[q[f.h.t.values.table@[i] as int] as int] == h[f.h.t.values.table@[i] as int]);
    }
    assert forall|i: int| 0 <= i < r.s.table@.len() implies (#[trigger] f.s.table@[i]) == phi[r.s.table@[i] as int] by {
        assert(phi[q[f.s.table@[i] as int] as int] == h[f.s.table@[i] as int]);
    }
    assert forall|i: int| 0 <= i < r.t.table@.len() implies (#[trigger] f.t.table@[i]) == phi[r.t.table@[i] as int] by {
        assert(phi[q[nf + i] as int] == h[nf + i]);
    }
    phi
}

/// the symmetry is self-inverse: twist(a, b) ; twist(b, a) is isomorphic to the identity on a ++ b
/// (tab, tba, id are any diagrams satisfying the postconditions of `twist` and `identity`)
pub proof fn lemma_twist_self_inverse<O, A>(a: Seq<O>, b: Seq<O>, tab: OpenHypergraph<O, A>, tba: OpenHypergraph<O, A>, id: OpenHypergraph<O, A>, r: OpenHypergraph<O, A>) -> (phi: Seq<usize>)
    requires is_pushout(tab, tba, r), 2 * (a.len() + b.len()) <= usize::MAX,
        is_twist(tab, a, b), is_twist(tba, b, a), is_identity_on(id, a + b),
    ensures node_iso(r, id, phi)
{
    lemma_no_edges(tab); lemma_no_edges(tba); lemma_no_edges(id);
    let (q, k) = choose|q: Seq<usize>, k: int| is_coeq(q, k, glue_left(tab), glue_right(tab, tba), (tab.h.w@.len() + tba.h.w@.len()) as int) && #[trigger] is_quotient_of_jux(tab, tba, r, q, k);
    let na = a.len() as int; let nb = b.len() as int; let nn = na + nb; let n = 2 * nn;
    let s = glue_left(tab); let t = glue_right(tab, tba);
    let h = Seq::new(n as nat, |v: int| if v < nb { (na + v) as usize } else if v < nn { (v - nb) as usize } else { (v - nn) as usize });
    assert forall|c: int| 0 <= c < nn implies #[trigger] hit(h, c, n) by { assert(h[nn + c] == c); }
    assert forall|j: int| 0 <= j < s.len() implies h[#[trigger] s[j] as int] == h[t[j] as int] && 0 <= s[j] < n && 0 <= t[j] < n by {
        assert(s[j] == j && t[j] == nn + tba.s.table@[j]);
    }
    assert forall|x: int, y: int| 0 <= x < n && 0 <= y < n && #[trigger] h[x] == #[trigger] h[y] implies q[x] == q[y] by {
        if x < nn { assert(s[x] == x && t[x] == nn + tba.s.table@[x]); assert(q[s[x] as int] == q[t[x] as int]); }
        if y < nn { assert(s[y] == y && t[y] == nn + tba.s.table@[y]); assert(q[s[y] as int] == q[t[y] as int]); }
    }
    let phi = lemma_factor_iso(q, k, s, t, n, h, nn);
    assert forall|c: int| 0 <= c < k implies id.h.w@[(#[trigger] phi[c]) as int] == r.h.w@[c] by {
        assert(hit(q, c, n));
        let v = choose|v: int| 0 <= v < n && #[trigger] q[v] == c;
        assert(phi[q[v] as int] == h[v]);
        assert(r.h.w@[q[v] as int] == jux_label(tab, tba, v));
    }
    assert(r.h.x@ =~= id.h.x@);
    assert(r.h.s.sources.table@ =~= id.h.s.sources.table@ && r.h.t.sources.table@ =~= id.h.t.sources.table@);
    assert forall|i: int| 0 <= i < r.s.table@.len() implies (#[trigger] id.s.table@[i]) == phi[r.s.table@[i] as int] by {
        assert(phi[q[tab.s.table@[i] as int] as int] == h[tab.s.table@[i] as int]);
    }
    assert forall|i: int| 0 <= i < r.t.table@.len() implies (#[trigger] id.t.table@[i]) == phi[r.t.table@[i] as int] by {
        assert(phi[q[nn + i] as int] == h[nn + i]);
    }
    phi
}

/// C20 for composition: any two results allowed by the contract of `compose` (whatever numbering of connected components
/// the backend chooses) are isomorphic
pub proof fn lemma_compose_unique<O, A>(f: OpenHypergraph<O, A>, g: OpenHypergraph<O, A>, r1: OpenHypergraph<O, A>, r2: OpenHypergraph<O, A>) -> (phi: Seq<usize>)
    requires f.wf(), g.wf(), is_pushout(f, g, r1), is_pushout(f, g, r2), f.h.w@.len() + g.h.w@.len() <= usize::MAX, f.t.table@.len() == g.s.table@.len(),
    ensures node_iso(r1, r2, phi)
{
    let n = (f.h.w@.len() + g.h.w@.len()) as int; let nf = f.h.w@.len() as int;
    let s = glue_left(f); let t = glue_right(f, g);
    let (q1, k1) = choose|q: Seq<usize>, k: int| is_coeq(q, k, s, t, n) && #[trigger] is_quotient_of_jux(f, g, r1, q, k);
    let (q2, k2) = choose|q: Seq<usize>, k: int| is_coeq(q, k, s, t, n) && #[trigger] is_quotient_of_jux(f, g, r2, q, k);
    assert forall|j: int| 0 <= j < s.len() implies 0 <= #[trigger] s[j] < n && 0 <= t[j] < n by { assert(f.t.table@[j] < f.t.target); assert(g.s.table@[j] < g.s.target); }
    lemma_coeq_unique(q1, k1, q2, k2, s, t, n);
    if n == 0 && k1 > 0 { assert(hit(q1, 0, 0)); }
    if n == 0 && k2 > 0 { assert(hit(q2, 0, 0)); }
    let phi = lemma_factor_iso(q1, k1, s, t, n, q2, k2);
    assert forall|c: int| 0 <= c < k1 implies r2.h.w@[(#[trigger] phi[c]) as int] == r1.h.w@[c] by {
        assert(hit(q1, c, n));
        let a = choose|a: int| 0 <= a < n && #[trigger] q1[a] == c;
        assert(phi[q1[a] as int] == q2[a]);
        assert(r1.h.w@[q1[a] as int] == jux_label(f, g, a) && r2.h.w@[q2[a] as int] == jux_label(f, g, a));
    }
    assert(r1.h.x@ =~= r2.h.x@);
    assert forall|i: int| 0 <= i < r1.h.s.values.table@.len() implies (#[trigger] r2.h.s.values.table@[i]) == phi[r1.h.s.values.table@[i] as int] by {
        if i < f.h.s.values.table@.len() { assert(f.h.s.values.table@[i] < f.h.s.values.target); assert(phi[q1[f.h.s.values.table@[i] as int] as int] == q2[f.h.s.values.table@[i] as int]); }
        else { let v = g.h.s.values.table@[i - f.h.s.values.table@.len()]; assert(v < g.h.s.values.target); assert(phi[q1[nf + v] as int] == q2[nf + v]); }
    }
    assert forall|i: int| 0 <= i < r1.h.t.values.table@.len() implies (#[trigger] r2.h.t.values.table@[i]) == phi[r1.h.t.values.table@[i] as int] by {
        if i < f.h.t.values.table@.len() { assert(f.h.t.values.table@[i] < f.h.t.values.target); assert(phi[q1[f.h.t.values.table@[i] as int] as int] == q2[f.h.t.values.table@[i] as int]); }
        else { let v = g.h.t.values.table@[i - f.h.t.values.table@.len()]; assert(v < g.h.t.values.target); assert(phi[q1[nf + v] as int] == q2[nf + v]); }
    }
    assert forall|i: int| 0 <= i < r1.s.table@.len() implies (#[trigger] r2.s.table@[i]) == phi[r1.s.table@[i] as int] by {
        assert(f.s.table@[i] < f.s.target); assert(phi[q1[f.s.table@[i] as int] as int] == q2[f.s.table@[i] as int]);
    }
    assert forall|i: int| 0 <= i < r1.t.table@.len() implies (#[trigger] r2.t.table@[i]) == phi[r1.t.table@[i] as int] by {
        assert(g.t.table@[i] < g.t.target); assert(phi[q1[nf + g.t.table@[i]] as int] == q2[nf + g.t.table@[i]]);
    }
    phi
}

/// C20 for layering: the contract of `layer` determines its result (order and flags), whatever the backend does
pub proof fn lemma_layer_unique(t: IndexedCoproduct<FiniteFunction>, s: IndexedCoproduct<FiniteFunction>, n: int,
                                o1: Seq<usize>, u1: Seq<usize>, o2: Seq<usize>, u2: Seq<usize>)
    requires layer_ok(t, s, n, o1, u1), layer_ok(t, s, n, o2, u2), n <= usize::MAX
    ensures forall|y: int| #![trigger u1[y]] 0 <= y < n ==> u1[y] == u2[y] && (u1[y] == 0 ==> o1[y] == o2[y])
{
    assert forall|y: int| #![trigger u1[y]] 0 <= y < n implies u1[y] == u2[y] && (u1[y] == 0 ==> o1[y] == o2[y]) by {
        lemma_unvisited_iff_cycle(t, s, n, o1, u1, y);
        lemma_unvisited_iff_cycle(t, s, n, o2, u2, y);
        assert(u1[y] <= 1 && u2[y] <= 1);
        if u1[y] == 0 {
            let p1 = lemma_layer_chain(t, s, n, o1, u1, y);
            lemma_layer_upper(t, s, n, o2, u2, p1);
            let p2 = lemma_layer_chain(t, s, n, o2, u2, y);
            lemma_layer_upper(t, s, n, o1, u1, p2);
        }
    }
}

''')
