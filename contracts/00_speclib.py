# Ghost model and lemmas shared by all layers (DESIGN.md section 2.4).  Pure spec/proof code:
# nothing here is executable code of /repo.
module('speclib')

raw(r'''
// ---------------------------------------------------------------------------------------------
// lawfulness of generic label types (preconditions wherever labels are cloned or compared)
// ---------------------------------------------------------------------------------------------
pub open spec fn lawful_clone<T: Clone>() -> bool {
    forall|a: T, b: T| #[trigger] call_ensures(T::clone, (&a,), b) ==> a == b
}

// ---------------------------------------------------------------------------------------------
// T5: panics become proof obligations
// ---------------------------------------------------------------------------------------------
#[verifier::external_body]
pub fn rt_assert(c: bool)
    requires c,
{ assert!(c) }

#[verifier::external_body]
pub fn rt_unreachable() -> !
    requires false,
{ panic!() }

// ---------------------------------------------------------------------------------------------
// T3: operator sugar goes through these dispatch traits; the impls are extracted from /repo's
// operator impls (impl Shr / Add / Sub / BitOr ...), so `a >> b` means what it means in /repo.
// ---------------------------------------------------------------------------------------------
pub trait OpShr<Rhs>: Sized {
    type Output;
    spec fn shr_req(self, rhs: Rhs) -> bool;
    spec fn shr_ens(self, rhs: Rhs, r: Self::Output) -> bool;
    fn op_shr(self, rhs: Rhs) -> (r: Self::Output)
        requires self.shr_req(rhs),
        ensures self.shr_ens(rhs, r);
}
pub trait OpAdd<Rhs>: Sized {
    type Output;
    spec fn add_req(self, rhs: Rhs) -> bool;
    spec fn add_ens(self, rhs: Rhs, r: Self::Output) -> bool;
    fn op_add(self, rhs: Rhs) -> (r: Self::Output)
        requires self.add_req(rhs),
        ensures self.add_ens(rhs, r);
}
pub trait OpSub<Rhs>: Sized {
    type Output;
    spec fn sub_req(self, rhs: Rhs) -> bool;
    spec fn sub_ens(self, rhs: Rhs, r: Self::Output) -> bool;
    fn op_sub(self, rhs: Rhs) -> (r: Self::Output)
        requires self.sub_req(rhs),
        ensures self.sub_ens(rhs, r);
}
pub trait OpBitOr<Rhs>: Sized {
    type Output;
    spec fn bitor_req(self, rhs: Rhs) -> bool;
    spec fn bitor_ens(self, rhs: Rhs, r: Self::Output) -> bool;
    fn op_bitor(self, rhs: Rhs) -> (r: Self::Output)
        requires self.bitor_req(rhs),
        ensures self.bitor_ens(rhs, r);
}
// machine integers: `+` / `-` on usize keep their overflow / underflow obligations
impl OpAdd<usize> for usize {
    type Output = usize;
    open spec fn add_req(self, rhs: usize) -> bool { self + rhs <= usize::MAX }
    open spec fn add_ens(self, rhs: usize, r: usize) -> bool { r == self + rhs }
    fn op_add(self, rhs: usize) -> (r: usize) { self + rhs }
}
impl OpSub<usize> for usize {
    type Output = usize;
    open spec fn sub_req(self, rhs: usize) -> bool { self >= rhs }
    open spec fn sub_ens(self, rhs: usize, r: usize) -> bool { r == self - rhs }
    fn op_sub(self, rhs: usize) -> (r: usize) { self - rhs }
}

// ---------------------------------------------------------------------------------------------
// prefix sums and segments
// ---------------------------------------------------------------------------------------------
pub open spec fn psum(s: Seq<usize>, i: int) -> int
    decreases i
{
    if i <= 0 { 0 } else { psum(s, i - 1) + s[i - 1] }
}

pub open spec fn total(s: Seq<usize>) -> int { psum(s, s.len() as int) }

/// flat position of element j of segment i (also the quantifier trigger for segment clauses)
pub open spec fn seg_at(s: Seq<usize>, i: int, j: int) -> int { psum(s, i) + j }

pub proof fn lemma_psum_mono(s: Seq<usize>, i: int, j: int)
    requires 0 <= i <= j <= s.len()
    ensures psum(s, i) <= psum(s, j)
    decreases j - i
{
    if i < j { lemma_psum_mono(s, i, j - 1); }
}

pub proof fn lemma_psum_drop_last(k: Seq<usize>, i: int)
    requires 0 <= i < k.len()
    ensures psum(k.drop_last(), i) == psum(k, i)
    decreases i
{
    if i > 0 { lemma_psum_drop_last(k, i - 1); }
}

/// every position of a segmented array lies in exactly one segment
pub proof fn lemma_seg_find(k: Seq<usize>, m: int) -> (r: (int, int))
    requires 0 <= m < psum(k, k.len() as int)
    ensures 0 <= r.0 < k.len(), 0 <= r.1 < k[r.0], m == psum(k, r.0) + r.1
    decreases k.len()
{
    let n = k.len() as int;
    if m >= psum(k, n - 1) {
        (n - 1, m - psum(k, n - 1))
    } else {
        lemma_psum_drop_last(k, n - 1);
        assert(psum(k.drop_last(), k.drop_last().len() as int) == psum(k, n - 1));
        let r = lemma_seg_find(k.drop_last(), m);
        lemma_psum_drop_last(k, r.0);
        r
    }
}

pub proof fn lemma_psum_prefix(a: Seq<usize>, b: Seq<usize>, i: int)
    requires 0 <= i <= a.len(), i <= b.len(), forall|j: int| 0 <= j < i ==> a[j] == b[j]
    ensures psum(a, i) == psum(b, i)
    decreases i
{
    if i > 0 { lemma_psum_prefix(a, b, i - 1); }
}

pub proof fn lemma_psum_concat(a: Seq<usize>, b: Seq<usize>, i: int)
    requires 0 <= i <= b.len()
    ensures psum(a + b, a.len() + i) == psum(a, a.len() as int) + psum(b, i),
    decreases i
{
    if i > 0 {
        lemma_psum_concat(a, b, i - 1);
        assert((a + b)[a.len() + i - 1] == b[i - 1]);
    } else {
        lemma_psum_prefix(a + b, a, a.len() as int);
    }
}

pub proof fn lemma_seg_range(k: Seq<usize>, i: int, j: int)
    requires 0 <= i < k.len(), 0 <= j < k[i]
    ensures 0 <= seg_at(k, i, j) < total(k), psum(k, i) >= 0, psum(k, i + 1) == psum(k, i) + k[i], psum(k, i + 1) <= total(k)
{
    lemma_psum_mono(k, 0, i);
    lemma_psum_mono(k, i + 1, k.len() as int);
}

/// extensionality, usable for unnamed intermediate arrays: anything that agrees with k pointwise is k
pub proof fn lemma_ext_all(k: Seq<usize>)
    ensures forall|t: Seq<usize>| #![trigger t.len()] t.len() == k.len() && (forall|i: int| 0 <= i < k.len() ==> t[i] == k[i]) ==> t == k
{
    assert forall|t: Seq<usize>| #![trigger t.len()] t.len() == k.len() && (forall|i: int| 0 <= i < k.len() ==> t[i] == k[i]) implies t == k by {
        assert(t =~= k);
    }
}

/// a position-unique decomposition: segments do not overlap
pub proof fn lemma_seg_unique(k: Seq<usize>, i1: int, j1: int, i2: int, j2: int)
    requires 0 <= i1 < k.len(), 0 <= i2 < k.len(), 0 <= j1 < k[i1], 0 <= j2 < k[i2],
        seg_at(k, i1, j1) == seg_at(k, i2, j2)
    ensures i1 == i2 && j1 == j2
{
    if i1 < i2 {
        lemma_psum_mono(k, i1 + 1, i2);
    } else if i2 < i1 {
        lemma_psum_mono(k, i2 + 1, i1);
    }
}

// ---------------------------------------------------------------------------------------------
// counting
// ---------------------------------------------------------------------------------------------
/// number of positions i < n with s[i] == v
pub open spec fn count(s: Seq<usize>, v: int, n: int) -> int
    decreases n
{
    if n <= 0 { 0 } else { count(s, v, n - 1) + (if s[n - 1] == v { 1int } else { 0int }) }
}

pub proof fn lemma_count_bounds(s: Seq<usize>, v: int, n: int)
    requires 0 <= n <= s.len()
    ensures 0 <= count(s, v, n) <= n
    decreases n
{
    if n > 0 { lemma_count_bounds(s, v, n - 1); }
}

pub proof fn lemma_count_zero(s: Seq<usize>, v: int, n: int)
    requires 0 <= n <= s.len(), forall|i: int| 0 <= i < n ==> s[i] != v
    ensures count(s, v, n) == 0
    decreases n
{
    if n > 0 { lemma_count_zero(s, v, n - 1); }
}

pub proof fn lemma_count_pos(s: Seq<usize>, v: int, n: int, i: int)
    requires 0 <= i < n <= s.len(), s[i] == v
    ensures count(s, v, n) >= 1
    decreases n
{
    lemma_count_bounds(s, v, n - 1);
    if i < n - 1 { lemma_count_pos(s, v, n - 1, i); }
}

pub proof fn lemma_count_two(s: Seq<usize>, v: int, n: int, i: int, j: int)
    requires 0 <= i < j < n <= s.len(), s[i] == v, s[j] == v
    ensures count(s, v, n) >= 2
    decreases n
{
    if j < n - 1 { lemma_count_two(s, v, n - 1, i, j); }
    else { lemma_count_pos(s, v, n - 1, i); }
}

/// count <= 1 everywhere  <==>  injective
pub open spec fn injective(s: Seq<usize>) -> bool {
    forall|i: int, j: int| 0 <= i < s.len() && 0 <= j < s.len() && i != j ==> s[i] != s[j]
}

pub proof fn lemma_count_witness(s: Seq<usize>, v: int, n: int) -> (i: int)
    requires 0 <= n <= s.len(), count(s, v, n) >= 1
    ensures 0 <= i < n, s[i] == v
    decreases n
{
    if s[n - 1] == v { n - 1 } else { lemma_count_witness(s, v, n - 1) }
}

pub proof fn lemma_count_two_witness(s: Seq<usize>, v: int, n: int) -> (r: (int, int))
    requires 0 <= n <= s.len(), count(s, v, n) >= 2
    ensures 0 <= r.0 < r.1 < n, s[r.0] == v, s[r.1] == v
    decreases n
{
    if s[n - 1] == v {
        let i = lemma_count_witness(s, v, n - 1);
        (i, n - 1)
    } else { lemma_count_two_witness(s, v, n - 1) }
}

/// a table is injective iff no value occurs twice (counts as computed by bincount)
pub proof fn lemma_counts_injective(tv: Seq<usize>, counts: Seq<usize>, target: int)
    requires counts.len() == target, forall|i: int| 0 <= i < tv.len() ==> (#[trigger] tv[i]) < target,
        forall|v: int| 0 <= v < target ==> counts[v] == count(tv, v, tv.len() as int),
    ensures injective(tv) <==> (forall|v: int| 0 <= v < target ==> counts[v] <= 1)
{
    let n = tv.len() as int;
    if injective(tv) {
        assert forall|v: int| 0 <= v < target implies counts[v] <= 1 by {
            if count(tv, v, n) >= 2 {
                let (i, j) = lemma_count_two_witness(tv, v, n);
            }
        }
    }
    if forall|v: int| 0 <= v < target ==> counts[v] <= 1 {
        assert forall|i: int, j: int| 0 <= i < n && 0 <= j < n && i != j implies tv[i] != tv[j] by {
            if tv[i] == tv[j] {
                assert(tv[i] < target);
                if i < j { lemma_count_two(tv, tv[i] as int, n, i, j); } else { lemma_count_two(tv, tv[i] as int, n, j, i); }
                assert(counts[tv[i] as int] == count(tv, tv[i] as int, n));
            }
        }
    }
}

// ---------------------------------------------------------------------------------------------
// coequalizers by their universal property
// ---------------------------------------------------------------------------------------------
/// r is an equivalence relation on 0..n containing every pair (s[j], t[j])
pub open spec fn compat(r: spec_fn(int, int) -> bool, s: Seq<usize>, t: Seq<usize>, n: int) -> bool {
    &&& forall|a: int| 0 <= a < n ==> #[trigger] r(a, a)
    &&& forall|a: int, b: int| 0 <= a < n && 0 <= b < n && #[trigger] r(a, b) ==> r(b, a)
    &&& forall|a: int, b: int, c: int| 0 <= a < n && 0 <= b < n && 0 <= c < n && #[trigger] r(a, b) && #[trigger] r(b, c) ==> r(a, c)
    &&& forall|j: int| 0 <= j < s.len() ==> #[trigger] r(s[j] as int, t[j] as int)
}

pub open spec fn hit(q: Seq<usize>, c: int, n: int) -> bool { exists|i: int| 0 <= i < n && #[trigger] q[i] == c }

/// q : n -> k is a coequalizer of the parallel pair (s, t) : m -> n :
/// total, in range, surjective, identifies s[j] with t[j], and identifies nothing that some
/// equivalence relation containing all pairs keeps apart (= nothing beyond transitivity).
pub open spec fn is_coeq(q: Seq<usize>, k: int, s: Seq<usize>, t: Seq<usize>, n: int) -> bool {
    &&& q.len() == n
    &&& forall|i: int| 0 <= i < n ==> (#[trigger] q[i]) < k
    &&& forall|c: int| 0 <= c < k ==> #[trigger] hit(q, c, n)
    &&& forall|j: int| 0 <= j < s.len() ==> q[#[trigger] s[j] as int] == q[t[j] as int]
    &&& forall|r: spec_fn(int, int) -> bool| #[trigger] compat(r, s, t, n) ==>
            forall|a: int, b: int| 0 <= a < n && 0 <= b < n && q[a] == q[b] ==> #[trigger] r(a, b)
}

/// labels that agree on every identified pair are constant on the classes of a coequalizer
pub proof fn lemma_labels_constant<T>(q: Seq<usize>, k: int, s: Seq<usize>, t: Seq<usize>, n: int, w: Seq<T>)
    requires is_coeq(q, k, s, t, n), w.len() == n, s.len() == t.len(),
        forall|j: int| 0 <= j < s.len() ==> 0 <= #[trigger] s[j] < n && 0 <= t[j] < n && w[s[j] as int] == w[t[j] as int],
    ensures forall|a: int, b: int| 0 <= a < n && 0 <= b < n && q[a] == q[b] ==> w[a] == w[b]
{
    let r = |a: int, b: int| w[a] == w[b];
    assert(compat(r, s, t, n));
    assert forall|a: int, b: int| 0 <= a < n && 0 <= b < n && q[a] == q[b] implies w[a] == w[b] by {
        assert(r(a, b));
    }
}

/// two coequalizers of the same pairs have the same kernel
pub proof fn lemma_coeq_unique(q1: Seq<usize>, k1: int, q2: Seq<usize>, k2: int, s: Seq<usize>, t: Seq<usize>, n: int)
    requires is_coeq(q1, k1, s, t, n), is_coeq(q2, k2, s, t, n), s.len() == t.len(),
        forall|j: int| 0 <= j < s.len() ==> 0 <= #[trigger] s[j] < n && 0 <= t[j] < n,
    ensures forall|a: int, b: int| 0 <= a < n && 0 <= b < n ==> ((q1[a] == q1[b]) <==> (q2[a] == q2[b]))
{
    let r1 = |a: int, b: int| q1[a] == q1[b];
    let r2 = |a: int, b: int| q2[a] == q2[b];
    assert(compat(r1, s, t, n));
    assert(compat(r2, s, t, n));
    assert forall|a: int, b: int| 0 <= a < n && 0 <= b < n implies ((q1[a] == q1[b]) <==> (q2[a] == q2[b])) by {
        if q1[a] == q1[b] { assert(r2(a, b)); }
        if q2[a] == q2[b] { assert(r1(a, b)); }
    }
}
''', tag='speclib')
