# src/array/vec/connected_components.rs: union-find with path compression and union by rank,
# proved against the universal property of coequalizers (is_coeq).  Properties C07, C06, C01.
CC = 'src/array/vec/connected_components.rs'

module('connected_components', uses=['std::collections::HashMap'])

raw(r'''
pub open spec fn max_rank(r: Seq<usize>) -> nat
    decreases r.len()
{
    if r.len() == 0 { 0 } else {
        let m = max_rank(r.drop_last());
        if r.last() as nat > m { r.last() as nat } else { m }
    }
}

pub proof fn lemma_max_rank(r: Seq<usize>, i: int)
    requires 0 <= i < r.len()
    ensures r[i] as nat <= max_rank(r)
    decreases r.len()
{
    if i == r.len() - 1 { } else { lemma_max_rank(r.drop_last(), i); }
}

pub open spec fn uf_wf(parent: Seq<usize>, rank: Seq<usize>) -> bool {
    &&& parent.len() == rank.len()
    &&& forall|x: int| 0 <= x < parent.len() ==> (#[trigger] parent[x]) < parent.len()
    &&& forall|x: int| 0 <= x < parent.len() && parent[x] != x ==> rank[x] < rank[#[trigger] parent[x] as int]
}

pub open spec fn root_of(parent: Seq<usize>, rank: Seq<usize>, x: int) -> int
    decreases max_rank(rank) - rank[x] when uf_wf(parent, rank) && 0 <= x < parent.len()
    via root_of_dec
{
    if parent[x] == x { x } else { root_of(parent, rank, parent[x] as int) }
}

#[via_fn]
proof fn root_of_dec(parent: Seq<usize>, rank: Seq<usize>, x: int) {
    if parent[x] != x {
        lemma_max_rank(rank, parent[x] as int);
        lemma_max_rank(rank, x);
    }
}

pub proof fn lemma_root(parent: Seq<usize>, rank: Seq<usize>, x: int)
    requires uf_wf(parent, rank), 0 <= x < parent.len()
    ensures 0 <= root_of(parent, rank, x) < parent.len(),
        parent[root_of(parent, rank, x)] == root_of(parent, rank, x),
        rank[x] <= rank[root_of(parent, rank, x)],
        parent[x] != x ==> rank[x] < rank[root_of(parent, rank, x)],
    decreases max_rank(rank) - rank[x]
{
    if parent[x] != x {
        lemma_max_rank(rank, parent[x] as int);
        lemma_max_rank(rank, x);
        lemma_root(parent, rank, parent[x] as int);
    }
}

// any re-pointing of parents at their own roots preserves well-formedness and all roots
pub proof fn lemma_shortcut_wf(p0: Seq<usize>, p: Seq<usize>, rank: Seq<usize>)
    requires uf_wf(p0, rank), p.len() == p0.len(),
        forall|z: int| 0 <= z < p0.len() ==> (#[trigger] p[z]) == p0[z] || p[z] as int == root_of(p0, rank, z),
    ensures uf_wf(p, rank)
{
    assert forall|z: int| 0 <= z < p.len() implies (#[trigger] p[z]) < p.len() by { lemma_root(p0, rank, z); }
    assert forall|z: int| 0 <= z < p.len() && p[z] != z implies rank[z] < rank[#[trigger] p[z] as int] by {
        lemma_root(p0, rank, z);
    }
}

pub proof fn lemma_shortcut(p0: Seq<usize>, p: Seq<usize>, rank: Seq<usize>, y: int)
    requires uf_wf(p0, rank), p.len() == p0.len(), 0 <= y < p0.len(),
        forall|z: int| 0 <= z < p0.len() ==> (#[trigger] p[z]) == p0[z] || p[z] as int == root_of(p0, rank, z),
    ensures uf_wf(p, rank), root_of(p, rank, y) == root_of(p0, rank, y)
    decreases max_rank(rank) - rank[y]
{
    lemma_shortcut_wf(p0, p, rank);
    lemma_root(p0, rank, y);
    if p[y] == y {
    } else {
        lemma_max_rank(rank, p[y] as int);
        lemma_max_rank(rank, y);
        lemma_shortcut(p0, p, rank, p[y] as int);
        if p[y] == p0[y] { } else {
            lemma_root(p0, rank, p[y] as int);
        }
    }
}

pub proof fn lemma_shortcut_all(p0: Seq<usize>, p: Seq<usize>, rank: Seq<usize>)
    requires uf_wf(p0, rank), p.len() == p0.len(),
        forall|z: int| 0 <= z < p0.len() ==> (#[trigger] p[z]) == p0[z] || p[z] as int == root_of(p0, rank, z),
    ensures uf_wf(p, rank),
        forall|y: int| 0 <= y < p0.len() ==> #[trigger] root_of(p, rank, y) == root_of(p0, rank, y),
{
    lemma_shortcut_wf(p0, p, rank);
    assert forall|y: int| 0 <= y < p0.len() implies #[trigger] root_of(p, rank, y) == root_of(p0, rank, y) by {
        lemma_shortcut(p0, p, rank, y);
    }
}

/// linking root a under root b (ranks possibly bumped at b only)
pub proof fn lemma_link(p: Seq<usize>, rk: Seq<usize>, p2: Seq<usize>, rk2: Seq<usize>, a: int, b: int, y: int)
    requires uf_wf(p, rk), 0 <= a < p.len(), 0 <= b < p.len(), a != b, p[a] == a, p[b] == b,
        p2 == p.update(a, b as usize), rk2.len() == rk.len(),
        forall|z: int| 0 <= z < rk.len() && z != b ==> rk2[z] == rk[z],
        rk2[b] >= rk[b], rk2[a] < rk2[b],
        0 <= y < p.len(),
    ensures uf_wf(p2, rk2),
        root_of(p2, rk2, y) == (if root_of(p, rk, y) == a { b } else { root_of(p, rk, y) }),
    decreases max_rank(rk) - rk[y]
{
    assert(uf_wf(p2, rk2)) by {
        assert forall|z: int| 0 <= z < p2.len() && p2[z] != z implies rk2[z] < rk2[#[trigger] p2[z] as int] by {
            if z == a { } else {
                assert(p2[z] == p[z]);
                assert(z != b);
            }
        }
    }
    lemma_root(p, rk, y);
    if y == a {
        assert(p2[b] == b);
        assert(root_of(p2, rk2, b) == b);
    } else if p[y] == y {
        assert(p2[y] == y);
    } else {
        lemma_max_rank(rk, p[y] as int);
        lemma_max_rank(rk, y);
        assert(p2[y] == p[y]);
        lemma_link(p, rk, p2, rk2, a, b, p[y] as int);
    }
}

pub open spec fn dense_ok(sparse: Seq<usize>, dense: Seq<usize>, k: int, i: int) -> bool {
    &&& forall|a: int| 0 <= a < i ==> (#[trigger] dense[a]) < k
    &&& forall|a: int, b: int| 0 <= a < i && 0 <= b < i ==> ((#[trigger] dense[a] == #[trigger] dense[b]) <==> sparse[a] == sparse[b])
    &&& forall|c: int| 0 <= c < k ==> #[trigger] hit(dense, c, i)
}
''')

typedef(CC, 'UnionFind')

raw(r'''
impl UnionFind {
    pub open spec fn wf(&self) -> bool { uf_wf(self.parent@, self.rank@) }
    pub open spec fn n(&self) -> nat { self.parent@.len() }
    pub open spec fn root(&self, x: int) -> int { root_of(self.parent@, self.rank@, x) }
}
''')

group('impl UnionFind')
fn(CC, 'new', self_ty='UnionFind', status='P', props=['C07', 'C06', 'C01'],
   ensures=[('C07.uf-new', 'r.wf() && r.n() == n'),
            ('C07.uf-new-id', 'forall|x: int| 0 <= x < n ==> r.parent@[x] == x && r.rank@[x] == 0')])
fn(CC, 'find', self_ty='UnionFind', status='P', props=['C07', 'C06', 'C01'],
   requires=['old(self).wf()', 'x < old(self).n()'],
   ensures=[('C07.uf-find-frame', 'final(self).rank@ == old(self).rank@ && final(self).n() == old(self).n()'),
            ('C07.uf-find', 'r == old(self).root(x as int)'),
            ('C07.uf-find-compress', 'forall|z: int| 0 <= z < old(self).n() ==> (#[trigger] final(self).parent@[z]) == old(self).parent@[z] || final(self).parent@[z] as int == old(self).root(z)')],
   decreases='max_rank(old(self).rank@) - old(self).rank@[x as int]',
   proofs=[('start', 'lemma_root(self.parent@, self.rank@, x as int);'),
           ('before:self.parent[x] = self.find(self.parent[x])',
            'lemma_max_rank(self.rank@, self.parent@[x as int] as int); lemma_max_rank(self.rank@, x as int);')])
fn(CC, 'union', self_ty='UnionFind', status='P', props=['C07', 'C06', 'C01'],
   requires=['old(self).wf()', 'x < old(self).n()', 'y < old(self).n()',
             'forall|z: int| 0 <= z < old(self).n() ==> old(self).rank@[z] < usize::MAX'],
   ensures=[('C07.uf-union-wf', 'final(self).wf() && final(self).n() == old(self).n()'),
            ('C07.uf-union-rank', 'forall|z: int| 0 <= z < old(self).n() ==> final(self).rank@[z] <= old(self).rank@[z] + 1'),
            ('C07.uf-union', '''forall|a: int, b: int| 0 <= a < old(self).n() && 0 <= b < old(self).n() ==>
                ((final(self).root(a) == final(self).root(b)) <==> (
                    old(self).root(a) == old(self).root(b)
                    || ((old(self).root(a) == old(self).root(x as int) || old(self).root(a) == old(self).root(y as int))
                        && (old(self).root(b) == old(self).root(x as int) || old(self).root(b) == old(self).root(y as int)))))''')],
   proofs=[G('start', 'let ghost p0 = self.parent@; let ghost rk = self.rank@;'),
           G('after:let root_x = self.find(x);', 'let ghost p1 = self.parent@;'),
           ('after:let root_x = self.find(x);', 'lemma_shortcut_all(p0, p1, rk);'),
           G('after:let root_y = self.find(y);', 'let ghost p2 = self.parent@;'),
           ('after:let root_y = self.find(y);', '''lemma_shortcut_all(p1, p2, rk);
            lemma_root(p0, rk, x as int);
            lemma_root(p0, rk, y as int);
            lemma_root(p2, rk, root_x as int);
            lemma_root(p2, rk, root_y as int);
            assert(root_of(p2, rk, root_x as int) == root_of(p0, rk, root_x as int));
            assert(root_of(p2, rk, root_y as int) == root_of(p0, rk, root_y as int));'''),
           ('close', '''let p3 = self.parent@;
            let rk3 = self.rank@;
            if root_x != root_y {
                if rk[root_x as int] < rk[root_y as int] {
                    assert forall|w: int| 0 <= w < p0.len() implies
                        root_of(p3, rk3, w) == (if root_of(p2, rk, w) == root_x as int { root_y as int } else { root_of(p2, rk, w) }) by {
                        lemma_link(p2, rk, p3, rk3, root_x as int, root_y as int, w);
                    }
                    lemma_link(p2, rk, p3, rk3, root_x as int, root_y as int, 0);
                } else {
                    assert forall|w: int| 0 <= w < p0.len() implies
                        root_of(p3, rk3, w) == (if root_of(p2, rk, w) == root_y as int { root_x as int } else { root_of(p2, rk, w) }) by {
                        lemma_link(p2, rk, p3, rk3, root_y as int, root_x as int, w);
                    }
                    lemma_link(p2, rk, p3, rk3, root_y as int, root_x as int, 0);
                }
            }''')])
endgroup()

fn(CC, 'to_dense', kind='free', status='P', props=['C07', 'C06', 'C01'],
   ensures=[('C07.to_dense-len', 'r.0@.len() == sparse@.len()'),
            ('C07.to_dense', 'dense_ok(sparse@, r.0@, r.1 as int, sparse@.len() as int)'),
            ('C07.to_dense-count', 'r.1 <= sparse@.len()')],
   loops={1: {'iter': 'it', 'invariant': [
       'it.seq().len() == sparse@.len()',
       'forall|j: int| 0 <= j < sparse@.len() ==> *it.seq()[j] == sparse@[j]',
       'dense@.len() == it.index@', 'sparse@.len() <= usize::MAX',
       'num_components <= it.index@',
       'dense_ok(sparse@, dense@, num_components as int, it.index@)',
       'forall|j: int| 0 <= j < it.index@ ==> representative_nodes@.contains_key(#[trigger] sparse@[j]) && representative_nodes@[sparse@[j]] == dense@[j]',
       'forall|key: usize| #[trigger] representative_nodes@.contains_key(key) ==> exists|j: int| 0 <= j < it.index@ && sparse@[j] == key',
   ]}},
   proofs=[G('before:if let Some(found_component_number)', 'let ghost d0 = dense@; let ghost i0 = it.index@;'),
           ('after:dense.push(*found_component_number);', '''let j0 = choose|j: int| 0 <= j < i0 && sparse@[j] == *a;
                assert(dense@[i0] == d0[j0]);
                assert forall|c: int| 0 <= c < num_components implies #[trigger] hit(dense@, c, i0 + 1) by {
                    assert(hit(d0, c, i0));
                    let w = choose|w: int| 0 <= w < i0 && #[trigger] d0[w] == c;
                    assert(dense@[w] == c);
                }'''),
           ('after:num_components += 1;', '''assert forall|c: int| 0 <= c < num_components implies #[trigger] hit(dense@, c, i0 + 1) by {
                    if c < num_components - 1 {
                        assert(hit(d0, c, i0));
                        let w = choose|w: int| 0 <= w < i0 && #[trigger] d0[w] == c;
                        assert(dense@[w] == c);
                    } else {
                        assert(dense@[i0] == c);
                    }
                }''')])

fn(CC, 'connected_components', kind='free', status='P', props=['C07', 'C06', 'C01', 'C20'], rules={'t9': True},
   requires=['sources@.len() == targets@.len()',
             'forall|j: int| 0 <= j < sources@.len() ==> sources@[j] < n && targets@[j] < n'],
   ensures=[('C07.cc-coeq', 'is_coeq(r.0@, r.1 as int, sources@, targets@, n as int)'), ('C07.cc-count', 'r.1 <= n')],
   loops={1: {'iter': 'it', 'invariant': [
       'sources@.len() == targets@.len()',
       'forall|j: int| 0 <= j < sources@.len() ==> sources@[j] < n && targets@[j] < n',
       'it.seq().len() == sources@.len()',
       'forall|j: int| 0 <= j < sources@.len() ==> *it.seq()[j].0 == sources@[j] && *it.seq()[j].1 == targets@[j]',
       'uf.wf()', 'uf.n() == n', 'sources@.len() <= usize::MAX',
       'forall|z: int| 0 <= z < n ==> uf.rank@[z] <= it.index@',
       'forall|j: int| 0 <= j < it.index@ ==> uf.root(sources@[j] as int) == uf.root(targets@[j] as int)',
       '''forall|r: spec_fn(int, int) -> bool| #[trigger] compat(r, sources@.subrange(0, it.index@), targets@.subrange(0, it.index@), n as int) ==>
                forall|a: int, b: int| 0 <= a < n && 0 <= b < n && uf.root(a) == uf.root(b) ==> #[trigger] r(a, b)''',
   ]},
          2: {'iter': 'it2', 'invariant': [
       'uf.wf()', 'uf.n() == n', 'uf.rank@ == rke', 'uf_wf(pe, rke)', 'pe.len() == n',
       'forall|y: int| 0 <= y < n ==> #[trigger] root_of(uf.parent@, rke, y) == root_of(pe, rke, y)',
       'vx_v2@.len() == i',
       'forall|y: int| 0 <= y < i ==> vx_v2@[y] as int == root_of(pe, rke, y)',
   ], 'body_pre': 'let ghost pb = uf.parent@; proof { lemma_root(pb, rke, i as int); }',
      'body_post': '''proof {
            lemma_shortcut_all(pb, uf.parent@, rke);
            assert forall|y: int| 0 <= y < n implies #[trigger] root_of(uf.parent@, rke, y) == root_of(pe, rke, y) by {
                assert(root_of(uf.parent@, rke, y) == root_of(pb, rke, y));
                assert(root_of(pb, rke, y) == root_of(pe, rke, y));
            }
        }'''}},
   proofs=[('start', 'assert(n > 0 || sources@.len() == 0) by { if sources@.len() > 0 { assert(sources@[0] < n); } }'),
           G('before:uf.union(*u, *v);', 'let ghost i0 = it.index@; let ghost p0 = uf.parent@; let ghost rk0 = uf.rank@;'),
           ('after:uf.union(*u, *v);', '''let s0 = sources@.subrange(0, i0);
            let t0 = targets@.subrange(0, i0);
            let s1 = sources@.subrange(0, i0 + 1);
            let t1 = targets@.subrange(0, i0 + 1);
            let uu = *u as int; let vv = *v as int;
            assert forall|r: spec_fn(int, int) -> bool| #[trigger] compat(r, s1, t1, n as int) implies
                (forall|a: int, b: int| 0 <= a < n && 0 <= b < n && uf.root(a) == uf.root(b) ==> #[trigger] r(a, b)) by {
                assert(compat(r, s0, t0, n as int)) by {
                    assert forall|j: int| 0 <= j < s0.len() implies #[trigger] r(s0[j] as int, t0[j] as int) by {
                        assert(s1[j] == s0[j] && t1[j] == t0[j]);
                    }
                }
                assert(r(s1[i0] as int, t1[i0] as int));
                assert(r(uu, vv));
                assert(r(vv, uu));
                assert forall|a: int, b: int| 0 <= a < n && 0 <= b < n && uf.root(a) == uf.root(b) implies #[trigger] r(a, b) by {
                    let oa = root_of(p0, rk0, a); let ob = root_of(p0, rk0, b);
                    let ou = root_of(p0, rk0, uu); let ov = root_of(p0, rk0, vv);
                    if oa == ob { } else {
                        if oa == ou { assert(r(a, uu)); } else { assert(r(a, vv)); }
                        if ob == ou { assert(r(uu, b)); } else { assert(r(vv, b)); }
                    }
                }
            }'''),
           G('before:let node_to_other_node', 'let ghost pe = uf.parent@; let ghost rke = uf.rank@;'),
           ('end', '''let q = node_to_component_number@;
            let k = num_components as int;
            let nn = n as int;
            assert(sources@.subrange(0, sources@.len() as int) =~= sources@);
            assert(targets@.subrange(0, targets@.len() as int) =~= targets@);
            assert forall|a: int, b: int| 0 <= a < nn && 0 <= b < nn implies ((q[a] == q[b]) <==> root_of(pe, rke, a) == root_of(pe, rke, b)) by { }
            assert forall|c: int| 0 <= c < k implies #[trigger] hit(q, c, nn) by { }
            assert forall|j: int| 0 <= j < sources@.len() implies q[#[trigger] sources@[j] as int] == q[targets@[j] as int] by { }
            assert forall|r: spec_fn(int, int) -> bool| #[trigger] compat(r, sources@, targets@, nn) implies
                (forall|a: int, b: int| 0 <= a < nn && 0 <= b < nn && q[a] == q[b] ==> #[trigger] r(a, b)) by { }''')])
