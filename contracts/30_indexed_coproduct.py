# Layer 2: segmented arrays (src/indexed_coproduct/*.rs) and operation batches (src/operations.rs).
# Property C08; C05 clauses.
IC = 'src/indexed_coproduct/arrow.rs'
IT = 'src/indexed_coproduct/iterator.rs'
SIT = 'src/indexed_coproduct/semifinite_iterator.rs'
OPS = 'src/operations.rs'

module('indexed_coproduct')

# the trait HasLen of /repo (its only generic parameter is the array kind); `len` is its required method,
# `is_empty` its default method (extracted)
group('pub trait HasLen', preamble='''    spec fn spec_len(&self) -> nat;
    fn len(&self) -> (r: usize)
        ensures r == self.spec_len();
''')
fn('src/indexed_coproduct/arrow.rs', 'is_empty', kind='trait', trait='HasLen', status='P', props=['C08'], no_pub=True,
   ensures=[('C08.haslen-is_empty', 'r <==> self.spec_len() == 0')])
endgroup()

raw(r'''
/// the size invariant of a segmented array: the sizes add up to the number of values, and the
/// size map's codomain is that sum plus one
pub open spec fn seg_wf(sources: FiniteFunction, vlen: nat) -> bool {
    &&& sources.target == total(sources.table@) + 1
    &&& total(sources.table@) == vlen
}

pub proof fn lemma_seg_wf_sources(sources: FiniteFunction, vlen: nat)
    requires seg_wf(sources, vlen)
    ensures sources.wf()
{
    let s = sources.table@;
    assert forall|i: int| 0 <= i < s.len() implies (#[trigger] s[i]) < sources.target by {
        lemma_psum_mono(s, i + 1, s.len() as int);
        lemma_psum_mono(s, 0, i);
        assert(psum(s, i + 1) == psum(s, i) + s[i]);
    }
}

pub proof fn lemma_psum_const(s: Seq<usize>, c: usize, i: int)
    requires 0 <= i <= s.len(), forall|j: int| 0 <= j < s.len() ==> s[j] == c
    ensures psum(s, i) == i * c
    decreases i
{
    if i > 0 {
        lemma_psum_const(s, c, i - 1);
        assert(i * c == (i - 1) * c + c) by (nonlinear_arith);
    }
}

/// telescoping: the sum of the per-segment sums is the sum over everything
pub proof fn lemma_segsum_total(sizes: Seq<usize>, x: Seq<usize>, r: Seq<usize>, i: int)
    requires 0 <= i <= sizes.len(), r.len() == sizes.len(), total(sizes) <= x.len(),
        forall|k: int| 0 <= k < sizes.len() ==> r[k] == psum(x, psum(sizes, k + 1)) - psum(x, psum(sizes, k)),
    ensures psum(r, i) == psum(x, psum(sizes, i))
    decreases i
{
    if i > 0 { lemma_segsum_total(sizes, x, r, i - 1); }
}
''')

typedef(IC, 'IndexedCoproduct')

raw(r'''
impl IndexedCoproduct<FiniteFunction> {
    /// well-formed segmented array of finite functions: size invariant + values in range
    pub open spec fn wf(&self) -> bool { seg_wf(self.sources, self.values.table@.len()) && self.values.wf() }
    pub open spec fn sizes(&self) -> Seq<usize> { self.sources.table@ }
}
impl<T> IndexedCoproduct<SemifiniteFunction<T>> {
    pub open spec fn wf(&self) -> bool { seg_wf(self.sources, self.values@.len()) }
    pub open spec fn sizes(&self) -> Seq<usize> { self.sources.table@ }
}
''')

group('impl HasLen for FiniteFunction', preamble='    open spec fn spec_len(&self) -> nat { self.table@.len() }\n')
fn(IC, 'len', trait='HasLen', self_ty='FiniteFunction', status='P', props=['C08'])
endgroup()
group('impl<T: Clone> HasLen for SemifiniteFunction<T>', preamble='    open spec fn spec_len(&self) -> nat { self@.len() }\n')
fn(IC, 'len', trait='HasLen', self_ty='SemifiniteFunction', status='P', props=['C08'])
endgroup()

group('impl<F> HasLen for IndexedCoproduct<F>', preamble='    open spec fn spec_len(&self) -> nat { self.sources.table@.len() }\n')
fn(IC, 'len', trait='HasLen', self_ty='IndexedCoproduct', status='P', props=['C08'])
endgroup()

group('impl<F: Clone + HasLen> Clone for IndexedCoproduct<F>')
fn(IC, 'clone', trait='Clone', self_ty='IndexedCoproduct', status='P', props=['C08'],
   ensures=[('C08.ic-clone', 'r.sources.table@ == self.sources.table@ && r.sources.target == self.sources.target && call_ensures(F::clone, (&self.values,), r.values)')])
endgroup()

# generic in the values type F
group('impl<F: Clone + HasLen> IndexedCoproduct<F>')
fn(IC, 'new', self_ty='IndexedCoproduct', status='P', props=['C08', 'C05'],
   requires=['total(sources.table@) < usize::MAX', 'sources.table@.len() < usize::MAX'],
   ensures=[('C08.new-iff', 'r.is_some() <==> seg_wf(sources, values.spec_len())'),
            ('C08.new-same', 'r.is_some() ==> r.unwrap().sources == sources && r.unwrap().values == values')])
fn(IC, 'from_semifinite', self_ty='IndexedCoproduct', status='P', props=['C08', 'C05'], rules={'drop_into': True},
   requires=['total(sources@) < usize::MAX', 'sources@.len() < usize::MAX', 'values.spec_len() < usize::MAX'],
   ensures=[('C08.from_semifinite-iff', 'r.is_some() <==> total(sources@) == values.spec_len()'),
            ('C08.from_semifinite', 'r.is_some() ==> r.unwrap().sources.table@ == sources@ && r.unwrap().sources.target == values.spec_len() + 1 && r.unwrap().values == values && seg_wf(r.unwrap().sources, values.spec_len())')],
   proofs=[('after:let sources = FiniteFunction::new(', '''
            '''),
           ('start', '''let sv = sources@; let n = values.spec_len() as int;
            // if the sizes add up, every size is in range of the codomain n + 1
            if total(sv) == n {
                assert forall|i: int| 0 <= i < sv.len() implies (#[trigger] sv[i]) < n + 1 by {
                    lemma_psum_mono(sv, i + 1, sv.len() as int); lemma_psum_mono(sv, 0, i);
                    assert(psum(sv, i + 1) == psum(sv, i) + sv[i]);
                }
            }''')])
fn(IC, 'validate', self_ty='IndexedCoproduct', status='P', props=['C08', 'C05'],
   requires=['total(self.sources.table@) < usize::MAX', 'self.sources.table@.len() < usize::MAX'],
   ensures=[('C08.validate-iff', 'r.is_some() <==> seg_wf(self.sources, self.values.spec_len())'),
            ('C08.validate-same', 'r.is_some() ==> r.unwrap() == self')])
fn(IC, 'singleton', self_ty='IndexedCoproduct', status='P', props=['C08', 'C05'],
   requires=['values.spec_len() < usize::MAX'],
   ensures=[('C08.singleton', 'r.sources.table@ =~= seq![values.spec_len() as usize] && r.values == values'),
            ('C08.singleton-wf', 'seg_wf(r.sources, values.spec_len())')],
   proofs=[('end', 'assert(psum(sources.table@, 1) == psum(sources.table@, 0) + sources.table@[0]);')])
fn(IC, 'elements', self_ty='IndexedCoproduct', status='P', props=['C08', 'C05'],
   requires=['values.spec_len() < usize::MAX'],
   ensures=[('C08.elements', 'r.sources.table@.len() == values.spec_len() && (forall|i: int| 0 <= i < values.spec_len() ==> r.sources.table@[i] == 1) && r.values == values'),
            ('C08.elements-wf', 'seg_wf(r.sources, values.spec_len())')],
   proofs=[('start', 'assert(lawful_clone::<usize>());'),
           ('before:IndexedCoproduct::new(sources, values)', '''lemma_psum_const(sources.table@, 1usize, sources.table@.len() as int);
            assert(total(sources.table@) == values.spec_len());''')])
fn(IC, 'len', self_ty='IndexedCoproduct', nth=0, status='P', props=['C08'],
   ensures=[('C08.len', 'r == self.sources.table@.len()')])
fn(IC, 'flatmap_sources', self_ty='IndexedCoproduct', status='P', props=['C08', 'C14'],
   requires=['seg_wf(self.sources, self.values.spec_len())', 'seg_wf(other.sources, other.values.spec_len())',
             'self.values.spec_len() == other.sources.table@.len()', 'other.sources.table@.len() < usize::MAX', 'self.sources.table@.len() < usize::MAX'],
   ensures=[('C08.flatmap_sources-sizes', '''r.sources.table@.len() == self.sources.table@.len() && (forall|i: int| 0 <= i < self.sources.table@.len() ==>
                r.sources.table@[i] == psum(other.sources.table@, psum(self.sources.table@, i + 1)) - psum(other.sources.table@, psum(self.sources.table@, i)))'''),
            ('C08.flatmap_sources-values', 'call_ensures(G::clone, (&other.values,), r.values)'),
            ('C08.flatmap_sources-wf', 'seg_wf(r.sources, other.values.spec_len())')],
   proofs=[('end', '''lemma_segsum_total(self.sources.table@, other.sources.table@, sources.table@, self.sources.table@.len() as int);''')],
   where_add='G: HasLen')
endgroup()

# values are finite functions
group('impl IndexedCoproduct<FiniteFunction>')
fn(IC, 'initial', self_ty='IndexedCoproduct', status='P', props=['C08', 'C05'],
   ensures=[('C08.initial', 'r.sources.table@.len() == 0 && r.values.table@.len() == 0 && r.values.target == target'),
            ('C08.initial-wf', 'r.wf()')])
fn(IC, 'tensor', self_ty='IndexedCoproduct', status='P', props=['C08', 'C05', 'C02'], rules={'ops': ['bitor']},
   requires=['self.wf()', 'other.wf()', 'self.values.target + other.values.target <= usize::MAX',
             'self.values.table@.len() + other.values.table@.len() + 2 <= usize::MAX', 'self.sources.table@.len() + other.sources.table@.len() <= usize::MAX'],
   ensures=[('C08.tensor-sizes', 'r.sources.table@ == self.sources.table@ + other.sources.table@'),
            ('C08.tensor-values', '''r.values.table@.len() == self.values.table@.len() + other.values.table@.len()
                && (forall|i: int| 0 <= i < self.values.table@.len() ==> r.values.table@[i] == self.values.table@[i])
                && (forall|i: int| self.values.table@.len() <= i < self.values.table@.len() + other.values.table@.len() ==> r.values.table@[i] == self.values.target + other.values.table@[i - self.values.table@.len()])
                && r.values.target == self.values.target + other.values.target'''),
            ('C08.tensor-wf', 'r.wf()')],
   proofs=[('start', '''assert(lawful_clone::<usize>());
            lemma_psum_concat(self.sources.table@, other.sources.table@, other.sources.table@.len() as int);''')])
fn(IC, 'map_values', self_ty='IndexedCoproduct', status='P', props=['C08', 'C05', 'C01', 'C18'], rules={'ops': ['shr']},
   requires=['self.wf()', 'x.wf()'],
   ensures=[('C08.map_values-defined', 'r.is_some() <==> self.values.target == x.table@.len()'),
            ('C08.map_values', '''r.is_some() ==> r.unwrap().sources.table@ == self.sources.table@ && r.unwrap().sources.target == self.sources.target
                && r.unwrap().values.table@.len() == self.values.table@.len()
                && (forall|i: int| 0 <= i < self.values.table@.len() ==> r.unwrap().values.table@[i] == x.table@[self.values.table@[i] as int])
                && r.unwrap().values.target == x.target'''),
            ('C08.map_values-wf', 'r.is_some() ==> r.unwrap().wf()')])
fn(IC, 'map_semifinite', self_ty='IndexedCoproduct', status='P', props=['C08', 'C05'], rules={'ops': ['shr']}, where_add='T: Clone',
   requires=['self.wf()'],
   ensures=[('C08.map_semifinite-defined', 'r.is_some() <==> self.values.target == x@.len()'),
            ('C08.map_semifinite', '''r.is_some() ==> r.unwrap().sources.table@ == self.sources.table@ && r.unwrap().sources.target == self.sources.target
                && r.unwrap().values@.len() == self.values.table@.len()
                && (lawful_clone::<T>() ==> forall|i: int| 0 <= i < self.values.table@.len() ==> r.unwrap().values@[i] == x@[self.values.table@[i] as int])'''),
            ('C08.map_semifinite-wf', 'r.is_some() ==> r.unwrap().wf()')])
endgroup()

group('impl IndexedCoproduct<FiniteFunction>')
fn(IC, 'flatmap', self_ty='IndexedCoproduct', status='P', props=['C08', 'C05', 'C15'], rules={'ops': ['shr'], 'drop_into': True},
   requires=['self.wf()', 'other.wf()', 'self.values.target == other.sources.table@.len()',
             'total(kseq(other.sources.table@, self.values.table@)) + 1 < usize::MAX',
             'self.sources.table@.len() < usize::MAX', 'other.sources.table@.len() < usize::MAX', 'self.values.table@.len() < usize::MAX',
             'other.values.table@.len() < usize::MAX'],
   ensures=[('C08.flatmap-sizes', '''({ let k = kseq(other.sources.table@, self.values.table@); let s = self.sources.table@;
                r.sources.table@.len() == s.len() && (forall|i: int| 0 <= i < s.len() ==> r.sources.table@[i] == psum(k, psum(s, i + 1)) - psum(k, psum(s, i))) })'''),
            ('C08.flatmap-values', '''({ let k = kseq(other.sources.table@, self.values.table@);
                r.values.table@.len() == total(k) && r.values.target == other.values.target
                && (forall|p: int, j: int| 0 <= p < k.len() && 0 <= j < k[p] ==>
                      r.values.table@[#[trigger] seg_at(k, p, j)] == other.values.table@[psum(other.sources.table@, self.values.table@[p] as int) + j]) })'''),
            ('C08.flatmap-wf', 'r.wf()'),
            ('C08.flatmap-edges', 'forall|x: int, y: int| 0 <= x < self.sources.table@.len() ==> (#[trigger] adj_edge(r, x, y) <==> two_step(*self, *other, x, y))')],
   proofs=[('start', '''lemma_seg_wf_sources(self.sources, self.values.table@.len());
            lemma_seg_wf_sources(other.sources, other.values.table@.len());
            assert(lawful_clone::<usize>());
            lemma_ext_all(kseq(other.sources.table@, self.values.table@));'''),
           ('before:IndexedCoproduct::from_semifinite(', '''let k = kseq(other.sources.table@, self.values.table@);
            assert forall|p: int, j: int| 0 <= p < k.len() && 0 <= j < k[p] implies 0 <= #[trigger] seg_at(k, p, j) < total(k)
                && psum(other.sources.table@, self.values.table@[p] as int) + j < total(other.sources.table@) by {
                lemma_seg_range(k, p, j);
                lemma_seg_range(other.sources.table@, self.values.table@[p] as int, j);
            }
            lemma_segsum_total(self.sources.table@, k, sources_table@, self.sources.table@.len() as int);
            assert(total(sources_table@) == total(k));
            lemma_flatmap_edges(*self, *other, sources_table@, values.table@);''')])
endgroup()

def generic_values_fns(F, group_header, vlen, vtarget_clause, vidx, extra_req, eq_sizes):
    group(group_header)
    fn(IC, 'coproduct', self_ty='IndexedCoproduct', status='P', props=['C08', 'C05', 'C14'], rules={'ops': ['add'], 'subst': {'F': F}},
       requires=['self.wf()', 'other.wf()', '%s + %s + 2 <= usize::MAX' % (vlen('self'), vlen('other')),
                 'self.sources.table@.len() + other.sources.table@.len() <= usize::MAX'] + extra_req,
       ensures=[('C08.coproduct-defined', 'r.is_some() <==> ' + eq_sizes),
                ('C08.coproduct-sizes', 'r.is_some() ==> r.unwrap().sources.table@ == self.sources.table@ + other.sources.table@'),
                ('C08.coproduct-values', 'r.is_some() ==> ' + vidx('r.unwrap()', 'concat')),
                ('C08.coproduct-wf', 'r.is_some() ==> r.unwrap().wf()')],
       proofs=[('start', '''assert(lawful_clone::<usize>());
            lemma_psum_concat(self.sources.table@, other.sources.table@, other.sources.table@.len() as int);''')])
    fn(IC, 'indexed_values', self_ty='IndexedCoproduct', status='P', props=['C08', 'C05', 'C14', 'C15'], rules={'ops': ['shr'], 'subst': {'F': F}},
       requires=['self.wf()', 'x.wf()', '%s < usize::MAX' % vlen('self'), 'self.sources.table@.len() < usize::MAX', 'x.table@.len() < usize::MAX',
                 'x.target == self.sources.table@.len() ==> total(kseq(self.sources.table@, x.table@)) <= usize::MAX'] + extra_req,
       ensures=[('C08.indexed_values-defined', 'r.is_some() <==> x.target == self.sources.table@.len()'),
                ('C08.indexed_values', 'r.is_some() ==> ' + vidx('r.unwrap()', 'indexed'))],
       proofs=[('start', '''lemma_seg_wf_sources(self.sources, %s as nat);
            let kk = kseq(self.sources.table@, x.table@);
            assert forall|i: int, j: int| 0 <= i < kk.len() && 0 <= j < kk[i] implies 0 <= #[trigger] seg_at(kk, i, j) < total(kk) by { lemma_seg_range(kk, i, j); }
            if x.target == self.sources.table@.len() {
                assert forall|i: int, j: int| 0 <= i < kk.len() && 0 <= j < kk[i] implies 0 <= #[trigger] seg_at(kk, i, j) && psum(self.sources.table@, x.table@[i] as int) + j < total(self.sources.table@) by {
                    lemma_seg_range(kk, i, j);
                    lemma_seg_range(self.sources.table@, x.table@[i] as int, j);
                }
            }''' % vlen('self'))])
    fn(IC, 'map_indexes', self_ty='IndexedCoproduct', status='P', props=['C08', 'C05', 'C16', 'C18'], rules={'ops': ['shr'], 'subst': {'F': F}, 'drop_into': True},
       requires=['self.wf()', 'x.wf()', '%s < usize::MAX' % vlen('self'), 'self.sources.table@.len() < usize::MAX', 'x.table@.len() < usize::MAX',
                 'x.target == self.sources.table@.len() ==> total(kseq(self.sources.table@, x.table@)) + 1 < usize::MAX'] + extra_req,
       ensures=[('C08.map_indexes-defined', 'r.is_some() <==> x.target == self.sources.table@.len()'),
                ('C08.map_indexes-sizes', 'r.is_some() ==> r.unwrap().sources.table@ =~= kseq(self.sources.table@, x.table@)'),
                ('C08.map_indexes-values', 'r.is_some() ==> ' + vidx('r.unwrap().values', 'indexed')),
                ('C08.map_indexes-wf', 'r.is_some() ==> r.unwrap().wf()')],
       proofs=[('start', 'lemma_seg_wf_sources(self.sources, %s as nat);' % vlen('self')),
               ('before:IndexedCoproduct::from_semifinite(', 'assert(sources.table@ =~= kseq(self.sources.table@, x.table@));')])
    endgroup()

# --- F = FiniteFunction
def _vidx_ff(r, mode):
    if mode == 'concat':
        return '''({ let o = %s; o.values.table@ == self.values.table@ + other.values.table@ && o.values.target == self.values.target })''' % r
    return '''({ let o = %s; let s = self.sources.table@; let k = kseq(s, x.table@);
                o.table@.len() == total(k) && o.target == self.values.target && o.wf()
                && (forall|i: int, j: int| 0 <= i < k.len() && 0 <= j < k[i] ==> o.table@[#[trigger] seg_at(k, i, j)] == self.values.table@[psum(s, x.table@[i] as int) + j]) })''' % r
generic_values_fns('FiniteFunction', 'impl IndexedCoproduct<FiniteFunction>', lambda o: o + '.values.table@.len()', None, _vidx_ff, [],
                   'self.values.target == other.values.target')

# --- F = SemifiniteFunction<T>
def _vidx_sf(r, mode):
    if mode == 'concat':
        return '''({ let o = %s; o.values@.len() == self.values@.len() + other.values@.len() && (lawful_clone::<T>() ==> o.values@ == self.values@ + other.values@) })''' % r
    return '''({ let o = %s; let s = self.sources.table@; let k = kseq(s, x.table@);
                o@.len() == total(k)
                && (lawful_clone::<T>() ==> forall|i: int, j: int| 0 <= i < k.len() && 0 <= j < k[i] ==> o@[#[trigger] seg_at(k, i, j)] == self.values@[psum(s, x.table@[i] as int) + j]) })''' % r
generic_values_fns('SemifiniteFunction<T>', 'impl<T: Clone> IndexedCoproduct<SemifiniteFunction<T>>', lambda o: o + '.values@.len()', None, _vidx_sf, [],
                   'true')

# ---------------------------------------------------------------------------------------------
# iterators over segments (T2: trait methods next / size_hint / len / into_iter as inherent functions)
# ---------------------------------------------------------------------------------------------
typedef(IT, 'IndexedCoproductFiniteFunctionIterator')
typedef(SIT, 'IndexedCoproductSemifiniteFunctionIterator')

raw(r'''
/// pointers = prefix sums of the sizes (n + 1 entries, non-decreasing, last one bounded by the value length)
pub open spec fn ptr_wf(ptr: Seq<usize>, vlen: int, index: int) -> bool {
    &&& ptr.len() >= 1
    &&& 0 <= index <= ptr.len() - 1
    &&& forall|i: int, j: int| 0 <= i <= j < ptr.len() ==> ptr[i] <= ptr[j]
    &&& ptr[ptr.len() - 1] <= vlen
}
''')

group('impl IndexedCoproduct<FiniteFunction>')
fn(IT, 'into_iter', trait='IntoIterator', self_ty='IndexedCoproduct', status='P', props=['C08'], rules={'drop_into': True, 'subst': {'Self::IntoIter': 'IndexedCoproductFiniteFunctionIterator'}},
   requires=['self.wf()', 'self.sources.table@.len() < usize::MAX'],
   ensures=[('C08.into_iter', '''r.index == 0 && r.values == self.values && r.pointers@.len() == self.sources.table@.len() + 1
                && (forall|i: int| 0 <= i <= self.sources.table@.len() ==> r.pointers@[i] == psum(self.sources.table@, i))'''),
            ('C08.into_iter-wf', 'ptr_wf(r.pointers@, self.values.table@.len() as int, 0)')],
   proofs=[('end', '''assert forall|i: int, j: int| 0 <= i <= j <= self.sources.table@.len() implies psum(self.sources.table@, i) <= psum(self.sources.table@, j) by {
                lemma_psum_mono(self.sources.table@, i, j);
            }''')])
endgroup()
group('impl IndexedCoproductFiniteFunctionIterator')
fn(IT, 'next', trait='Iterator', self_ty='IndexedCoproductFiniteFunctionIterator', status='P', props=['C08'], rules={'subst': {'Self::Item': 'FiniteFunction'}},
   requires=['ptr_wf(old(self).pointers@, old(self).values.table@.len() as int, old(self).index as int)', 'old(self).values.wf()'],
   ensures=[('C08.next-frame', 'final(self).pointers@ == old(self).pointers@ && final(self).values == old(self).values'),
            ('C08.next-none', 'r.is_none() <==> old(self).index == old(self).pointers@.len() - 1'),
            ('C08.next-none-index', 'r.is_none() ==> final(self).index == old(self).index'),
            ('C08.next-some', '''r.is_some() ==> final(self).index == old(self).index + 1 && r.unwrap().target == old(self).values.target
                && r.unwrap().table@ =~= old(self).values.table@.subrange(old(self).pointers@[old(self).index as int] as int, old(self).pointers@[old(self).index + 1] as int)'''),
            ('C08.next-wf', 'ptr_wf(final(self).pointers@, final(self).values.table@.len() as int, final(self).index as int)')],
   proofs=[('start', 'assert(lawful_clone::<usize>());')])
fn(IT, 'size_hint', trait='Iterator', self_ty='IndexedCoproductFiniteFunctionIterator', status='P', props=['C08'], rules={'drop_into': True},
   requires=['ptr_wf(self.pointers@, self.values.table@.len() as int, self.index as int)'],
   ensures=[('C08.size_hint', 'r.0 == self.pointers@.len() - 1 - self.index && r.1 == Some(r.0)')])
fn(IT, 'len', trait='ExactSizeIterator', self_ty='IndexedCoproductFiniteFunctionIterator', status='P', props=['C08'], rules={'drop_into': True},
   requires=['ptr_wf(self.pointers@, self.values.table@.len() as int, self.index as int)'],
   ensures=[('C08.exact-size', 'r == self.pointers@.len() - 1 - self.index')])
endgroup()

group('impl<T: Clone> IndexedCoproduct<SemifiniteFunction<T>>')
fn(SIT, 'into_iter', trait='IntoIterator', self_ty='IndexedCoproduct', status='P', props=['C08'], rules={'drop_into': True, 'subst': {'Self::IntoIter': 'IndexedCoproductSemifiniteFunctionIterator<T>'}},
   requires=['self.wf()', 'self.sources.table@.len() < usize::MAX'],
   ensures=[('C08.sf-into_iter', '''r.index == 0 && r.values == self.values && r.pointers@.len() == self.sources.table@.len() + 1
                && (forall|i: int| 0 <= i <= self.sources.table@.len() ==> r.pointers@[i] == psum(self.sources.table@, i))'''),
            ('C08.sf-into_iter-wf', 'ptr_wf(r.pointers@, self.values@.len() as int, 0)')],
   proofs=[('end', '''assert forall|i: int, j: int| 0 <= i <= j <= self.sources.table@.len() implies psum(self.sources.table@, i) <= psum(self.sources.table@, j) by {
                lemma_psum_mono(self.sources.table@, i, j);
            }''')])
endgroup()
group('impl<T: Clone> IndexedCoproductSemifiniteFunctionIterator<T>')
fn(SIT, 'next', trait='Iterator', self_ty='IndexedCoproductSemifiniteFunctionIterator', status='P', props=['C08'], rules={'subst': {'Self::Item': 'SemifiniteFunction<T>'}},
   requires=['ptr_wf(old(self).pointers@, old(self).values@.len() as int, old(self).index as int)'],
   ensures=[('C08.sf-next-frame', 'final(self).pointers@ == old(self).pointers@ && final(self).values == old(self).values'),
            ('C08.sf-next-none', 'r.is_none() <==> old(self).index == old(self).pointers@.len() - 1'),
            ('C08.sf-next-none-index', 'r.is_none() ==> final(self).index == old(self).index'),
            ('C08.sf-next-some', '''r.is_some() ==> final(self).index == old(self).index + 1
                && r.unwrap()@.len() == old(self).pointers@[old(self).index + 1] - old(self).pointers@[old(self).index as int]
                && (lawful_clone::<T>() ==> r.unwrap()@ =~= old(self).values@.subrange(old(self).pointers@[old(self).index as int] as int, old(self).pointers@[old(self).index + 1] as int))'''),
            ('C08.sf-next-wf', 'ptr_wf(final(self).pointers@, final(self).values@.len() as int, final(self).index as int)')],
   proofs=[('start', 'assert(lawful_clone::<usize>());')])
fn(SIT, 'size_hint', trait='Iterator', self_ty='IndexedCoproductSemifiniteFunctionIterator', status='P', props=['C08'], rules={'drop_into': True},
   requires=['ptr_wf(self.pointers@, self.values@.len() as int, self.index as int)'],
   ensures=[('C08.sf-size_hint', 'r.0 == self.pointers@.len() - 1 - self.index && r.1 == Some(r.0)')])
fn(SIT, 'len', trait='ExactSizeIterator', self_ty='IndexedCoproductSemifiniteFunctionIterator', status='P', props=['C08'], rules={'drop_into': True},
   requires=['ptr_wf(self.pointers@, self.values@.len() as int, self.index as int)'],
   ensures=[('C08.sf-exact-size', 'r == self.pointers@.len() - 1 - self.index')])
endgroup()

# ---------------------------------------------------------------------------------------------
# operation batches
# ---------------------------------------------------------------------------------------------
typedef(OPS, 'Operations')

raw(r'''
impl<O, A> Operations<O, A> {
    pub open spec fn wf(&self) -> bool {
        &&& self.a.wf() && self.b.wf()
        &&& self.x@.len() == self.a.sources.table@.len()
        &&& self.x@.len() == self.b.sources.table@.len()
    }
}
''')
raw(r'''
/// two operation batches with the same contents (what clone returns, for lawful element clones)
pub open spec fn ops_same<O: Clone, A: Clone>(p: Operations<O, A>, q: Operations<O, A>) -> bool {
    &&& p.x@.len() == q.x@.len() && p.a.values@.len() == q.a.values@.len() && p.b.values@.len() == q.b.values@.len()
    &&& p.a.sources.table@ == q.a.sources.table@ && p.a.sources.target == q.a.sources.target
    &&& p.b.sources.table@ == q.b.sources.table@ && p.b.sources.target == q.b.sources.target
    &&& lawful_clone::<O>() ==> p.a.values@ == q.a.values@ && p.b.values@ == q.b.values@
    &&& lawful_clone::<A>() ==> p.x@ == q.x@
}
''')
group('impl<O: Clone, A: Clone> Clone for Operations<O, A>')
fn(OPS, 'clone', trait='Clone', self_ty='Operations', status='P', props=['C08', 'C14'],
   ensures=[('C08.operations-clone', 'ops_same(r, *self)')])
endgroup()
group('impl<O: Clone, A: Clone> Operations<O, A>')
fn(OPS, 'new', self_ty='Operations', status='P', props=['C08', 'C05'],
   ensures=[('C05.operations-new-iff', 'r.is_some() <==> (x@.len() == a.sources.table@.len() && x@.len() == b.sources.table@.len())'),
            ('C05.operations-new-same', 'r.is_some() ==> r.unwrap().x == x && r.unwrap().a == a && r.unwrap().b == b')])
fn(OPS, 'validate', self_ty='Operations', status='P', props=['C08', 'C05'],
   ensures=[('C05.operations-validate-iff', 'r.is_some() <==> (self.x@.len() == self.a.sources.table@.len() && self.x@.len() == self.b.sources.table@.len())'),
            ('C05.operations-validate-same', 'r.is_some() ==> r.unwrap() == self')])
fn(OPS, 'singleton', self_ty='Operations', status='P', props=['C08', 'C05'],
   requires=['a@.len() < usize::MAX', 'b@.len() < usize::MAX'],
   ensures=[('C05.operations-singleton', '''r.x@.len() == 1 && (lawful_clone::<A>() ==> r.x@[0] == x)
                && r.a.sources.table@ =~= seq![a@.len() as usize] && r.a.values == a
                && r.b.sources.table@ =~= seq![b@.len() as usize] && r.b.values == b'''),
            ('C05.operations-singleton-wf', 'r.wf()')])
fn(OPS, 'len', self_ty='Operations', status='P', props=['C08'],
   ensures=[('C08.operations-len', 'r == self.x@.len()')])
endgroup()
