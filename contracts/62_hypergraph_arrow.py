# strict/hypergraph/arrow.rs: morphisms of hypergraphs.  Property C18 (validate, is_monomorphism proved;
# is_convex_subgraph bounded).
HA = 'src/strict/hypergraph/arrow.rs'
IC = 'src/indexed_coproduct/arrow.rs'

module('hypergraph_arrow', uses=['vstd::std_specs::cmp::*'])

raw(r'''
impl PartialEqSpecImpl for IndexedCoproduct<FiniteFunction> {
    open spec fn obeys_eq_spec() -> bool { true }
    open spec fn eq_spec(&self, other: &Self) -> bool {
        self.sources.table@ == other.sources.table@ && self.sources.target == other.sources.target
        && self.values.table@ == other.values.table@ && self.values.target == other.values.target
    }
}
''')
group('impl PartialEq for IndexedCoproduct<FiniteFunction>')
fn(IC, 'eq', trait='PartialEq', self_ty='IndexedCoproduct', status='P', props=['C18'], rules={'subst': {'F': 'FiniteFunction'}},
   ensures=[('C18.ic-eq', '''r <==> (self.sources.table@ =~= other.sources.table@ && self.sources.target == other.sources.target
                && self.values.table@ =~= other.values.table@ && self.values.target == other.values.target)''')])
endgroup()

typedef(HA, 'InvalidHypergraphArrow')
typedef(HA, 'HypergraphArrow')

raw(r'''
/// labels are preserved along a map m : |g| -> |h|
pub open spec fn labels_preserved<T>(gl: Seq<T>, hl: Seq<T>, m: FiniteFunction) -> bool {
    &&& m.table@.len() == gl.len()
    &&& m.target == hl.len()
    &&& forall|i: int| 0 <= i < gl.len() ==> gl[i] == hl[m.table@[i] as int]
}

/// the ordered incidence lists of every hyperedge e of g are sent elementwise (through w) onto those of x(e)
pub open spec fn incidence_preserved(gs: IndexedCoproduct<FiniteFunction>, hs: IndexedCoproduct<FiniteFunction>, w: FiniteFunction, x: FiniteFunction) -> bool {
    let k = kseq(hs.sources.table@, x.table@);
    &&& gs.sources.table@ =~= k
    &&& forall|e: int, j: int| 0 <= e < k.len() && 0 <= j < k[e] ==>
            w.table@[gs.values.table@[#[trigger] seg_at(k, e, j)] as int] == hs.values.table@[psum(hs.sources.table@, x.table@[e] as int) + j]
}

pub open spec fn is_morphism<O, A>(m: HypergraphArrow<O, A>) -> bool {
    &&& labels_preserved(m.source.w@, m.target.w@, m.w)
    &&& labels_preserved(m.source.x@, m.target.x@, m.x)
    &&& incidence_preserved(m.source.s, m.target.s, m.w, m.x)
    &&& incidence_preserved(m.source.t, m.target.t, m.w, m.x)
}

pub open spec fn arrow_fits<O, A>(m: HypergraphArrow<O, A>) -> bool {
    &&& m.source.s.values.table@.len() + 1 < usize::MAX && m.source.t.values.table@.len() + 1 < usize::MAX
    &&& m.target.s.values.table@.len() + 1 < usize::MAX && m.target.t.values.table@.len() + 1 < usize::MAX
    &&& m.target.s.sources.table@.len() < usize::MAX && m.x.table@.len() < usize::MAX
    &&& (m.x.target == m.target.x@.len() ==> total(kseq(m.target.s.sources.table@, m.x.table@)) + 1 < usize::MAX && total(kseq(m.target.t.sources.table@, m.x.table@)) + 1 < usize::MAX)
}
''')

group('impl<O: Clone + PartialEq, A: Clone + PartialEq> HypergraphArrow<O, A>')
fn(HA, 'new', self_ty='HypergraphArrow', status='P', props=['C18'],
   requires=['source.wf()', 'target.wf()', 'w.wf()', 'x.wf()', 'lawful_clone::<O>()', 'lawful_eq::<O>()', 'lawful_clone::<A>()', 'lawful_eq::<A>()',
             'arrow_fits(HypergraphArrow { source, target, w, x })'],
   ensures=[('C18.new-iff', 'r.is_ok() <==> is_morphism(HypergraphArrow { source, target, w, x })')])
fn(HA, 'validate', self_ty='HypergraphArrow', status='P', props=['C18'], rules={'ops': ['shr']},
   requires=['self.source.wf()', 'self.target.wf()', 'self.w.wf()', 'self.x.wf()', 'lawful_clone::<O>()', 'lawful_eq::<O>()', 'lawful_clone::<A>()', 'lawful_eq::<A>()',
             'arrow_fits(self)'],
   proofs=[('before:if s_lhs != s_rhs', '''let gs = g.s; let hs = h.s; let k = kseq(hs.sources.table@, self.x.table@);
            let l = s_lhs; let rr = s_rhs;
            lemma_seg_wf_sources(gs.sources, gs.values.table@.len());
            assert forall|e: int, j: int| 0 <= e < k.len() && 0 <= j < k[e] implies 0 <= #[trigger] seg_at(k, e, j) < total(k) by { lemma_seg_range(k, e, j); }
            let eqv = l.sources.table@ =~= rr.sources.table@ && l.sources.target == rr.sources.target && l.values.table@ =~= rr.values.table@ && l.values.target == rr.values.target;
            assert(eqv <==> incidence_preserved(gs, hs, self.w, self.x)) by {
                if incidence_preserved(gs, hs, self.w, self.x) {
                    assert(l.sources.table@ =~= rr.sources.table@);
                    assert(l.values.table@.len() == rr.values.table@.len());
                    assert forall|m: int| 0 <= m < l.values.table@.len() implies l.values.table@[m] == rr.values.table@[m] by {
                        let (e, j) = lemma_seg_find(k, m);
                        assert(m == seg_at(k, e, j));
                    }
                }
                if eqv {
                    assert(gs.sources.table@ =~= k);
                }
            }'''),
           ('before:if t_lhs != t_rhs', '''let gs = g.t; let hs = h.t; let k = kseq(hs.sources.table@, self.x.table@);
            let l = t_lhs; let rr = t_rhs;
            lemma_seg_wf_sources(gs.sources, gs.values.table@.len());
            assert forall|e: int, j: int| 0 <= e < k.len() && 0 <= j < k[e] implies 0 <= #[trigger] seg_at(k, e, j) < total(k) by { lemma_seg_range(k, e, j); }
            let eqv = l.sources.table@ =~= rr.sources.table@ && l.sources.target == rr.sources.target && l.values.table@ =~= rr.values.table@ && l.values.target == rr.values.target;
            assert(eqv <==> incidence_preserved(gs, hs, self.w, self.x)) by {
                if incidence_preserved(gs, hs, self.w, self.x) {
                    assert(l.sources.table@ =~= rr.sources.table@);
                    assert(l.values.table@.len() == rr.values.table@.len());
                    assert forall|m: int| 0 <= m < l.values.table@.len() implies l.values.table@[m] == rr.values.table@[m] by {
                        let (e, j) = lemma_seg_find(k, m);
                        assert(m == seg_at(k, e, j));
                    }
                }
                if eqv {
                    assert(gs.sources.table@ =~= k);
                }
            }''')],
   ensures=[('C18.validate-iff', 'r.is_ok() <==> is_morphism(self)'),
            ('C18.validate-same', 'match r { Ok(m) => m == self, Err(_) => true }'),
            ('C18.validate-err', '''match r { Ok(_) => true, Err(e) => match e {
                    InvalidHypergraphArrow::TypeMismatchW => self.w.target != self.target.w@.len(),
                    InvalidHypergraphArrow::TypeMismatchX => self.x.target != self.target.x@.len(),
                    InvalidHypergraphArrow::NotNaturalW => !labels_preserved(self.source.w@, self.target.w@, self.w),
                    InvalidHypergraphArrow::NotNaturalX => !labels_preserved(self.source.x@, self.target.x@, self.x),
                    InvalidHypergraphArrow::NotNaturalS => !incidence_preserved(self.source.s, self.target.s, self.w, self.x),
                    InvalidHypergraphArrow::NotNaturalT => !incidence_preserved(self.source.t, self.target.t, self.w, self.x),
                } }''')])
fn(HA, 'is_monomorphism', self_ty='HypergraphArrow', status='P', props=['C18'],
   requires=['self.w.wf()', 'self.x.wf()'],
   ensures=[('C18.is_monomorphism', 'r <==> (injective(self.w.table@) && injective(self.x.table@))')])
endgroup()
