# strict/hypergraph/arrow.rs: morphisms of hypergraphs.  Property C18 (validate, is_monomorphism proved;
# is_convex_subgraph bounded).
HA = 'src/strict/hypergraph/arrow.rs'
IC = 'src/indexed_coproduct/arrow.rs'

module('hypergraph_arrow', uses=['vstd::std_specs::cmp::*'])

raw(r'''
impl PartialEqSpecImpl for IndexedCoproduct<FiniteFunction> {
    open spec fn obeys_eq_spec() -> bool { true }
    open spec fn eq_spec(&self, other: &Self) -> bool {
        self.sources.table@ == other.sources.table@ && self.sources.target == other.sources.target
        && self.values.table@ == other.values.table@ && self.values.target == other.values.target
    }
}
''')
group('impl PartialEq for IndexedCoproduct<FiniteFunction>')
fn(IC, 'eq', trait='PartialEq', self_ty='IndexedCoproduct', status='P', props=['C18'], rules={'subst': {'F': 'FiniteFunction'}},
   ensures=[('C18.ic-eq', '''r <==> (self.sources.table@ =~= other.sources.table@ && self.sources.target == other.sources.target
                && self.values.table@ =~= other.values.table@ && self.values.target == other.values.target)''')])
endgroup()

typedef(HA, 'InvalidHypergraphArrow')
typedef(HA, 'HypergraphArrow')

raw(r'''
/// labels are preserved along a map m : |g| -> |h|
pub open spec fn labels_preserved<T>(gl: Seq<T>, hl: Seq<T>, m: FiniteFunction) -> bool {
    &&& m.table@.len() == gl.len()
    &&& m.target == hl.len()
    &&& forall|i: int| 0 <= i < gl.len() ==> gl[i] == hl[m.table@[i] as int]
}

/// the ordered incidence lists of every hyperedge e of g are sent elementwise (through w) onto those of x(e)
pub open spec fn incidence_preserved(gs: IndexedCoproduct<FiniteFunction>, hs: IndexedCoproduct<FiniteFunction>, w: FiniteFunction, x: FiniteFunction) -> bool {
    let k = kseq(hs.sources.table@, x.table@);
    &&& gs.sources.table@ =~= k
    &&& forall|e: int, j: int| 0 <= e < k.len() && 0 <= j < k[e] ==>
            w.table@[gs.values.table@[#[trigger] seg_at(k, e, j)] as int] == hs.values.table@[psum(hs.sources.table@, x.table@[e] as int) + j]
}

pub open spec fn is_morphism<O, A>(m: HypergraphArrow<O, A>) -> bool {
    &&& labels_preserved(m.source.w@, m.target.w@, m.w)
    &&& labels_preserved(m.source.x@, m.target.x@, m.x)
    &&& incidence_preserved(m.source.s, m.target.s, m.w, m.x)
    &&& incidence_preserved(m.source.t, m.target.t, m.w, m.x)
}

pub open spec fn arrow_fits<O, A>(m: HypergraphArrow<O, A>) -> bool {
    &&& m.source.s.values.table@.len() + 1 < usize::MAX && m.source.t.values.table@.len() + 1 < usize::MAX
    &&& m.target.s.values.table@.len() + 1 < usize::MAX && m.target.t.values.table@.len() + 1 < usize::MAX
    &&& m.target.s.sources.table@.len() < usize::MAX && m.x.table@.len() < usize::MAX
    &&& (m.x.target == m.target.x@.len() ==> total(kseq(m.target.s.sources.table@, m.x.table@)) + 1 < usize::MAX && total(kseq(m.target.t.sources.table@, m.x.table@)) + 1 < usize::MAX)
}
''')

group('impl<O: Clone + PartialEq, A: Clone + PartialEq> HypergraphArrow<O, A>')
fn(HA, 'new', self_ty='HypergraphArrow', status='P', props=['C18'],
   requires=['source.wf()', 'target.wf()', 'w.wf()', 'x.wf()', 'lawful_clone::<O>()', 'lawful_eq::<O>()', 'lawful_clone::<A>()', 'lawful_eq::<A>()',
             'arrow_fits(HypergraphArrow { source, target, w, x })'],
   ensures=[('C18.new-iff', 'r.is_ok() <==> is_morphism(HypergraphArrow { source, target, w, x })')])
fn(HA, 'validate', self_ty='HypergraphArrow', status='P', props=['C18'], rules={'ops': ['shr']},
   requires=['self.source.wf()', 'self.target.wf()', 'self.w.wf()', 'self.x.wf()', 'lawful_clone::<O>()', 'lawful_eq::<O>()', 'lawful_clone::<A>()', 'lawful_eq::<A>()',
             'arrow_fits(self)'],
   proofs=[('before:if s_lhs != s_rhs', '''let gs = g.s; let hs = h.s; let k = kseq(hs.sources.table@, self.x.table@);
            let l = s_lhs; let rr = s_rhs;
            lemma_seg_wf_sources(gs.sources, gs.values.table@.len());
            assert forall|e: int, j: int| 0 <= e < k.len() && 0 <= j < k[e] implies 0 <= #[trigger] seg_at(k, e, j) < total(k) by { lemma_seg_range(k, e, j); }
            let eqv = l.sources.table@ =~= rr.sources.table@ && l.sources.target == rr.sources.target && l.values.table@ =~= rr.values.table@ && l.values.target == rr.values.target;
            assert(eqv <==> incidence_preserved(gs, hs, self.w, self.x)) by {
                if incidence_preserved(gs, hs, self.w, self.x) {
                    assert(l.sources.table@ =~= rr.sources.table@);
                    assert(l.values.table@.len() == rr.values.table@.len());
                    assert forall|m: int| 0 <= m < l.values.table@.len() implies l.values.table@[m] == rr.values.table@[m] by {
                        let (e, j) = lemma_seg_find(k, m);
                        assert(m == seg_at(k, e, j));
                    }
                }
                if eqv {
                    assert(gs.sources.table@ =~= k);
                }
            }'''),
           ('before:if t_lhs != t_rhs', '''let gs = g.t; let hs = h.t; let k = kseq(hs.sources.table@, self.x.table@);
            let l = t_lhs; let rr = t_rhs;
            lemma_seg_wf_sources(gs.sources, gs.values.table@.len());
            assert forall|e: int, j: int| 0 <= e < k.len() && 0 <= j < k[e] implies 0 <= #[trigger] seg_at(k, e, j) < total(k) by { lemma_seg_range(k, e, j); }
            let eqv = l.sources.table@ =~= rr.sources.table@ && l.sources.target == rr.sources.target && l.values.table@ =~= rr.values.table@ && l.values.target == rr.values.target;
            assert(eqv <==> incidence_preserved(gs, hs, self.w, self.x)) by {
                if incidence_preserved(gs, hs, self.w, self.x) {
                    assert(l.sources.table@ =~= rr.sources.table@);
                    assert(l.values.table@.len() == rr.values.table@.len());
                    assert forall|m: int| 0 <= m < l.values.table@.len() implies l.values.table@[m] == rr.values.table@[m] by {
                        let (e, j) = lemma_seg_find(k, m);
                        assert(m == seg_at(k, e, j));
                    }
                }
                if eqv {
                    assert(gs.sources.table@ =~= k);
                }
            }''')],
   ensures=[('C18.validate-iff', 'r.is_ok() <==> is_morphism(self)'),
            ('C18.validate-same', 'match r { Ok(m) => m == self, Err(_) => true }'),
            ('C18.validate-err', '''match r { Ok(_) => true, Err(e) => match e {
                    InvalidHypergraphArrow::TypeMismatchW => self.w.target != self.target.w@.len(),
                    InvalidHypergraphArrow::TypeMismatchX => self.x.target != self.target.x@.len(),
                    InvalidHypergraphArrow::NotNaturalW => !labels_preserved(self.source.w@, self.target.w@, self.w),
                    InvalidHypergraphArrow::NotNaturalX => !labels_preserved(self.source.x@, self.target.x@, self.x),
                    InvalidHypergraphArrow::NotNaturalS => !incidence_preserved(self.source.s, self.target.s, self.w, self.x),
                    InvalidHypergraphArrow::NotNaturalT => !incidence_preserved(self.source.t, self.target.t, self.w, self.x),
                } }''')])
fn(HA, 'is_monomorphism', self_ty='HypergraphArrow', status='P', props=['C18'],
   requires=['self.w.wf()', 'self.x.wf()'],
   ensures=[('C18.is_monomorphism', 'r <==> (injective(self.w.table@) && injective(self.x.table@))')])
fn(HA, 'is_convex_subgraph', self_ty='HypergraphArrow', status='P', props=['C18'],
   requires=['self.target.wf()', 'self.w.wf()', 'self.x.wf()', 'self.w.target == self.target.w@.len()', 'self.x.target == self.target.x@.len()',
             'adjacency_fits(self.target.s, self.target.t)', 'self.target.w@.len() * 2 <= usize::MAX', 'self.target.x@.len() < usize::MAX',
             'self.target.s.values.table@.len() + 1 < usize::MAX', 'self.target.t.values.table@.len() + 1 < usize::MAX'],
   ensures=[('C18.is_convex', '''r <==> (injective(self.w.table@) && injective(self.x.table@)
                && forall|k: int| 0 <= k < self.w.table@.len() ==> !reach1(self.target.s, self.target.t, self.x.table@, outside_list(self.x.table@, self.target.x@.len() as int), self.w.table@, (#[trigger] self.w.table@[k]) as int))''')],
   closures={1: {'header': '|m: usize| -> (b: bool)', 'spec': 'ensures b == (m >= 1usize),'}},
   loops={1: {'invariant': [
       'self.target.wf()', 'self.w.wf()', 'self.x.wf()', 'self.w.target == self.target.w@.len()', 'self.target.w@.len() * 2 <= usize::MAX',
       'injective(self.w.table@)', 'n_nodes == self.target.w@.len()',
       'adj_is(adj_in, self.target.s, self.target.t, self.x.table@, self.target.w@.len() as int)', 'adj_is(adj_out, self.target.s, self.target.t, outside_list(self.x.table@, self.target.x@.len() as int), self.target.w@.len() as int)', 'adj_is_all(adj_all, self.target.s, self.target.t, self.target.w@.len() as int)',
       'bfs_inv(self.target.s, self.target.t, self.x.table@, outside_list(self.x.table@, self.target.x@.len() as int), self.w.table@, self.target.w@.len() as int, visited0@, visited1@, frontier0@, frontier1@)',
       'total(visited0@) <= self.target.w@.len() as int', 'total(visited1@) <= self.target.w@.len() as int'],
       'ensures': ['bfs_done(self.target.s, self.target.t, self.x.table@, outside_list(self.x.table@, self.target.x@.len() as int), self.w.table@, self.target.w@.len() as int, visited0@, visited1@)'],
       'decreases': '2 * self.target.w@.len() - total(visited0@) - total(visited1@)'}},
   proofs=[('start', 'assert(lawful_clone::<usize>());'),
           ('after:edge_mask.scatter_assign_constant(&self.x.table, K::I::one());', '''assert(edge_mask@ =~= edge_marks(self.x.table@, self.target.x@.len() as int));
            lemma_outside_list(self.x.table@, self.target.x@.len() as int);
            lemma_injective_small(self.x.table@, self.target.x@.len() as int);
            lemma_seg_wf_sources(g.s.sources, g.s.values.table@.len()); lemma_seg_wf_sources(g.t.sources, g.t.values.table@.len());
            lemma_injective_selection(g.s.sources.table@, self.x.table@); lemma_injective_selection(g.t.sources.table@, self.x.table@);
            lemma_injective_selection(g.s.sources.table@, outside_list(self.x.table@, self.target.x@.len() as int)); lemma_injective_selection(g.t.sources.table@, outside_list(self.x.table@, self.target.x@.len() as int));'''),
           ('before:let adj_in = ', '''lemma_reindex_edges(g.s, self.x.table@, s_in); lemma_reindex_edges(g.t, self.x.table@, t_in);
            lemma_reindex_step(g.s, g.t, self.x.table@, s_in, t_in);
            assert(s_in.values.table@.len() * t_in.values.table@.len() <= g.s.values.table@.len() * g.t.values.table@.len()) by (nonlinear_arith)
                requires 0 <= s_in.values.table@.len() <= g.s.values.table@.len(), 0 <= t_in.values.table@.len() <= g.t.values.table@.len();'''),
           ('before:let adj_out = ', '''lemma_reindex_edges(g.s, outside_edges.table@, s_out); lemma_reindex_edges(g.t, outside_edges.table@, t_out);
            lemma_reindex_step(g.s, g.t, outside_edges.table@, s_out, t_out);
            assert(s_out.values.table@.len() * t_out.values.table@.len() <= g.s.values.table@.len() * g.t.values.table@.len()) by (nonlinear_arith)
                requires 0 <= s_out.values.table@.len() <= g.s.values.table@.len(), 0 <= t_out.values.table@.len() <= g.t.values.table@.len();'''),
           ('before:while !frontier0.is_empty()', '''lemma_bfs_init(self.target.s, self.target.t, self.x.table@, outside_list(self.x.table@, self.target.x@.len() as int), self.w.table@, self.target.w@.len() as int, visited0@, visited1@, frontier1@);
            lemma_psum_le(visited0@, 1, self.target.w@.len() as int); lemma_psum_const(visited1@, 0usize, self.target.w@.len() as int);'''),
           G('before:let next0: K::Index = successors::<K>(&adj_in, &frontier0);', '''let ghost v0 = visited0@; let ghost v1 = visited1@; let ghost f0 = frontier0@; let ghost f1 = frontier1@;
        proof { assert(lawful_clone::<usize>()); lemma_injective_small(f0, self.target.w@.len() as int); lemma_injective_small(f1, self.target.w@.len() as int); }'''),
           G('before:let next0: K::Index = filter_unvisited::<K>(&visited0, &next0);', 'let ghost c0 = next0@;'),
           ('before:let next1: K::Index = {', 'lemma_injective_small(next1_from0@, self.target.w@.len() as int); lemma_injective_small(next1_from1@, self.target.w@.len() as int);'),
           ('before:filter_unvisited::<K>(&visited1, &unique)', '''lemma_uniq_bounds(next1_from0@, next1_from1@, unique@, self.target.w@.len() as int);
            assert forall|r: Seq<usize>| #![trigger pick_ok(visited1@, unique@, r)] pick_ok(visited1@, unique@, r) implies next1_ok(next1_from0@, next1_from1@, visited1@, r, self.target.w@.len() as int) by {
                lemma_next1(next1_from0@, next1_from1@, unique@, visited1@, r, self.target.w@.len() as int);
            }'''),
           ('after:let next1: K::Index = {', '''assert(next1_ok(next1_from0@, next1_from1@, v1, next1@, self.target.w@.len() as int));
            lemma_round(self.target.s, self.target.t, self.x.table@, outside_list(self.x.table@, self.target.x@.len() as int), self.target.w@.len() as int, adj_in, adj_out, adj_all, v0, v1, f0, f1, c0, next1_from0@, next1_from1@, next0@, next1@);'''),
           ('before:break;', 'lemma_bfs_break(self.target.s, self.target.t, self.x.table@, outside_list(self.x.table@, self.target.x@.len() as int), self.w.table@, self.target.w@.len() as int, v0, v1, f0, f1, next0@, next1@);'),
           ('after:visited1.scatter_assign_constant(&next1, K::I::one());', 'lemma_bfs_step(self.target.s, self.target.t, self.x.table@, outside_list(self.x.table@, self.target.x@.len() as int), self.w.table@, self.target.w@.len() as int, v0, v1, f0, f1, next0@, next1@, visited0@, visited1@);'),
           ('end', '''lemma_bfs_exact(self.target.s, self.target.t, self.x.table@, outside_list(self.x.table@, self.target.x@.len() as int), self.w.table@, self.target.w@.len() as int, visited0@, visited1@);
            assert forall|k: int| 0 <= k < self.w.table@.len() implies (reach1(self.target.s, self.target.t, self.x.table@, outside_list(self.x.table@, self.target.x@.len() as int), self.w.table@, (#[trigger] self.w.table@[k]) as int) <==> reached_selected@[k] >= 1) by {
                assert(reached_selected@[k] == visited1@[self.w.table@[k] as int]);
            }''')])
endgroup()
raw(r'''
// ---------------------------------------------------------------------------------------------
// helpers of the two-layer search in is_convex_subgraph
// ---------------------------------------------------------------------------------------------
/// r lists exactly the candidates whose flag is still 0
pub open spec fn pick_ok(vis: Seq<usize>, cand: Seq<usize>, r: Seq<usize>) -> bool {
    &&& in_bounds(r, vis.len() as int) && (injective(cand) ==> injective(r)) && r.len() <= cand.len()
    &&& forall|t: int| 0 <= t < r.len() ==> vis[(#[trigger] r[t]) as int] == 0 && hit(cand, r[t] as int, cand.len() as int)
    &&& forall|c: int| 0 <= c < cand.len() && vis[(#[trigger] cand[c]) as int] == 0 ==> hit(r, cand[c] as int, r.len() as int)
}

/// `candidates.gather(zero(visited.gather(candidates)))`: the candidates whose flag is still 0, in order
pub proof fn lemma_pick_zeros(vis: Seq<usize>, cand: Seq<usize>, r: Seq<usize>)
    requires in_bounds(cand, vis.len() as int), cand.len() <= usize::MAX,
        r.len() == zeros_upto(kseq(vis, cand), cand.len() as int).len(),
        forall|t: int| 0 <= t < r.len() ==> #[trigger] r[t] == cand[zeros_upto(kseq(vis, cand), cand.len() as int)[t] as int],
    ensures pick_ok(vis, cand, r)
{
    let g = kseq(vis, cand); let z = zeros_upto(g, cand.len() as int);
    lemma_zeros_props(g, cand.len() as int);
    assert forall|t: int| 0 <= t < r.len() implies (#[trigger] r[t]) < vis.len() && vis[r[t] as int] == 0 && hit(cand, r[t] as int, cand.len() as int) by {
        assert(z[t] < cand.len() && g[z[t] as int] == 0);
        assert(cand[z[t] as int] == r[t]);
    }
    if injective(cand) {
        assert forall|t1: int, t2: int| 0 <= t1 < r.len() && 0 <= t2 < r.len() && t1 != t2 implies r[t1] != r[t2] by {
            assert(z[t1] < cand.len() && z[t2] < cand.len());
            if t1 < t2 { assert(z[t1] < z[t2]); } else { assert(z[t2] < z[t1]); }
        }
    }
    assert forall|c: int| 0 <= c < cand.len() && vis[(#[trigger] cand[c]) as int] == 0 implies hit(r, cand[c] as int, r.len() as int) by {
        assert(g[c] == 0);
        let t = choose|t: int| 0 <= t < z.len() && #[trigger] z[t] == c;
        assert(r[t] == cand[c]);
    }
}
''')

fn(HA, 'successors', kind='free', status='P', props=['C18'],
   requires=['adj_wf(*adjacency)', 'in_bounds(frontier@, adjacency.sources.table@.len() as int)', 'injective(frontier@)',
             'adjacency.values.table@.len() < usize::MAX', 'adjacency.sources.table@.len() < usize::MAX', 'frontier@.len() < usize::MAX'],
   ensures=[('C18.successors-shape', 'in_bounds(r@, adjacency.sources.table@.len() as int) && injective(r@)'),
            ('C18.successors', 'forall|v: int| 0 <= v < adjacency.sources.table@.len() ==> (hit(r@, v, r@.len() as int) <==> #[trigger] edge_from(*adjacency, frontier@, v))')],
   proofs=[('start', 'assert(lawful_clone::<usize>());'),
           ('end', '''assert forall|v: int| 0 <= v < adjacency.sources.table@.len() implies (hit(g.table@, v, g.table@.len() as int) <==> #[trigger] edge_from(*adjacency, frontier@, v)) by {
                lemma_rel_nonneg(*adjacency, f.table@, v, f.table@.len() as int);
                if hit(g.table@, v, g.table@.len() as int) {
                    let k = choose|k: int| 0 <= k < g.table@.len() && #[trigger] g.table@[k] == v;
                    assert(rel(*adjacency, f.table@, g.table@[k] as int, f.table@.len() as int) > 0);
                    let k2 = lemma_rel_witness(*adjacency, f.table@, v, f.table@.len() as int);
                    assert(adj_edge(*adjacency, frontier@[k2] as int, v));
                }
                if edge_from(*adjacency, frontier@, v) {
                    let k2 = choose|k: int| 0 <= k < frontier@.len() && adj_edge(*adjacency, (#[trigger] frontier@[k]) as int, v);
                    lemma_rel_edge(*adjacency, f.table@, v, f.table@.len() as int, k2);
                }
            }''')])
fn(HA, 'filter_unvisited', kind='free', status='P', props=['C18'],
   requires=['in_bounds(candidates@, visited@.len() as int)'],
   ensures=[('C18.filter_unvisited', 'pick_ok(visited@, candidates@, r@)')],
   proofs=[('start', 'assert(lawful_clone::<usize>());'),
           ('before:let visited_on_candidates', '''assert(candidates@.len() <= usize::MAX) by { vstd::std_specs::vec::axiom_spec_len(&candidates.0); }
            lemma_zeros_props(kseq(visited@, candidates@), candidates@.len() as int);'''),
           ('end', '''assert(visited_on_candidates@ =~= kseq(visited@, candidates@));
            assert forall|r: Seq<usize>| #![trigger r.len()] r.len() == unvisited_ix@.len() && (forall|t: int| 0 <= t < r.len() ==> r[t] == candidates@[unvisited_ix@[t] as int])
                implies pick_ok(visited@, candidates@, r) by { lemma_pick_zeros(visited@, candidates@, r); }''')])

raw(r'''
// ---------------------------------------------------------------------------------------------
// ghost model of the two-layer search of is_convex_subgraph
// ---------------------------------------------------------------------------------------------
/// some hyperedge listed in es has w among its sources and v among its targets
pub open spec fn thru(s: IndexedCoproduct<FiniteFunction>, t: IndexedCoproduct<FiniteFunction>, es: Seq<usize>, w: int, v: int) -> bool {
    exists|i: int| 0 <= i < es.len() && adj_edge(s, (#[trigger] es[i]) as int, w) && adj_edge(t, es[i] as int, v)
}

/// v is reached from a seed by at most k steps through hyperedges of xin only
pub open spec fn r0(s: IndexedCoproduct<FiniteFunction>, t: IndexedCoproduct<FiniteFunction>, xin: Seq<usize>, seeds: Seq<usize>, k: int, v: int) -> bool
    decreases k
{
    if k <= 0 { hit(seeds, v, seeds.len() as int) }
    else { r0(s, t, xin, seeds, k - 1, v) || exists|w: int| r0(s, t, xin, seeds, k - 1, w) && #[trigger] thru(s, t, xin, w, v) }
}

/// v is reached from a seed by at most k steps, at least one of them through a hyperedge of xout
/// (before the first such step only hyperedges of xin are used, after it any hyperedge)
pub open spec fn r1(s: IndexedCoproduct<FiniteFunction>, t: IndexedCoproduct<FiniteFunction>, xin: Seq<usize>, xout: Seq<usize>, seeds: Seq<usize>, k: int, v: int) -> bool
    decreases k
{
    if k <= 0 { false }
    else {
        r1(s, t, xin, xout, seeds, k - 1, v)
        || (exists|w: int| r0(s, t, xin, seeds, k - 1, w) && #[trigger] thru(s, t, xout, w, v))
        || (exists|w: int| r1(s, t, xin, xout, seeds, k - 1, w) && #[trigger] node_step(s, t, w, v))
    }
}

#[verifier::opaque]
pub open spec fn reach0(s: IndexedCoproduct<FiniteFunction>, t: IndexedCoproduct<FiniteFunction>, xin: Seq<usize>, seeds: Seq<usize>, v: int) -> bool {
    exists|k: int| 0 <= k && #[trigger] r0(s, t, xin, seeds, k, v)
}

#[verifier::opaque]
pub open spec fn reach1(s: IndexedCoproduct<FiniteFunction>, t: IndexedCoproduct<FiniteFunction>, xin: Seq<usize>, xout: Seq<usize>, seeds: Seq<usize>, v: int) -> bool {
    exists|k: int| 0 <= k && #[trigger] r1(s, t, xin, xout, seeds, k, v)
}

pub proof fn lemma_reach0_seed(s: IndexedCoproduct<FiniteFunction>, t: IndexedCoproduct<FiniteFunction>, xin: Seq<usize>, seeds: Seq<usize>, v: int)
    requires hit(seeds, v, seeds.len() as int)
    ensures reach0(s, t, xin, seeds, v)
{
    reveal(reach0);
    assert(r0(s, t, xin, seeds, 0, v));
}

pub proof fn lemma_reach0_step(s: IndexedCoproduct<FiniteFunction>, t: IndexedCoproduct<FiniteFunction>, xin: Seq<usize>, seeds: Seq<usize>, w: int, v: int)
    requires reach0(s, t, xin, seeds, w), thru(s, t, xin, w, v)
    ensures reach0(s, t, xin, seeds, v)
{
    reveal(reach0);
    let k = choose|k: int| 0 <= k && #[trigger] r0(s, t, xin, seeds, k, w);
    assert(r0(s, t, xin, seeds, k + 1, v));
}

pub proof fn lemma_reach1_enter(s: IndexedCoproduct<FiniteFunction>, t: IndexedCoproduct<FiniteFunction>, xin: Seq<usize>, xout: Seq<usize>, seeds: Seq<usize>, w: int, v: int)
    requires reach0(s, t, xin, seeds, w), thru(s, t, xout, w, v)
    ensures reach1(s, t, xin, xout, seeds, v)
{
    reveal(reach0); reveal(reach1);
    let k = choose|k: int| 0 <= k && #[trigger] r0(s, t, xin, seeds, k, w);
    assert(r1(s, t, xin, xout, seeds, k + 1, v));
}

pub proof fn lemma_reach1_step(s: IndexedCoproduct<FiniteFunction>, t: IndexedCoproduct<FiniteFunction>, xin: Seq<usize>, xout: Seq<usize>, seeds: Seq<usize>, w: int, v: int)
    requires reach1(s, t, xin, xout, seeds, w), node_step(s, t, w, v)
    ensures reach1(s, t, xin, xout, seeds, v)
{
    reveal(reach1);
    let k = choose|k: int| 0 <= k && #[trigger] r1(s, t, xin, xout, seeds, k, w);
    assert(r1(s, t, xin, xout, seeds, k + 1, v));
}

/// a target of a hyperedge is a node
pub proof fn lemma_edge_bound(t: IndexedCoproduct<FiniteFunction>, e: int, v: int)
    requires t.wf(), 0 <= e < t.sources.table@.len(), adj_edge(t, e, v)
    ensures 0 <= v < t.values.target
{
    let j = choose|j: int| 0 <= j < t.sources.table@[e] && #[trigger] t.values.table@[seg_at(t.sources.table@, e, j)] == v;
    lemma_seg_range(t.sources.table@, e, j);
}

/// loop invariant of the search (f0 / f1 = frontiers of layer 0 / layer 1)
pub open spec fn bfs_inv(s: IndexedCoproduct<FiniteFunction>, t: IndexedCoproduct<FiniteFunction>, xin: Seq<usize>, xout: Seq<usize>, seeds: Seq<usize>, n: int,
                         v0: Seq<usize>, v1: Seq<usize>, f0: Seq<usize>, f1: Seq<usize>) -> bool {
    &&& v0.len() == n && v1.len() == n && in_bounds(seeds, n)
    &&& forall|v: int| 0 <= v < n ==> (#[trigger] v0[v]) <= 1
    &&& forall|v: int| 0 <= v < n ==> (#[trigger] v1[v]) <= 1
    &&& forall|k: int| 0 <= k < seeds.len() ==> v0[(#[trigger] seeds[k]) as int] == 1
    &&& forall|v: int| 0 <= v < n && (#[trigger] v0[v]) == 1 ==> reach0(s, t, xin, seeds, v)
    &&& forall|v: int| 0 <= v < n && (#[trigger] v1[v]) == 1 ==> reach1(s, t, xin, xout, seeds, v)
    &&& in_bounds(f0, n) && injective(f0) && in_bounds(f1, n) && injective(f1)
    &&& forall|k: int| 0 <= k < f0.len() ==> v0[(#[trigger] f0[k]) as int] == 1
    &&& forall|k: int| 0 <= k < f1.len() ==> v1[(#[trigger] f1[k]) as int] == 1
    &&& forall|w: int, v: int| 0 <= w < n && 0 <= v < n && v0[w] == 1 && !hit(f0, w, f0.len() as int) && #[trigger] thru(s, t, xin, w, v) ==> v0[v] == 1
    &&& forall|w: int, v: int| 0 <= w < n && 0 <= v < n && v0[w] == 1 && !hit(f0, w, f0.len() as int) && #[trigger] thru(s, t, xout, w, v) ==> v1[v] == 1
    &&& forall|w: int, v: int| 0 <= w < n && 0 <= v < n && v1[w] == 1 && !hit(f1, w, f1.len() as int) && #[trigger] node_step(s, t, w, v) ==> v1[v] == 1
}

/// what holds when the search stops: both marked sets are sound and closed
pub open spec fn bfs_done(s: IndexedCoproduct<FiniteFunction>, t: IndexedCoproduct<FiniteFunction>, xin: Seq<usize>, xout: Seq<usize>, seeds: Seq<usize>, n: int,
                          v0: Seq<usize>, v1: Seq<usize>) -> bool {
    &&& v0.len() == n && v1.len() == n
    &&& forall|v: int| 0 <= v < n ==> (#[trigger] v1[v]) <= 1
    &&& forall|k: int| 0 <= k < seeds.len() ==> v0[(#[trigger] seeds[k]) as int] == 1
    &&& forall|v: int| 0 <= v < n && (#[trigger] v1[v]) == 1 ==> reach1(s, t, xin, xout, seeds, v)
    &&& forall|w: int, v: int| 0 <= w < n && 0 <= v < n && v0[w] == 1 && #[trigger] thru(s, t, xin, w, v) ==> v0[v] == 1
    &&& forall|w: int, v: int| 0 <= w < n && 0 <= v < n && v0[w] == 1 && #[trigger] thru(s, t, xout, w, v) ==> v1[v] == 1
    &&& forall|w: int, v: int| 0 <= w < n && 0 <= v < n && v1[w] == 1 && #[trigger] node_step(s, t, w, v) ==> v1[v] == 1
}

/// closed sets contain everything reachable
pub proof fn lemma_bfs_complete(s: IndexedCoproduct<FiniteFunction>, t: IndexedCoproduct<FiniteFunction>, xin: Seq<usize>, xout: Seq<usize>, seeds: Seq<usize>, n: int,
                                v0: Seq<usize>, v1: Seq<usize>, k: int, v: int)
    requires bfs_done(s, t, xin, xout, seeds, n, v0, v1), s.wf(), t.wf(), s.sources.table@.len() == t.sources.table@.len(),
        t.values.target == n, in_bounds(seeds, n), in_bounds(xin, s.sources.table@.len() as int), in_bounds(xout, s.sources.table@.len() as int), 0 <= k,
    ensures r0(s, t, xin, seeds, k, v) ==> 0 <= v < n && v0[v] == 1,
        r1(s, t, xin, xout, seeds, k, v) ==> 0 <= v < n && v1[v] == 1,
    decreases k
{
    if k == 0 {
        if r0(s, t, xin, seeds, k, v) {
            let i = choose|i: int| 0 <= i < seeds.len() && #[trigger] seeds[i] == v;
        }
    } else {
        lemma_bfs_complete(s, t, xin, xout, seeds, n, v0, v1, k - 1, v);
        if r0(s, t, xin, seeds, k, v) && !r0(s, t, xin, seeds, k - 1, v) {
            let w = choose|w: int| r0(s, t, xin, seeds, k - 1, w) && #[trigger] thru(s, t, xin, w, v);
            lemma_bfs_complete(s, t, xin, xout, seeds, n, v0, v1, k - 1, w);
            let i = choose|i: int| 0 <= i < xin.len() && adj_edge(s, (#[trigger] xin[i]) as int, w) && adj_edge(t, xin[i] as int, v);
            lemma_edge_bound(t, xin[i] as int, v);
        }
        if r1(s, t, xin, xout, seeds, k, v) && !r1(s, t, xin, xout, seeds, k - 1, v) {
            if exists|w: int| r0(s, t, xin, seeds, k - 1, w) && #[trigger] thru(s, t, xout, w, v) {
                let w = choose|w: int| r0(s, t, xin, seeds, k - 1, w) && #[trigger] thru(s, t, xout, w, v);
                lemma_bfs_complete(s, t, xin, xout, seeds, n, v0, v1, k - 1, w);
                let i = choose|i: int| 0 <= i < xout.len() && adj_edge(s, (#[trigger] xout[i]) as int, w) && adj_edge(t, xout[i] as int, v);
                lemma_edge_bound(t, xout[i] as int, v);
            } else {
                let w = choose|w: int| r1(s, t, xin, xout, seeds, k - 1, w) && #[trigger] node_step(s, t, w, v);
                lemma_bfs_complete(s, t, xin, xout, seeds, n, v0, v1, k - 1, w);
                let e = choose|e: int| 0 <= e < s.sources.table@.len() && #[trigger] adj_edge(s, e, w) && adj_edge(t, e, v);
                lemma_edge_bound(t, e, v);
            }
        }
    }
}

/// the marked layer-1 set is exactly the set of nodes reachable through an outside hyperedge
pub proof fn lemma_bfs_exact(s: IndexedCoproduct<FiniteFunction>, t: IndexedCoproduct<FiniteFunction>, xin: Seq<usize>, xout: Seq<usize>, seeds: Seq<usize>, n: int,
                             v0: Seq<usize>, v1: Seq<usize>)
    requires bfs_done(s, t, xin, xout, seeds, n, v0, v1), s.wf(), t.wf(), s.sources.table@.len() == t.sources.table@.len(),
        t.values.target == n, in_bounds(seeds, n), in_bounds(xin, s.sources.table@.len() as int), in_bounds(xout, s.sources.table@.len() as int),
    ensures forall|v: int| 0 <= v < n ==> ((#[trigger] v1[v]) >= 1 <==> reach1(s, t, xin, xout, seeds, v))
{
    assert forall|v: int| 0 <= v < n implies ((#[trigger] v1[v]) >= 1 <==> reach1(s, t, xin, xout, seeds, v)) by {
        if reach1(s, t, xin, xout, seeds, v) {
            reveal(reach1);
            let k = choose|k: int| 0 <= k && #[trigger] r1(s, t, xin, xout, seeds, k, v);
            lemma_bfs_complete(s, t, xin, xout, seeds, n, v0, v1, k, v);
        }
    }
}
''')

raw(r'''
/// w with the cells f[0..m] set to one
pub open spec fn oned(w: Seq<usize>, f: Seq<usize>, m: int) -> Seq<usize>
    decreases m
{
    if m <= 0 { w } else { oned(w, f, m - 1).update(f[m - 1] as int, 1usize) }
}

pub proof fn lemma_oned_at(w: Seq<usize>, f: Seq<usize>, m: int)
    requires 0 <= m <= f.len(), in_bounds(f, w.len() as int)
    ensures oned(w, f, m).len() == w.len(),
        forall|j: int| 0 <= j < w.len() ==> #[trigger] oned(w, f, m)[j] == (if last_write(f, j, m) >= 0 { 1usize } else { w[j] })
    decreases m
{
    if m > 0 { lemma_oned_at(w, f, m - 1); }
}

pub proof fn lemma_total_oned(w: Seq<usize>, f: Seq<usize>, m: int)
    requires in_bounds(f, w.len() as int), injective(f), forall|k: int| 0 <= k < f.len() ==> w[(#[trigger] f[k]) as int] == 0, 0 <= m <= f.len(),
    ensures total(oned(w, f, m)) == total(w) + m
    decreases m
{
    if m > 0 {
        lemma_total_oned(w, f, m - 1);
        lemma_oned_at(w, f, m - 1);
        lemma_last_write(f, f[m - 1] as int, m - 1);
        assert(w[f[m - 1] as int] == 0);
        lemma_psum_bump(oned(w, f, m - 1), oned(w, f, m), f[m - 1] as int, w.len() as int);
    }
}

/// marking an injective list of unmarked cells
pub proof fn lemma_bfs_marks(v: Seq<usize>, next: Seq<usize>, vn: Seq<usize>)
    requires vn.len() == v.len(), in_bounds(next, v.len() as int), injective(next),
        forall|j: int| 0 <= j < v.len() ==> #[trigger] vn[j] == (if written(next, j) { 1usize } else { v[j] }),
        forall|k: int| 0 <= k < next.len() ==> v[(#[trigger] next[k]) as int] == 0,
        forall|j: int| 0 <= j < v.len() ==> (#[trigger] v[j]) <= 1,
    ensures total(vn) == total(v) + next.len(), total(vn) <= v.len(),
        forall|j: int| 0 <= j < v.len() ==> (#[trigger] vn[j]) <= 1,
        forall|j: int| 0 <= j < v.len() ==> ((#[trigger] vn[j]) == 1 <==> (v[j] == 1 || hit(next, j, next.len() as int))),
{
    let m = next.len() as int;
    lemma_oned_at(v, next, m);
    assert(vn =~= oned(v, next, m));
    lemma_total_oned(v, next, m);
    lemma_psum_le(vn, 1, v.len() as int);
    assert forall|j: int| 0 <= j < v.len() implies ((#[trigger] vn[j]) == 1 <==> (v[j] == 1 || hit(next, j, m))) by {
        lemma_written_iff_hit(next, j);
    }
}

/// re-indexing an incidence relation by a list of hyperedges x: segment i of the result is segment x[i]
pub proof fn lemma_reindex_edges(a: IndexedCoproduct<FiniteFunction>, x: Seq<usize>, r: IndexedCoproduct<FiniteFunction>)
    requires in_bounds(x, a.sources.table@.len() as int),
        r.sources.table@ == kseq(a.sources.table@, x),
        forall|i: int, j: int| 0 <= i < x.len() && 0 <= j < kseq(a.sources.table@, x)[i] ==>
            r.values.table@[#[trigger] seg_at(kseq(a.sources.table@, x), i, j)] == a.values.table@[psum(a.sources.table@, x[i] as int) + j],
    ensures forall|i: int, w: int| 0 <= i < x.len() ==> (#[trigger] adj_edge(r, i, w) <==> adj_edge(a, x[i] as int, w))
{
    let k = kseq(a.sources.table@, x); let sz = a.sources.table@;
    assert forall|i: int, w: int| 0 <= i < x.len() implies (#[trigger] adj_edge(r, i, w) <==> adj_edge(a, x[i] as int, w)) by {
        assert(k[i] == sz[x[i] as int]);
        if adj_edge(r, i, w) {
            let j = choose|j: int| 0 <= j < k[i] && #[trigger] r.values.table@[seg_at(k, i, j)] == w;
            assert(a.values.table@[seg_at(sz, x[i] as int, j)] == w);
        }
        if adj_edge(a, x[i] as int, w) {
            let j = choose|j: int| 0 <= j < sz[x[i] as int] && #[trigger] a.values.table@[seg_at(sz, x[i] as int, j)] == w;
            assert(r.values.table@[seg_at(k, i, j)] == w);
        }
    }
}

pub proof fn lemma_reindex_step(gs: IndexedCoproduct<FiniteFunction>, gt: IndexedCoproduct<FiniteFunction>, x: Seq<usize>,
                                s2: IndexedCoproduct<FiniteFunction>, t2: IndexedCoproduct<FiniteFunction>)
    requires s2.sources.table@.len() == x.len(), t2.sources.table@.len() == x.len(),
        forall|i: int, w: int| 0 <= i < x.len() ==> (#[trigger] adj_edge(s2, i, w) <==> adj_edge(gs, x[i] as int, w)),
        forall|i: int, w: int| 0 <= i < x.len() ==> (#[trigger] adj_edge(t2, i, w) <==> adj_edge(gt, x[i] as int, w)),
    ensures forall|w: int, v: int| #![trigger node_step(s2, t2, w, v)] #![trigger thru(gs, gt, x, w, v)] node_step(s2, t2, w, v) <==> thru(gs, gt, x, w, v)
{
    assert forall|w: int, v: int| #![trigger node_step(s2, t2, w, v)] #![trigger thru(gs, gt, x, w, v)] node_step(s2, t2, w, v) <==> thru(gs, gt, x, w, v) by {
        if node_step(s2, t2, w, v) {
            let e = choose|e: int| 0 <= e < s2.sources.table@.len() && #[trigger] adj_edge(s2, e, w) && adj_edge(t2, e, v);
            assert(adj_edge(gs, x[e] as int, w) && adj_edge(gt, x[e] as int, v));
        }
        if thru(gs, gt, x, w, v) {
            let i = choose|i: int| 0 <= i < x.len() && adj_edge(gs, (#[trigger] x[i]) as int, w) && adj_edge(gt, x[i] as int, v);
            assert(adj_edge(s2, i, w) && adj_edge(t2, i, v));
        }
    }
}

/// 1 for the hyperedges in the image of x (what `fill(0).scatter_assign_constant(x, 1)` builds)
pub open spec fn edge_marks(x: Seq<usize>, m: int) -> Seq<usize> {
    Seq::new(m as nat, |e: int| if last_write(x, e, x.len() as int) >= 0 { 1usize } else { 0usize })
}

/// the hyperedges outside the image of x, in increasing order
pub open spec fn outside_list(x: Seq<usize>, m: int) -> Seq<usize> { zeros_upto(edge_marks(x, m), m) }

pub proof fn lemma_outside_list(x: Seq<usize>, m: int)
    requires 0 <= m <= usize::MAX
    ensures in_bounds(outside_list(x, m), m), injective(outside_list(x, m)), outside_list(x, m).len() <= m,
        forall|e: int| 0 <= e < m ==> (#[trigger] hit(outside_list(x, m), e, outside_list(x, m).len() as int) <==> !hit(x, e, x.len() as int)),
{
    let mk = edge_marks(x, m); let z = outside_list(x, m);
    lemma_zeros_props(mk, m);
    assert forall|a: int, b: int| 0 <= a < z.len() && 0 <= b < z.len() && a != b implies z[a] != z[b] by {
        if a < b { assert(z[a] < z[b]); } else { assert(z[b] < z[a]); }
    }
    assert forall|e: int| 0 <= e < m implies (#[trigger] hit(z, e, z.len() as int) <==> !hit(x, e, x.len() as int)) by {
        lemma_written_iff_hit(x, e);
        if hit(z, e, z.len() as int) {
            let i = choose|i: int| 0 <= i < z.len() && #[trigger] z[i] == e;
            assert(mk[z[i] as int] == 0);
        }
        if !hit(x, e, x.len() as int) { assert(mk[e] == 0); }
    }
}

/// distinct values below n are at most n many
pub proof fn lemma_injective_small(f: Seq<usize>, n: int)
    requires in_bounds(f, n), injective(f), n >= 0
    ensures f.len() <= n
{
    if f.len() > n { let (i, j) = lemma_pigeonhole(f, n); }
}

pub proof fn lemma_bfs_init(s: IndexedCoproduct<FiniteFunction>, t: IndexedCoproduct<FiniteFunction>, xin: Seq<usize>, xout: Seq<usize>, seeds: Seq<usize>, n: int,
                            v0: Seq<usize>, v1: Seq<usize>, f1: Seq<usize>)
    requires v0.len() == n, v1.len() == n, in_bounds(seeds, n), injective(seeds), f1.len() == 0,
        forall|j: int| 0 <= j < n ==> #[trigger] v0[j] == (if written(seeds, j) { 1usize } else { 0usize }),
        forall|j: int| 0 <= j < n ==> #[trigger] v1[j] == 0,
    ensures bfs_inv(s, t, xin, xout, seeds, n, v0, v1, seeds, f1)
{
    assert forall|j: int| 0 <= j < n implies (written(seeds, j) <==> #[trigger] hit(seeds, j, seeds.len() as int)) by { lemma_written_iff_hit(seeds, j); }
    assert forall|k: int| 0 <= k < seeds.len() implies v0[(#[trigger] seeds[k]) as int] == 1 by { assert(hit(seeds, seeds[k] as int, seeds.len() as int)); }
    assert forall|v: int| 0 <= v < n && (#[trigger] v0[v]) == 1 implies reach0(s, t, xin, seeds, v) by {
        assert(hit(seeds, v, seeds.len() as int));
        lemma_reach0_seed(s, t, xin, seeds, v);
    }
    assert forall|w: int| 0 <= w < n && (#[trigger] v0[w]) == 1 implies hit(seeds, w, seeds.len() as int) by {}
}

/// what the three successor lists and the two filtered lists of one round satisfy
pub open spec fn round_ok(s: IndexedCoproduct<FiniteFunction>, t: IndexedCoproduct<FiniteFunction>, xin: Seq<usize>, xout: Seq<usize>, n: int,
                          v0: Seq<usize>, v1: Seq<usize>, f0: Seq<usize>, f1: Seq<usize>, next0: Seq<usize>, next1: Seq<usize>) -> bool {
    &&& in_bounds(next0, n) && injective(next0) && in_bounds(next1, n) && injective(next1)
    &&& forall|k: int| 0 <= k < next0.len() ==> v0[(#[trigger] next0[k]) as int] == 0 && exists|i: int| 0 <= i < f0.len() && thru(s, t, xin, (#[trigger] f0[i]) as int, next0[k] as int)
    &&& forall|k: int| 0 <= k < next1.len() ==> v1[(#[trigger] next1[k]) as int] == 0
            && ((exists|i: int| 0 <= i < f0.len() && thru(s, t, xout, (#[trigger] f0[i]) as int, next1[k] as int))
                || (exists|i: int| 0 <= i < f1.len() && node_step(s, t, (#[trigger] f1[i]) as int, next1[k] as int)))
    &&& forall|i: int, v: int| 0 <= i < f0.len() && 0 <= v < n && #[trigger] thru(s, t, xin, f0[i] as int, v) && v0[v] == 0 ==> hit(next0, v, next0.len() as int)
    &&& forall|i: int, v: int| 0 <= i < f0.len() && 0 <= v < n && #[trigger] thru(s, t, xout, f0[i] as int, v) && v1[v] == 0 ==> hit(next1, v, next1.len() as int)
    &&& forall|i: int, v: int| 0 <= i < f1.len() && 0 <= v < n && #[trigger] node_step(s, t, f1[i] as int, v) && v1[v] == 0 ==> hit(next1, v, next1.len() as int)
}
''')

raw(r'''
/// the layer-1 candidates: distinct unmarked nodes, exactly those listed in c1a or c1b that are unmarked
pub open spec fn next1_ok(c1a: Seq<usize>, c1b: Seq<usize>, v1: Seq<usize>, next1: Seq<usize>, n: int) -> bool {
    &&& in_bounds(next1, n) && injective(next1)
    &&& forall|k: int| 0 <= k < next1.len() ==> v1[(#[trigger] next1[k]) as int] == 0
            && (hit(c1a, next1[k] as int, c1a.len() as int) || hit(c1b, next1[k] as int, c1b.len() as int))
    &&& forall|i: int| 0 <= i < c1a.len() && v1[(#[trigger] c1a[i]) as int] == 0 ==> hit(next1, c1a[i] as int, next1.len() as int)
    &&& forall|i: int| 0 <= i < c1b.len() && v1[(#[trigger] c1b[i]) as int] == 0 ==> hit(next1, c1b[i] as int, next1.len() as int)
}

/// merged = c1a ++ c1b, uniq = its distinct values (sparse_bincount), next1 = the unmarked ones
pub proof fn lemma_next1(c1a: Seq<usize>, c1b: Seq<usize>, uniq: Seq<usize>, v1: Seq<usize>, next1: Seq<usize>, n: int)
    requires in_bounds(c1a, n), in_bounds(c1b, n), v1.len() == n, injective(uniq),
        forall|k: int| 0 <= k < uniq.len() ==> count(c1a + c1b, (#[trigger] uniq[k]) as int, (c1a + c1b).len() as int) > 0,
        forall|i: int| 0 <= i < (c1a + c1b).len() ==> #[trigger] hit(uniq, (c1a + c1b)[i] as int, uniq.len() as int),
        pick_ok(v1, uniq, next1),
    ensures next1_ok(c1a, c1b, v1, next1, n)
{
    let mg = c1a + c1b;
    assert forall|k: int| 0 <= k < next1.len() implies v1[(#[trigger] next1[k]) as int] == 0
            && (hit(c1a, next1[k] as int, c1a.len() as int) || hit(c1b, next1[k] as int, c1b.len() as int)) by {
        assert(hit(uniq, next1[k] as int, uniq.len() as int));
        let u = choose|u: int| 0 <= u < uniq.len() && #[trigger] uniq[u] == next1[k];
        let i = lemma_count_witness(mg, uniq[u] as int, mg.len() as int);
        if i < c1a.len() { assert(c1a[i] == mg[i]); } else { assert(c1b[i - c1a.len()] == mg[i]); }
    }
    assert forall|i: int| 0 <= i < c1a.len() && v1[(#[trigger] c1a[i]) as int] == 0 implies hit(next1, c1a[i] as int, next1.len() as int) by {
        assert(mg[i] == c1a[i]);
        assert(hit(uniq, mg[i] as int, uniq.len() as int));
        let u = choose|u: int| 0 <= u < uniq.len() && #[trigger] uniq[u] == c1a[i];
        assert(v1[uniq[u] as int] == 0);
    }
    assert forall|i: int| 0 <= i < c1b.len() && v1[(#[trigger] c1b[i]) as int] == 0 implies hit(next1, c1b[i] as int, next1.len() as int) by {
        assert(mg[c1a.len() + i] == c1b[i]);
        assert(hit(uniq, mg[c1a.len() + i] as int, uniq.len() as int));
        let u = choose|u: int| 0 <= u < uniq.len() && #[trigger] uniq[u] == c1b[i];
        assert(v1[uniq[u] as int] == 0);
    }
}

/// the distinct values of c1a ++ c1b are nodes (precondition of the second filter_unvisited call)
pub proof fn lemma_uniq_bounds(c1a: Seq<usize>, c1b: Seq<usize>, uniq: Seq<usize>, n: int)
    requires in_bounds(c1a, n), in_bounds(c1b, n),
        forall|k: int| 0 <= k < uniq.len() ==> count(c1a + c1b, (#[trigger] uniq[k]) as int, (c1a + c1b).len() as int) > 0,
    ensures in_bounds(uniq, n)
{
    let mg = c1a + c1b;
    assert forall|k: int| 0 <= k < uniq.len() implies (#[trigger] uniq[k]) < n by {
        let i = lemma_count_witness(mg, uniq[k] as int, mg.len() as int);
        if i < c1a.len() { assert(c1a[i] == mg[i]); } else { assert(c1b[i - c1a.len()] == mg[i]); }
    }
}

/// the adjacency `adj` lists exactly the pairs of the relation named by `which` (0: thru xin, 1: thru xout, 2: any hyperedge)
pub open spec fn adj_is(adj: IndexedCoproduct<FiniteFunction>, s: IndexedCoproduct<FiniteFunction>, t: IndexedCoproduct<FiniteFunction>, es: Seq<usize>, n: int) -> bool {
    &&& adj_wf(adj) && adj.sources.table@.len() == n
    &&& forall|w: int, v: int| #![trigger adj_edge(adj, w, v)] #![trigger thru(s, t, es, w, v)] 0 <= w < n && 0 <= v < n ==> (adj_edge(adj, w, v) <==> thru(s, t, es, w, v))
}
pub open spec fn adj_is_all(adj: IndexedCoproduct<FiniteFunction>, s: IndexedCoproduct<FiniteFunction>, t: IndexedCoproduct<FiniteFunction>, n: int) -> bool {
    &&& adj_wf(adj) && adj.sources.table@.len() == n
    &&& forall|w: int, v: int| #![trigger adj_edge(adj, w, v)] #![trigger node_step(s, t, w, v)] 0 <= w < n && 0 <= v < n ==> (adj_edge(adj, w, v) <==> node_step(s, t, w, v))
}

/// one round: successor lists of the three adjacencies, filtered, give round_ok
pub proof fn lemma_round(s: IndexedCoproduct<FiniteFunction>, t: IndexedCoproduct<FiniteFunction>, xin: Seq<usize>, xout: Seq<usize>, n: int,
                         adj_in: IndexedCoproduct<FiniteFunction>, adj_out: IndexedCoproduct<FiniteFunction>, adj_all: IndexedCoproduct<FiniteFunction>,
                         v0: Seq<usize>, v1: Seq<usize>, f0: Seq<usize>, f1: Seq<usize>,
                         c0: Seq<usize>, c1a: Seq<usize>, c1b: Seq<usize>, next0: Seq<usize>, next1: Seq<usize>)
    requires adj_is(adj_in, s, t, xin, n), adj_is(adj_out, s, t, xout, n), adj_is_all(adj_all, s, t, n),
        v0.len() == n, v1.len() == n, in_bounds(f0, n), in_bounds(f1, n),
        in_bounds(c0, n), in_bounds(c1a, n), in_bounds(c1b, n), injective(c0),
        forall|v: int| 0 <= v < n ==> (hit(c0, v, c0.len() as int) <==> #[trigger] edge_from(adj_in, f0, v)),
        forall|v: int| 0 <= v < n ==> (hit(c1a, v, c1a.len() as int) <==> #[trigger] edge_from(adj_out, f0, v)),
        forall|v: int| 0 <= v < n ==> (hit(c1b, v, c1b.len() as int) <==> #[trigger] edge_from(adj_all, f1, v)),
        pick_ok(v0, c0, next0), next1_ok(c1a, c1b, v1, next1, n),
    ensures round_ok(s, t, xin, xout, n, v0, v1, f0, f1, next0, next1)
{
    assert forall|k: int| 0 <= k < next0.len() implies v0[(#[trigger] next0[k]) as int] == 0 && exists|i: int| 0 <= i < f0.len() && thru(s, t, xin, (#[trigger] f0[i]) as int, next0[k] as int) by {
        let v = next0[k] as int;
        assert(hit(c0, v, c0.len() as int));
        assert(edge_from(adj_in, f0, v));
        let i = choose|i: int| 0 <= i < f0.len() && adj_edge(adj_in, (#[trigger] f0[i]) as int, v);
        assert(thru(s, t, xin, f0[i] as int, v));
    }
    assert forall|k: int| 0 <= k < next1.len() implies v1[(#[trigger] next1[k]) as int] == 0
            && ((exists|i: int| 0 <= i < f0.len() && thru(s, t, xout, (#[trigger] f0[i]) as int, next1[k] as int))
                || (exists|i: int| 0 <= i < f1.len() && node_step(s, t, (#[trigger] f1[i]) as int, next1[k] as int))) by {
        let v = next1[k] as int;
        if hit(c1a, v, c1a.len() as int) {
            assert(edge_from(adj_out, f0, v));
            let i = choose|i: int| 0 <= i < f0.len() && adj_edge(adj_out, (#[trigger] f0[i]) as int, v);
            assert(thru(s, t, xout, f0[i] as int, v));
        } else {
            assert(hit(c1b, v, c1b.len() as int));
            assert(edge_from(adj_all, f1, v));
            let i = choose|i: int| 0 <= i < f1.len() && adj_edge(adj_all, (#[trigger] f1[i]) as int, v);
            assert(node_step(s, t, f1[i] as int, v));
        }
    }
    assert forall|i: int, v: int| 0 <= i < f0.len() && 0 <= v < n && #[trigger] thru(s, t, xin, f0[i] as int, v) && v0[v] == 0 implies hit(next0, v, next0.len() as int) by {
        assert(adj_edge(adj_in, f0[i] as int, v));
        assert(edge_from(adj_in, f0, v));
        let c = choose|c: int| 0 <= c < c0.len() && #[trigger] c0[c] == v;
        assert(v0[c0[c] as int] == 0);
    }
    assert forall|i: int, v: int| 0 <= i < f0.len() && 0 <= v < n && #[trigger] thru(s, t, xout, f0[i] as int, v) && v1[v] == 0 implies hit(next1, v, next1.len() as int) by {
        assert(adj_edge(adj_out, f0[i] as int, v));
        assert(edge_from(adj_out, f0, v));
        let c = choose|c: int| 0 <= c < c1a.len() && #[trigger] c1a[c] == v;
        assert(v1[c1a[c] as int] == 0);
    }
    assert forall|i: int, v: int| 0 <= i < f1.len() && 0 <= v < n && #[trigger] node_step(s, t, f1[i] as int, v) && v1[v] == 0 implies hit(next1, v, next1.len() as int) by {
        assert(adj_edge(adj_all, f1[i] as int, v));
        assert(edge_from(adj_all, f1, v));
        let c = choose|c: int| 0 <= c < c1b.len() && #[trigger] c1b[c] == v;
        assert(v1[c1b[c] as int] == 0);
    }
}

/// nothing new in a round: the marked sets are closed
pub proof fn lemma_bfs_break(s: IndexedCoproduct<FiniteFunction>, t: IndexedCoproduct<FiniteFunction>, xin: Seq<usize>, xout: Seq<usize>, seeds: Seq<usize>, n: int,
                             v0: Seq<usize>, v1: Seq<usize>, f0: Seq<usize>, f1: Seq<usize>, next0: Seq<usize>, next1: Seq<usize>)
    requires bfs_inv(s, t, xin, xout, seeds, n, v0, v1, f0, f1), round_ok(s, t, xin, xout, n, v0, v1, f0, f1, next0, next1),
        next0.len() == 0, next1.len() == 0,
    ensures bfs_done(s, t, xin, xout, seeds, n, v0, v1)
{
    assert forall|w: int, v: int| 0 <= w < n && 0 <= v < n && v0[w] == 1 && #[trigger] thru(s, t, xin, w, v) implies v0[v] == 1 by {
        if hit(f0, w, f0.len() as int) {
            let i = choose|i: int| 0 <= i < f0.len() && #[trigger] f0[i] == w;
            assert(thru(s, t, xin, f0[i] as int, v));
            if v0[v] == 0 { assert(hit(next0, v, next0.len() as int)); }
            assert(v0[v] <= 1);
        }
    }
    assert forall|w: int, v: int| 0 <= w < n && 0 <= v < n && v0[w] == 1 && #[trigger] thru(s, t, xout, w, v) implies v1[v] == 1 by {
        if hit(f0, w, f0.len() as int) {
            let i = choose|i: int| 0 <= i < f0.len() && #[trigger] f0[i] == w;
            assert(thru(s, t, xout, f0[i] as int, v));
            if v1[v] == 0 { assert(hit(next1, v, next1.len() as int)); }
            assert(v1[v] <= 1);
        }
    }
    assert forall|w: int, v: int| 0 <= w < n && 0 <= v < n && v1[w] == 1 && #[trigger] node_step(s, t, w, v) implies v1[v] == 1 by {
        if hit(f1, w, f1.len() as int) {
            let i = choose|i: int| 0 <= i < f1.len() && #[trigger] f1[i] == w;
            assert(node_step(s, t, f1[i] as int, v));
            if v1[v] == 0 { assert(hit(next1, v, next1.len() as int)); }
            assert(v1[v] <= 1);
        }
    }
}

/// marking the new nodes and advancing the frontiers keeps the invariant
pub proof fn lemma_bfs_step(s: IndexedCoproduct<FiniteFunction>, t: IndexedCoproduct<FiniteFunction>, xin: Seq<usize>, xout: Seq<usize>, seeds: Seq<usize>, n: int,
                            v0: Seq<usize>, v1: Seq<usize>, f0: Seq<usize>, f1: Seq<usize>, next0: Seq<usize>, next1: Seq<usize>, v0n: Seq<usize>, v1n: Seq<usize>)
    requires bfs_inv(s, t, xin, xout, seeds, n, v0, v1, f0, f1), round_ok(s, t, xin, xout, n, v0, v1, f0, f1, next0, next1),
        v0n.len() == n, v1n.len() == n,
        forall|j: int| 0 <= j < n ==> #[trigger] v0n[j] == (if written(next0, j) { 1usize } else { v0[j] }),
        forall|j: int| 0 <= j < n ==> #[trigger] v1n[j] == (if written(next1, j) { 1usize } else { v1[j] }),
    ensures bfs_inv(s, t, xin, xout, seeds, n, v0n, v1n, next0, next1),
        total(v0n) == total(v0) + next0.len(), total(v1n) == total(v1) + next1.len(), total(v0n) <= n, total(v1n) <= n,
{
    lemma_bfs_marks(v0, next0, v0n);
    lemma_bfs_marks(v1, next1, v1n);
    assert forall|k: int| 0 <= k < seeds.len() implies v0n[(#[trigger] seeds[k]) as int] == 1 by { assert(v0[seeds[k] as int] == 1); }
    assert forall|k: int| 0 <= k < next0.len() implies v0n[(#[trigger] next0[k]) as int] == 1 by { assert(hit(next0, next0[k] as int, next0.len() as int)); }
    assert forall|k: int| 0 <= k < next1.len() implies v1n[(#[trigger] next1[k]) as int] == 1 by { assert(hit(next1, next1[k] as int, next1.len() as int)); }
    assert forall|v: int| 0 <= v < n && (#[trigger] v0n[v]) == 1 implies reach0(s, t, xin, seeds, v) by {
        if v0[v] != 1 {
            let k = choose|k: int| 0 <= k < next0.len() && #[trigger] next0[k] == v;
            let i = choose|i: int| 0 <= i < f0.len() && thru(s, t, xin, (#[trigger] f0[i]) as int, next0[k] as int);
            assert(v0[f0[i] as int] == 1);
            lemma_reach0_step(s, t, xin, seeds, f0[i] as int, v);
        }
    }
    assert forall|v: int| 0 <= v < n && (#[trigger] v1n[v]) == 1 implies reach1(s, t, xin, xout, seeds, v) by {
        if v1[v] != 1 {
            let k = choose|k: int| 0 <= k < next1.len() && #[trigger] next1[k] == v;
            if exists|i: int| 0 <= i < f0.len() && thru(s, t, xout, (#[trigger] f0[i]) as int, next1[k] as int) {
                let i = choose|i: int| 0 <= i < f0.len() && thru(s, t, xout, (#[trigger] f0[i]) as int, next1[k] as int);
                assert(v0[f0[i] as int] == 1);
                lemma_reach1_enter(s, t, xin, xout, seeds, f0[i] as int, v);
            } else {
                let i = choose|i: int| 0 <= i < f1.len() && node_step(s, t, (#[trigger] f1[i]) as int, next1[k] as int);
                assert(v1[f1[i] as int] == 1);
                lemma_reach1_step(s, t, xin, xout, seeds, f1[i] as int, v);
            }
        }
    }
    assert forall|w: int, v: int| 0 <= w < n && 0 <= v < n && v0n[w] == 1 && !hit(next0, w, next0.len() as int) && #[trigger] thru(s, t, xin, w, v) implies v0n[v] == 1 by {
        assert(v0[w] == 1);
        if hit(f0, w, f0.len() as int) {
            let i = choose|i: int| 0 <= i < f0.len() && #[trigger] f0[i] == w;
            assert(thru(s, t, xin, f0[i] as int, v));
            assert(v0[v] <= 1);
            if v0[v] == 0 { assert(hit(next0, v, next0.len() as int)); }
        } else { assert(v0[v] == 1); }
    }
    assert forall|w: int, v: int| 0 <= w < n && 0 <= v < n && v0n[w] == 1 && !hit(next0, w, next0.len() as int) && #[trigger] thru(s, t, xout, w, v) implies v1n[v] == 1 by {
        assert(v0[w] == 1);
        if hit(f0, w, f0.len() as int) {
            let i = choose|i: int| 0 <= i < f0.len() && #[trigger] f0[i] == w;
            assert(thru(s, t, xout, f0[i] as int, v));
            assert(v1[v] <= 1);
            if v1[v] == 0 { assert(hit(next1, v, next1.len() as int)); }
        } else { assert(v1[v] == 1); }
    }
    assert forall|w: int, v: int| 0 <= w < n && 0 <= v < n && v1n[w] == 1 && !hit(next1, w, next1.len() as int) && #[trigger] node_step(s, t, w, v) implies v1n[v] == 1 by {
        assert(v1[w] == 1);
        if hit(f1, w, f1.len() as int) {
            let i = choose|i: int| 0 <= i < f1.len() && #[trigger] f1[i] == w;
            assert(node_step(s, t, f1[i] as int, v));
            assert(v1[v] <= 1);
            if v1[v] == 0 { assert(hit(next1, v, next1.len() as int)); }
        } else { assert(v1[v] == 1); }
    }
}
''')
