# strict/layer.rs and strict/hypergraph/acyclic.rs: thin wrappers over kahn
LY = 'src/strict/layer.rs'
AC = 'src/strict/hypergraph/acyclic.rs'
OH = 'src/strict/open_hypergraph/arrow.rs'

module('layer')

raw(r'''
/// C15 in local form, over the dependency relation of the diagram itself (t, s = target / source incidence,
/// n = number of operations):
///  * every dependency of a visited operation is visited and lies in a strictly smaller layer;
///  * a visited operation in layer l > 0 has a dependency in layer l - 1 (so its layer is the length of the longest
///    dependency chain ending in it, and layers are numbered from 0 without gaps);
///  * an unvisited operation depends on an unvisited operation (so, the set being finite, it is on or downstream of a cycle),
///    and by the first clause nothing on or downstream of a cycle can be visited.
pub open spec fn layer_ok(t: IndexedCoproduct<FiniteFunction>, s: IndexedCoproduct<FiniteFunction>, n: int, order: Seq<usize>, unvisited: Seq<usize>) -> bool {
    &&& order.len() == n && unvisited.len() == n
    &&& forall|y: int| 0 <= y < n ==> (#[trigger] unvisited[y]) <= 1
    &&& forall|y: int| 0 <= y < n ==> (#[trigger] order[y]) < n
    &&& forall|x: int, y: int| 0 <= x < n && 0 <= y < n && unvisited[y] == 0 && #[trigger] depends(t, s, x, y) ==> unvisited[x] == 0 && order[x] < order[y]
    &&& forall|y: int| 0 <= y < n && unvisited[y] == 0 && order[y] > 0 ==> #[trigger] has_dep_at(t, s, n, order, unvisited, y, order[y] as int)
    &&& forall|y: int| 0 <= y < n && unvisited[y] == 1 ==> #[trigger] has_unvisited_dep(t, s, n, unvisited, y)
}

/// y depends on a visited operation of layer d - 1
pub open spec fn has_dep_at(t: IndexedCoproduct<FiniteFunction>, s: IndexedCoproduct<FiniteFunction>, n: int, order: Seq<usize>, unvisited: Seq<usize>, y: int, d: int) -> bool {
    exists|x: int| 0 <= x < n && #[trigger] depends(t, s, x, y) && unvisited[x] == 0 && order[x] + 1 == d
}

/// y depends on an unvisited operation
pub open spec fn has_unvisited_dep(t: IndexedCoproduct<FiniteFunction>, s: IndexedCoproduct<FiniteFunction>, n: int, unvisited: Seq<usize>, y: int) -> bool {
    exists|x: int| 0 <= x < n && #[trigger] depends(t, s, x, y) && unvisited[x] == 1
}

pub proof fn lemma_layer_ok(t: IndexedCoproduct<FiniteFunction>, s: IndexedCoproduct<FiniteFunction>, a: IndexedCoproduct<FiniteFunction>, order: Seq<usize>, unvisited: Seq<usize>)
    requires kahn_ok(a, order, unvisited),
        forall|x: int, y: int| 0 <= x < a.sources.table@.len() && 0 <= y < a.sources.table@.len() ==> (#[trigger] adj_edge(a, x, y) <==> depends(t, s, x, y)),
    ensures layer_ok(t, s, a.sources.table@.len() as int, order, unvisited)
{
    let n = a.sources.table@.len() as int;
    assert forall|x: int, y: int| 0 <= x < n && 0 <= y < n && unvisited[y] == 0 && #[trigger] depends(t, s, x, y) implies unvisited[x] == 0 && order[x] < order[y] by {
        assert(adj_edge(a, x, y));
    }
    assert forall|y: int| 0 <= y < n && unvisited[y] == 0 && order[y] > 0 implies #[trigger] has_dep_at(t, s, n, order, unvisited, y, order[y] as int) by {
        assert(has_pred_at(a, order, unvisited, y, order[y] as int));
        let x = choose|x: int| 0 <= x < n && #[trigger] adj_edge(a, x, y) && unvisited[x] == 0 && order[x] + 1 == order[y];
        assert(depends(t, s, x, y));
    }
    assert forall|y: int| 0 <= y < n && unvisited[y] == 1 implies #[trigger] has_unvisited_dep(t, s, n, unvisited, y) by {
        assert(has_unvisited_pred(a, unvisited, y));
        let x = choose|x: int| 0 <= x < n && #[trigger] adj_edge(a, x, y) && unvisited[x] == 1;
        assert(depends(t, s, x, y));
    }
}

/// `order` numbers the n nodes so that every step w -> v goes strictly upwards: a certificate that no node reaches itself
pub open spec fn topo_numbering(s: IndexedCoproduct<FiniteFunction>, t: IndexedCoproduct<FiniteFunction>, n: int, order: Seq<usize>) -> bool {
    &&& order.len() == n
    &&& forall|w: int, v: int| 0 <= w < n && 0 <= v < n && #[trigger] node_step(s, t, w, v) ==> order[w] < order[v]
}

/// `u` marks a non-empty set of nodes each of which has a predecessor in the set: following predecessors inside the
/// finite set must repeat a node, so some node reaches itself
pub open spec fn pred_closed(s: IndexedCoproduct<FiniteFunction>, t: IndexedCoproduct<FiniteFunction>, n: int, u: Seq<usize>) -> bool {
    &&& u.len() == n
    &&& exists|v: int| 0 <= v < n && (#[trigger] u[v]) == 1
    &&& forall|v: int| 0 <= v < n && u[v] == 1 ==> #[trigger] has_marked_pred(s, t, n, u, v)
}

pub open spec fn has_marked_pred(s: IndexedCoproduct<FiniteFunction>, t: IndexedCoproduct<FiniteFunction>, n: int, u: Seq<usize>, v: int) -> bool {
    exists|w: int| 0 <= w < n && #[trigger] node_step(s, t, w, v) && u[w] == 1
}

pub proof fn lemma_total_zero(u: Seq<usize>, n: int)
    requires 0 <= n <= u.len(), psum(u, n) == 0
    ensures forall|i: int| 0 <= i < n ==> u[i] == 0
    decreases n
{
    if n > 0 { lemma_psum_mono(u, 0, n - 1); lemma_total_zero(u, n - 1); }
}

pub proof fn lemma_total_pos(u: Seq<usize>, n: int) -> (i: int)
    requires 0 <= n <= u.len(), psum(u, n) > 0
    ensures 0 <= i < n, u[i] > 0
    decreases n
{
    if u[n - 1] > 0 { n - 1 } else { lemma_total_pos(u, n - 1) }
}

pub proof fn lemma_acyclic_certificates(s: IndexedCoproduct<FiniteFunction>, t: IndexedCoproduct<FiniteFunction>, a: IndexedCoproduct<FiniteFunction>, order: Seq<usize>, unvisited: Seq<usize>)
    requires kahn_ok(a, order, unvisited),
        forall|w: int, v: int| 0 <= w < a.sources.table@.len() && 0 <= v < a.sources.table@.len() ==> (#[trigger] adj_edge(a, w, v) <==> node_step(s, t, w, v)),
    ensures total(unvisited) == 0 ==> topo_numbering(s, t, a.sources.table@.len() as int, order),
        total(unvisited) != 0 ==> pred_closed(s, t, a.sources.table@.len() as int, unvisited),
{
    let n = a.sources.table@.len() as int;
    if total(unvisited) == 0 {
        lemma_total_zero(unvisited, n);
        assert forall|w: int, v: int| 0 <= w < n && 0 <= v < n && #[trigger] node_step(s, t, w, v) implies order[w] < order[v] by {
            assert(adj_edge(a, w, v));
            assert(unvisited[v] == 0);
        }
    } else {
        lemma_psum_mono(unvisited, 0, n);
        let i = lemma_total_pos(unvisited, n);
        assert(unvisited[i] <= 1);
        assert forall|v: int| 0 <= v < n && unvisited[v] == 1 implies #[trigger] has_marked_pred(s, t, n, unvisited, v) by {
            assert(has_unvisited_pred(a, unvisited, v));
            let w = choose|w: int| 0 <= w < n && #[trigger] adj_edge(a, w, v) && unvisited[w] == 1;
            assert(node_step(s, t, w, v));
        }
    }
}
''')

raw(r'''
// ---------------------------------------------------------------------------------------------
// walks and cycles over the node-step relation: the local certificates decide "some node reaches itself"
// ---------------------------------------------------------------------------------------------
/// p[0] -> p[1] -> ... -> p[len-1], at least one step
pub open spec fn is_walk(s: IndexedCoproduct<FiniteFunction>, t: IndexedCoproduct<FiniteFunction>, n: int, p: Seq<int>) -> bool {
    &&& p.len() >= 2
    &&& forall|i: int| 0 <= i < p.len() ==> 0 <= #[trigger] p[i] < n
    &&& forall|i: int, j: int| 0 <= i && j == i + 1 && j < p.len() ==> node_step(s, t, #[trigger] p[i], #[trigger] p[j])
}

/// some node reaches itself by following hyperedges from a source node to a target node
pub open spec fn has_cycle(s: IndexedCoproduct<FiniteFunction>, t: IndexedCoproduct<FiniteFunction>, n: int) -> bool {
    exists|p: Seq<int>| #[trigger] is_walk(s, t, n, p) && p[0] == p[p.len() - 1]
}

pub proof fn lemma_walk_increases(s: IndexedCoproduct<FiniteFunction>, t: IndexedCoproduct<FiniteFunction>, n: int, order: Seq<usize>, p: Seq<int>, k: int)
    requires topo_numbering(s, t, n, order), is_walk(s, t, n, p), 1 <= k < p.len()
    ensures order[p[0]] < order[p[k]]
    decreases k
{
    assert(node_step(s, t, p[k - 1], p[k]));
    if k > 1 { lemma_walk_increases(s, t, n, order, p, k - 1); }
}

pub proof fn lemma_topo_no_cycle(s: IndexedCoproduct<FiniteFunction>, t: IndexedCoproduct<FiniteFunction>, n: int, order: Seq<usize>)
    requires topo_numbering(s, t, n, order)
    ensures !has_cycle(s, t, n)
{
    if has_cycle(s, t, n) {
        let p = choose|p: Seq<int>| #[trigger] is_walk(s, t, n, p) && p[0] == p[p.len() - 1];
        lemma_walk_increases(s, t, n, order, p, p.len() - 1);
    }
}

/// k steps backwards from v0 inside the marked set
pub open spec fn back(s: IndexedCoproduct<FiniteFunction>, t: IndexedCoproduct<FiniteFunction>, n: int, u: Seq<usize>, v0: int, k: int) -> int
    decreases k
{
    if k <= 0 { v0 } else {
        let v = back(s, t, n, u, v0, k - 1);
        choose|w: int| 0 <= w < n && #[trigger] node_step(s, t, w, v) && u[w] == 1
    }
}

pub proof fn lemma_back(s: IndexedCoproduct<FiniteFunction>, t: IndexedCoproduct<FiniteFunction>, n: int, u: Seq<usize>, v0: int, k: int)
    requires pred_closed(s, t, n, u), 0 <= v0 < n, u[v0] == 1, 0 <= k
    ensures 0 <= back(s, t, n, u, v0, k) < n, u[back(s, t, n, u, v0, k)] == 1,
        k > 0 ==> node_step(s, t, back(s, t, n, u, v0, k), back(s, t, n, u, v0, k - 1)),
    decreases k
{
    if k > 0 {
        lemma_back(s, t, n, u, v0, k - 1);
        let v = back(s, t, n, u, v0, k - 1);
        assert(has_marked_pred(s, t, n, u, v));
    }
}

/// more than n values below n cannot be pairwise distinct
pub proof fn lemma_pigeonhole(f: Seq<usize>, n: int) -> (r: (int, int))
    requires in_bounds(f, n), f.len() > n, n >= 0
    ensures 0 <= r.0 < r.1 < f.len(), f[r.0] == f[r.1]
{
    if injective(f) {
        let ones = Seq::new(n as nat, |i: int| 1usize);
        lemma_injective_selection(ones, f);
        lemma_psum_const(ones, 1usize, n);
        lemma_psum_const(kseq(ones, f), 1usize, f.len() as int);
        assert(false);
    }
    let (i, j) = choose|i: int, j: int| 0 <= i < f.len() && 0 <= j < f.len() && i != j && f[i] == f[j];
    if i < j { (i, j) } else { (j, i) }
}

pub proof fn lemma_closed_set_has_cycle(s: IndexedCoproduct<FiniteFunction>, t: IndexedCoproduct<FiniteFunction>, n: int, u: Seq<usize>)
    requires pred_closed(s, t, n, u), 0 <= n <= usize::MAX
    ensures has_cycle(s, t, n)
{
    let v0 = choose|v: int| 0 <= v < n && (#[trigger] u[v]) == 1;
    let f = Seq::new((n + 1) as nat, |k: int| back(s, t, n, u, v0, k) as usize);
    assert forall|k: int| 0 <= k < f.len() implies (#[trigger] f[k]) < n && f[k] == back(s, t, n, u, v0, k) by { lemma_back(s, t, n, u, v0, k); }
    let (i, j) = lemma_pigeonhole(f, n);
    let p = Seq::new((j - i + 1) as nat, |m: int| back(s, t, n, u, v0, j - m));
    assert forall|a: int| 0 <= a < p.len() implies 0 <= #[trigger] p[a] < n by { lemma_back(s, t, n, u, v0, j - a); }
    assert forall|a: int, b: int| 0 <= a && b == a + 1 && b < p.len() implies node_step(s, t, #[trigger] p[a], #[trigger] p[b]) by {
        lemma_back(s, t, n, u, v0, j - a);
    }
    assert(is_walk(s, t, n, p));
    assert(p[0] == f[j] && p[p.len() - 1] == f[i]);
}
''')

raw(r'''
// ---------------------------------------------------------------------------------------------
// dependency chains: the local form layer_ok is the path form of C15
// ---------------------------------------------------------------------------------------------
/// p[0], p[1], ..., each depending on the one before
pub open spec fn is_chain(t: IndexedCoproduct<FiniteFunction>, s: IndexedCoproduct<FiniteFunction>, n: int, p: Seq<int>) -> bool {
    &&& p.len() >= 1
    &&& forall|i: int| 0 <= i < p.len() ==> 0 <= #[trigger] p[i] < n
    &&& forall|i: int, j: int| 0 <= i && j == i + 1 && j < p.len() ==> depends(t, s, #[trigger] p[i], #[trigger] p[j])
}

/// y is on or downstream of a dependency cycle: some chain ending in y visits an operation twice
pub open spec fn on_or_after_cycle(t: IndexedCoproduct<FiniteFunction>, s: IndexedCoproduct<FiniteFunction>, n: int, y: int) -> bool {
    exists|p: Seq<int>, i: int, j: int| #[trigger] is_chain(t, s, n, p) && p[p.len() - 1] == y && 0 <= i < j < p.len() && #[trigger] p[i] == #[trigger] p[j]
}

/// along a chain into a visited operation everything is visited and the layers grow by at least one per step
pub proof fn lemma_chain_orders(t: IndexedCoproduct<FiniteFunction>, s: IndexedCoproduct<FiniteFunction>, n: int, order: Seq<usize>, unvisited: Seq<usize>, p: Seq<int>, k: int)
    requires layer_ok(t, s, n, order, unvisited), is_chain(t, s, n, p), unvisited[p[p.len() - 1]] == 0, 0 <= k < p.len()
    ensures unvisited[p[k]] == 0, order[p[k]] + (p.len() - 1 - k) <= order[p[p.len() - 1]]
    decreases p.len() - k
{
    if k < p.len() - 1 {
        lemma_chain_orders(t, s, n, order, unvisited, p, k + 1);
        assert(depends(t, s, p[k], p[k + 1]));
    }
}

/// (a) no dependency chain into a visited operation y has more than order[y] + 1 operations
pub proof fn lemma_layer_upper(t: IndexedCoproduct<FiniteFunction>, s: IndexedCoproduct<FiniteFunction>, n: int, order: Seq<usize>, unvisited: Seq<usize>, p: Seq<int>)
    requires layer_ok(t, s, n, order, unvisited), is_chain(t, s, n, p), unvisited[p[p.len() - 1]] == 0
    ensures p.len() <= order[p[p.len() - 1]] + 1
{
    lemma_chain_orders(t, s, n, order, unvisited, p, 0);
}

/// (b) ... and one with exactly that many exists, through layers 0, 1, ..., order[y]
pub proof fn lemma_layer_chain(t: IndexedCoproduct<FiniteFunction>, s: IndexedCoproduct<FiniteFunction>, n: int, order: Seq<usize>, unvisited: Seq<usize>, y: int) -> (p: Seq<int>)
    requires layer_ok(t, s, n, order, unvisited), 0 <= y < n, unvisited[y] == 0
    ensures is_chain(t, s, n, p), p.len() == order[y] + 1, p[p.len() - 1] == y,
        forall|k: int| 0 <= k < p.len() ==> unvisited[#[trigger] p[k]] == 0 && order[p[k]] == k
    decreases order[y]
{
    if order[y] == 0 {
        seq![y]
    } else {
        assert(has_dep_at(t, s, n, order, unvisited, y, order[y] as int));
        let x = choose|x: int| 0 <= x < n && #[trigger] depends(t, s, x, y) && unvisited[x] == 0 && order[x] + 1 == order[y];
        let q = lemma_layer_chain(t, s, n, order, unvisited, x);
        let p = q.push(y);
        assert forall|i: int, j: int| 0 <= i && j == i + 1 && j < p.len() implies depends(t, s, #[trigger] p[i], #[trigger] p[j]) by {
            if j < q.len() { assert(p[i] == q[i] && p[j] == q[j]); } else { assert(p[i] == q[q.len() - 1]); }
        }
        assert forall|k: int| 0 <= k < p.len() implies 0 <= #[trigger] p[k] < n && unvisited[p[k]] == 0 && order[p[k]] == k by {
            if k < q.len() { assert(p[k] == q[k]); }
        }
        p
    }
}

/// k steps backwards from y0 inside the unvisited set
pub open spec fn back_dep(t: IndexedCoproduct<FiniteFunction>, s: IndexedCoproduct<FiniteFunction>, n: int, u: Seq<usize>, y0: int, k: int) -> int
    decreases k
{
    if k <= 0 { y0 } else {
        let y = back_dep(t, s, n, u, y0, k - 1);
        choose|x: int| 0 <= x < n && #[trigger] depends(t, s, x, y) && u[x] == 1
    }
}

pub proof fn lemma_back_dep(t: IndexedCoproduct<FiniteFunction>, s: IndexedCoproduct<FiniteFunction>, n: int, order: Seq<usize>, u: Seq<usize>, y0: int, k: int)
    requires layer_ok(t, s, n, order, u), 0 <= y0 < n, u[y0] == 1, 0 <= k
    ensures 0 <= back_dep(t, s, n, u, y0, k) < n, u[back_dep(t, s, n, u, y0, k)] == 1,
        k > 0 ==> depends(t, s, back_dep(t, s, n, u, y0, k), back_dep(t, s, n, u, y0, k - 1)),
    decreases k
{
    if k > 0 {
        lemma_back_dep(t, s, n, order, u, y0, k - 1);
        assert(has_unvisited_dep(t, s, n, u, back_dep(t, s, n, u, y0, k - 1)));
    }
}

/// (c) the unvisited operations are exactly those on or downstream of a dependency cycle
pub proof fn lemma_unvisited_iff_cycle(t: IndexedCoproduct<FiniteFunction>, s: IndexedCoproduct<FiniteFunction>, n: int, order: Seq<usize>, unvisited: Seq<usize>, y: int)
    requires layer_ok(t, s, n, order, unvisited), 0 <= y < n, n <= usize::MAX
    ensures unvisited[y] == 1 <==> on_or_after_cycle(t, s, n, y)
{
    assert(unvisited[y] <= 1);
    if unvisited[y] == 1 {
        let f = Seq::new((n + 1) as nat, |k: int| back_dep(t, s, n, unvisited, y, k) as usize);
        assert forall|k: int| 0 <= k < f.len() implies (#[trigger] f[k]) < n && f[k] == back_dep(t, s, n, unvisited, y, k) by { lemma_back_dep(t, s, n, order, unvisited, y, k); }
        let (i, j) = lemma_pigeonhole(f, n);
        // the chain back_dep(j), ..., back_dep(0) = y repeats an operation at positions 0 and j - i
        let p = Seq::new((j + 1) as nat, |m: int| back_dep(t, s, n, unvisited, y, j - m));
        assert forall|a: int| 0 <= a < p.len() implies 0 <= #[trigger] p[a] < n by { lemma_back_dep(t, s, n, order, unvisited, y, j - a); }
        assert forall|a: int, b: int| 0 <= a && b == a + 1 && b < p.len() implies depends(t, s, #[trigger] p[a], #[trigger] p[b]) by {
            lemma_back_dep(t, s, n, order, unvisited, y, j - a);
        }
        assert(is_chain(t, s, n, p));
        assert(p[0] == f[j] && p[j - i] == f[i] && p[p.len() - 1] == y);
    }
    if on_or_after_cycle(t, s, n, y) && unvisited[y] == 0 {
        let (p, i, j) = choose|p: Seq<int>, i: int, j: int| #[trigger] is_chain(t, s, n, p) && p[p.len() - 1] == y && 0 <= i < j < p.len() && #[trigger] p[i] == #[trigger] p[j];
        // the prefix chain p[0..=j] ends in a visited operation, so its layers strictly grow
        let q = p.subrange(0, j + 1);
        lemma_chain_orders(t, s, n, order, unvisited, p, j);
        assert forall|a: int, b: int| 0 <= a && b == a + 1 && b < q.len() implies depends(t, s, #[trigger] q[a], #[trigger] q[b]) by {
            assert(q[a] == p[a] && q[b] == p[b]);
        }
        assert forall|a: int| 0 <= a < q.len() implies 0 <= #[trigger] q[a] < n by { assert(q[a] == p[a]); }
        assert(is_chain(t, s, n, q));
        lemma_chain_orders(t, s, n, order, unvisited, q, i);
        assert(q[i] == p[i] && q[q.len() - 1] == p[j]);
    }
}
''')

fn(LY, 'layer', kind='free', status='P', props=['C15', 'C16'], where_add='O: Clone, A: Clone',
   requires=['f.wf()', 'adjacency_fits(f.h.t, f.h.s)'],
   ensures=[('C15.layer-shape', 'r.0.table@.len() == f.h.x@.len() && r.0.target == f.h.x@.len() && r.1@.len() == f.h.x@.len()'),
            ('C15.layer-wf', 'r.0.wf()'),
            ('C15.layer', 'layer_ok(f.h.t, f.h.s, f.h.x@.len() as int, r.0.table@, r.1@)')],
   proofs=[('after:let (ordering, completed) = graph::kahn(&a);', 'lemma_layer_ok(f.h.t, f.h.s, a, ordering@, completed@);')])

group('impl<O: Clone, A: Clone> Hypergraph<O, A>')
fn(AC, 'is_acyclic', self_ty='Hypergraph', status='P', props=['C17'],
   requires=['self.wf()', 'adjacency_fits(self.s, self.t)', 'self.w@.len() < usize::MAX'],
   ensures=[('C17.is_acyclic-returns', 'true'),
            ('C17.is_acyclic-true', 'r ==> exists|order: Seq<usize>| topo_numbering(self.s, self.t, self.w@.len() as int, order)'),
            ('C17.is_acyclic-false', '!r ==> exists|u: Seq<usize>| pred_closed(self.s, self.t, self.w@.len() as int, u)'),
            ('C17.is_acyclic', 'r <==> !has_cycle(self.s, self.t, self.w@.len() as int)')],
   proofs=[('start', 'assert(topo_numbering(self.s, self.t, 0, Seq::<usize>::empty())); if self.w@.len() == 0 { lemma_topo_no_cycle(self.s, self.t, 0, Seq::<usize>::empty()); }'),
           ('end', '''lemma_psum_le(unvisited@, 1, unvisited@.len() as int);
            lemma_acyclic_certificates(self.s, self.t, adjacency, _order@, unvisited@);
            if total(unvisited@) == 0 { lemma_topo_no_cycle(self.s, self.t, self.w@.len() as int, _order@); }
            else { lemma_closed_set_has_cycle(self.s, self.t, self.w@.len() as int, unvisited@); }''')])
endgroup()
group('impl<O: Clone, A: Clone> OpenHypergraph<O, A>')
fn(OH, 'is_acyclic', self_ty='OpenHypergraph', status='P', props=['C17'],
   requires=['self.wf()', 'adjacency_fits(self.h.s, self.h.t)', 'self.h.w@.len() < usize::MAX'],
   ensures=[('C17.oh-is_acyclic-returns', 'true'),
            ('C17.oh-is_acyclic-true', 'r ==> exists|order: Seq<usize>| topo_numbering(self.h.s, self.h.t, self.h.w@.len() as int, order)'),
            ('C17.oh-is_acyclic-false', '!r ==> exists|u: Seq<usize>| pred_closed(self.h.s, self.h.t, self.h.w@.len() as int, u)'),
            ('C17.oh-is_acyclic', 'r <==> !has_cycle(self.h.s, self.h.t, self.h.w@.len() as int)')])
endgroup()
