# strict/layer.rs and strict/hypergraph/acyclic.rs: thin wrappers over kahn
LY = 'src/strict/layer.rs'
AC = 'src/strict/hypergraph/acyclic.rs'
OH = 'src/strict/open_hypergraph/arrow.rs'

module('layer')

fn(LY, 'layer', kind='free', status='P', props=['C15', 'C16'], where_add='O: Clone, A: Clone',
   requires=['f.wf()', 'adjacency_fits(f.h.t, f.h.s)'],
   ensures=[('C15.layer-shape', 'r.0.table@.len() == f.h.x@.len() && r.0.target == f.h.x@.len() && r.1@.len() == f.h.x@.len()'),
            ('C15.layer-wf', 'r.0.wf()')])

group('impl<O: Clone, A: Clone> Hypergraph<O, A>')
fn(AC, 'is_acyclic', self_ty='Hypergraph', status='P', props=['C17'],
   requires=['self.wf()', 'adjacency_fits(self.s, self.t)', 'self.w@.len() < usize::MAX'],
   ensures=[('C17.is_acyclic-returns', 'true')],
   proofs=[('end', 'lemma_psum_le(unvisited@, 1, unvisited@.len() as int);')])
endgroup()
group('impl<O: Clone, A: Clone> OpenHypergraph<O, A>')
fn(OH, 'is_acyclic', self_ty='OpenHypergraph', status='P', props=['C17'],
   requires=['self.wf()', 'adjacency_fits(self.h.s, self.h.t)', 'self.h.w@.len() < usize::MAX'],
   ensures=[('C17.oh-is_acyclic-returns', 'true')])
endgroup()
