# strict/functor/optic.rs: the two free functions the optic is assembled from.  Proved: well-formedness,
# panic-freedom and types (C14 typing, C05).  The Optic struct itself holds a Box<dyn Fn>, which Verus rejects,
# so Optic::{map_object, map_operations, adapt} and the derivative clause are bounded (module C14).
OP = 'src/strict/functor/optic.rs'

module('optic', uses=['vstd::std_specs::cmp::*'])

raw(r'''
/// the table of FiniteFunction::transpose(a, b)
pub open spec fn transpose_seq(a: int, b: int) -> Seq<usize> {
    Seq::new((a * b) as nat, |i: int| transpose_at(i, a, b) as usize)
}
''')

raw(r'''
/// interleaving two families of n blocks: the sizes of the 2n blocks taken in the order 0, n, 1, n+1, ...
pub proof fn lemma_interleave_offsets(fs: Seq<usize>, rs: Seq<usize>, s2: Seq<usize>, i: int)
    requires fs.len() == rs.len(), s2.len() == fs.len(), 0 <= i <= fs.len(), 2 * fs.len() <= usize::MAX,
        forall|m: int| 0 <= m < fs.len() ==> s2[m] == fs[m] + rs[m],
    ensures ({ let n = fs.len() as int; let k = kseq(fs + rs, transpose_seq(2, n));
        psum(k, 2 * i) == psum(fs, i) + psum(rs, i) && psum(s2, i) == psum(fs, i) + psum(rs, i)
        && (i < n ==> k[2 * i] == fs[i] && k[2 * i + 1] == rs[i] && psum(k, 2 * i + 1) == psum(fs, i) + psum(rs, i) + fs[i]) })
    decreases i
{
    let n = fs.len() as int; let p = transpose_seq(2, n); let k = kseq(fs + rs, p);
    assert(2 * n == n * 2) by (nonlinear_arith);
    if i > 0 {
        lemma_interleave_offsets(fs, rs, s2, i - 1);
        assert(psum(k, 2 * i) == psum(k, 2 * i - 1) + k[2 * i - 1]);
        assert(psum(k, 2 * i - 1) == psum(k, 2 * (i - 1)) + k[2 * (i - 1)]);
    }
    if i < n {
        assert(transpose_at(2 * i, 2, n) == i) by (nonlinear_arith) requires 0 <= i < n;
        assert(transpose_at(2 * i + 1, 2, n) == n + i) by (nonlinear_arith) requires 0 <= i < n;
        assert(p[2 * i] == i && p[2 * i + 1] == n + i);
        assert((fs + rs)[i] == fs[i] && (fs + rs)[n + i] == rs[i]);
        assert(psum(k, 2 * i + 1) == psum(k, 2 * i) + k[2 * i]);
    }
}

/// the values of the interleaving, block by block
pub proof fn lemma_interleave_values<T>(fs: Seq<usize>, rs: Seq<usize>, fv: Seq<T>, rv: Seq<T>, s2: Seq<usize>, vals: Seq<T>)
    requires fs.len() == rs.len(), s2.len() == fs.len(), total(fs) == fv.len(), total(rs) == rv.len(), 2 * fs.len() <= usize::MAX,
        forall|m: int| 0 <= m < fs.len() ==> s2[m] == fs[m] + rs[m],
        vals.len() == total(kseq(fs + rs, transpose_seq(2, fs.len() as int))),
        forall|m: int, j: int| 0 <= m < 2 * fs.len() && 0 <= j < kseq(fs + rs, transpose_seq(2, fs.len() as int))[m] ==>
            vals[#[trigger] seg_at(kseq(fs + rs, transpose_seq(2, fs.len() as int)), m, j)] == (fv + rv)[psum(fs + rs, transpose_seq(2, fs.len() as int)[m] as int) + j],
    ensures total(s2) == fv.len() + rv.len(), vals.len() == total(s2),
        forall|i: int, j: int| 0 <= i < fs.len() && 0 <= j < fs[i] ==> vals[#[trigger] seg_at(s2, i, j)] == fv[psum(fs, i) + j],
        forall|i: int, j: int| 0 <= i < fs.len() && 0 <= j < rs[i] ==> #[trigger] vals[seg_at(s2, i, fs[i] + j)] == rv[psum(rs, i) + j],
{
    let n = fs.len() as int; let p = transpose_seq(2, n); let k = kseq(fs + rs, p);
    assert(2 * n == n * 2) by (nonlinear_arith);
    assert(k.len() == 2 * n);
    lemma_interleave_offsets(fs, rs, s2, n);
    assert forall|i: int, j: int| 0 <= i < n && 0 <= j < fs[i] implies vals[#[trigger] seg_at(s2, i, j)] == fv[psum(fs, i) + j] by {
        lemma_interleave_offsets(fs, rs, s2, i);
        assert(vals[seg_at(k, 2 * i, j)] == (fv + rv)[psum(fs + rs, p[2 * i] as int) + j]);
        assert(transpose_at(2 * i, 2, n) == i) by (nonlinear_arith) requires 0 <= i < n;
        lemma_psum_prefix(fs + rs, fs, i);
        lemma_seg_range(fs, i, j);
    }
    assert forall|i: int, j: int| 0 <= i < n && 0 <= j < rs[i] implies #[trigger] vals[seg_at(s2, i, fs[i] + j)] == rv[psum(rs, i) + j] by {
        lemma_interleave_offsets(fs, rs, s2, i);
        assert(vals[seg_at(k, 2 * i + 1, j)] == (fv + rv)[psum(fs + rs, p[2 * i + 1] as int) + j]);
        assert(transpose_at(2 * i + 1, 2, n) == n + i) by (nonlinear_arith) requires 0 <= i < n;
        lemma_psum_concat(fs, rs, i);
        lemma_seg_range(rs, i, j);
    }
}
''')

fn(OP, 'interleave_blocks', kind='free', status='P', props=['C14', 'C05'], where_add='O: Clone + PartialEq, A: Clone',
   requires=['a.wf()', 'b.wf()', 'a.sources.table@.len() == b.sources.table@.len()', 'lawful_clone::<O>()',
             'small(a.values@.len())', 'small(b.values@.len())', 'small(a.sources.table@.len())',
             # machine arithmetic: the interleaved block sizes (a permutation of the sizes of a ++ b) sum to something that fits
             'total(kseq(a.sources.table@ + b.sources.table@, transpose_seq(2, a.sources.table@.len() as int))) <= usize::MAX'],
   ensures=[('C14.interleave-wf', 'r.wf()'),
            ('C14.interleave-source', 'r.src_type() =~= a.values@ + b.values@'),
            ('C14.interleave-shape', 'r.h.x@.len() == 0 && r.h.w@ == a.values@ + b.values@ && r.s.table@.len() == a.values@.len() + b.values@.len()'),
            ('C14.interleave-target', '''({ let fs = a.sources.table@; let rs = b.sources.table@; let s2 = Seq::new(fs.len(), |m: int| (fs[m] + rs[m]) as usize);
                r.t.table@.len() == a.values@.len() + b.values@.len() && total(s2) == a.values@.len() + b.values@.len()
                && (forall|i: int, j: int| 0 <= i < fs.len() && 0 <= j < fs[i] ==> r.tgt_type()[#[trigger] seg_at(s2, i, j)] == a.values@[psum(fs, i) + j])
                && (forall|i: int, j: int| 0 <= i < fs.len() && 0 <= j < rs[i] ==> #[trigger] r.tgt_type()[seg_at(s2, i, fs[i] + j)] == b.values@[psum(rs, i) + j]) })''')],
   proofs=[('before:let t = ab', '''lemma_seg_wf_sources(ab.sources, ab.values@.len());
            let n = a.sources.table@.len() as int;
            assert(2 * n == n * 2 && 2 * n == n + n) by (nonlinear_arith);
            lemma_ext_all(transpose_seq(2, n));'''),
           ('before:OpenHypergraph::spider(s, t, ab.values.clone()).unwrap()', '''let fs = a.sources.table@; let rs = b.sources.table@; let n = fs.len() as int;
            let s2 = Seq::new(fs.len(), |m: int| (fs[m] + rs[m]) as usize);
            let tg = Seq::new(t.table@.len(), |m: int| ab.values@[t.table@[m] as int]);
            assert(2 * n == n * 2) by (nonlinear_arith);
            assert(ab.sources.table@ == fs + rs);
            assert forall|m: int| 0 <= m < n implies fs[m] + rs[m] <= usize::MAX by {
                lemma_psum_mono(fs, 0, m); lemma_psum_mono(fs, m + 1, n); lemma_psum_mono(rs, 0, m); lemma_psum_mono(rs, m + 1, n);
                assert(psum(fs, m + 1) == psum(fs, m) + fs[m] && psum(rs, m + 1) == psum(rs, m) + rs[m]);
            }
            let k = kseq(fs + rs, transpose_seq(2, n));
            assert forall|m: int, j: int| 0 <= m < 2 * n && 0 <= j < k[m] implies
                tg[#[trigger] seg_at(k, m, j)] == (a.values@ + b.values@)[psum(fs + rs, transpose_seq(2, n)[m] as int) + j] by {
                lemma_seg_range(k, m, j);
                assert(t.table@[seg_at(k, m, j)] == psum(fs + rs, transpose_seq(2, n)[m] as int) + j);
            }
            lemma_interleave_values(fs, rs, a.values@, b.values@, s2, tg);''')])

fn(OP, 'partial_dagger', kind='free', status='P', props=['C14', 'C05'], where_add='O: Clone, A: Clone',
   requires=['c.wf()', 'c.s.table@.len() == fa.values@.len() + rb.values@.len()', 'c.t.table@.len() == fb.values@.len() + ra.values@.len()',
             'small(fa.values@.len())', 'small(fb.values@.len())', 'small(ra.values@.len())', 'small(rb.values@.len())'],
   ensures=[('C14.partial_dagger-wf', 'r.wf()'),
            ('C14.partial_dagger-hypergraph', '''r.h.w@.len() == c.h.w@.len() && r.h.x@.len() == c.h.x@.len() && (lawful_clone::<O>() ==> r.h.w@ == c.h.w@) && (lawful_clone::<A>() ==> r.h.x@ == c.h.x@)
                && r.h.s.values.table@ == c.h.s.values.table@ && r.h.t.values.table@ == c.h.t.values.table@
                && r.h.s.sources.table@ == c.h.s.sources.table@ && r.h.t.sources.table@ == c.h.t.sources.table@'''),
            ('C14.partial_dagger-legs', '''({ let na = fa.values@.len() as int; let nb = fb.values@.len() as int; let ma = ra.values@.len() as int; let mb = rb.values@.len() as int;
                r.s.table@.len() == na + ma && r.t.table@.len() == nb + mb
                && (forall|i: int| 0 <= i < na ==> r.s.table@[i] == c.s.table@[i])
                && (forall|i: int| na <= i < na + ma ==> r.s.table@[i] == c.t.table@[nb + (i - na)])
                && (forall|i: int| 0 <= i < nb ==> r.t.table@[i] == c.t.table@[i])
                && (forall|i: int| nb <= i < nb + mb ==> r.t.table@[i] == c.s.table@[na + (i - nb)]) })'''),
            ('C14.partial_dagger-type', '''lawful_clone::<O>() ==> ({ let na = fa.values@.len() as int; let nb = fb.values@.len() as int; let ma = ra.values@.len() as int; let mb = rb.values@.len() as int;
                r.src_type() =~= c.src_type().subrange(0, na) + c.tgt_type().subrange(nb, nb + ma)
                && r.tgt_type() =~= c.tgt_type().subrange(0, nb) + c.src_type().subrange(na, na + mb) })''')])

# ---------------------------------------------------------------------------------------------
# Optic::map_object: the object map of the optic is the block-wise concatenation F(A) ++ R(A)  (C14 typing)
# ---------------------------------------------------------------------------------------------
raw(r'''
/// The struct `Optic` of /repo, DECLARED here rather than extracted: Verus rejects the type `Box<dyn Fn(..) -> ..>` of its
/// `residual` field, which is replaced by an opaque type.  The method under contract below (map_object) reads only
/// `fwd` and `rev`.
#[verifier::external_body]
#[verifier::accept_recursive_types(O1)]
#[verifier::accept_recursive_types(A1)]
#[verifier::accept_recursive_types(O2)]
pub struct ResidualBox<O1, A1, O2> { _p: core::marker::PhantomData<(O1, A1, O2)> }
pub struct Optic<F, R, O1, A1, O2, A2> {
    pub fwd: F,
    pub rev: R,
    pub residual: ResidualBox<O1, A1, O2>,
    pub _phantom: core::marker::PhantomData<A2>,
}
''', tag='T:Optic-struct')


fn(OP, 'map_object', trait='Functor', self_ty='Optic', status='P', props=['C14', 'C05'], rename='optic_map_object',
   rules={'self_rename': ['this', '&Optic<F, R, O1, A1, O2, A2>'], 'ops': ['add', 'sub']},
   generics_add=['F: Functor<O1, A1, O2, A2>, R: Functor<O1, A1, O2, A2>, O1: Clone, A1: Clone, O2: Clone, A2'],
   requires=['lawful_clone::<O1>()', 'lawful_clone::<O2>()', 'small(a@.len())',
             'small(total(flat_sizes(a@, |o: O1| this.fwd.obj(o))) as nat)', 'small(total(flat_sizes(a@, |o: O1| this.rev.obj(o))) as nat)'],
   ensures=[('C14.optic-map_object', '''r.wf() && r.sources.table@.len() == a@.len()
                && (forall|i: int| 0 <= i < a@.len() ==> #[trigger] seg_is(r, i, this.fwd.obj(a@[i]) + this.rev.obj(a@[i])))''')],
   proofs=[G('before:assert_eq!(fa.len(), ra.len());', '''let ghost fs = fa.sources.table@; let ghost rs = ra.sources.table@; let ghost fv = fa.values@; let ghost rv = ra.values@;
        let ghost nn = a@.len() as int;
        proof {
            assert(lawful_clone::<usize>());
            lemma_fw_sizes(fa, a@, |o: O1| this.fwd.obj(o), Seq::<usize>::empty()); lemma_fw_sizes(ra, a@, |o: O1| this.rev.obj(o), Seq::<usize>::empty());
            lemma_seg_wf_sources(fa.sources, fv.len()); lemma_seg_wf_sources(ra.sources, rv.len());
            assert(2 * nn == nn * 2 && 2 * nn == nn + nn) by (nonlinear_arith);
            lemma_ext_all(transpose_seq(2, nn));
        }'''),
           ('before:let sources = FiniteFunction::new(', '''let s2 = Seq::new(nn as nat, |m: int| (fs[m] + rs[m]) as usize);
            assert forall|m: int| 0 <= m < nn implies fs[m] + rs[m] <= fv.len() + rv.len() by {
                lemma_psum_mono(fs, 0, m); lemma_psum_mono(fs, m + 1, nn); lemma_psum_mono(rs, 0, m); lemma_psum_mono(rs, m + 1, nn);
                assert(psum(fs, m + 1) == psum(fs, m) + fs[m] && psum(rs, m + 1) == psum(rs, m) + rs[m]);
            }
            lemma_interleave_offsets(fs, rs, s2, nn);'''),
           ('before:IndexedCoproduct::new(sources, values).unwrap()', '''let s2 = Seq::new(nn as nat, |m: int| (fs[m] + rs[m]) as usize);
            assert(sources.table@ =~= s2);
            lemma_interleave_values(fs, rs, fv, rv, s2, values@);
            assert forall|i: int| 0 <= i < nn implies #[trigger] seg_is(IndexedCoproduct::<SemifiniteFunction<O2>> { sources: sources, values: values }, i, this.fwd.obj(a@[i]) + this.rev.obj(a@[i])) by {
                assert(seg_is(fa, i, this.fwd.obj(a@[i])) && seg_is(ra, i, this.rev.obj(a@[i])));
                let l = this.fwd.obj(a@[i]) + this.rev.obj(a@[i]);
                assert forall|j: int| 0 <= j < l.len() implies values@[#[trigger] seg_at(s2, i, j)] == l[j] by {
                    if j < fs[i] { assert(fv[seg_at(fs, i, j)] == this.fwd.obj(a@[i])[j]); }
                    else { let j2 = j - fs[i]; assert(values@[seg_at(s2, i, fs[i] + j2)] == rv[psum(rs, i) + j2]); assert(rv[seg_at(rs, i, j2)] == this.rev.obj(a@[i])[j2]); }
                }
            }''')])

raw(r'''
/// two flat images of the same list under the same object map are equal
pub proof fn lemma_flat_unique<O1, O2>(t1: Seq<O2>, t2: Seq<O2>, a: Seq<O1>, obj: spec_fn(O1) -> Seq<O2>)
    requires is_flat_image(t1, a, obj), is_flat_image(t2, a, obj)
    ensures t1 =~= t2
{
    let k = flat_sizes(a, obj);
    assert forall|m: int| 0 <= m < t1.len() implies t1[m] == t2[m] by {
        let (p, j) = lemma_seg_find(k, m);
        assert(t1[seg_at(k, p, j)] == obj(a[p])[j] && t2[seg_at(k, p, j)] == obj(a[p])[j]);
    }
}

/// the values of a map_object result are the flat image of the list
pub proof fn lemma_values_flat<O1, O2>(fa: IndexedCoproduct<SemifiniteFunction<O2>>, a: Seq<O1>, obj: spec_fn(O1) -> Seq<O2>)
    requires fa.wf(), fa.sources.table@.len() == a.len(), forall|i: int| 0 <= i < a.len() ==> #[trigger] seg_is(fa, i, obj(a[i]))
    ensures is_flat_image(fa.values@, a, obj), flat_sizes(a, obj) =~= fa.sources.table@
{
    let k = flat_sizes(a, obj);
    assert forall|i: int| 0 <= i < a.len() implies k[i] == fa.sources.table@[i] && obj(a[i]).len() <= usize::MAX by { assert(seg_is(fa, i, obj(a[i]))); }
    assert(k =~= fa.sources.table@);
    assert(fa.values@.len() == total(k));
    assert forall|p: int| 0 <= p < a.len() implies obj(a[p]).len() <= usize::MAX by { assert(seg_is(fa, p, obj(a[p]))); }
    assert forall|p: int, j: int| 0 <= p < a.len() && 0 <= j < k[p] implies fa.values@[#[trigger] seg_at(k, p, j)] == obj(a[p])[j] by { assert(seg_is(fa, p, obj(a[p]))); }
}

/// the block-wise interleaving of F(A) and R(A) is the flat image of A under o |-> F(o) ++ R(o)
pub proof fn lemma_interleaved_flat<O1, O2>(tg: Seq<O2>, fa: IndexedCoproduct<SemifiniteFunction<O2>>, ra: IndexedCoproduct<SemifiniteFunction<O2>>, a: Seq<O1>,
                                            fobj: spec_fn(O1) -> Seq<O2>, robj: spec_fn(O1) -> Seq<O2>, obj2: spec_fn(O1) -> Seq<O2>)
    requires fa.wf(), ra.wf(), fa.sources.table@.len() == a.len(), ra.sources.table@.len() == a.len(),
        forall|i: int| 0 <= i < a.len() ==> #[trigger] seg_is(fa, i, fobj(a[i])),
        forall|i: int| 0 <= i < a.len() ==> #[trigger] seg_is(ra, i, robj(a[i])),
        forall|o: O1| #[trigger] obj2(o) == fobj(o) + robj(o),
        forall|i: int| 0 <= i < a.len() ==> fa.sources.table@[i] + ra.sources.table@[i] <= usize::MAX,
        ({ let fs = fa.sources.table@; let rs = ra.sources.table@; let s2 = Seq::new(fs.len(), |m: int| (fs[m] + rs[m]) as usize);
           tg.len() == total(s2)
           && (forall|i: int, j: int| 0 <= i < fs.len() && 0 <= j < fs[i] ==> tg[#[trigger] seg_at(s2, i, j)] == fa.values@[psum(fs, i) + j])
           && (forall|i: int, j: int| 0 <= i < fs.len() && 0 <= j < rs[i] ==> #[trigger] tg[seg_at(s2, i, fs[i] + j)] == ra.values@[psum(rs, i) + j]) }),
    ensures is_flat_image(tg, a, obj2)
{
    let fs = fa.sources.table@; let rs = ra.sources.table@; let s2 = Seq::new(fs.len(), |m: int| (fs[m] + rs[m]) as usize);
    let k = flat_sizes(a, obj2);
    assert forall|i: int| 0 <= i < a.len() implies k[i] == s2[i] && obj2(a[i]).len() <= usize::MAX by {
        assert(seg_is(fa, i, fobj(a[i])) && seg_is(ra, i, robj(a[i])));
        assert(obj2(a[i]) == fobj(a[i]) + robj(a[i]));
    }
    assert(k =~= s2);
    assert(tg.len() == total(k));
    assert forall|p: int| 0 <= p < a.len() implies obj2(a[p]).len() <= usize::MAX by { assert(k[p] == s2[p]); }
    assert forall|p: int, j: int| 0 <= p < a.len() && 0 <= j < k[p] implies tg[#[trigger] seg_at(k, p, j)] == obj2(a[p])[j] by {
        assert(seg_is(fa, p, fobj(a[p])) && seg_is(ra, p, robj(a[p])));
        assert(obj2(a[p]) == fobj(a[p]) + robj(a[p]));
        if j < fs[p] { assert(tg[seg_at(s2, p, j)] == fa.values@[psum(fs, p) + j]); assert(fa.values@[seg_at(fs, p, j)] == fobj(a[p])[j]); }
        else { let j2 = j - fs[p]; assert(tg[seg_at(s2, p, fs[p] + j2)] == ra.values@[psum(rs, p) + j2]); assert(ra.values@[seg_at(rs, p, j2)] == robj(a[p])[j2]); }
    }
}

/// machine arithmetic for adapt: the four object images and the diagram c are small
pub open spec fn adapt_sizes<O1, O2, A2>(c: OpenHypergraph<O2, A2>, a: Seq<O1>, b: Seq<O1>, fobj: spec_fn(O1) -> Seq<O2>, robj: spec_fn(O1) -> Seq<O2>) -> bool {
    &&& small(a.len()) && small(b.len())
    &&& small(total(flat_sizes(a, fobj)) as nat) && small(total(flat_sizes(a, robj)) as nat)
    &&& small(total(flat_sizes(b, fobj)) as nat) && small(total(flat_sizes(b, robj)) as nat)
    &&& small(c.h.w@.len()) && small(c.h.x@.len()) && small(c.h.s.values.table@.len()) && small(c.h.t.values.table@.len())
    &&& small(c.s.table@.len()) && small(c.t.table@.len())
}
''')

fn(OP, 'adapt', self_ty='Optic', status='P', props=['C14', 'C05'], rename='optic_adapt',
   rules={'self_rename': ['this', '&Optic<F, R, O1, A1, O2, A2>']},
   generics_add=['F: Functor<O1, A1, O2, A2>, R: Functor<O1, A1, O2, A2>, O1: Clone, A1: Clone, O2: Clone + PartialEq, A2: Clone'],
   requires=['c.wf()', 'lawful_clone::<O1>()', 'lawful_clone::<O2>()', 'lawful_clone::<A2>()', 'lawful_eq::<O2>()',
             'adapt_sizes(*c, a@, b@, |o: O1| this.fwd.obj(o), |o: O1| this.rev.obj(o))',
             # c has the optic type interleave(F A, R A) -> interleave(F B, R B)
             'is_flat_image(c.src_type(), a@, |o: O1| this.fwd.obj(o) + this.rev.obj(o))',
             'is_flat_image(c.tgt_type(), b@, |o: O1| this.fwd.obj(o) + this.rev.obj(o))'],
   ensures=[('C14.adapt-wf', 'r.wf()'),
            ('C14.adapt-type', '''exists|fa_t: Seq<O2>, rb_t: Seq<O2>, fb_t: Seq<O2>, ra_t: Seq<O2>|
                is_flat_image(fa_t, a@, |o: O1| this.fwd.obj(o)) && is_flat_image(rb_t, b@, |o: O1| this.rev.obj(o))
                && is_flat_image(fb_t, b@, |o: O1| this.fwd.obj(o)) && is_flat_image(ra_t, a@, |o: O1| this.rev.obj(o))
                && #[trigger] (fa_t + rb_t) =~= r.src_type() && #[trigger] (fb_t + ra_t) =~= r.tgt_type()''')],
   proofs=[('before:let lhs = interleave_blocks(&fa, &ra);', '''assert(lawful_clone::<usize>());
            let fobj = |o: O1| this.fwd.obj(o); let robj = |o: O1| this.rev.obj(o); let obj2 = |o: O1| this.fwd.obj(o) + this.rev.obj(o);
            lemma_values_flat(fa, a@, fobj); lemma_values_flat(ra, a@, robj); lemma_values_flat(fb, b@, fobj); lemma_values_flat(rb, b@, robj);
            lemma_seg_wf_sources(fa.sources, fa.values@.len()); lemma_seg_wf_sources(ra.sources, ra.values@.len());
            lemma_seg_wf_sources(fb.sources, fb.values@.len()); lemma_seg_wf_sources(rb.sources, rb.values@.len());
            let na = a@.len() as int; let nb = b@.len() as int;
            assert(2 * na == na * 2 && 2 * nb == nb * 2) by (nonlinear_arith);
            let s2a = Seq::new(na as nat, |m: int| (fa.sources.table@[m] + ra.sources.table@[m]) as usize);
            let s2b = Seq::new(nb as nat, |m: int| (fb.sources.table@[m] + rb.sources.table@[m]) as usize);
            assert forall|m: int| 0 <= m < na implies fa.sources.table@[m] + ra.sources.table@[m] <= usize::MAX by {}
            assert forall|m: int| 0 <= m < nb implies fb.sources.table@[m] + rb.sources.table@[m] <= usize::MAX by {}
            lemma_interleave_offsets(fa.sources.table@, ra.sources.table@, s2a, na);
            lemma_interleave_offsets(fb.sources.table@, rb.sources.table@, s2b, nb);
            assert forall|x: OpenHypergraph<O2, A2>, y: OpenHypergraph<O2, A2>| #[trigger] is_dagger(y, x) implies y.src_type() =~= x.tgt_type() && y.tgt_type() =~= x.src_type() by {}'''),
           ('before:let d = lhs.compose(c).unwrap().compose(&rhs).unwrap();', '''let fobj = |o: O1| this.fwd.obj(o); let robj = |o: O1| this.rev.obj(o); let obj2 = |o: O1| this.fwd.obj(o) + this.rev.obj(o);
            lemma_interleaved_flat(lhs.tgt_type(), fa, ra, a@, fobj, robj, obj2);
            lemma_flat_unique(lhs.tgt_type(), c.src_type(), a@, obj2);
            lemma_interleaved_flat(rhs.src_type(), fb, rb, b@, fobj, robj, obj2);
            lemma_flat_unique(c.tgt_type(), rhs.src_type(), b@, obj2);'''),
           ('end', '''let fa_t = fa.values@; let rb_t = rb.values@; let fb_t = fb.values@; let ra_t = ra.values@;
            assert(d.src_type() =~= fa_t + ra_t);
            assert(d.tgt_type() =~= fb_t + rb_t);
            assert(d.src_type().subrange(0, fa_t.len() as int) =~= fa_t && d.src_type().subrange(fa_t.len() as int, (fa_t.len() + ra_t.len()) as int) =~= ra_t);
            assert(d.tgt_type().subrange(0, fb_t.len() as int) =~= fb_t && d.tgt_type().subrange(fb_t.len() as int, (fb_t.len() + rb_t.len()) as int) =~= rb_t);
            let w1 = fa_t + rb_t; let w2 = fb_t + ra_t;''')])
