# strict/functor/optic.rs.  Proved: interleave_blocks, partial_dagger (well-formedness, panic-freedom, types: C14 typing,
# C05), Optic::map_object (block-wise F(A) ++ R(A)), Optic::adapt (type F A * R B -> F B * R A), Optic::map_operations
# (type interleave(F A, R A) -> interleave(F B, R B), sizes, no unwrap() can fail, for every forward / reverse functor
# and residual typed as lenses with that residual: optic_pre) and Optic::map_arrow (the same type for EVERY diagram, by
# the generic define_map_arrow).  The Optic struct holds a Box<dyn Fn>, which Verus rejects: the struct is declared
# with an opaque stand-in for that field and the call of the boxed closure goes through it (rule T14).  Functoriality
# up to isomorphism, monogamy of the adapted form and the derivative clause are bounded (module C14).
OP = 'src/strict/functor/optic.rs'

module('optic', uses=['vstd::std_specs::cmp::*'])

raw(r'''
/// the table of FiniteFunction::transpose(a, b)
pub open spec fn transpose_seq(a: int, b: int) -> Seq<usize> {
    Seq::new((a * b) as nat, |i: int| transpose_at(i, a, b) as usize)
}
''')

raw(r'''
/// interleaving two families of n blocks: the sizes of the 2n blocks taken in the order 0, n, 1, n+1, ...
pub proof fn lemma_interleave_offsets(fs: Seq<usize>, rs: Seq<usize>, s2: Seq<usize>, i: int)
    requires fs.len() == rs.len(), s2.len() == fs.len(), 0 <= i <= fs.len(), 2 * fs.len() <= usize::MAX,
        forall|m: int| 0 <= m < fs.len() ==> s2[m] == fs[m] + rs[m],
    ensures ({ let n = fs.len() as int; let k = kseq(fs + rs, transpose_seq(2, n));
        psum(k, 2 * i) == psum(fs, i) + psum(rs, i) && psum(s2, i) == psum(fs, i) + psum(rs, i)
        && (i < n ==> k[2 * i] == fs[i] && k[2 * i + 1] == rs[i] && psum(k, 2 * i + 1) == psum(fs, i) + psum(rs, i) + fs[i]) })
    decreases i
{
    let n = fs.len() as int; let p = transpose_seq(2, n); let k = kseq(fs + rs, p);
    assert(2 * n == n * 2) by (nonlinear_arith);
    if i > 0 {
        lemma_interleave_offsets(fs, rs, s2, i - 1);
        assert(psum(k, 2 * i) == psum(k, 2 * i - 1) + k[2 * i - 1]);
        assert(psum(k, 2 * i - 1) == psum(k, 2 * (i - 1)) + k[2 * (i - 1)]);
    }
    if i < n {
        assert(transpose_at(2 * i, 2, n) == i) by (nonlinear_arith) requires 0 <= i < n;
        assert(transpose_at(2 * i + 1, 2, n) == n + i) by (nonlinear_arith) requires 0 <= i < n;
        assert(p[2 * i] == i && p[2 * i + 1] == n + i);
        assert((fs + rs)[i] == fs[i] && (fs + rs)[n + i] == rs[i]);
        assert(psum(k, 2 * i + 1) == psum(k, 2 * i) + k[2 * i]);
    }
}

/// the values of the interleaving, block by block
pub proof fn lemma_interleave_values<T>(fs: Seq<usize>, rs: Seq<usize>, fv: Seq<T>, rv: Seq<T>, s2: Seq<usize>, vals: Seq<T>)
    requires fs.len() == rs.len(), s2.len() == fs.len(), total(fs) == fv.len(), total(rs) == rv.len(), 2 * fs.len() <= usize::MAX,
        forall|m: int| 0 <= m < fs.len() ==> s2[m] == fs[m] + rs[m],
        vals.len() == total(kseq(fs + rs, transpose_seq(2, fs.len() as int))),
        forall|m: int, j: int| 0 <= m < 2 * fs.len() && 0 <= j < kseq(fs + rs, transpose_seq(2, fs.len() as int))[m] ==>
            vals[#[trigger] seg_at(kseq(fs + rs, transpose_seq(2, fs.len() as int)), m, j)] == (fv + rv)[psum(fs + rs, transpose_seq(2, fs.len() as int)[m] as int) + j],
    ensures total(s2) == fv.len() + rv.len(), vals.len() == total(s2),
        forall|i: int, j: int| 0 <= i < fs.len() && 0 <= j < fs[i] ==> vals[#[trigger] seg_at(s2, i, j)] == fv[psum(fs, i) + j],
        forall|i: int, j: int| 0 <= i < fs.len() && 0 <= j < rs[i] ==> #[trigger] vals[seg_at(s2, i, fs[i] + j)] == rv[psum(rs, i) + j],
{
    let n = fs.len() as int; let p = transpose_seq(2, n); let k = kseq(fs + rs, p);
    assert(2 * n == n * 2) by (nonlinear_arith);
    assert(k.len() == 2 * n);
    lemma_interleave_offsets(fs, rs, s2, n);
    assert forall|i: int, j: int| 0 <= i < n && 0 <= j < fs[i] implies vals[#[trigger] seg_at(s2, i, j)] == fv[psum(fs, i) + j] by {
        lemma_interleave_offsets(fs, rs, s2, i);
        assert(vals[seg_at(k, 2 * i, j)] == (fv + rv)[psum(fs + rs, p[2 * i] as int) + j]);
        assert(transpose_at(2 * i, 2, n) == i) by (nonlinear_arith) requires 0 <= i < n;
        lemma_psum_prefix(fs + rs, fs, i);
        lemma_seg_range(fs, i, j);
    }
    assert forall|i: int, j: int| 0 <= i < n && 0 <= j < rs[i] implies #[trigger] vals[seg_at(s2, i, fs[i] + j)] == rv[psum(rs, i) + j] by {
        lemma_interleave_offsets(fs, rs, s2, i);
        assert(vals[seg_at(k, 2 * i + 1, j)] == (fv + rv)[psum(fs + rs, p[2 * i + 1] as int) + j]);
        assert(transpose_at(2 * i + 1, 2, n) == n + i) by (nonlinear_arith) requires 0 <= i < n;
        lemma_psum_concat(fs, rs, i);
        lemma_seg_range(rs, i, j);
    }
}
''')

raw(r'''
/// tg is the block-wise interleaving  a_0 b_0 a_1 b_1 ...  of two segmented arrays with block sizes fs, rs and values fv, rv
pub open spec fn is_interleaved<O>(tg: Seq<O>, fs: Seq<usize>, fv: Seq<O>, rs: Seq<usize>, rv: Seq<O>) -> bool {
    let s2 = Seq::new(fs.len(), |m: int| (fs[m] + rs[m]) as usize);
    &&& fs.len() == rs.len() && tg.len() == fv.len() + rv.len() && total(s2) == fv.len() + rv.len()
    &&& (forall|i: int, j: int| 0 <= i < fs.len() && 0 <= j < fs[i] ==> tg[#[trigger] seg_at(s2, i, j)] == fv[psum(fs, i) + j])
    &&& (forall|i: int, j: int| 0 <= i < fs.len() && 0 <= j < rs[i] ==> #[trigger] tg[seg_at(s2, i, fs[i] + j)] == rv[psum(rs, i) + j])
}

/// r is THE interleaving diagram of two segmented arrays (block sizes fs, rs; values fv, rv): a spider on the nodes fv ++ rv
/// whose source leg is the identity and whose target leg lists the blocks in the order a_0 b_0 a_1 b_1 ... (exact tables)
pub open spec fn is_interleave_of<O, A>(r: OpenHypergraph<O, A>, fs: Seq<usize>, fv: Seq<O>, rs: Seq<usize>, rv: Seq<O>) -> bool {
    let n = fs.len() as int; let k = kseq(fs + rs, transpose_seq(2, n)); let len = fv.len() + rv.len();
    &&& r.wf() && r.h.x@.len() == 0 && r.h.w@ == fv + rv
    &&& r.s.table@.len() == len && (forall|i: int| 0 <= i < len ==> r.s.table@[i] == i)
    &&& r.t.table@.len() == total(k)
    &&& (forall|m: int, j: int| 0 <= m < 2 * n && 0 <= j < k[m] ==> r.t.table@[#[trigger] seg_at(k, m, j)] == psum(fs + rs, transpose_seq(2, n)[m] as int) + j)
}

/// two interleaving diagrams of the same arrays are the same diagram (no open choice is involved)
pub proof fn lemma_interleave_unique<O, A>(r1: OpenHypergraph<O, A>, r2: OpenHypergraph<O, A>, fs: Seq<usize>, fv: Seq<O>, rs: Seq<usize>, rv: Seq<O>)
    requires is_interleave_of(r1, fs, fv, rs, rv), is_interleave_of(r2, fs, fv, rs, rv), fs.len() == rs.len(), 2 * fs.len() <= usize::MAX
    ensures r1.s.table@ =~= r2.s.table@, r1.t.table@ =~= r2.t.table@, r1.h.w@ == r2.h.w@, r1.h.x@ =~= r2.h.x@,
        node_iso(r1, r2, id_seq(r1.h.w@.len() as int))
{
    let n = fs.len() as int; let k = kseq(fs + rs, transpose_seq(2, n));
    assert(2 * n == n * 2) by (nonlinear_arith);
    assert forall|m: int| 0 <= m < r1.t.table@.len() implies r1.t.table@[m] == r2.t.table@[m] by {
        let (p, j) = lemma_seg_find(k, m);
        assert(r1.t.table@[seg_at(k, p, j)] == r2.t.table@[seg_at(k, p, j)]);
    }
    lemma_no_edges(r1); lemma_no_edges(r2);
    let phi = id_seq(r1.h.w@.len() as int);
    assert forall|i: int| 0 <= i < r1.t.table@.len() implies (#[trigger] r2.t.table@[i]) == phi[r1.t.table@[i] as int] by { assert(r1.t.table@[i] < r1.t.target); }
    assert(r1.h.s.sources.table@ =~= r2.h.s.sources.table@ && r1.h.t.sources.table@ =~= r2.h.t.sources.table@);
    let nn = r1.h.w@.len() as int;
    assert(in_bounds(phi, nn) && injective(phi));
    assert forall|v: int| 0 <= v < nn implies r2.h.w@[(#[trigger] phi[v]) as int] == r1.h.w@[v] by { }
    assert forall|i: int| 0 <= i < r1.s.table@.len() implies (#[trigger] r2.s.table@[i]) == phi[r1.s.table@[i] as int] by { assert(r1.s.table@[i] == i); }
    assert(r2.h.s.values.table@.len() == 0 && r2.h.t.values.table@.len() == 0 && r1.h.s.values.table@.len() == 0 && r1.h.t.values.table@.len() == 0);
    assert(r1.h.x@ =~= r2.h.x@);
}

pub proof fn lemma_interleaved_unique<O>(t1: Seq<O>, t2: Seq<O>, fs: Seq<usize>, fv: Seq<O>, rs: Seq<usize>, rv: Seq<O>)
    requires is_interleaved(t1, fs, fv, rs, rv), is_interleaved(t2, fs, fv, rs, rv), forall|i: int| 0 <= i < fs.len() ==> fs[i] + rs[i] <= usize::MAX
    ensures t1 =~= t2
{
    let s2 = Seq::new(fs.len(), |m: int| (fs[m] + rs[m]) as usize);
    assert forall|m: int| 0 <= m < t1.len() implies t1[m] == t2[m] by {
        let (p, j) = lemma_seg_find(s2, m);
        if j < fs[p] { assert(t1[seg_at(s2, p, j)] == fv[psum(fs, p) + j]); assert(t2[seg_at(s2, p, j)] == fv[psum(fs, p) + j]); }
        else { let j2 = j - fs[p]; assert(t1[seg_at(s2, p, fs[p] + j2)] == rv[psum(rs, p) + j2]); assert(t2[seg_at(s2, p, fs[p] + j2)] == rv[psum(rs, p) + j2]); }
    }
}

''')

fn(OP, 'interleave_blocks', kind='free', status='P', props=['C14', 'C05'], where_add='O: Clone + PartialEq, A: Clone',
   requires=['a.wf()', 'b.wf()', 'a.sources.table@.len() == b.sources.table@.len()', 'lawful_clone::<O>()',
             'small(a.values@.len())', 'small(b.values@.len())', 'small(a.sources.table@.len())',
             # machine arithmetic: the interleaved block sizes (a permutation of the sizes of a ++ b) sum to something that fits
             'total(kseq(a.sources.table@ + b.sources.table@, transpose_seq(2, a.sources.table@.len() as int))) <= usize::MAX'],
   ensures=[('C14.interleave-wf', 'r.wf()'),
            ('C14.interleave-source', 'r.src_type() =~= a.values@ + b.values@'),
            ('C14.interleave-shape', 'r.h.x@.len() == 0 && r.h.w@ == a.values@ + b.values@ && r.s.table@.len() == a.values@.len() + b.values@.len()'),
            ('C14.interleave-target', '''({ let fs = a.sources.table@; let rs = b.sources.table@; let s2 = Seq::new(fs.len(), |m: int| (fs[m] + rs[m]) as usize);
                r.t.table@.len() == a.values@.len() + b.values@.len() && total(s2) == a.values@.len() + b.values@.len()
                && (forall|i: int, j: int| 0 <= i < fs.len() && 0 <= j < fs[i] ==> r.tgt_type()[#[trigger] seg_at(s2, i, j)] == a.values@[psum(fs, i) + j])
                && (forall|i: int, j: int| 0 <= i < fs.len() && 0 <= j < rs[i] ==> #[trigger] r.tgt_type()[seg_at(s2, i, fs[i] + j)] == b.values@[psum(rs, i) + j]) })'''),
            ('C14.interleave-target-pred', 'is_interleaved(r.tgt_type(), a.sources.table@, a.values@, b.sources.table@, b.values@)'),
            ('C14.interleave-exact', 'is_interleave_of(r, a.sources.table@, a.values@, b.sources.table@, b.values@)')],
   proofs=[('before:let t = ab', '''lemma_seg_wf_sources(ab.sources, ab.values@.len());
            let n = a.sources.table@.len() as int;
            assert(2 * n == n * 2 && 2 * n == n + n) by (nonlinear_arith);
            lemma_ext_all(transpose_seq(2, n));'''),
           ('before:OpenHypergraph::spider(s, t, ab.values.clone()).unwrap()', '''let fs = a.sources.table@; let rs = b.sources.table@; let n = fs.len() as int;
            let s2 = Seq::new(fs.len(), |m: int| (fs[m] + rs[m]) as usize);
            let tg = Seq::new(t.table@.len(), |m: int| ab.values@[t.table@[m] as int]);
            assert(2 * n == n * 2) by (nonlinear_arith);
            assert(ab.sources.table@ == fs + rs);
            assert forall|m: int| 0 <= m < n implies fs[m] + rs[m] <= usize::MAX by {
                lemma_psum_mono(fs, 0, m); lemma_psum_mono(fs, m + 1, n); lemma_psum_mono(rs, 0, m); lemma_psum_mono(rs, m + 1, n);
                assert(psum(fs, m + 1) == psum(fs, m) + fs[m] && psum(rs, m + 1) == psum(rs, m) + rs[m]);
            }
            let k = kseq(fs + rs, transpose_seq(2, n));
            assert forall|m: int, j: int| 0 <= m < 2 * n && 0 <= j < k[m] implies
                tg[#[trigger] seg_at(k, m, j)] == (a.values@ + b.values@)[psum(fs + rs, transpose_seq(2, n)[m] as int) + j] by {
                lemma_seg_range(k, m, j);
                assert(t.table@[seg_at(k, m, j)] == psum(fs + rs, transpose_seq(2, n)[m] as int) + j);
            }
            lemma_interleave_values(fs, rs, a.values@, b.values@, s2, tg);''')])

raw(r'''
/// r is c with its legs re-bent: the first na inputs and the last ma outputs of c become the inputs, the first nb outputs and the
/// last mb inputs become the outputs; the hypergraph is untouched (the postcondition of partial_dagger as one predicate)
pub open spec fn is_partial_dagger<O, A>(r: OpenHypergraph<O, A>, c: OpenHypergraph<O, A>, na: int, nb: int, ma: int, mb: int) -> bool {
    &&& r.wf()
    &&& r.h.w@ == c.h.w@ && r.h.x@ == c.h.x@
    &&& r.h.s.values.table@ == c.h.s.values.table@ && r.h.t.values.table@ == c.h.t.values.table@
    &&& r.h.s.sources.table@ == c.h.s.sources.table@ && r.h.t.sources.table@ == c.h.t.sources.table@
    &&& r.s.table@.len() == na + ma && r.t.table@.len() == nb + mb
    &&& (forall|i: int| 0 <= i < na ==> r.s.table@[i] == c.s.table@[i])
    &&& (forall|i: int| na <= i < na + ma ==> r.s.table@[i] == c.t.table@[nb + (i - na)])
    &&& (forall|i: int| 0 <= i < nb ==> r.t.table@[i] == c.t.table@[i])
    &&& (forall|i: int| nb <= i < nb + mb ==> r.t.table@[i] == c.s.table@[na + (i - nb)])
}

/// re-bending the legs respects isomorphism (same node bijection)
pub proof fn lemma_partial_dagger_iso<O, A>(c: OpenHypergraph<O, A>, c2: OpenHypergraph<O, A>, r: OpenHypergraph<O, A>, r2: OpenHypergraph<O, A>, na: int, nb: int, ma: int, mb: int, phi: Seq<usize>)
    requires node_iso(c, c2, phi), is_partial_dagger(r, c, na, nb, ma, mb), is_partial_dagger(r2, c2, na, nb, ma, mb),
        0 <= na && 0 <= nb && 0 <= ma && 0 <= mb, c.s.table@.len() == na + mb, c.t.table@.len() == nb + ma,
    ensures node_iso(r, r2, phi)
{
    assert forall|i: int| 0 <= i < r.s.table@.len() implies (#[trigger] r2.s.table@[i]) == phi[r.s.table@[i] as int] by {
        if i < na { assert(c2.s.table@[i] == phi[c.s.table@[i] as int]); } else { assert(c2.t.table@[nb + (i - na)] == phi[c.t.table@[nb + (i - na)] as int]); }
    }
    assert forall|i: int| 0 <= i < r.t.table@.len() implies (#[trigger] r2.t.table@[i]) == phi[r.t.table@[i] as int] by {
        if i < nb { assert(c2.t.table@[i] == phi[c.t.table@[i] as int]); } else { assert(c2.s.table@[na + (i - nb)] == phi[c.s.table@[na + (i - nb)] as int]); }
    }
}
''')

fn(OP, 'partial_dagger', kind='free', status='P', props=['C14', 'C05'], where_add='O: Clone, A: Clone',
   requires=['c.wf()', 'c.s.table@.len() == fa.values@.len() + rb.values@.len()', 'c.t.table@.len() == fb.values@.len() + ra.values@.len()',
             'small(fa.values@.len())', 'small(fb.values@.len())', 'small(ra.values@.len())', 'small(rb.values@.len())'],
   ensures=[('C14.partial_dagger-wf', 'r.wf()'),
            ('C14.partial_dagger-hypergraph', '''r.h.w@.len() == c.h.w@.len() && r.h.x@.len() == c.h.x@.len() && (lawful_clone::<O>() ==> r.h.w@ == c.h.w@) && (lawful_clone::<A>() ==> r.h.x@ == c.h.x@)
                && r.h.s.values.table@ == c.h.s.values.table@ && r.h.t.values.table@ == c.h.t.values.table@
                && r.h.s.sources.table@ == c.h.s.sources.table@ && r.h.t.sources.table@ == c.h.t.sources.table@'''),
            ('C14.partial_dagger-legs', '''({ let na = fa.values@.len() as int; let nb = fb.values@.len() as int; let ma = ra.values@.len() as int; let mb = rb.values@.len() as int;
                r.s.table@.len() == na + ma && r.t.table@.len() == nb + mb
                && (forall|i: int| 0 <= i < na ==> r.s.table@[i] == c.s.table@[i])
                && (forall|i: int| na <= i < na + ma ==> r.s.table@[i] == c.t.table@[nb + (i - na)])
                && (forall|i: int| 0 <= i < nb ==> r.t.table@[i] == c.t.table@[i])
                && (forall|i: int| nb <= i < nb + mb ==> r.t.table@[i] == c.s.table@[na + (i - nb)]) })'''),
            ('C14.partial_dagger-type', '''lawful_clone::<O>() ==> ({ let na = fa.values@.len() as int; let nb = fb.values@.len() as int; let ma = ra.values@.len() as int; let mb = rb.values@.len() as int;
                r.src_type() =~= c.src_type().subrange(0, na) + c.tgt_type().subrange(nb, nb + ma)
                && r.tgt_type() =~= c.tgt_type().subrange(0, nb) + c.src_type().subrange(na, na + mb) })'''),
            ('C14.partial_dagger-pred', 'lawful_clone::<O>() && lawful_clone::<A>() ==> is_partial_dagger(r, *c, fa.values@.len() as int, fb.values@.len() as int, ra.values@.len() as int, rb.values@.len() as int)')])

# ---------------------------------------------------------------------------------------------
# Optic::map_object: the object map of the optic is the block-wise concatenation F(A) ++ R(A)  (C14 typing)
# ---------------------------------------------------------------------------------------------
raw(r'''
/// The struct `Optic` of /repo, DECLARED here rather than extracted: Verus rejects the type `Box<dyn Fn(..) -> ..>` of its
/// `residual` field, which is replaced by an opaque type.  The method under contract below (map_object) reads only
/// `fwd` and `rev`.
#[verifier::external_body]
#[verifier::accept_recursive_types(O1)]
#[verifier::accept_recursive_types(A1)]
#[verifier::accept_recursive_types(O2)]
pub struct ResidualBox<O1, A1, O2> { _p: core::marker::PhantomData<(O1, A1, O2)> }
pub struct Optic<F, R, O1, A1, O2, A2> {
    pub fwd: F,
    pub rev: R,
    pub residual: ResidualBox<O1, A1, O2>,
    pub _phantom: core::marker::PhantomData<A2>,
}
''', tag='T:Optic-struct')


fn(OP, 'map_object', trait='Functor', self_ty='Optic', status='P', props=['C14', 'C05'], rename='optic_map_object',
   rules={'self_rename': ['this', '&Optic<F, R, O1, A1, O2, A2>'], 'ops': ['add', 'sub']},
   generics_add=['F: Functor<O1, A1, O2, A2>, R: Functor<O1, A1, O2, A2>, O1: Clone, A1: Clone, O2: Clone, A2'],
   requires=['lawful_clone::<O1>()', 'lawful_clone::<O2>()', 'small(a@.len())', 'this.fwd.obj_pre(a@)', 'this.rev.obj_pre(a@)',
             'small(total(flat_sizes(a@, |o: O1| this.fwd.obj(o))) as nat)', 'small(total(flat_sizes(a@, |o: O1| this.rev.obj(o))) as nat)'],
   ensures=[('C14.optic-map_object', '''r.wf() && r.sources.table@.len() == a@.len()
                && (forall|i: int| 0 <= i < a@.len() ==> #[trigger] seg_is(r, i, this.fwd.obj(a@[i]) + this.rev.obj(a@[i])))''')],
   proofs=[G('before:assert_eq!(fa.len(), ra.len());', '''let ghost fs = fa.sources.table@; let ghost rs = ra.sources.table@; let ghost fv = fa.values@; let ghost rv = ra.values@;
        let ghost nn = a@.len() as int;
        proof {
            assert(lawful_clone::<usize>());
            lemma_fw_sizes(fa, a@, |o: O1| this.fwd.obj(o), Seq::<usize>::empty()); lemma_fw_sizes(ra, a@, |o: O1| this.rev.obj(o), Seq::<usize>::empty());
            lemma_seg_wf_sources(fa.sources, fv.len()); lemma_seg_wf_sources(ra.sources, rv.len());
            assert(2 * nn == nn * 2 && 2 * nn == nn + nn) by (nonlinear_arith);
            lemma_ext_all(transpose_seq(2, nn));
        }'''),
           ('before:let sources = FiniteFunction::new(', '''let s2 = Seq::new(nn as nat, |m: int| (fs[m] + rs[m]) as usize);
            assert forall|m: int| 0 <= m < nn implies fs[m] + rs[m] <= fv.len() + rv.len() by {
                lemma_psum_mono(fs, 0, m); lemma_psum_mono(fs, m + 1, nn); lemma_psum_mono(rs, 0, m); lemma_psum_mono(rs, m + 1, nn);
                assert(psum(fs, m + 1) == psum(fs, m) + fs[m] && psum(rs, m + 1) == psum(rs, m) + rs[m]);
            }
            lemma_interleave_offsets(fs, rs, s2, nn);'''),
           ('before:IndexedCoproduct::new(sources, values).unwrap()', '''let s2 = Seq::new(nn as nat, |m: int| (fs[m] + rs[m]) as usize);
            assert(sources.table@ =~= s2);
            lemma_interleave_values(fs, rs, fv, rv, s2, values@);
            assert forall|i: int| 0 <= i < nn implies #[trigger] seg_is(IndexedCoproduct::<SemifiniteFunction<O2>> { sources: sources, values: values }, i, this.fwd.obj(a@[i]) + this.rev.obj(a@[i])) by {
                assert(seg_is(fa, i, this.fwd.obj(a@[i])) && seg_is(ra, i, this.rev.obj(a@[i])));
                let l = this.fwd.obj(a@[i]) + this.rev.obj(a@[i]);
                assert forall|j: int| 0 <= j < l.len() implies values@[#[trigger] seg_at(s2, i, j)] == l[j] by {
                    if j < fs[i] { assert(fv[seg_at(fs, i, j)] == this.fwd.obj(a@[i])[j]); }
                    else { let j2 = j - fs[i]; assert(values@[seg_at(s2, i, fs[i] + j2)] == rv[psum(rs, i) + j2]); assert(rv[seg_at(rs, i, j2)] == this.rev.obj(a@[i])[j2]); }
                }
            }''')])

raw(r'''
/// two flat images of the same list under the same object map are equal
pub proof fn lemma_flat_unique<O1, O2>(t1: Seq<O2>, t2: Seq<O2>, a: Seq<O1>, obj: spec_fn(O1) -> Seq<O2>)
    requires is_flat_image(t1, a, obj), is_flat_image(t2, a, obj)
    ensures t1 =~= t2
{
    let k = flat_sizes(a, obj);
    assert forall|m: int| 0 <= m < t1.len() implies t1[m] == t2[m] by {
        let (p, j) = lemma_seg_find(k, m);
        assert(t1[seg_at(k, p, j)] == obj(a[p])[j] && t2[seg_at(k, p, j)] == obj(a[p])[j]);
    }
}

/// the values of a map_object result are the flat image of the list
pub proof fn lemma_values_flat<O1, O2>(fa: IndexedCoproduct<SemifiniteFunction<O2>>, a: Seq<O1>, obj: spec_fn(O1) -> Seq<O2>)
    requires fa.wf(), fa.sources.table@.len() == a.len(), forall|i: int| 0 <= i < a.len() ==> #[trigger] seg_is(fa, i, obj(a[i]))
    ensures is_flat_image(fa.values@, a, obj), flat_sizes(a, obj) =~= fa.sources.table@
{
    let k = flat_sizes(a, obj);
    assert forall|i: int| 0 <= i < a.len() implies k[i] == fa.sources.table@[i] && obj(a[i]).len() <= usize::MAX by { assert(seg_is(fa, i, obj(a[i]))); }
    assert(k =~= fa.sources.table@);
    assert(fa.values@.len() == total(k));
    assert forall|p: int| 0 <= p < a.len() implies obj(a[p]).len() <= usize::MAX by { assert(seg_is(fa, p, obj(a[p]))); }
    assert forall|p: int, j: int| 0 <= p < a.len() && 0 <= j < k[p] implies fa.values@[#[trigger] seg_at(k, p, j)] == obj(a[p])[j] by { assert(seg_is(fa, p, obj(a[p]))); }
}

/// the block-wise interleaving of F(A) and R(A) is the flat image of A under o |-> F(o) ++ R(o)
pub proof fn lemma_interleaved_flat<O1, O2>(tg: Seq<O2>, fa: IndexedCoproduct<SemifiniteFunction<O2>>, ra: IndexedCoproduct<SemifiniteFunction<O2>>, a: Seq<O1>,
                                            fobj: spec_fn(O1) -> Seq<O2>, robj: spec_fn(O1) -> Seq<O2>, obj2: spec_fn(O1) -> Seq<O2>)
    requires fa.wf(), ra.wf(), fa.sources.table@.len() == a.len(), ra.sources.table@.len() == a.len(),
        forall|i: int| 0 <= i < a.len() ==> #[trigger] seg_is(fa, i, fobj(a[i])),
        forall|i: int| 0 <= i < a.len() ==> #[trigger] seg_is(ra, i, robj(a[i])),
        forall|o: O1| #[trigger] obj2(o) == fobj(o) + robj(o),
        forall|i: int| 0 <= i < a.len() ==> fa.sources.table@[i] + ra.sources.table@[i] <= usize::MAX,
        ({ let fs = fa.sources.table@; let rs = ra.sources.table@; let s2 = Seq::new(fs.len(), |m: int| (fs[m] + rs[m]) as usize);
           tg.len() == total(s2)
           && (forall|i: int, j: int| 0 <= i < fs.len() && 0 <= j < fs[i] ==> tg[#[trigger] seg_at(s2, i, j)] == fa.values@[psum(fs, i) + j])
           && (forall|i: int, j: int| 0 <= i < fs.len() && 0 <= j < rs[i] ==> #[trigger] tg[seg_at(s2, i, fs[i] + j)] == ra.values@[psum(rs, i) + j]) }),
    ensures is_flat_image(tg, a, obj2)
{
    let fs = fa.sources.table@; let rs = ra.sources.table@; let s2 = Seq::new(fs.len(), |m: int| (fs[m] + rs[m]) as usize);
    let k = flat_sizes(a, obj2);
    assert forall|i: int| 0 <= i < a.len() implies k[i] == s2[i] && obj2(a[i]).len() <= usize::MAX by {
        assert(seg_is(fa, i, fobj(a[i])) && seg_is(ra, i, robj(a[i])));
        assert(obj2(a[i]) == fobj(a[i]) + robj(a[i]));
    }
    assert(k =~= s2);
    assert(tg.len() == total(k));
    assert forall|p: int| 0 <= p < a.len() implies obj2(a[p]).len() <= usize::MAX by { assert(k[p] == s2[p]); }
    assert forall|p: int, j: int| 0 <= p < a.len() && 0 <= j < k[p] implies tg[#[trigger] seg_at(k, p, j)] == obj2(a[p])[j] by {
        assert(seg_is(fa, p, fobj(a[p])) && seg_is(ra, p, robj(a[p])));
        assert(obj2(a[p]) == fobj(a[p]) + robj(a[p]));
        if j < fs[p] { assert(tg[seg_at(s2, p, j)] == fa.values@[psum(fs, p) + j]); assert(fa.values@[seg_at(fs, p, j)] == fobj(a[p])[j]); }
        else { let j2 = j - fs[p]; assert(tg[seg_at(s2, p, fs[p] + j2)] == ra.values@[psum(rs, p) + j2]); assert(ra.values@[seg_at(rs, p, j2)] == robj(a[p])[j2]); }
    }
}

/// machine arithmetic for adapt: the four object images and the diagram c are small
pub open spec fn adapt_sizes<O1, O2, A2>(c: OpenHypergraph<O2, A2>, a: Seq<O1>, b: Seq<O1>, fobj: spec_fn(O1) -> Seq<O2>, robj: spec_fn(O1) -> Seq<O2>) -> bool {
    &&& small(a.len()) && small(b.len())
    &&& small(total(flat_sizes(a, fobj)) as nat) && small(total(flat_sizes(a, robj)) as nat)
    &&& small(total(flat_sizes(b, fobj)) as nat) && small(total(flat_sizes(b, robj)) as nat)
    &&& small(c.h.w@.len()) && small(c.h.x@.len()) && small(c.h.s.values.table@.len()) && small(c.h.t.values.table@.len())
    &&& small(c.s.table@.len()) && small(c.t.table@.len())
}
''')

fn(OP, 'adapt', self_ty='Optic', status='P', props=['C14', 'C05'], rename='optic_adapt',
   rules={'self_rename': ['this', '&Optic<F, R, O1, A1, O2, A2>']},
   generics_add=['F: Functor<O1, A1, O2, A2>, R: Functor<O1, A1, O2, A2>, O1: Clone, A1: Clone, O2: Clone + PartialEq, A2: Clone'],
   requires=['c.wf()', 'lawful_clone::<O1>()', 'lawful_clone::<O2>()', 'lawful_clone::<A2>()', 'lawful_eq::<O2>()',
             'adapt_sizes(*c, a@, b@, |o: O1| this.fwd.obj(o), |o: O1| this.rev.obj(o))',
             'this.fwd.obj_pre(a@)', 'this.fwd.obj_pre(b@)', 'this.rev.obj_pre(a@)', 'this.rev.obj_pre(b@)',
             # c has the optic type interleave(F A, R A) -> interleave(F B, R B)
             'is_flat_image(c.src_type(), a@, |o: O1| this.fwd.obj(o) + this.rev.obj(o))',
             'is_flat_image(c.tgt_type(), b@, |o: O1| this.fwd.obj(o) + this.rev.obj(o))'],
   ensures=[('C14.adapt-wf', 'r.wf()'),
            ('C14.adapt-type', '''exists|fa_t: Seq<O2>, rb_t: Seq<O2>, fb_t: Seq<O2>, ra_t: Seq<O2>|
                is_flat_image(fa_t, a@, |o: O1| this.fwd.obj(o)) && is_flat_image(rb_t, b@, |o: O1| this.rev.obj(o))
                && is_flat_image(fb_t, b@, |o: O1| this.fwd.obj(o)) && is_flat_image(ra_t, a@, |o: O1| this.rev.obj(o))
                && #[trigger] (fa_t + rb_t) =~= r.src_type() && #[trigger] (fb_t + ra_t) =~= r.tgt_type()''')],
   proofs=[('before:let lhs = interleave_blocks(&fa, &ra);', '''assert(lawful_clone::<usize>());
            let fobj = |o: O1| this.fwd.obj(o); let robj = |o: O1| this.rev.obj(o); let obj2 = |o: O1| this.fwd.obj(o) + this.rev.obj(o);
            lemma_values_flat(fa, a@, fobj); lemma_values_flat(ra, a@, robj); lemma_values_flat(fb, b@, fobj); lemma_values_flat(rb, b@, robj);
            lemma_seg_wf_sources(fa.sources, fa.values@.len()); lemma_seg_wf_sources(ra.sources, ra.values@.len());
            lemma_seg_wf_sources(fb.sources, fb.values@.len()); lemma_seg_wf_sources(rb.sources, rb.values@.len());
            let na = a@.len() as int; let nb = b@.len() as int;
            assert(2 * na == na * 2 && 2 * nb == nb * 2) by (nonlinear_arith);
            let s2a = Seq::new(na as nat, |m: int| (fa.sources.table@[m] + ra.sources.table@[m]) as usize);
            let s2b = Seq::new(nb as nat, |m: int| (fb.sources.table@[m] + rb.sources.table@[m]) as usize);
            assert forall|m: int| 0 <= m < na implies fa.sources.table@[m] + ra.sources.table@[m] <= usize::MAX by {}
            assert forall|m: int| 0 <= m < nb implies fb.sources.table@[m] + rb.sources.table@[m] <= usize::MAX by {}
            lemma_interleave_offsets(fa.sources.table@, ra.sources.table@, s2a, na);
            lemma_interleave_offsets(fb.sources.table@, rb.sources.table@, s2b, nb);
            assert forall|x: OpenHypergraph<O2, A2>, y: OpenHypergraph<O2, A2>| #[trigger] is_dagger(y, x) implies y.src_type() =~= x.tgt_type() && y.tgt_type() =~= x.src_type() by {}'''),
           ('before:let d = lhs.compose(c).unwrap().compose(&rhs).unwrap();', '''let fobj = |o: O1| this.fwd.obj(o); let robj = |o: O1| this.rev.obj(o); let obj2 = |o: O1| this.fwd.obj(o) + this.rev.obj(o);
            lemma_interleaved_flat(lhs.tgt_type(), fa, ra, a@, fobj, robj, obj2);
            lemma_flat_unique(lhs.tgt_type(), c.src_type(), a@, obj2);
            lemma_interleaved_flat(rhs.src_type(), fb, rb, b@, fobj, robj, obj2);
            lemma_flat_unique(c.tgt_type(), rhs.src_type(), b@, obj2);'''),
           ('end', '''let fa_t = fa.values@; let rb_t = rb.values@; let fb_t = fb.values@; let ra_t = ra.values@;
            assert(d.src_type() =~= fa_t + ra_t);
            assert(d.tgt_type() =~= fb_t + rb_t);
            assert(d.src_type().subrange(0, fa_t.len() as int) =~= fa_t && d.src_type().subrange(fa_t.len() as int, (fa_t.len() + ra_t.len()) as int) =~= ra_t);
            assert(d.tgt_type().subrange(0, fb_t.len() as int) =~= fb_t && d.tgt_type().subrange(fb_t.len() as int, (fb_t.len() + rb_t.len()) as int) =~= rb_t);
            let w1 = fa_t + rb_t; let w2 = fb_t + ra_t;''')])

# ---------------------------------------------------------------------------------------------
# Optic::map_operations: the optic image of a tensoring of operations has type
# interleave(F A, R A) -> interleave(F B, R B), is well-formed, and none of its unwrap()s can fail -- for EVERY forward
# functor, reverse functor and residual that are typed as lenses with that residual (optic_pre).  The call of the boxed
# residual closure goes through the opaque stand-in (rule T14).
# ---------------------------------------------------------------------------------------------
raw(r'''
impl<O1, A1, O2> ResidualBox<O1, A1, O2> {
    /// what the residual closure may return for `ops` (uninterpreted: the closure is arbitrary user code)
    pub uninterp spec fn res_post(&self, ops: Operations<O1, A1>, m: IndexedCoproduct<SemifiniteFunction<O2>>) -> bool;

    #[verifier::external_body]
    pub fn call(&self, ops: &Operations<O1, A1>) -> (r: IndexedCoproduct<SemifiniteFunction<O2>>)
        ensures self.res_post(*ops, r)
    { unimplemented!() }
}

/// sizes of the per-operation blocks of an expanded type list: operation i owns the blocks psum(bs, i) .. psum(bs, i + 1) of fbs
pub open spec fn op_sizes(bs: Seq<usize>, fbs: Seq<usize>) -> Seq<usize> {
    Seq::new(bs.len(), |i: int| (psum(fbs, psum(bs, i + 1)) - psum(fbs, psum(bs, i))) as usize)
}

/// the per-operation block sizes are in range and sum up like the blocks they merge
pub proof fn lemma_op_sizes(bs: Seq<usize>, fbs: Seq<usize>)
    requires total(bs) == fbs.len(), total(fbs) <= usize::MAX
    ensures op_sizes(bs, fbs).len() == bs.len(),
        forall|i: int| 0 <= i < bs.len() ==> (#[trigger] op_sizes(bs, fbs)[i]) == psum(fbs, psum(bs, i + 1)) - psum(fbs, psum(bs, i)),
        forall|i: int| 0 <= i < bs.len() ==> (#[trigger] op_sizes(bs, fbs)[i]) <= total(fbs),
        forall|i: int| 0 <= i <= bs.len() ==> #[trigger] psum(op_sizes(bs, fbs), i) == psum(fbs, psum(bs, i)),
        total(op_sizes(bs, fbs)) == total(fbs),
{
    let r = op_sizes(bs, fbs);
    assert forall|i: int| 0 <= i < bs.len() implies (#[trigger] op_sizes(bs, fbs)[i]) == psum(fbs, psum(bs, i + 1)) - psum(fbs, psum(bs, i)) && op_sizes(bs, fbs)[i] <= total(fbs) by {
        lemma_psum_mono(bs, 0, i); lemma_psum_mono(bs, i, i + 1); lemma_psum_mono(bs, i + 1, bs.len() as int);
        lemma_psum_mono(fbs, 0, psum(bs, i)); lemma_psum_mono(fbs, psum(bs, i), psum(bs, i + 1)); lemma_psum_mono(fbs, psum(bs, i + 1), fbs.len() as int);
        let d = psum(fbs, psum(bs, i + 1)) - psum(fbs, psum(bs, i));
        assert(0 <= d <= total(fbs));
        assert(r[i] == d as usize);
    }
    assert forall|i: int| 0 <= i <= bs.len() implies #[trigger] psum(op_sizes(bs, fbs), i) == psum(fbs, psum(bs, i)) by { lemma_segsum_total(bs, fbs, r, i); }
    assert(psum(r, bs.len() as int) == psum(fbs, psum(bs, bs.len() as int)));
}

/// What Optic::map_operations needs from its three ingredients, for the batch `ops`: the residual has one block per
/// operation; the forward map of (any clone of) ops has type  F(A) -> interleave_i(F(B_i), M_i);  the reverse map has type
/// interleave_i(M_i, R(B_i)) -> R(A);  and everything is small enough for machine arithmetic.
pub open spec fn optic_pre<F: Functor<O1, A1, O2, A2>, R: Functor<O1, A1, O2, A2>, O1: Clone, A1: Clone, O2, A2>(this: Optic<F, R, O1, A1, O2, A2>, ops: Operations<O1, A1>) -> bool {
    let fobj = |o: O1| this.fwd.obj(o); let robj = |o: O1| this.rev.obj(o);
    let av = ops.a.values@; let bv = ops.b.values@; let bs = ops.b.sources.table@;
    &&& ops.wf() && tiny(av.len()) && tiny(bv.len()) && tiny(ops.x@.len())
    &&& tiny(total(flat_sizes(av, fobj)) as nat) && tiny(total(flat_sizes(av, robj)) as nat)
    &&& tiny(total(flat_sizes(bv, fobj)) as nat) && tiny(total(flat_sizes(bv, robj)) as nat)
    &&& forall|m: IndexedCoproduct<SemifiniteFunction<O2>>| #[trigger] this.residual.res_post(ops, m) ==> m.wf() && m.sources.table@.len() == ops.x@.len() && tiny(m.values@.len())
    &&& this.fwd.obj_pre(av) && this.fwd.obj_pre(bv) && this.rev.obj_pre(av) && this.rev.obj_pre(bv)
    &&& forall|p: int| 0 <= p < av.len() ==> this.fwd.obj(#[trigger] av[p]).len() + this.rev.obj(av[p]).len() <= usize::MAX
    &&& forall|p: int| 0 <= p < bv.len() ==> this.fwd.obj(#[trigger] bv[p]).len() + this.rev.obj(bv[p]).len() <= usize::MAX
    &&& forall|o1: Operations<O1, A1>| #[trigger] ops_same(o1, ops) ==> tiny(this.fwd.ops_bound(o1)) && tiny(this.rev.ops_bound(o1)) && this.fwd.ops_pre(o1) && this.rev.ops_pre(o1)
            && is_flat_image(this.fwd.ops_src(o1), av, fobj) && is_flat_image(this.rev.ops_tgt(o1), av, robj)
    &&& forall|o1: Operations<O1, A1>, m: IndexedCoproduct<SemifiniteFunction<O2>>, fbv: Seq<O2>, rbv: Seq<O2>|
            #[trigger] ops_same(o1, ops) && #[trigger] this.residual.res_post(ops, m) && #[trigger] is_flat_image(fbv, bv, fobj) && #[trigger] is_flat_image(rbv, bv, robj) ==>
               is_interleaved(this.fwd.ops_tgt(o1), op_sizes(bs, flat_sizes(bv, fobj)), fbv, m.sources.table@, m.values@)
            && is_interleaved(this.rev.ops_src(o1), m.sources.table@, m.values@, op_sizes(bs, flat_sizes(bv, robj)), rbv)
}
''', tag='T:Optic-residual')

fn(OP, 'map_operations', trait='Functor', self_ty='Optic', status='P', props=['C14', 'C05'], rename='optic_map_operations', attrs=['#[verifier::rlimit(240)]'],
   rules={'self_rename': ['this', '&Optic<F, R, O1, A1, O2, A2>']},
   generics_add=['F: Functor<O1, A1, O2, A2>, R: Functor<O1, A1, O2, A2>, O1: Clone, A1: Clone, O2: Clone + PartialEq, A2: Clone'],
   requires=['optic_pre(*this, ops)', 'lawful_clone::<O1>()', 'lawful_clone::<A1>()', 'lawful_clone::<O2>()', 'lawful_clone::<A2>()', 'lawful_eq::<O2>()'],
   ensures=[('C14.optic-map_operations-wf', 'r.wf()'),
            ('C14.optic-map_operations-sizes', 'oh_sizes_le(r, 0xC00_0000)'),
            ('C14.optic-map_operations-typed', '''r.src_type() =~= flat(ops.a.values@, |o: O1| this.fwd.obj(o) + this.rev.obj(o)) && r.tgt_type() =~= flat(ops.b.values@, |o: O1| this.fwd.obj(o) + this.rev.obj(o))'''),
            ('C14.optic-map_operations-type', '''is_flat_image(r.src_type(), ops.a.values@, |o: O1| this.fwd.obj(o) + this.rev.obj(o))
                && is_flat_image(r.tgt_type(), ops.b.values@, |o: O1| this.fwd.obj(o) + this.rev.obj(o))''')],
   proofs=[G('start', 'hide(is_pushout); hide(is_tensor); hide(is_dagger); hide(is_identity_on);'),
           ('before:let fwd_interleave = ', '''assert(lawful_clone::<usize>());
            let fobj = |o: O1| this.fwd.obj(o); let robj = |o: O1| this.rev.obj(o);
            let av = ops.a.values@; let bv = ops.b.values@; let bs = ops.b.sources.table@; let n = ops.x@.len() as int;
            lemma_values_flat(fa, av, fobj); lemma_values_flat(ra, av, robj); lemma_values_flat(fb, bv, fobj); lemma_values_flat(rb, bv, robj);
            lemma_seg_wf_sources(fa.sources, fa.values@.len()); lemma_seg_wf_sources(ra.sources, ra.values@.len());
            lemma_seg_wf_sources(fb.sources, fb.values@.len()); lemma_seg_wf_sources(rb.sources, rb.values@.len());
            lemma_seg_wf_sources(m.sources, m.values@.len()); lemma_seg_wf_sources(ops.b.sources, bv.len()); lemma_seg_wf_sources(ops.a.sources, av.len());
            let fbs = fb.sources.table@; let rbs = rb.sources.table@; let ms = m.sources.table@;
            let fsz = op_sizes(bs, fbs); let rsz = op_sizes(bs, rbs);
            lemma_op_sizes(bs, fbs); lemma_op_sizes(bs, rbs);
            assert forall|x: IndexedCoproduct<SemifiniteFunction<O2>>| #[trigger] seg_wf(x.sources, fb.values.spec_len()) && x.sources.table@.len() == n
                    && (forall|i: int| 0 <= i < n ==> x.sources.table@[i] == psum(fbs, psum(bs, i + 1)) - psum(fbs, psum(bs, i))) implies x.sources.table@ == fsz by {
                assert(x.sources.table@ =~= fsz);
            }
            assert forall|x: IndexedCoproduct<SemifiniteFunction<O2>>| #[trigger] seg_wf(x.sources, rb.values.spec_len()) && x.sources.table@.len() == n
                    && (forall|i: int| 0 <= i < n ==> x.sources.table@[i] == psum(rbs, psum(bs, i + 1)) - psum(rbs, psum(bs, i))) implies x.sources.table@ == rsz by {
                assert(x.sources.table@ =~= rsz);
            }
            assert(2 * n == n * 2 && 2 * n == n + n) by (nonlinear_arith);
            let s2f = Seq::new(n as nat, |i: int| (fsz[i] + ms[i]) as usize);
            let s2r = Seq::new(n as nat, |i: int| (ms[i] + rsz[i]) as usize);
            assert forall|i: int| 0 <= i < n implies fsz[i] + ms[i] <= usize::MAX && ms[i] + rsz[i] <= usize::MAX by {
                lemma_psum_mono(ms, 0, i); lemma_psum_mono(ms, i + 1, n); assert(psum(ms, i + 1) == psum(ms, i) + ms[i]);
            }
            lemma_interleave_offsets(fsz, ms, s2f, n);
            lemma_interleave_offsets(ms, rsz, s2r, n);'''),
           ('before:debug_assert_eq!(fwd.target(), fwd_interleave.source());', '''let fobj = |o: O1| this.fwd.obj(o); let robj = |o: O1| this.rev.obj(o);
            let bv = ops.b.values@; let bs = ops.b.sources.table@;
            let fsz = op_sizes(bs, fb.sources.table@); let rsz = op_sizes(bs, rb.sources.table@); let ms = m.sources.table@;
            assert(fsz == op_sizes(bs, flat_sizes(bv, fobj)) && rsz == op_sizes(bs, flat_sizes(bv, robj)));
            assert(is_interleaved(fwd_interleave.src_type(), fsz, fb.values@, ms, m.values@));
            assert(is_interleaved(fwd.tgt_type(), fsz, fb.values@, ms, m.values@));
            lemma_interleaved_unique(fwd.tgt_type(), fwd_interleave.src_type(), fsz, fb.values@, ms, m.values@);
            assert(is_interleaved(rev_cointerleave.tgt_type(), ms, m.values@, rsz, rb.values@));
            assert(is_interleaved(rev.src_type(), ms, m.values@, rsz, rb.values@));
            lemma_interleaved_unique(rev_cointerleave.tgt_type(), rev.src_type(), ms, m.values@, rsz, rb.values@);'''),
           ('before:let d = partial_dagger', '''let fobj = |o: O1| this.fwd.obj(o); let robj = |o: O1| this.rev.obj(o);
            let av = ops.a.values@; let bv = ops.b.values@;
            lemma_flat_unique(fwd.src_type(), fa.values@, av, fobj);
            lemma_flat_unique(rev.tgt_type(), ra.values@, av, robj);
            assert(c.src_type() =~= fa.values@ + rb.values@);
            assert(c.tgt_type() =~= fb.values@ + ra.values@);'''),
           ('before:let lhs = interleave_blocks(&fa, &ra).dagger();', '''let na = ops.a.values@.len() as int; let nb = ops.b.values@.len() as int;
            assert(2 * na == na * 2 && 2 * nb == nb * 2) by (nonlinear_arith);
            let s2a = Seq::new(na as nat, |k: int| (fa.sources.table@[k] + ra.sources.table@[k]) as usize);
            let s2b = Seq::new(nb as nat, |k: int| (fb.sources.table@[k] + rb.sources.table@[k]) as usize);
            assert forall|k: int| 0 <= k < na implies fa.sources.table@[k] + ra.sources.table@[k] <= usize::MAX by {
                lemma_psum_mono(fa.sources.table@, 0, k); lemma_psum_mono(fa.sources.table@, k + 1, na); lemma_psum_mono(ra.sources.table@, 0, k); lemma_psum_mono(ra.sources.table@, k + 1, na);
                assert(psum(fa.sources.table@, k + 1) == psum(fa.sources.table@, k) + fa.sources.table@[k] && psum(ra.sources.table@, k + 1) == psum(ra.sources.table@, k) + ra.sources.table@[k]);
            }
            assert forall|k: int| 0 <= k < nb implies fb.sources.table@[k] + rb.sources.table@[k] <= usize::MAX by {
                lemma_psum_mono(fb.sources.table@, 0, k); lemma_psum_mono(fb.sources.table@, k + 1, nb); lemma_psum_mono(rb.sources.table@, 0, k); lemma_psum_mono(rb.sources.table@, k + 1, nb);
                assert(psum(fb.sources.table@, k + 1) == psum(fb.sources.table@, k) + fb.sources.table@[k] && psum(rb.sources.table@, k + 1) == psum(rb.sources.table@, k) + rb.sources.table@[k]);
            }
            lemma_interleave_offsets(fa.sources.table@, ra.sources.table@, s2a, na);
            lemma_interleave_offsets(fb.sources.table@, rb.sources.table@, s2b, nb);
            assert(d.src_type() =~= fa.values@ + ra.values@);
            assert(d.tgt_type() =~= fb.values@ + rb.values@);'''),
           ('before:lhs.compose(&d)', '''let fobj = |o: O1| this.fwd.obj(o); let robj = |o: O1| this.rev.obj(o); let obj2 = |o: O1| this.fwd.obj(o) + this.rev.obj(o);
            lemma_interleaved_flat(lhs.src_type(), fa, ra, ops.a.values@, fobj, robj, obj2);
            lemma_interleaved_flat(rhs.tgt_type(), fb, rb, ops.b.values@, fobj, robj, obj2);
            assert forall|p: int| 0 <= p < ops.a.values@.len() implies obj2(#[trigger] ops.a.values@[p]).len() <= usize::MAX by { assert(seg_is(fa, p, fobj(ops.a.values@[p])) && seg_is(ra, p, robj(ops.a.values@[p]))); }
            assert forall|p: int| 0 <= p < ops.b.values@.len() implies obj2(#[trigger] ops.b.values@[p]).len() <= usize::MAX by { assert(seg_is(fb, p, fobj(ops.b.values@[p])) && seg_is(rb, p, robj(ops.b.values@[p]))); }
            lemma_flat_is_flat(ops.a.values@, obj2); lemma_flat_is_flat(ops.b.values@, obj2);
            lemma_flat_unique(lhs.src_type(), flat(ops.a.values@, obj2), ops.a.values@, obj2);
            lemma_flat_unique(rhs.tgt_type(), flat(ops.b.values@, obj2), ops.b.values@, obj2);''')])

# ---------------------------------------------------------------------------------------------
# The optic as a functor: `impl Functor for Optic` of /repo.  The two method bodies are the functions proved above
# (glue: trusted, as for Identity); with it the generic define_map_arrow applies to the optic, which gives the first
# clause of C14 for EVERY diagram f.
# ---------------------------------------------------------------------------------------------
raw(r'''
impl<F: Functor<O1, A1, O2, A2>, R: Functor<O1, A1, O2, A2>, O1: Clone, A1: Clone, O2: Clone + PartialEq, A2: Clone> Functor<O1, A1, O2, A2> for Optic<F, R, O1, A1, O2, A2> {
    open spec fn obj(&self, o: O1) -> Seq<O2> { self.fwd.obj(o) + self.rev.obj(o) }
    open spec fn ops_bound(&self, ops: Operations<O1, A1>) -> nat { 0xC00_0000 }
    open spec fn ops_post(&self, ops: Operations<O1, A1>, r: OpenHypergraph<O2, A2>) -> bool { true }
    open spec fn ops_src(&self, ops: Operations<O1, A1>) -> Seq<O2> { flat(ops.a.values@, |o: O1| self.fwd.obj(o) + self.rev.obj(o)) }
    open spec fn ops_tgt(&self, ops: Operations<O1, A1>) -> Seq<O2> { flat(ops.b.values@, |o: O1| self.fwd.obj(o) + self.rev.obj(o)) }
    open spec fn obj_pre(&self, a: Seq<O1>) -> bool {
        &&& lawful_clone::<O2>() && small(a.len()) && self.fwd.obj_pre(a) && self.rev.obj_pre(a)
        &&& small(total(flat_sizes(a, |o: O1| self.fwd.obj(o))) as nat) && small(total(flat_sizes(a, |o: O1| self.rev.obj(o))) as nat)
    }
    open spec fn ops_pre(&self, ops: Operations<O1, A1>) -> bool {
        optic_pre(*self, ops) && lawful_clone::<O2>() && lawful_clone::<A2>() && lawful_eq::<O2>()
    }
    #[verifier::external_body]
    fn map_object(&self, a: &SemifiniteFunction<O1>) -> (r: IndexedCoproduct<SemifiniteFunction<O2>>) { optic_map_object(self, a) }
    #[verifier::external_body]
    fn map_operations(&self, ops: Operations<O1, A1>) -> (r: OpenHypergraph<O2, A2>) { optic_map_operations(self, ops) }
}
''', tag='T2-glue:Optic')

fn(OP, 'map_arrow', trait='Functor', self_ty='Optic', status='P', props=['C14', 'C05'], rename='optic_map_arrow',
   rules={'self_rename': ['this', '&Optic<F, R, O1, A1, O2, A2>']},
   generics_add=['F: Functor<O1, A1, O2, A2>, R: Functor<O1, A1, O2, A2>, O1: Clone + PartialEq, A1: Clone, O2: Clone + PartialEq, A2: Clone'],
   requires=['f.wf()', 'lawful_clone::<O1>()', 'lawful_clone::<A1>()', 'lawful_clone::<O2>()', 'lawful_clone::<A2>()', 'lawful_eq::<O2>()',
             # the three ingredients are typed as lenses with residual for the operations of f, and sizes are small
             'forall|ops: Operations<O1, A1>| #[trigger] is_ops_of(*f, ops) ==> optic_pre(*this, ops)',
             'this.fwd.obj_pre(f.h.w@)', 'this.rev.obj_pre(f.h.w@)',
             'small(total(flat_sizes(f.h.w@, |o: O1| this.fwd.obj(o))) as nat)', 'small(total(flat_sizes(f.h.w@, |o: O1| this.rev.obj(o))) as nat)',
             'dma_sizes(*f, |o: O1| this.fwd.obj(o) + this.rev.obj(o))'],
   ensures=[('C14.optic-map_arrow-wf', 'r.wf()'),
            ('C14.optic-map_arrow-type', '''is_flat_image(r.src_type(), f.src_type(), |o: O1| this.fwd.obj(o) + this.rev.obj(o))
                && is_flat_image(r.tgt_type(), f.tgt_type(), |o: O1| this.fwd.obj(o) + this.rev.obj(o))''')],
   proofs=[('start', '''let obj = |o: O1| <Optic<F, R, O1, A1, O2, A2> as Functor<O1, A1, O2, A2>>::obj(this, o);
            let obj2 = |o: O1| this.fwd.obj(o) + this.rev.obj(o);
            assert(obj =~= obj2);
            assert(dma_sizes(*f, obj));
            assert forall|ops: Operations<O1, A1>| #[trigger] is_ops_of(*f, ops) implies strict_typed(*this, ops) by {
                assert(optic_pre(*this, ops));
                assert forall|p: int| 0 <= p < ops.a.values@.len() implies obj2(#[trigger] ops.a.values@[p]).len() <= usize::MAX by { }
                assert forall|p: int| 0 <= p < ops.b.values@.len() implies obj2(#[trigger] ops.b.values@[p]).len() <= usize::MAX by { }
                lemma_flat_is_flat(ops.a.values@, obj2); lemma_flat_is_flat(ops.b.values@, obj2);
            }''')])

raw(r'''
/// optic_pre is satisfiable: the optic of two identity functors with an empty residual, on the empty batch of operations
pub proof fn lemma_optic_pre_witness<O: Clone + PartialEq, A: Clone>(this: Optic<Identity, Identity, O, A, O, A>, ops: Operations<O, A>)
    requires ops.wf(), ops.x@.len() == 0,
        forall|m: IndexedCoproduct<SemifiniteFunction<O>>| #[trigger] this.residual.res_post(ops, m) ==> m.wf() && m.sources.table@.len() == 0,
    ensures optic_pre(this, ops)
{
    let fobj = |o: O| <Identity as Functor<O, A, O, A>>::obj(&this.fwd, o); let robj = |o: O| <Identity as Functor<O, A, O, A>>::obj(&this.rev, o);
    let av = ops.a.values@; let bv = ops.b.values@; let bs = ops.b.sources.table@;
    assert(av.len() == 0 && bv.len() == 0);
    assert(total(flat_sizes(av, fobj)) == 0 && total(flat_sizes(av, robj)) == 0 && total(flat_sizes(bv, fobj)) == 0 && total(flat_sizes(bv, robj)) == 0);
    assert forall|m: IndexedCoproduct<SemifiniteFunction<O>>| #[trigger] this.residual.res_post(ops, m) implies m.wf() && m.sources.table@.len() == ops.x@.len() && tiny(m.values@.len()) by {
        assert(total(m.sources.table@) == 0);
    }
    assert forall|o1: Operations<O, A>| #[trigger] ops_same(o1, ops) implies tiny(<Identity as Functor<O, A, O, A>>::ops_bound(&this.fwd, o1)) && tiny(<Identity as Functor<O, A, O, A>>::ops_bound(&this.rev, o1)) && <Identity as Functor<O, A, O, A>>::ops_pre(&this.fwd, o1) && <Identity as Functor<O, A, O, A>>::ops_pre(&this.rev, o1)
            && is_flat_image(<Identity as Functor<O, A, O, A>>::ops_src(&this.fwd, o1), av, fobj) && is_flat_image(<Identity as Functor<O, A, O, A>>::ops_tgt(&this.rev, o1), av, robj) by {
        assert(o1.a.values@.len() == 0 && o1.b.values@.len() == 0 && o1.x@.len() == 0);
    }
    assert forall|o1: Operations<O, A>, m: IndexedCoproduct<SemifiniteFunction<O>>, fbv: Seq<O>, rbv: Seq<O>|
            #[trigger] ops_same(o1, ops) && #[trigger] this.residual.res_post(ops, m) && #[trigger] is_flat_image(fbv, bv, fobj) && #[trigger] is_flat_image(rbv, bv, robj) implies
               is_interleaved(<Identity as Functor<O, A, O, A>>::ops_tgt(&this.fwd, o1), op_sizes(bs, flat_sizes(bv, fobj)), fbv, m.sources.table@, m.values@)
            && is_interleaved(<Identity as Functor<O, A, O, A>>::ops_src(&this.rev, o1), m.sources.table@, m.values@, op_sizes(bs, flat_sizes(bv, robj)), rbv) by {
        assert(o1.a.values@.len() == 0 && o1.b.values@.len() == 0);
        assert(total(m.sources.table@) == 0);
        assert(fbv.len() == 0 && rbv.len() == 0);
        let s2 = Seq::new(0 as nat, |k: int| 0usize);
        assert(total(s2) == 0);
    }
}
''')

raw(r'''
// ---------------------------------------------------------------------------------------------
// C20 for optic application: the image of a batch of operations is determined up to isomorphism by the images of the forward
// and reverse functors -- whatever coequalizers the five compositions pick (on any backend).  The interleaving diagrams,
// identities and daggers involve no open choice (lemma_interleave_unique), so they are shared between the two runs below.
// ---------------------------------------------------------------------------------------------
pub proof fn lemma_node_iso_refl<O, A>(x: OpenHypergraph<O, A>)
    requires x.wf()
    ensures node_iso(x, x, id_seq(x.h.w@.len() as int))
{
    let phi = id_seq(x.h.w@.len() as int);
    assert forall|i: int| 0 <= i < x.h.s.values.table@.len() implies (#[trigger] x.h.s.values.table@[i]) == phi[x.h.s.values.table@[i] as int] by { assert(x.h.s.values.table@[i] < x.h.s.values.target); }
    assert forall|i: int| 0 <= i < x.h.t.values.table@.len() implies (#[trigger] x.h.t.values.table@[i]) == phi[x.h.t.values.table@[i] as int] by { assert(x.h.t.values.table@[i] < x.h.t.values.target); }
    assert forall|i: int| 0 <= i < x.s.table@.len() implies (#[trigger] x.s.table@[i]) == phi[x.s.table@[i] as int] by { assert(x.s.table@[i] < x.s.target); }
    assert forall|i: int| 0 <= i < x.t.table@.len() implies (#[trigger] x.t.table@[i]) == phi[x.t.table@[i] as int] by { assert(x.t.table@[i] < x.t.target); }
}

pub proof fn lemma_optic_image_unique<O, A>(
        fwd: OpenHypergraph<O, A>, fwd2: OpenHypergraph<O, A>, al: Seq<usize>, rev: OpenHypergraph<O, A>, rev2: OpenHypergraph<O, A>, be: Seq<usize>,
        fi: OpenHypergraph<O, A>, rc: OpenHypergraph<O, A>, ifb: OpenHypergraph<O, A>, irb: OpenHypergraph<O, A>, lhs: OpenHypergraph<O, A>, rhs: OpenHypergraph<O, A>,
        c1: OpenHypergraph<O, A>, c1p: OpenHypergraph<O, A>, l1: OpenHypergraph<O, A>, l1p: OpenHypergraph<O, A>,
        d1: OpenHypergraph<O, A>, d1p: OpenHypergraph<O, A>, r1: OpenHypergraph<O, A>, r1p: OpenHypergraph<O, A>,
        c: OpenHypergraph<O, A>, cp: OpenHypergraph<O, A>, d: OpenHypergraph<O, A>, dp: OpenHypergraph<O, A>,
        e: OpenHypergraph<O, A>, ep: OpenHypergraph<O, A>, o: OpenHypergraph<O, A>, op: OpenHypergraph<O, A>,
        na: int, nb: int, ma: int, mb: int) -> (psi: Seq<usize>)
    requires
        // the two functor images agree up to isomorphism
        fwd.wf() && fwd2.wf() && rev.wf() && rev2.wf() && node_iso(fwd, fwd2, al) && node_iso(rev, rev2, be),
        // the choice-free parts
        fi.wf() && rc.wf() && ifb.wf() && irb.wf() && lhs.wf() && rhs.wf(),
        // run 1 and run 2: the same pipeline, any results the contracts of compose / tensor / partial_dagger allow
        is_pushout(fwd, fi, c1) && is_pushout(fwd2, fi, c1p) && c1.wf() && c1p.wf() && fwd.t.table@.len() == fi.s.table@.len(),
        is_tensor(l1, c1, irb) && is_tensor(l1p, c1p, irb),
        is_pushout(rc, rev, d1) && is_pushout(rc, rev2, d1p) && d1.wf() && d1p.wf() && rc.t.table@.len() == rev.s.table@.len(),
        is_tensor(r1, ifb, d1) && is_tensor(r1p, ifb, d1p),
        is_pushout(l1, r1, c) && is_pushout(l1p, r1p, cp) && c.wf() && cp.wf() && l1.t.table@.len() == r1.s.table@.len(),
        is_partial_dagger(d, c, na, nb, ma, mb) && is_partial_dagger(dp, cp, na, nb, ma, mb),
        0 <= na && 0 <= nb && 0 <= ma && 0 <= mb && c.s.table@.len() == na + mb && c.t.table@.len() == nb + ma,
        is_pushout(lhs, d, e) && is_pushout(lhs, dp, ep) && e.wf() && ep.wf() && lhs.t.table@.len() == d.s.table@.len(),
        is_pushout(e, rhs, o) && is_pushout(ep, rhs, op) && e.t.table@.len() == rhs.s.table@.len(),
        // machine arithmetic
        fwd.h.w@.len() + fi.h.w@.len() + irb.h.w@.len() + ifb.h.w@.len() + rc.h.w@.len() + rev.h.w@.len() + lhs.h.w@.len() + rhs.h.w@.len() <= usize::MAX,
    ensures node_iso(o, op, psi)
{
    lemma_node_iso_refl(fi); lemma_node_iso_refl(rc); lemma_node_iso_refl(ifb); lemma_node_iso_refl(irb); lemma_node_iso_refl(lhs); lemma_node_iso_refl(rhs);
    let p1 = lemma_compose_iso_both(fwd, fwd2, fi, fi, c1, c1p, al, id_seq(fi.h.w@.len() as int));
    // sizes of composites are at most the sum of the parts
    let (qa, ka) = choose|q: Seq<usize>, k: int| is_coeq(q, k, glue_left(fwd), glue_right(fwd, fi), (fwd.h.w@.len() + fi.h.w@.len()) as int) && #[trigger] is_quotient_of_jux(fwd, fi, c1, q, k);
    if fwd.h.w@.len() + fi.h.w@.len() == 0 && ka > 0 { assert(hit(qa, 0, 0)); }
    if ka > fwd.h.w@.len() + fi.h.w@.len() { lemma_surjection_small(qa, ka, (fwd.h.w@.len() + fi.h.w@.len()) as int); }
    let p2 = lemma_tensor_iso(c1, c1p, irb, irb, l1, l1p, p1, id_seq(irb.h.w@.len() as int));
    let p3 = lemma_compose_iso_both(rc, rc, rev, rev2, d1, d1p, id_seq(rc.h.w@.len() as int), be);
    let (qb, kb) = choose|q: Seq<usize>, k: int| is_coeq(q, k, glue_left(rc), glue_right(rc, rev), (rc.h.w@.len() + rev.h.w@.len()) as int) && #[trigger] is_quotient_of_jux(rc, rev, d1, q, k);
    if rc.h.w@.len() + rev.h.w@.len() == 0 && kb > 0 { assert(hit(qb, 0, 0)); }
    if kb > rc.h.w@.len() + rev.h.w@.len() { lemma_surjection_small(qb, kb, (rc.h.w@.len() + rev.h.w@.len()) as int); }
    let p4 = lemma_tensor_iso(ifb, ifb, d1, d1p, r1, r1p, id_seq(ifb.h.w@.len() as int), p3);
    let p5 = lemma_compose_iso_both(l1, l1p, r1, r1p, c, cp, p2, p4);
    let (qc, kc) = choose|q: Seq<usize>, k: int| is_coeq(q, k, glue_left(l1), glue_right(l1, r1), (l1.h.w@.len() + r1.h.w@.len()) as int) && #[trigger] is_quotient_of_jux(l1, r1, c, q, k);
    if l1.h.w@.len() + r1.h.w@.len() == 0 && kc > 0 { assert(hit(qc, 0, 0)); }
    if kc > l1.h.w@.len() + r1.h.w@.len() { lemma_surjection_small(qc, kc, (l1.h.w@.len() + r1.h.w@.len()) as int); }
    lemma_partial_dagger_iso(c, cp, d, dp, na, nb, ma, mb, p5);
    let p6 = lemma_compose_iso_both(lhs, lhs, d, dp, e, ep, id_seq(lhs.h.w@.len() as int), p5);
    let (qd, kd) = choose|q: Seq<usize>, k: int| is_coeq(q, k, glue_left(lhs), glue_right(lhs, d), (lhs.h.w@.len() + d.h.w@.len()) as int) && #[trigger] is_quotient_of_jux(lhs, d, e, q, k);
    if lhs.h.w@.len() + d.h.w@.len() == 0 && kd > 0 { assert(hit(qd, 0, 0)); }
    if kd > lhs.h.w@.len() + d.h.w@.len() { lemma_surjection_small(qd, kd, (lhs.h.w@.len() + d.h.w@.len()) as int); }
    let p7 = lemma_compose_iso_both(e, ep, rhs, rhs, o, op, p6, id_seq(rhs.h.w@.len() as int));
    p7
}
''')
