# strict/functor/optic.rs: the two free functions the optic is assembled from.  Proved: well-formedness,
# panic-freedom and types (C14 typing, C05).  The Optic struct itself holds a Box<dyn Fn>, which Verus rejects,
# so Optic::{map_object, map_operations, adapt} and the derivative clause are bounded (module C14).
OP = 'src/strict/functor/optic.rs'

module('optic', uses=['vstd::std_specs::cmp::*'])

raw(r'''
/// the table of FiniteFunction::transpose(a, b)
pub open spec fn transpose_seq(a: int, b: int) -> Seq<usize> {
    Seq::new((a * b) as nat, |i: int| transpose_at(i, a, b) as usize)
}
''')

fn(OP, 'interleave_blocks', kind='free', status='P', props=['C14', 'C05'], where_add='O: Clone + PartialEq, A: Clone',
   requires=['a.wf()', 'b.wf()', 'a.sources.table@.len() == b.sources.table@.len()', 'lawful_clone::<O>()',
             'small(a.values@.len())', 'small(b.values@.len())', 'small(a.sources.table@.len())',
             # machine arithmetic: the interleaved block sizes (a permutation of the sizes of a ++ b) sum to something that fits
             'total(kseq(a.sources.table@ + b.sources.table@, transpose_seq(2, a.sources.table@.len() as int))) <= usize::MAX'],
   ensures=[('C14.interleave-wf', 'r.wf()'),
            ('C14.interleave-source', 'r.src_type() =~= a.values@ + b.values@'),
            ('C14.interleave-shape', 'r.h.x@.len() == 0 && r.h.w@ == a.values@ + b.values@ && r.s.table@.len() == a.values@.len() + b.values@.len()')],
   proofs=[('before:let t = ab', '''lemma_seg_wf_sources(ab.sources, ab.values@.len());
            let n = a.sources.table@.len() as int;
            assert(2 * n == n * 2 && 2 * n == n + n) by (nonlinear_arith);
            lemma_ext_all(transpose_seq(2, n));''')])

fn(OP, 'partial_dagger', kind='free', status='P', props=['C14', 'C05'], where_add='O: Clone, A: Clone',
   requires=['c.wf()', 'c.s.table@.len() == fa.values@.len() + rb.values@.len()', 'c.t.table@.len() == fb.values@.len() + ra.values@.len()',
             'small(fa.values@.len())', 'small(fb.values@.len())', 'small(ra.values@.len())', 'small(rb.values@.len())'],
   ensures=[('C14.partial_dagger-wf', 'r.wf()'),
            ('C14.partial_dagger-hypergraph', '''r.h.w@.len() == c.h.w@.len() && r.h.x@.len() == c.h.x@.len() && (lawful_clone::<O>() ==> r.h.w@ == c.h.w@) && (lawful_clone::<A>() ==> r.h.x@ == c.h.x@)
                && r.h.s.values.table@ == c.h.s.values.table@ && r.h.t.values.table@ == c.h.t.values.table@
                && r.h.s.sources.table@ == c.h.s.sources.table@ && r.h.t.sources.table@ == c.h.t.sources.table@'''),
            ('C14.partial_dagger-legs', '''({ let na = fa.values@.len() as int; let nb = fb.values@.len() as int; let ma = ra.values@.len() as int; let mb = rb.values@.len() as int;
                r.s.table@.len() == na + ma && r.t.table@.len() == nb + mb
                && (forall|i: int| 0 <= i < na ==> r.s.table@[i] == c.s.table@[i])
                && (forall|i: int| na <= i < na + ma ==> r.s.table@[i] == c.t.table@[nb + (i - na)])
                && (forall|i: int| 0 <= i < nb ==> r.t.table@[i] == c.t.table@[i])
                && (forall|i: int| nb <= i < nb + mb ==> r.t.table@[i] == c.s.table@[na + (i - nb)]) })''')])
