# Layer 3a: strict hypergraphs (src/strict/hypergraph/object.rs).  Properties C02, C05, C17, C01.
HG = 'src/strict/hypergraph/object.rs'

module('hypergraph', uses=['vstd::std_specs::cmp::*'])

typedef(HG, 'InvalidHypergraph', extra_attrs=['#[derive(Debug)]'])
typedef(HG, 'Hypergraph')

raw(r'''
impl<O, A> Hypergraph<O, A> {
    /// deep well-formedness: one source list and one target list per hyperedge, size invariants,
    /// every node reference in range
    pub open spec fn wf(&self) -> bool {
        &&& self.s.wf() && self.t.wf()
        &&& self.s.sources.table@.len() == self.x@.len()
        &&& self.t.sources.table@.len() == self.x@.len()
        &&& self.s.values.target == self.w@.len()
        &&& self.t.values.target == self.w@.len()
    }
    pub open spec fn nodes(&self) -> nat { self.w@.len() }
    pub open spec fn edges(&self) -> nat { self.x@.len() }
}

/// `b` is `a2` with every node index shifted by n, placed after `a1`
pub open spec fn juxtaposed(r: IndexedCoproduct<FiniteFunction>, a: IndexedCoproduct<FiniteFunction>, b: IndexedCoproduct<FiniteFunction>) -> bool {
    &&& r.sources.table@ == a.sources.table@ + b.sources.table@
    &&& r.values.table@.len() == a.values.table@.len() + b.values.table@.len()
    &&& (forall|i: int| 0 <= i < a.values.table@.len() ==> r.values.table@[i] == a.values.table@[i])
    &&& (forall|i: int| a.values.table@.len() <= i < a.values.table@.len() + b.values.table@.len()
            ==> r.values.table@[i] == a.values.target + b.values.table@[i - a.values.table@.len()])
    &&& r.values.target == a.values.target + b.values.target
}

/// machine-arithmetic side condition of juxtaposition: all sizes fit
pub open spec fn fits<O, A>(f: Hypergraph<O, A>, g: Hypergraph<O, A>) -> bool {
    &&& f.w@.len() + g.w@.len() <= usize::MAX
    &&& f.x@.len() + g.x@.len() <= usize::MAX
    &&& f.s.values.table@.len() + g.s.values.table@.len() + 2 <= usize::MAX
    &&& f.t.values.table@.len() + g.t.values.table@.len() + 2 <= usize::MAX
}
''')

group('impl<O: Clone, A: Clone> Clone for Hypergraph<O, A>')
fn(HG, 'clone', trait='Clone', self_ty='Hypergraph', status='P', props=['C04', 'C05'],
   ensures=[('C05.hg-clone', '''r.s.sources.table@ == self.s.sources.table@ && r.s.sources.target == self.s.sources.target
                && r.s.values.table@ == self.s.values.table@ && r.s.values.target == self.s.values.target
                && r.t.sources.table@ == self.t.sources.table@ && r.t.sources.target == self.t.sources.target
                && r.t.values.table@ == self.t.values.table@ && r.t.values.target == self.t.values.target
                && r.w@.len() == self.w@.len() && r.x@.len() == self.x@.len()
                && (lawful_clone::<O>() ==> r.w@ == self.w@) && (lawful_clone::<A>() ==> r.x@ == self.x@)''')])
endgroup()

group('impl<O: Clone, A: Clone> Hypergraph<O, A>')
fn(HG, 'new', self_ty='Hypergraph', status='P', props=['C05'],
   ensures=[('C05.hg-new-iff', '''r.is_ok() <==> (s.sources.table@.len() == x@.len() && t.sources.table@.len() == x@.len()
                && s.values.target == w@.len() && t.values.target == w@.len())'''),
            ('C05.hg-new-same', 'match r { Ok(h) => h.s == s && h.t == t && h.w == w && h.x == x, Err(_) => true }')])
fn(HG, 'validate', self_ty='Hypergraph', status='P', props=['C05'],
   ensures=[('C05.hg-validate-iff', '''r.is_ok() <==> (self.s.sources.table@.len() == self.x@.len() && self.t.sources.table@.len() == self.x@.len()
                && self.s.values.target == self.w@.len() && self.t.values.target == self.w@.len())'''),
            ('C05.hg-validate-same', 'match r { Ok(h) => h == self, Err(_) => true }'),
            ('C05.hg-validate-err', '''match r { Ok(_) => true, Err(e) => match e {
                    InvalidHypergraph::SourcesCount(a, b) => a == self.s.sources.table@.len() && b == self.x@.len() && a != b,
                    InvalidHypergraph::TargetsCount(a, b) => a == self.t.sources.table@.len() && b == self.x@.len() && a != b,
                    InvalidHypergraph::SourcesSet(a, b) => a == self.s.values.target && b == self.w@.len() && a != b,
                    InvalidHypergraph::TargetsSet(a, b) => a == self.t.values.target && b == self.w@.len() && a != b,
                } }''')])
fn(HG, 'empty', self_ty='Hypergraph', status='P', props=['C05', 'C02'],
   ensures=[('C05.hg-empty', 'r.w@.len() == 0 && r.x@.len() == 0 && r.s.sources.table@.len() == 0 && r.t.sources.table@.len() == 0 && r.s.values.table@.len() == 0 && r.t.values.table@.len() == 0'),
            ('C05.hg-empty-wf', 'r.wf()')])
fn(HG, 'discrete', self_ty='Hypergraph', status='P', props=['C05', 'C04'],
   ensures=[('C05.hg-discrete', 'r.w == w && r.x@.len() == 0 && r.s.sources.table@.len() == 0 && r.t.sources.table@.len() == 0 && r.s.values.table@.len() == 0 && r.t.values.table@.len() == 0'),
            ('C05.hg-discrete-wf', 'r.wf()')])
fn(HG, 'is_discrete', self_ty='Hypergraph', status='P', props=['C04'],
   ensures=[('C04.is_discrete', 'r <==> (self.s.sources.table@.len() == 0 && self.t.sources.table@.len() == 0 && self.x@.len() == 0)')])
fn(HG, 'coproduct', self_ty='Hypergraph', status='P', props=['C02', 'C05', 'C01'],
   requires=['self.wf()', 'other.wf()', 'fits(*self, *other)'],
   ensures=[('C02.hg-coproduct-s', 'juxtaposed(r.s, self.s, other.s)'),
            ('C02.hg-coproduct-t', 'juxtaposed(r.t, self.t, other.t)'),
            ('C02.hg-coproduct-labels', '''r.w@.len() == self.w@.len() + other.w@.len() && r.x@.len() == self.x@.len() + other.x@.len()
                && (lawful_clone::<O>() ==> r.w@ == self.w@ + other.w@) && (lawful_clone::<A>() ==> r.x@ == self.x@ + other.x@)'''),
            ('C05.hg-coproduct-wf', 'r.wf()')])
fn(HG, 'tensor_operations', self_ty='Hypergraph', status='P', props=['C05'], rules={'ops': ['add']},
   requires=['ops_in.wf()', 'ops_in.a.values@.len() + ops_in.b.values@.len() < usize::MAX', 'ops_in.x@.len() < usize::MAX'],
   ensures=[('C05.tensor_operations', '''r.x == ops_in.x && r.s.sources == ops_in.a.sources && r.t.sources == ops_in.b.sources
                && r.s.values.table@.len() == ops_in.a.values@.len() && (forall|i: int| 0 <= i < ops_in.a.values@.len() ==> r.s.values.table@[i] == i)
                && r.t.values.table@.len() == ops_in.b.values@.len() && (forall|i: int| 0 <= i < ops_in.b.values@.len() ==> r.t.values.table@[i] == ops_in.a.values@.len() + i)
                && r.w@.len() == ops_in.a.values@.len() + ops_in.b.values@.len()
                && (lawful_clone::<O>() ==> r.w@ == ops_in.a.values@ + ops_in.b.values@)'''),
            ('C05.tensor_operations-wf', 'r.wf()')],
   sig_pat={'Operations { x, a, b }': 'ops_in'})
fn(HG, 'in_degree', self_ty='Hypergraph', status='P', props=['C17'], rules={'asref': True},
   requires=['self.wf()', 'node < self.w@.len()'],
   ensures=[('C17.in_degree', 'r == count(self.t.values.table@, node as int, self.t.values.table@.len() as int)')],
   proofs=[('start', 'assert(lawful_clone::<usize>());')])
fn(HG, 'out_degree', self_ty='Hypergraph', status='P', props=['C17'], rules={'asref': True},
   requires=['self.wf()', 'node < self.w@.len()'],
   ensures=[('C17.out_degree', 'r == count(self.s.values.table@, node as int, self.s.values.table@.len() as int)')],
   proofs=[('start', 'assert(lawful_clone::<usize>());')])
endgroup()

group('impl<O: Clone + PartialEq, A: Clone> Hypergraph<O, A>')
fn(HG, 'coequalize_vertices', self_ty='Hypergraph', status='P', props=['C01', 'C05'],
   requires=['self.wf()', 'q.wf()', 'q.table@.len() == 0 ==> q.target == 0', 'lawful_clone::<O>()', 'lawful_eq::<O>()'],
   ensures=[('C01.coequalize_vertices-iff', 'r.is_some() <==> (self.w@.len() == q.table@.len() && constant_on_fibres(q.table@, self.w@))'),
            ('C01.coequalize_vertices', '''r.is_some() ==> ({ let o = r.unwrap();
                &&& o.s.sources.table@ == self.s.sources.table@ && o.s.sources.target == self.s.sources.target && o.t.sources.table@ == self.t.sources.table@ && o.t.sources.target == self.t.sources.target
                &&& o.s.values.table@.len() == self.s.values.table@.len() && o.t.values.table@.len() == self.t.values.table@.len()
                &&& (forall|i: int| 0 <= i < self.s.values.table@.len() ==> o.s.values.table@[i] == q.table@[self.s.values.table@[i] as int])
                &&& (forall|i: int| 0 <= i < self.t.values.table@.len() ==> o.t.values.table@[i] == q.table@[self.t.values.table@[i] as int])
                &&& o.s.values.target == q.target && o.t.values.target == q.target
                &&& (forall|v: int| 0 <= v < q.table@.len() ==> o.w@[q.table@[v] as int] == self.w@[v])
                &&& (q.table@.len() > 0 ==> o.w@.len() == q.target) && (q.table@.len() == 0 ==> o.w@.len() == 0)
                &&& o.x@.len() == self.x@.len() && (lawful_clone::<A>() ==> o.x@ == self.x@)
            })''')])
endgroup()

opimpl(HG, 'Add', 'Hypergraph', 'hg_add', 'f', "&'a Hypergraph<O, A>", "&'b Hypergraph<O, A>", 'Hypergraph<O, A>',
       req=['f.wf()', 'rhs.wf()', 'fits(*f, *rhs)'],
       ens=['juxtaposed(r.s, f.s, rhs.s) && juxtaposed(r.t, f.t, rhs.t)',
            '''r.w@.len() == f.w@.len() + rhs.w@.len() && r.x@.len() == f.x@.len() + rhs.x@.len()
                && (lawful_clone::<O>() ==> r.w@ == f.w@ + rhs.w@) && (lawful_clone::<A>() ==> r.x@ == f.x@ + rhs.x@)''',
            'r.wf()'],
       labels=['C02.hg-add-incidence', 'C02.hg-add-labels', 'C05.hg-add-wf'],
       impl_generics="<'a, 'b, O: Clone, A: Clone>", fn_generics='O: Clone, A: Clone', props=['C02', 'C05'])
