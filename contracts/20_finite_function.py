# Layer 1: finite functions and semifinite functions (src/finite_function/arrow.rs,
# src/semifinite/types.rs).  Property C06; C05 clauses (well-formedness + type of every result).
FF = 'src/finite_function/arrow.rs'
SF = 'src/semifinite/types.rs'

module('finite_function', uses=['vstd::std_specs::cmp::*'])

typedef(FF, 'FiniteFunction')
typedef(SF, 'SemifiniteFunction')

raw(r'''
impl FiniteFunction {
    /// every table entry lies in the codomain
    pub open spec fn wf(&self) -> bool {
        forall|i: int| 0 <= i < self.table@.len() ==> (#[trigger] self.table@[i]) < self.target
    }
    pub open spec fn dom(&self) -> nat { self.table@.len() }
}

impl<T> View for SemifiniteFunction<T> {
    type V = Seq<T>;
    open spec fn view(&self) -> Seq<T> { self.0@ }
}

/// f is constant on the fibres of q
pub open spec fn constant_on_fibres<T>(q: Seq<usize>, f: Seq<T>) -> bool {
    forall|i: int, j: int| 0 <= i < q.len() && 0 <= j < q.len() && q[i] == q[j] ==> f[i] == f[j]
}

pub open spec fn surjective(q: Seq<usize>, k: int) -> bool {
    forall|c: int| 0 <= c < k ==> #[trigger] hit(q, c, q.len() as int)
}

// trusted std specification (T): Option::map_or
pub assume_specification<T, U, F: FnOnce(T) -> U>[ Option::<T>::map_or ](o: Option<T>, default: U, f: F) -> (r: U)
    requires o.is_some() ==> f.requires((o.unwrap(),)),
    ensures o.is_none() ==> r == default, o.is_some() ==> f.ensures((o.unwrap(),), r);

impl PartialEqSpecImpl for FiniteFunction {
    open spec fn obeys_eq_spec() -> bool { true }
    open spec fn eq_spec(&self, other: &Self) -> bool { self.table@ == other.table@ && self.target == other.target }
}
impl<T: PartialEq> PartialEqSpecImpl for SemifiniteFunction<T> {
    open spec fn obeys_eq_spec() -> bool { <Vec<T> as PartialEqSpec>::obeys_eq_spec() }
    open spec fn eq_spec(&self, other: &Self) -> bool { PartialEqSpec::eq_spec(&self.0.0, &other.0.0) }
}
''')

group('impl PartialEq for FiniteFunction')
fn(FF, 'eq', trait='PartialEq', self_ty='FiniteFunction', status='P', props=['C06'],
   ensures=[('C06.ff-eq', 'r <==> (self.table@ =~= other.table@ && self.target == other.target)')])
endgroup()
group('impl Clone for FiniteFunction')
fn(FF, 'clone', trait='Clone', self_ty='FiniteFunction', status='P', props=['C06'],
   ensures=[('C06.ff-clone', 'r.table@ == self.table@ && r.target == self.target')],
   proofs=[('start', 'assert(lawful_clone::<usize>());')])
endgroup()
group('impl<T: Clone> Clone for SemifiniteFunction<T>')
fn(SF, 'clone', trait='Clone', self_ty='SemifiniteFunction', status='P', props=['C06'],
   ensures=[('C06.sf-clone', 'r@.len() == self@.len() && (lawful_clone::<T>() ==> r@ == self@)')])
endgroup()
group('impl<T: PartialEq> PartialEq<SemifiniteFunction<T>> for SemifiniteFunction<T>')
fn(SF, 'eq', trait='PartialEq', self_ty='SemifiniteFunction', status='P', props=['C06'],
   ensures=[('C06.sf-eq', 'lawful_eq::<T>() ==> (r <==> self@ =~= other@)')])
endgroup()

# ---------------------------------------------------------------------------------------------
group('impl FiniteFunction')
fn(FF, 'new', self_ty='FiniteFunction', status='P', props=['C06', 'C05'],
   ensures=[('C05.ff-new-iff', 'r.is_some() <==> in_bounds(table@, target as int)'),
            ('C06.ff-new', 'r.is_some() ==> r.unwrap().table@ == table@ && r.unwrap().target == target && r.unwrap().wf()')],
   closures={1: {'header': '|m: usize| -> (b: bool)', 'spec': 'ensures b == (m >= target),'}},
   proofs=[('start', 'let ghost tv = table@;'),
           ])
fn(FF, 'terminal', self_ty='FiniteFunction', status='P', props=['C06', 'C05'],
   ensures=[('C06.terminal', 'r.table@.len() == a && (forall|i: int| 0 <= i < a ==> r.table@[i] == 0) && r.target == 1'),
            ('C05.terminal-wf', 'r.wf()')],
   proofs=[('start', 'assert(lawful_clone::<usize>());')])
fn(FF, 'constant', self_ty='FiniteFunction', status='P', props=['C06', 'C05'],
   requires=['x + b + 1 <= usize::MAX'],
   ensures=[('C06.constant', 'r.table@.len() == a && (forall|i: int| 0 <= i < a ==> r.table@[i] == x) && r.target == x + b + 1'),
            ('C05.constant-wf', 'r.wf()')],
   proofs=[('start', 'assert(lawful_clone::<usize>());')])
fn(FF, 'inject0', self_ty='FiniteFunction', status='P', props=['C06', 'C05', 'C01'],
   requires=['self.wf()', 'b + self.target <= usize::MAX'],
   ensures=[('C06.inject0', 'r.table@ == self.table@ && r.target == b + self.target'),
            ('C05.inject0-wf', 'r.wf()')],
   proofs=[('start', 'assert(lawful_clone::<usize>());')])
fn(FF, 'inject1', self_ty='FiniteFunction', status='P', props=['C06', 'C05', 'C01'], rules={'ops': ['add']},
   requires=['self.wf()', 'a + self.target <= usize::MAX'],
   ensures=[('C06.inject1', 'r.table@.len() == self.table@.len() && (forall|i: int| 0 <= i < self.table@.len() ==> r.table@[i] == a + self.table@[i]) && r.target == a + self.target'),
            ('C05.inject1-wf', 'r.wf()')])
fn(FF, 'to_initial', self_ty='FiniteFunction', status='P', props=['C06', 'C05'],
   ensures=[('C06.to_initial', 'r.table@.len() == 0 && r.target == self.target'), ('C05.to_initial-wf', 'r.wf()')])
fn(FF, 'coequalizer', self_ty='FiniteFunction', status='P', props=['C06', 'C05', 'C01', 'C20'],
   requires=['self.wf()', 'other.wf()'],
   ensures=[('C06.coeq-defined', 'r.is_some() <==> (self.table@.len() == other.table@.len() && self.target == other.target)'),
            ('C06.coeq', 'r.is_some() ==> is_coeq(r.unwrap().table@, r.unwrap().target as int, self.table@, other.table@, self.target as int)'),
            ('C05.coeq-wf', 'r.is_some() ==> r.unwrap().wf()'),
            ('C06.coeq-count', 'r.is_some() ==> r.unwrap().target <= self.target')])
fn(FF, 'coequalizer_universal', self_ty='FiniteFunction', status='P', props=['C06', 'C05'], rules={'asref': True, 'drop_into': True},
   requires=['self.wf()', 'self.table@.len() == 0 ==> self.target == 0'],
   ensures=[('C06.universal-iff', 'r.is_some() <==> (self.table@.len() == f.table@.len() && constant_on_fibres(self.table@, f.table@))'),
            ('C06.universal-factor', 'r.is_some() ==> r.unwrap().target == f.target && (forall|i: int| 0 <= i < self.table@.len() ==> r.unwrap().table@[self.table@[i] as int] == f.table@[i])'),
            ('C06.universal-len', 'r.is_some() && self.table@.len() > 0 ==> r.unwrap().table@.len() == self.target')],
   proofs=[('start', 'assert(lawful_clone::<usize>()); assert(lawful_eq::<usize>());')])
fn(FF, 'transpose', self_ty='FiniteFunction', status='P', props=['C06', 'C05'],
   requires=['a * b <= usize::MAX'],
   ensures=[('C06.transpose-type', 'r.target == a * b && r.table@.len() == a * b'),
            ('C06.transpose', 'forall|i: int| 0 <= i < a * b ==> r.table@[i] == transpose_at(i, a as int, b as int)'),
            ('C05.transpose-wf', 'r.wf()')],
   proofs=[('before:let n = b.clone() * a.clone()', 'assert(b * a == a * b) by (nonlinear_arith);'),
           ('before:FiniteFunction {', '''assert forall|k: int| 0 <= k < a * b implies (#[trigger] r@[k]) * b + q@[k] == transpose_at(k, a as int, b as int) && r@[k] * b + q@[k] < a * b by {
                lemma_transpose_bound(k, a as int, b as int);
                assert(i@[k] == k);
            }''')])
fn(FF, 'injections', self_ty='FiniteFunction', status='P', props=['C06', 'C05', 'C08'], rules={'ops': ['shr', 'add']},
   requires=['self.wf()', 'a.wf()', 'total(self.table@) <= usize::MAX', 'self.table@.len() < usize::MAX',
             'a.target == self.table@.len() ==> total(kseq(self.table@, a.table@)) <= usize::MAX', 'a.table@.len() < usize::MAX'],
   ensures=[('C06.injections-defined', 'r.is_some() <==> a.target == self.table@.len()'),
            ('C06.injections', '''r.is_some() ==> ({
                let s = self.table@; let k = kseq(s, a.table@); let o = r.unwrap();
                &&& o.target == total(s)
                &&& o.table@.len() == total(k)
                &&& forall|i: int, j: int| 0 <= i < k.len() && 0 <= j < k[i] ==> o.table@[#[trigger] seg_at(k, i, j)] == psum(s, a.table@[i] as int) + j
            })'''),
            ('C05.injections-wf', 'r.is_some() ==> r.unwrap().wf()')],
   proofs=[('start', 'assert(lawful_clone::<usize>());'),
           ('after:let k = (a >> s)?;', 'assert(k.table@ =~= kseq(self.table@, a.table@));'),
           G('before:Some(FiniteFunction {', 'let ghost rv = r@; let ghost zv = z@; let ghost kv = repeats@;'),
           ('before:Some(FiniteFunction {', '''let sv = self.table@;
            assert forall|m: int| 0 <= m < rv.len() implies rv[m] + zv[m] <= usize::MAX by {
                let (i, j) = lemma_seg_find(kv, m);
                assert(rv[seg_at(kv, i, j)] == j);
                assert(zv[seg_at(kv, i, j)] == values@[i]);
                lemma_psum_mono(sv, a.table@[i] as int + 1, sv.len() as int);
            }
            assert forall|i: int, j: int| 0 <= i < kv.len() && 0 <= j < kv[i] implies
                0 <= #[trigger] seg_at(kv, i, j) < rv.len() && rv[seg_at(kv, i, j)] + zv[seg_at(kv, i, j)] == psum(sv, a.table@[i] as int) + j
                && psum(sv, a.table@[i] as int) + j < total(sv) by {
                lemma_psum_mono(kv, i + 1, kv.len() as int);
                assert(psum(kv, i + 1) == psum(kv, i) + kv[i]);
                lemma_psum_mono(kv, 0, i);
                assert(rv[seg_at(kv, i, j)] == j);
                assert(zv[seg_at(kv, i, j)] == values@[i]);
                assert(values@[i] == p@[a.table@[i] as int]);
                lemma_psum_mono(sv, a.table@[i] as int + 1, sv.len() as int);
            }
            assert forall|m: int| 0 <= m < rv.len() implies rv[m] + zv[m] < total(sv) by {
                let (i, j) = lemma_seg_find(kv, m);
                assert(m == seg_at(kv, i, j));
            }''')])
fn(FF, 'cumulative_sum', self_ty='FiniteFunction', status='P', props=['C06', 'C05'],
   requires=['total(self.table@) <= usize::MAX', 'self.table@.len() < usize::MAX'],
   ensures=[('C06.ff-cumulative_sum', 'r.table@.len() == self.table@.len() && (forall|i: int| 0 <= i < self.table@.len() ==> r.table@[i] == psum(self.table@, i)) && r.target == total(self.table@)')],
   proofs=[('start', 'assert(lawful_clone::<usize>());')])
fn(FF, 'is_injective', self_ty='FiniteFunction', nth=None, status='P', props=['C06', 'C17', 'C18'],
   requires=['self.wf()'],
   ensures=[('C06.is_injective', 'r <==> injective(self.table@)')],
   closures={1: {'header': '|m: usize| -> (b: bool)', 'spec': 'ensures b == (m <= 1usize),'}},
   proofs=[('start', 'assert(lawful_clone::<usize>());'),
           ('end', '''let tv = self.table@; let n = tv.len() as int;
            assert(injective(tv) <==> (forall|v: int| 0 <= v < self.target ==> counts@[v] <= 1)) by {
                if injective(tv) {
                    assert forall|v: int| 0 <= v < self.target implies counts@[v] <= 1 by {
                        if count(tv, v, n) >= 2 {
                            let (i, j) = lemma_count_two_witness(tv, v, n);
                        }
                    }
                }
                if forall|v: int| 0 <= v < self.target ==> counts@[v] <= 1 {
                    assert forall|i: int, j: int| 0 <= i < n && 0 <= j < n && i != j implies tv[i] != tv[j] by {
                        if tv[i] == tv[j] {
                            assert(tv[i] < self.target);
                            if i < j { lemma_count_two(tv, tv[i] as int, n, i, j); } else { lemma_count_two(tv, tv[i] as int, n, j, i); }
                            assert(counts@[tv[i] as int] == count(tv, tv[i] as int, n));
                        }
                    }
                }
            }''')])
# impl Arrow
fn(FF, 'source', trait='Arrow', self_ty='FiniteFunction', status='P', props=['C06'], rules={'subst': {'Self::Object': 'usize'}},
   ensures=[('C06.source', 'r == self.table@.len()')])
fn(FF, 'target', trait='Arrow', self_ty='FiniteFunction', status='P', props=['C06'], rules={'subst': {'Self::Object': 'usize'}},
   ensures=[('C06.target', 'r == self.target')])
fn(FF, 'identity', trait='Arrow', self_ty='FiniteFunction', status='P', props=['C06', 'C05'], rules={'subst': {'Self::Object': 'usize'}},
   ensures=[('C06.identity', 'r.table@.len() == a && (forall|i: int| 0 <= i < a ==> r.table@[i] == i) && r.target == a'),
            ('C05.identity-wf', 'r.wf()')])
fn(FF, 'compose', trait='Arrow', self_ty='FiniteFunction', status='P', props=['C06', 'C05', 'C01'],
   requires=['self.wf()', 'other.wf()'],
   ensures=[('C06.compose-defined', 'r.is_some() <==> self.target == other.table@.len()'),
            ('C06.compose', 'r.is_some() ==> r.unwrap().table@.len() == self.table@.len() && (forall|i: int| 0 <= i < self.table@.len() ==> r.unwrap().table@[i] == other.table@[self.table@[i] as int]) && r.unwrap().target == other.target'),
            ('C05.compose-wf', 'r.is_some() ==> r.unwrap().wf()')],
   proofs=[('start', 'assert(lawful_clone::<usize>());')])
# impl Coproduct
fn(FF, 'initial_object', trait='Coproduct', self_ty='FiniteFunction', status='P', props=['C06'], rules={'subst': {'Self::Object': 'usize'}},
   ensures=[('C06.initial_object', 'r == 0')])
fn(FF, 'initial', trait='Coproduct', self_ty='FiniteFunction', status='P', props=['C06', 'C05'], rules={'subst': {'Self::Object': 'usize'}},
   ensures=[('C06.initial', 'r.table@.len() == 0 && r.target == a'), ('C05.initial-wf', 'r.wf()')])
fn(FF, 'coproduct', trait='Coproduct', self_ty='FiniteFunction', status='P', props=['C06', 'C05'],
   requires=['self.wf()', 'other.wf()', 'self.table@.len() + other.table@.len() <= usize::MAX'],
   ensures=[('C06.coproduct-defined', 'r.is_some() <==> self.target == other.target'),
            ('C06.coproduct', 'r.is_some() ==> r.unwrap().table@ == self.table@ + other.table@ && r.unwrap().target == self.target'),
            ('C05.coproduct-wf', 'r.is_some() ==> r.unwrap().wf()')],
   proofs=[('start', 'assert(lawful_clone::<usize>());')])
fn(FF, 'inj0', trait='Coproduct', self_ty='FiniteFunction', status='P', props=['C06', 'C05'], rules={'subst': {'Self::Object': 'usize'}},
   requires=['a + b <= usize::MAX'],
   ensures=[('C06.inj0', 'r.table@.len() == a && (forall|i: int| 0 <= i < a ==> r.table@[i] == i) && r.target == a + b'),
            ('C05.inj0-wf', 'r.wf()')])
fn(FF, 'inj1', trait='Coproduct', self_ty='FiniteFunction', status='P', props=['C06', 'C05'], rules={'subst': {'Self::Object': 'usize'}},
   requires=['a + b <= usize::MAX'],
   ensures=[('C06.inj1', 'r.table@.len() == b && (forall|i: int| 0 <= i < b ==> r.table@[i] == a + i) && r.target == a + b'),
            ('C05.inj1-wf', 'r.wf()')])
# impl Monoidal / SymmetricMonoidal
fn(FF, 'unit', trait='Monoidal', self_ty='FiniteFunction', status='P', props=['C06'], rules={'subst': {'Self::Object': 'usize'}},
   ensures=[('C06.unit', 'r == 0')])
fn(FF, 'tensor', trait='Monoidal', self_ty='FiniteFunction', status='P', props=['C06', 'C05', 'C02'], rules={'ops': ['add']},
   requires=['self.wf()', 'other.wf()', 'self.target + other.target <= usize::MAX', 'self.table@.len() + other.table@.len() <= usize::MAX'],
   ensures=[('C06.tensor', '''r.table@.len() == self.table@.len() + other.table@.len()
                && (forall|i: int| 0 <= i < self.table@.len() ==> r.table@[i] == self.table@[i])
                && (forall|i: int| self.table@.len() <= i < self.table@.len() + other.table@.len() ==> r.table@[i] == self.target + other.table@[i - self.table@.len()])
                && r.target == self.target + other.target'''),
            ('C05.tensor-wf', 'r.wf()')],
   proofs=[('start', 'assert(lawful_clone::<usize>());')])
fn(FF, 'twist', trait='SymmetricMonoidal', self_ty='FiniteFunction', status='P', props=['C06', 'C05'],
   requires=['a + b <= usize::MAX'],
   ensures=[('C06.twist', '''r.table@.len() == a + b && r.target == a + b
                && (forall|i: int| 0 <= i < a ==> r.table@[i] == b + i)
                && (forall|i: int| a <= i < a + b ==> r.table@[i] == i - a)'''),
            ('C05.twist-wf', 'r.wf()')],
   proofs=[('start', 'assert(lawful_clone::<usize>());')])
endgroup()

raw(r'''
/// k = a ; s  as a sequence of segment sizes
pub open spec fn kseq(s: Seq<usize>, a: Seq<usize>) -> Seq<usize> { Seq::new(a.len(), |i: int| s[a[i] as int]) }

/// the block transposition a x b -> b x a at position i
pub open spec fn transpose_at(i: int, a: int, b: int) -> int { (i % a) * b + i / a }

pub proof fn lemma_transpose_bound(i: int, a: int, b: int)
    requires 0 <= i < a * b, a > 0, b >= 0
    ensures 0 <= (i % a) * b + i / a < a * b, 0 <= i % a < a, 0 <= i / a < b
{
    assert(0 <= i % a < a && i == a * (i / a) + i % a) by (nonlinear_arith) requires 0 <= i, a > 0;
    assert(i / a < b) by (nonlinear_arith) requires i < a * b, a > 0, i == a * (i / a) + i % a, 0 <= i % a;
    assert(0 <= i / a) by (nonlinear_arith) requires 0 <= i, a > 0;
    assert((i % a) * b + i / a < a * b) by (nonlinear_arith) requires 0 <= i % a < a, 0 <= i / a < b, b >= 0;
    assert(0 <= (i % a) * b) by (nonlinear_arith) requires 0 <= i % a, b >= 0;
}
''')

# free function: the universal map through q (generic in the label type)
fn(FF, 'coequalizer_universal', kind='free', status='P', props=['C06', 'C05', 'C01', 'C09', 'C20'], rules={'ops': ['shr']},
   fid='finite_function::coequalizer_universal_free', generics_add=[], where_add='T: Clone + PartialEq',
   requires=['q.wf()', 'q.table@.len() == 0 ==> q.target == 0', 'lawful_clone::<T>()', 'lawful_eq::<T>()'],
   ensures=[('C06.universal-free-iff', 'r.is_some() <==> (q.table@.len() == f@.len() && constant_on_fibres(q.table@, f@))'),
            ('C06.universal-free-factor', 'r.is_some() ==> (forall|i: int| 0 <= i < q.table@.len() ==> r.unwrap()@[q.table@[i] as int] == f@[i])'),
            ('C06.universal-free-len', 'r.is_some() && q.table@.len() > 0 ==> r.unwrap()@.len() == q.target'),
            ('C06.universal-free-len0', 'r.is_some() && q.table@.len() == 0 ==> r.unwrap()@.len() == 0')],
   proofs=[('after:let table = f.scatter(', '''let qv = q.table@; let fv = f@; let n = qv.len() as int;
            assert forall|i: int| 0 <= i < n implies #[trigger] last_write(qv, qv[i] as int, n) >= i by { lemma_last_write(qv, qv[i] as int, n); }
            '''),
           ('before:if f_prime.0 == *f', '''let qv = q.table@; let fv = f@; let n = qv.len() as int; let tv = u.0@;
            assert(f_prime.0@ =~= fv <==> constant_on_fibres(qv, fv)) by {
                if constant_on_fibres(qv, fv) {
                    assert forall|i: int| 0 <= i < n implies f_prime.0@[i] == fv[i] by {
                        lemma_last_write(qv, qv[i] as int, n);
                        let w = last_write(qv, qv[i] as int, n);
                        assert(tv[qv[i] as int] == fv[w]);
                    }
                }
                if f_prime.0@ =~= fv {
                    assert forall|i: int, j: int| 0 <= i < n && 0 <= j < n && qv[i] == qv[j] implies fv[i] == fv[j] by {
                        assert(f_prime.0@[i] == tv[qv[i] as int]);
                        assert(f_prime.0@[j] == tv[qv[j] as int]);
                    }
                }
            }''')])

# ---------------------------------------------------------------------------------------------
group('impl<T: Clone> SemifiniteFunction<T>')
fn(SF, 'new', self_ty='SemifiniteFunction', nth=None, status='P', props=['C06'],
   ensures=[('C06.sf-new', 'r@ == x@')])
fn(SF, 'len', self_ty='SemifiniteFunction', status='P', props=['C06'],
   ensures=[('C06.sf-len', 'r == self@.len()')])
fn(SF, 'singleton', self_ty='SemifiniteFunction', status='P', props=['C06'],
   ensures=[('C06.sf-singleton', 'r@.len() == 1 && (lawful_clone::<T>() ==> r@[0] == x)')])
fn(SF, 'coproduct', self_ty='SemifiniteFunction', status='P', props=['C06', 'C02'],
   requires=['self@.len() + other@.len() <= usize::MAX'],
   ensures=[('C06.sf-coproduct', 'r@.len() == self@.len() + other@.len() && (lawful_clone::<T>() ==> r@ == self@ + other@)')])
endgroup()

fn(SF, 'compose_semifinite', kind='free', status='P', props=['C06', 'C05', 'C18'], where_add='T: Clone',
   requires=['lhs.wf()'],
   ensures=[('C06.compose_semifinite-defined', 'r.is_some() <==> lhs.target == rhs@.len()'),
            ('C06.compose_semifinite', 'r.is_some() ==> r.unwrap()@.len() == lhs.table@.len() && (lawful_clone::<T>() ==> forall|i: int| 0 <= i < lhs.table@.len() ==> r.unwrap()@[i] == rhs@[lhs.table@[i] as int])')])

# operator sugar of /repo (T3)
opimpl(FF, 'Shr', 'FiniteFunction', 'ff_shr_ff', 'f', "&'a FiniteFunction", "&'b FiniteFunction", 'Option<FiniteFunction>',
       req=['f.wf()', 'rhs.wf()'],
       ens=['r.is_some() <==> f.target == rhs.table@.len()',
            'r.is_some() ==> r.unwrap().table@.len() == f.table@.len() && (forall|i: int| 0 <= i < f.table@.len() ==> r.unwrap().table@[i] == rhs.table@[f.table@[i] as int]) && r.unwrap().target == rhs.target && r.unwrap().wf()'],
       labels=['C06.shr-defined', 'C06.shr'], impl_generics="<'a, 'b>", props=['C06'])
opimpl(FF, 'Add', 'FiniteFunction', 'ff_add_ff', 'f', "&'a FiniteFunction", "&'b FiniteFunction", 'Option<FiniteFunction>',
       req=['f.wf()', 'rhs.wf()', 'f.table@.len() + rhs.table@.len() <= usize::MAX'],
       ens=['r.is_some() <==> f.target == rhs.target',
            'r.is_some() ==> r.unwrap().table@ == f.table@ + rhs.table@ && r.unwrap().target == f.target && r.unwrap().wf()'],
       labels=['C06.add-defined', 'C06.add'], impl_generics="<'a, 'b>", props=['C06'])
opimpl(FF, 'BitOr', 'FiniteFunction', 'ff_bitor_ff', 'f', "&'a FiniteFunction", "&'b FiniteFunction", 'FiniteFunction',
       req=['f.wf()', 'rhs.wf()', 'f.target + rhs.target <= usize::MAX', 'f.table@.len() + rhs.table@.len() <= usize::MAX'],
       ens=['''r.table@.len() == f.table@.len() + rhs.table@.len()
                && (forall|i: int| 0 <= i < f.table@.len() ==> r.table@[i] == f.table@[i])
                && (forall|i: int| f.table@.len() <= i < f.table@.len() + rhs.table@.len() ==> r.table@[i] == f.target + rhs.table@[i - f.table@.len()])
                && r.target == f.target + rhs.target && r.wf()'''],
       labels=['C06.bitor'], impl_generics="<'a, 'b>", props=['C06', 'C02'])
opimpl(SF, 'Shr', 'FiniteFunction', 'ff_shr_sf', 'f', "&'a FiniteFunction", "&'b SemifiniteFunction<T>", 'Option<SemifiniteFunction<T>>',
       rhs_name='other', req=['f.wf()'],
       ens=['r.is_some() <==> f.target == other@.len()',
            'r.is_some() ==> r.unwrap()@.len() == f.table@.len() && (lawful_clone::<T>() ==> forall|i: int| 0 <= i < f.table@.len() ==> r.unwrap()@[i] == other@[f.table@[i] as int])'],
       labels=['C06.shr-sf-defined', 'C06.shr-sf'], impl_generics="<'a, 'b, T: Clone>", fn_generics='T: Clone', props=['C06'])
opimpl(SF, 'Add', 'SemifiniteFunction', 'sf_add_ref', 'f', "&'a SemifiniteFunction<T>", "&'b SemifiniteFunction<T>", 'Option<SemifiniteFunction<T>>',
       self_args='&SemifiniteFunction', req=['f@.len() + rhs@.len() <= usize::MAX'],
       ens=['r.is_some()', 'r.unwrap()@.len() == f@.len() + rhs@.len() && (lawful_clone::<T>() ==> r.unwrap()@ == f@ + rhs@)'],
       labels=['C06.sf-add-ref-some', 'C06.sf-add-ref'], impl_generics="<'a, 'b, T: Clone>", fn_generics='T: Clone', props=['C06'])
opimpl(SF, 'Add', 'SemifiniteFunction', 'sf_add_val', 'f', "SemifiniteFunction<T>", "SemifiniteFunction<T>", 'SemifiniteFunction<T>',
       nth=1, req=['f@.len() + rhs@.len() <= usize::MAX'],
       ens=['r@.len() == f@.len() + rhs@.len() && (lawful_clone::<T>() ==> r@ == f@ + rhs@)'],
       labels=['C06.sf-add-val'], impl_generics="<T: Clone>", fn_generics='T: Clone', props=['C06'],
       rules={'subst': {'Self': 'SemifiniteFunction<T>'}})

group('impl<T: Clone> SemifiniteFunction<T>')
fn(SF, 'zero', trait='Zero', self_ty='SemifiniteFunction', status='P', props=['C06'],
   ensures=[('C06.sf-zero', 'r@.len() == 0')])
fn(SF, 'is_zero', trait='Zero', self_ty='SemifiniteFunction', status='P', props=['C06'],
   ensures=[('C06.sf-is_zero', 'r <==> self@.len() == 0')])
endgroup()
