# lax/hypergraph.rs, lax/open_hypergraph.rs: quotienting a lax diagram (C09).  The two `quotient` functions and
# `coequalizer` are extracted and proved; loops over `&mut` collections and `iter_mut().for_each(..)` become index loops
# binding the same name to `&mut V[i]` (rule T15), `.iter().map(|x| x.0).collect()` becomes a loop (rule T9).
# The module is not re-exported at the top level (its Hypergraph / OpenHypergraph are the lax types).
LH = 'src/lax/hypergraph.rs'
LO = 'src/lax/open_hypergraph.rs'

module('lax', uses=['std::mem::take'], export=False)

raw(r'''
// std::mem::take: the old value is returned; nothing is assumed about what is left behind (every caller below overwrites it)
pub assume_specification<T: Default>[core::mem::take::<T>](dest: &mut T) -> (r: T)
    ensures r == *old(dest);

// std: `impl<T> From<T> for T { fn from(t: T) -> T { t } }` (the reflexive conversion behind `x.into()` at the same type)
pub assume_specification<T>[<T as core::convert::From<T>>::from](t: T) -> (r: T)
    ensures r == t;
''', tag='T:mem-take+from-reflexive')

typedef(LH, 'NodeId', rules={'keep_derive': ['Clone', 'Copy', 'PartialEq', 'Eq']})
typedef(LH, 'EdgeId', rules={'keep_derive': ['Clone', 'Copy', 'PartialEq', 'Eq']})
typedef(LH, 'Hyperedge')
typedef(LH, 'Interface')
typedef(LH, 'Hypergraph')
typedef(LO, 'OpenHypergraph')

raw(r'''
// #[derive(Clone)] of /repo on Hyperedge: field-wise clone (trusted, as for VecArray)
impl Clone for Hyperedge {
    #[verifier::external_body]
    fn clone(&self) -> (r: Self)
        ensures r.sources@ == self.sources@, r.targets@ == self.targets@
    { Hyperedge { sources: self.sources.clone(), targets: self.targets.clone() } }
}
''', tag='T:derive-clone-Hyperedge')

raw(r'''
/// the node numbers behind a list of node ids
pub open spec fn ids(v: Seq<NodeId>) -> Seq<usize> { Seq::new(v.len(), |i: int| v[i].0) }
pub open spec fn ids_ok(v: Seq<NodeId>, n: int) -> bool { forall|i: int| 0 <= i < v.len() ==> (#[trigger] v[i]).0 < n }
/// w is v with every node reference replaced by its image under q
pub open spec fn mapped(v: Seq<NodeId>, w: Seq<NodeId>, q: Seq<usize>) -> bool {
    w.len() == v.len() && forall|i: int| 0 <= i < v.len() ==> (#[trigger] w[i]).0 == q[v[i].0 as int]
}

impl<O, A> Hypergraph<O, A> {
    /// every node reference (hyperedge sources and targets, pending unifications) names an existing node,
    /// one adjacency entry per hyperedge label, unification pairs come in pairs
    pub open spec fn wf(&self) -> bool {
        let n = self.nodes@.len() as int;
        &&& self.edges@.len() == self.adjacency@.len()
        &&& self.quotient.0@.len() == self.quotient.1@.len()
        &&& ids_ok(self.quotient.0@, n) && ids_ok(self.quotient.1@, n)
        &&& forall|j: int| 0 <= j < self.adjacency@.len() ==> ids_ok((#[trigger] self.adjacency@[j]).sources@, n) && ids_ok(self.adjacency@[j].targets@, n)
    }
}
impl<O, A> OpenHypergraph<O, A> {
    pub open spec fn wf(&self) -> bool {
        self.hypergraph.wf() && ids_ok(self.sources@, self.hypergraph.nodes@.len() as int) && ids_ok(self.targets@, self.hypergraph.nodes@.len() as int)
    }
}

/// C09: `new` is `old` quotiented by q: q is a coequalizer of the recorded unification pairs (its fibres are exactly their
/// connected components); every node reference is replaced by its image; hyperedges, their labels and their order are
/// untouched; every new node carries the label of its fibre; the pending unifications are cleared
pub open spec fn is_quotient_of<O, A>(old: Hypergraph<O, A>, new: Hypergraph<O, A>, q: FiniteFunction) -> bool {
    let n = old.nodes@.len() as int;
    &&& is_coeq(q.table@, q.target as int, ids(old.quotient.0@), ids(old.quotient.1@), n)
    &&& q.wf()
    &&& new.nodes@.len() == q.target
    &&& (forall|i: int| 0 <= i < n ==> new.nodes@[q.table@[i] as int] == old.nodes@[i])
    &&& new.edges@ == old.edges@
    &&& new.adjacency@.len() == old.adjacency@.len()
    &&& (forall|j: int| 0 <= j < old.adjacency@.len() ==> mapped(old.adjacency@[j].sources@, (#[trigger] new.adjacency@[j]).sources@, q.table@)
            && mapped(old.adjacency@[j].targets@, new.adjacency@[j].targets@, q.table@))
    &&& new.quotient.0@.len() == 0 && new.quotient.1@.len() == 0
}
''')

raw(r'''
/// a coequalizer of NO pairs identifies nothing: it is a bijection (a renumbering of the nodes)
pub proof fn lemma_coeq_empty(q: Seq<usize>, k: int, s: Seq<usize>, t: Seq<usize>, n: int)
    requires is_coeq(q, k, s, t, n), s.len() == 0, t.len() == 0, 0 <= k, 0 <= n <= usize::MAX
    ensures injective(q), k == n
{
    let r = |a: int, b: int| a == b;
    assert(compat(r, s, t, n));
    assert forall|a: int, b: int| 0 <= a < n && 0 <= b < n && a != b implies q[a] != q[b] by { if q[a] == q[b] { assert(r(a, b)); } }
    let h = Seq::new(n as nat, |a: int| a as usize);
    assert forall|c: int| 0 <= c < n implies #[trigger] hit(h, c, n) by { assert(h[c] == c); }
    let phi = lemma_factor_iso(q, k, s, t, n, h, n);
}
''')

group('impl<O: Clone, A: Clone> Hypergraph<O, A>')
fn(LH, 'coequalizer', self_ty='Hypergraph', status='P', props=['C09'], rules={'t9': True},
   requires=['self.wf()'],
   ensures=[('C09.coequalizer', 'is_coeq(r.table@, r.target as int, ids(self.quotient.0@), ids(self.quotient.1@), self.nodes@.len() as int) && r.wf() && r.table@.len() == self.nodes@.len() && r.target <= self.nodes@.len()')],
   loops={1: {'iter': 'it', 'invariant': ['vx_v1@.len() == it.index@', 'forall|k: int| 0 <= k < it.index@ ==> vx_v1@[k] == self.quotient.0@[k].0']},
          2: {'iter': 'it', 'invariant': ['vx_v2@.len() == it.index@', 'forall|k: int| 0 <= k < it.index@ ==> vx_v2@[k] == self.quotient.1@[k].0']}},
   proofs=[('before:s.coequalizer(&t)', '''assert(s.table@ =~= ids(self.quotient.0@) && t.table@ =~= ids(self.quotient.1@));''')])
endgroup()

group('impl<O: Clone + PartialEq, A: Clone> Hypergraph<O, A>')
fn(LH, 'quotient', self_ty='Hypergraph', status='P', props=['C09'], rules={'t15': True},
   requires=['old(self).wf()', 'lawful_clone::<O>()', 'lawful_eq::<O>()'],
   ensures=[('C09.quotient-ok', 'match r { Ok(q) => is_quotient_of(*old(self), *final(self), q), Err(_) => true }'),
            ('C09.quotient-err-unchanged', '''match r { Ok(_) => true, Err(q) => final(self).nodes@ == old(self).nodes@ && final(self).edges@ == old(self).edges@
                && final(self).adjacency@ == old(self).adjacency@ && final(self).quotient == old(self).quotient
                && is_coeq(q.table@, q.target as int, ids(old(self).quotient.0@), ids(old(self).quotient.1@), old(self).nodes@.len() as int) }'''),
            ('C09.quotient-fails-iff', '''({ let q = match r { Ok(q) => q, Err(q) => q }; r.is_err() <==> !constant_on_fibres(q.table@, old(self).nodes@) })'''),
            ('C09.quotient-wf', 'r.is_ok() ==> final(self).wf()'),
            ('C09.quotient-idempotent', '''old(self).quotient.0@.len() == 0 ==> match r { Ok(q) => injective(q.table@) && q.target == old(self).nodes@.len(), Err(_) => false }''')],
   loops={1: {'invariant': ['self.adjacency@.len() == adj0.len()', '0 <= vx_j1 <= adj0.len()', 'q.wf()', 'q.table@.len() == n0', 'self.nodes@ == nodes1',
                            'self.edges@ == old(self).edges@', 'self.quotient == old(self).quotient',
                            'forall|j: int| 0 <= j < vx_j1 ==> mapped(adj0[j].sources@, (#[trigger] self.adjacency@[j]).sources@, q.table@) && mapped(adj0[j].targets@, self.adjacency@[j].targets@, q.table@)',
                            'forall|j: int| vx_j1 <= j < adj0.len() ==> (#[trigger] self.adjacency@[j]) == adj0[j]',
                            'forall|j: int| 0 <= j < adj0.len() ==> ids_ok((#[trigger] adj0[j]).sources@, n0) && ids_ok(adj0[j].targets@, n0)'],
              'decreases': 'adj0.len() - vx_j1'}},
   closures={1: {'t15': True, 'invariant': ['e.targets@ == tgt0', 'e.sources@.len() == src0.len()', '0 <= vx_c1 <= src0.len()', 'ids_ok(src0, q.table@.len() as int)',
                                           'forall|i: int| 0 <= i < vx_c1 ==> (#[trigger] e.sources@[i]).0 == q.table@[src0[i].0 as int]',
                                           'forall|i: int| vx_c1 <= i < src0.len() ==> (#[trigger] e.sources@[i]) == src0[i]'],
                 'decreases': 'src0.len() - vx_c1', 'body_pre': 'proof { assert(src0[vx_c1 as int].0 < q.table@.len()); }'},
             2: {'t15': True, 'invariant': ['e.sources@ == src1', 'e.targets@.len() == tgt0.len()', '0 <= vx_c2 <= tgt0.len()', 'ids_ok(tgt0, q.table@.len() as int)',
                                           'forall|i: int| 0 <= i < vx_c2 ==> (#[trigger] e.targets@[i]).0 == q.table@[tgt0[i].0 as int]',
                                           'forall|i: int| vx_c2 <= i < tgt0.len() ==> (#[trigger] e.targets@[i]) == tgt0[i]'],
                 'decreases': 'tgt0.len() - vx_c2', 'body_pre': 'proof { assert(tgt0[vx_c2 as int].0 < q.table@.len()); }'}},
   proofs=[('after:let q = self.coequalizer();', '''if old(self).quotient.0@.len() == 0 {
                vstd::std_specs::vec::axiom_spec_len(&old(self).nodes);
                lemma_coeq_empty(q.table@, q.target as int, ids(old(self).quotient.0@), ids(old(self).quotient.1@), old(self).nodes@.len() as int);
            }'''),
           G('before:for e in &mut self.adjacency', 'let ghost adj0 = self.adjacency@; let ghost n0 = old(self).nodes@.len() as int; let ghost nodes1 = self.nodes@;'),
           G('before:e.sources.iter_mut().for_each', 'let ghost src0 = e.sources@; let ghost tgt0 = e.targets@; proof { assert(ids_ok(adj0[vx_j1 as int].sources@, n0) && ids_ok(adj0[vx_j1 as int].targets@, n0)); }'),
           G('before:e.targets.iter_mut().for_each', 'let ghost src1 = e.sources@;')])
endgroup()

group('impl<O: Clone + PartialEq, A: Clone> OpenHypergraph<O, A>')
fn(LO, 'quotient', self_ty='OpenHypergraph', status='P', props=['C09'], rules={'t15': True},
   requires=['old(self).wf()', 'lawful_clone::<O>()', 'lawful_eq::<O>()'],
   ensures=[('C09.open-quotient-ok', '''match r { Ok(q) => is_quotient_of(old(self).hypergraph, final(self).hypergraph, q)
                && mapped(old(self).sources@, final(self).sources@, q.table@) && mapped(old(self).targets@, final(self).targets@, q.table@), Err(_) => true }'''),
            ('C09.open-quotient-err-unchanged', '''match r { Ok(_) => true, Err(q) => final(self).sources@ == old(self).sources@ && final(self).targets@ == old(self).targets@
                && final(self).hypergraph.nodes@ == old(self).hypergraph.nodes@ && final(self).hypergraph.edges@ == old(self).hypergraph.edges@
                && final(self).hypergraph.adjacency@ == old(self).hypergraph.adjacency@ && final(self).hypergraph.quotient == old(self).hypergraph.quotient
                && is_coeq(q.table@, q.target as int, ids(old(self).hypergraph.quotient.0@), ids(old(self).hypergraph.quotient.1@), old(self).hypergraph.nodes@.len() as int) }'''),
            ('C09.open-quotient-fails-iff', '''({ let q = match r { Ok(q) => q, Err(q) => q }; r.is_err() <==> !constant_on_fibres(q.table@, old(self).hypergraph.nodes@) })'''),
            ('C09.open-quotient-wf', 'r.is_ok() ==> final(self).wf()'),
            ('C09.open-quotient-idempotent', '''old(self).hypergraph.quotient.0@.len() == 0 ==> match r { Ok(q) => injective(q.table@) && q.target == old(self).hypergraph.nodes@.len(), Err(_) => false }''')],
   closures={1: {'t15': True, 'invariant': ['self.targets@ == old(self).targets@', 'self.hypergraph == hg1', 'self.sources@.len() == src0.len()', '0 <= vx_c1 <= src0.len()', 'ids_ok(src0, q.table@.len() as int)', 'q.wf()',
                                           'forall|i: int| 0 <= i < vx_c1 ==> (#[trigger] self.sources@[i]).0 == q.table@[src0[i].0 as int]',
                                           'forall|i: int| vx_c1 <= i < src0.len() ==> (#[trigger] self.sources@[i]) == src0[i]'],
                 'decreases': 'src0.len() - vx_c1', 'body_pre': 'proof { assert(src0[vx_c1 as int].0 < q.table@.len()); }'},
             2: {'t15': True, 'invariant': ['self.sources@ == src1', 'self.hypergraph == hg1', 'self.targets@.len() == tgt0.len()', '0 <= vx_c2 <= tgt0.len()', 'ids_ok(tgt0, q.table@.len() as int)', 'q.wf()',
                                           'forall|i: int| 0 <= i < vx_c2 ==> (#[trigger] self.targets@[i]).0 == q.table@[tgt0[i].0 as int]',
                                           'forall|i: int| vx_c2 <= i < tgt0.len() ==> (#[trigger] self.targets@[i]) == tgt0[i]'],
                 'decreases': 'tgt0.len() - vx_c2', 'body_pre': 'proof { assert(tgt0[vx_c2 as int].0 < q.table@.len()); }'}},
   proofs=[G('before:self.sources', 'let ghost src0 = self.sources@; let ghost tgt0 = self.targets@; let ghost hg1 = self.hypergraph;'),
           G('before:self.targets', 'let ghost src1 = self.sources@;')])
endgroup()

# ---------------------------------------------------------------------------------------------
# C11: the builder calls that do not delete anything, against the plain list model -- the struct IS the list model
# (node labels, edge labels, one (sources, targets) pair per edge, two lists of pending unifications), so each contract
# states the new lists exactly and frames everything else.
# ---------------------------------------------------------------------------------------------
group('impl<O, A> Hypergraph<O, A>')
fn(LH, 'empty', self_ty='Hypergraph', status='P', props=['C11'],
   ensures=[('C11.empty', 'r.nodes@.len() == 0 && r.edges@.len() == 0 && r.adjacency@.len() == 0 && r.quotient.0@.len() == 0 && r.quotient.1@.len() == 0 && r.wf()')])
fn(LH, 'is_strict', self_ty='Hypergraph', status='P', props=['C11', 'C13'],
   ensures=[('C11.is_strict', 'r <==> self.quotient.0@.len() == 0')])
fn(LH, 'discrete', self_ty='Hypergraph', status='P', props=['C11'],
   ensures=[('C11.discrete', 'r.nodes == nodes && r.edges@.len() == 0 && r.adjacency@.len() == 0 && r.quotient.0@.len() == 0 && r.quotient.1@.len() == 0 && r.wf()')])
fn(LH, 'new_node', self_ty='Hypergraph', status='P', props=['C11'],
   ensures=[('C11.new_node', '''r.0 == old(self).nodes@.len() && final(self).nodes@ == old(self).nodes@.push(w)
                && final(self).edges == old(self).edges && final(self).adjacency == old(self).adjacency && final(self).quotient == old(self).quotient'''),
            ('C11.new_node-wf', 'old(self).wf() ==> final(self).wf()')])
fn(LH, 'new_edge', self_ty='Hypergraph', status='P', props=['C11'],
   ensures=[('C11.new_edge', '''r.0 == old(self).edges@.len() && final(self).edges@ == old(self).edges@.push(x)
                && final(self).adjacency@.len() == old(self).adjacency@.len() + 1 && final(self).adjacency@.subrange(0, old(self).adjacency@.len() as int) == old(self).adjacency@
                && final(self).nodes == old(self).nodes && final(self).quotient == old(self).quotient'''),
            ('C11.new_edge-entry', 'call_ensures(core::convert::Into::into, (interface,), final(self).adjacency@.last())')])
fn(LH, 'unify', self_ty='Hypergraph', status='P', props=['C11'],
   ensures=[('C11.unify', '''final(self).quotient.0@ == old(self).quotient.0@.push(v) && final(self).quotient.1@ == old(self).quotient.1@.push(w)
                && final(self).nodes == old(self).nodes && final(self).edges == old(self).edges && final(self).adjacency == old(self).adjacency'''),
            ('C11.unify-wf', 'old(self).wf() && v.0 < old(self).nodes@.len() && w.0 < old(self).nodes@.len() ==> final(self).wf()')])
fn(LH, 'add_edge_source', self_ty='Hypergraph', status='P', props=['C11'],
   requires=['edge_id.0 < old(self).adjacency@.len()'],
   ensures=[('C11.add_edge_source', '''r.0 == old(self).nodes@.len() && final(self).nodes@ == old(self).nodes@.push(w)
                && final(self).edges == old(self).edges && final(self).quotient == old(self).quotient
                && final(self).adjacency@.len() == old(self).adjacency@.len()
                && final(self).adjacency@[edge_id.0 as int].sources@ == old(self).adjacency@[edge_id.0 as int].sources@.push(r)
                && final(self).adjacency@[edge_id.0 as int].targets@ == old(self).adjacency@[edge_id.0 as int].targets@
                && (forall|j: int| 0 <= j < old(self).adjacency@.len() && j != edge_id.0 ==> (#[trigger] final(self).adjacency@[j]) == old(self).adjacency@[j])''')])
fn(LH, 'add_edge_target', self_ty='Hypergraph', status='P', props=['C11'],
   requires=['edge_id.0 < old(self).adjacency@.len()'],
   ensures=[('C11.add_edge_target', '''r.0 == old(self).nodes@.len() && final(self).nodes@ == old(self).nodes@.push(w)
                && final(self).edges == old(self).edges && final(self).quotient == old(self).quotient
                && final(self).adjacency@.len() == old(self).adjacency@.len()
                && final(self).adjacency@[edge_id.0 as int].targets@ == old(self).adjacency@[edge_id.0 as int].targets@.push(r)
                && final(self).adjacency@[edge_id.0 as int].sources@ == old(self).adjacency@[edge_id.0 as int].sources@
                && (forall|j: int| 0 <= j < old(self).adjacency@.len() && j != edge_id.0 ==> (#[trigger] final(self).adjacency@[j]) == old(self).adjacency@[j])''')])
endgroup()

group('impl<O, A> Hypergraph<O, A>')
fn(LH, 'new_operation', self_ty='Hypergraph', status='P', props=['C11'], rules={'t9': True},
   ensures=[('C11.new_operation', '''({ let n0 = old(self).nodes@.len() as int; let ns = source_type@.len() as int; let nt = target_type@.len() as int;
                r.0.0 == old(self).edges@.len() && final(self).edges@ == old(self).edges@.push(x)
                && final(self).nodes@ == old(self).nodes@ + source_type@ + target_type@
                && final(self).quotient == old(self).quotient
                && final(self).adjacency@.len() == old(self).adjacency@.len() + 1 && final(self).adjacency@.subrange(0, old(self).adjacency@.len() as int) == old(self).adjacency@
                && r.1.0@.len() == ns && (forall|i: int| 0 <= i < ns ==> (#[trigger] r.1.0@[i]).0 == n0 + i)
                && r.1.1@.len() == nt && (forall|i: int| 0 <= i < nt ==> (#[trigger] r.1.1@[i]).0 == n0 + ns + i)
                && final(self).adjacency@.last().sources@ == r.1.0@ && final(self).adjacency@.last().targets@ == r.1.1@ })''')],
   loops={1: {'iter': 'it', 'elem_ty': 'NodeId', 'invariant': ['vx_v1@.len() == it.index@', 'self.nodes@ == old(self).nodes@ + source_type@.subrange(0, it.index@ as int)',
                                         'self.edges == old(self).edges', 'self.adjacency == old(self).adjacency', 'self.quotient == old(self).quotient',
                                         'forall|i: int| 0 <= i < it.index@ ==> (#[trigger] vx_v1@[i]).0 == old(self).nodes@.len() + i']},
          2: {'iter': 'it', 'elem_ty': 'NodeId', 'invariant': ['vx_v2@.len() == it.index@', 'self.nodes@ == old(self).nodes@ + source_type@ + target_type@.subrange(0, it.index@ as int)',
                                         'self.edges == old(self).edges', 'self.adjacency == old(self).adjacency', 'self.quotient == old(self).quotient',
                                         'forall|i: int| 0 <= i < it.index@ ==> (#[trigger] vx_v2@[i]).0 == old(self).nodes@.len() + source_type@.len() + i']}})
endgroup()

# the open-hypergraph level: one-line delegations plus `singleton`
group('impl<O, A> OpenHypergraph<O, A>')
fn(LO, 'empty', self_ty='OpenHypergraph', status='P', props=['C11'],
   ensures=[('C11.open-empty', 'r.sources@.len() == 0 && r.targets@.len() == 0 && r.hypergraph.nodes@.len() == 0 && r.hypergraph.edges@.len() == 0 && r.hypergraph.adjacency@.len() == 0 && r.hypergraph.quotient.0@.len() == 0 && r.hypergraph.quotient.1@.len() == 0 && r.wf()')])
fn(LO, 'new_node', self_ty='OpenHypergraph', status='P', props=['C11'],
   ensures=[('C11.open-new_node', '''r.0 == old(self).hypergraph.nodes@.len() && final(self).hypergraph.nodes@ == old(self).hypergraph.nodes@.push(w)
                && final(self).hypergraph.edges == old(self).hypergraph.edges && final(self).hypergraph.adjacency == old(self).hypergraph.adjacency && final(self).hypergraph.quotient == old(self).hypergraph.quotient
                && final(self).sources == old(self).sources && final(self).targets == old(self).targets''')])
fn(LO, 'new_edge', self_ty='OpenHypergraph', status='P', props=['C11'],
   ensures=[('C11.open-new_edge', '''r.0 == old(self).hypergraph.edges@.len() && final(self).hypergraph.edges@ == old(self).hypergraph.edges@.push(x)
                && final(self).hypergraph.adjacency@.len() == old(self).hypergraph.adjacency@.len() + 1
                && final(self).hypergraph.adjacency@.subrange(0, old(self).hypergraph.adjacency@.len() as int) == old(self).hypergraph.adjacency@
                && final(self).hypergraph.nodes == old(self).hypergraph.nodes && final(self).hypergraph.quotient == old(self).hypergraph.quotient
                && final(self).sources == old(self).sources && final(self).targets == old(self).targets''')])
fn(LO, 'unify', self_ty='OpenHypergraph', status='P', props=['C11'],
   ensures=[('C11.open-unify', '''final(self).hypergraph.quotient.0@ == old(self).hypergraph.quotient.0@.push(v) && final(self).hypergraph.quotient.1@ == old(self).hypergraph.quotient.1@.push(w)
                && final(self).hypergraph.nodes == old(self).hypergraph.nodes && final(self).hypergraph.edges == old(self).hypergraph.edges && final(self).hypergraph.adjacency == old(self).hypergraph.adjacency
                && final(self).sources == old(self).sources && final(self).targets == old(self).targets''')])
fn(LO, 'add_edge_source', self_ty='OpenHypergraph', status='P', props=['C11'],
   requires=['edge_id.0 < old(self).hypergraph.adjacency@.len()'],
   ensures=[('C11.open-add_edge_source', '''r.0 == old(self).hypergraph.nodes@.len() && final(self).hypergraph.nodes@ == old(self).hypergraph.nodes@.push(w)
                && final(self).hypergraph.adjacency@.len() == old(self).hypergraph.adjacency@.len()
                && final(self).hypergraph.adjacency@[edge_id.0 as int].sources@ == old(self).hypergraph.adjacency@[edge_id.0 as int].sources@.push(r)
                && final(self).sources == old(self).sources && final(self).targets == old(self).targets''')])
fn(LO, 'add_edge_target', self_ty='OpenHypergraph', status='P', props=['C11'],
   requires=['edge_id.0 < old(self).hypergraph.adjacency@.len()'],
   ensures=[('C11.open-add_edge_target', '''r.0 == old(self).hypergraph.nodes@.len() && final(self).hypergraph.nodes@ == old(self).hypergraph.nodes@.push(w)
                && final(self).hypergraph.adjacency@.len() == old(self).hypergraph.adjacency@.len()
                && final(self).hypergraph.adjacency@[edge_id.0 as int].targets@ == old(self).hypergraph.adjacency@[edge_id.0 as int].targets@.push(r)
                && final(self).sources == old(self).sources && final(self).targets == old(self).targets''')])
fn(LO, 'new_operation', self_ty='OpenHypergraph', status='P', props=['C11'],
   ensures=[('C11.open-new_operation', '''({ let n0 = old(self).hypergraph.nodes@.len() as int; let ns = source_type@.len() as int; let nt = target_type@.len() as int;
                r.0.0 == old(self).hypergraph.edges@.len() && final(self).hypergraph.edges@ == old(self).hypergraph.edges@.push(x)
                && final(self).hypergraph.nodes@ == old(self).hypergraph.nodes@ + source_type@ + target_type@
                && final(self).hypergraph.adjacency@.len() == old(self).hypergraph.adjacency@.len() + 1
                && r.1.0@.len() == ns && (forall|i: int| 0 <= i < ns ==> (#[trigger] r.1.0@[i]).0 == n0 + i)
                && r.1.1@.len() == nt && (forall|i: int| 0 <= i < nt ==> (#[trigger] r.1.1@[i]).0 == n0 + ns + i)
                && final(self).hypergraph.adjacency@.last().sources@ == r.1.0@ && final(self).hypergraph.adjacency@.last().targets@ == r.1.1@
                && final(self).hypergraph.adjacency@.subrange(0, old(self).hypergraph.adjacency@.len() as int) == old(self).hypergraph.adjacency@
                && final(self).hypergraph.quotient == old(self).hypergraph.quotient
                && final(self).sources == old(self).sources && final(self).targets == old(self).targets })''')])
fn(LO, 'singleton', self_ty='OpenHypergraph', status='P', props=['C11', 'C10'],
   ensures=[('C11.open-singleton', '''({ let ns = source_type@.len() as int; let nt = target_type@.len() as int;
                r.hypergraph.nodes@ =~= source_type@ + target_type@ && r.hypergraph.edges@ =~= seq![x] && r.hypergraph.adjacency@.len() == 1
                && r.hypergraph.quotient.0@.len() == 0 && r.hypergraph.quotient.1@.len() == 0
                && r.sources@.len() == ns && (forall|i: int| 0 <= i < ns ==> (#[trigger] r.sources@[i]).0 == i)
                && r.targets@.len() == nt && (forall|i: int| 0 <= i < nt ==> (#[trigger] r.targets@[i]).0 == ns + i)
                && r.hypergraph.adjacency@[0].sources@ == r.sources@ && r.hypergraph.adjacency@[0].targets@ == r.targets@ })''')])
endgroup()

group('impl<O, A> OpenHypergraph<O, A>')
fn(LO, 'identity', self_ty='OpenHypergraph', status='P', props=['C10', 'C04'], rules={'t9': True},
   ensures=[('C10.lax-identity', '''r.hypergraph.nodes == a && r.hypergraph.edges@.len() == 0 && r.hypergraph.adjacency@.len() == 0
                && r.hypergraph.quotient.0@.len() == 0 && r.hypergraph.quotient.1@.len() == 0
                && r.sources@.len() == a@.len() && r.targets@.len() == a@.len()
                && (forall|i: int| 0 <= i < a@.len() ==> (#[trigger] r.sources@[i]).0 == i && (#[trigger] r.targets@[i]).0 == i) && r.wf()''')],
   loops={1: {'iter': 'it', 'elem_ty': 'NodeId', 'invariant': ['vx_v1@.len() == it.index@', 'forall|i: int| 0 <= i < it.index@ ==> (#[trigger] vx_v1@[i]).0 == i']},
          2: {'iter': 'it', 'elem_ty': 'NodeId', 'invariant': ['vx_v2@.len() == it.index@', 'forall|i: int| 0 <= i < it.index@ ==> (#[trigger] vx_v2@[i]).0 == i']}})
fn(LO, 'spider', self_ty='OpenHypergraph', status='P', props=['C10', 'C04'], rules={'t9': True},
   requires=['s.wf()', 't.wf()'],
   ensures=[('C04.lax-spider-iff', 'r.is_some() <==> (s.target == t.target && s.target == w@.len())'),
            ('C04.lax-spider', '''r.is_some() ==> ({ let f = r.unwrap(); f.hypergraph.nodes == w && f.hypergraph.edges@.len() == 0 && f.hypergraph.adjacency@.len() == 0
                && f.hypergraph.quotient.0@.len() == 0 && f.hypergraph.quotient.1@.len() == 0
                && ids(f.sources@) =~= s.table@ && ids(f.targets@) =~= t.table@ && f.wf() })''')],
   loops={1: {'iter': 'it', 'elem_ty': 'NodeId', 'invariant': ['vx_v1@.len() == it.index@', 'forall|i: int| 0 <= i < it.index@ ==> (#[trigger] vx_v1@[i]).0 == s.table@[i]']},
          2: {'iter': 'it', 'elem_ty': 'NodeId', 'invariant': ['vx_v2@.len() == it.index@', 'forall|i: int| 0 <= i < it.index@ ==> (#[trigger] vx_v2@[i]).0 == t.table@[i]']}})
endgroup()

LC = 'src/lax/category.rs'
group('impl<O: Clone + PartialEq, A: Clone> OpenHypergraph<O, A>')
fn(LC, 'source', trait='Arrow', self_ty='OpenHypergraph', status='P', props=['C10', 'C05'], rules={'t9': True, 'subst': {'Self::Object': 'Vec<O>'}},
   requires=['self.wf()'],
   ensures=[('C10.lax-source', 'r@.len() == self.sources@.len() && (lawful_clone::<O>() ==> forall|k: int| 0 <= k < self.sources@.len() ==> r@[k] == self.hypergraph.nodes@[self.sources@[k].0 as int])')],
   loops={1: {'iter': 'it', 'elem_ty': 'O', 'invariant': ['self.wf()', 'vx_v1@.len() == it.index@', 'it.seq().len() == self.sources@.len()', 'forall|k: int| 0 <= k < self.sources@.len() ==> *it.seq()[k] == self.sources@[k]',
                                         'lawful_clone::<O>() ==> forall|k: int| 0 <= k < it.index@ ==> vx_v1@[k] == self.hypergraph.nodes@[self.sources@[k].0 as int]']}})
fn(LC, 'target', trait='Arrow', self_ty='OpenHypergraph', status='P', props=['C10', 'C05'], rules={'t9': True, 'subst': {'Self::Object': 'Vec<O>'}},
   requires=['self.wf()'],
   ensures=[('C10.lax-target', 'r@.len() == self.targets@.len() && (lawful_clone::<O>() ==> forall|k: int| 0 <= k < self.targets@.len() ==> r@[k] == self.hypergraph.nodes@[self.targets@[k].0 as int])')],
   loops={1: {'iter': 'it', 'elem_ty': 'O', 'invariant': ['self.wf()', 'vx_v1@.len() == it.index@', 'it.seq().len() == self.targets@.len()', 'forall|k: int| 0 <= k < self.targets@.len() ==> *it.seq()[k] == self.targets@[k]',
                                         'lawful_clone::<O>() ==> forall|k: int| 0 <= k < it.index@ ==> vx_v1@[k] == self.hypergraph.nodes@[self.targets@[k].0 as int]']}})
endgroup()

# ---------------------------------------------------------------------------------------------
# C10: forgetting the (empty) quotient map: lax -> strict hypergraph
# ---------------------------------------------------------------------------------------------
raw(r'''
pub open spec fn src_lens(adj: Seq<Hyperedge>) -> Seq<usize> { Seq::new(adj.len(), |i: int| adj[i].sources@.len() as usize) }
pub open spec fn tgt_lens(adj: Seq<Hyperedge>) -> Seq<usize> { Seq::new(adj.len(), |i: int| adj[i].targets@.len() as usize) }

/// the strict hypergraph `s` has exactly the data of the lax hypergraph `h` (pending unifications aside): same node and edge
/// labels, hyperedge i has the source list and the target list of adjacency entry i, in order
pub open spec fn is_strict_of<O, A>(s: crate::hypergraph::Hypergraph<O, A>, h: Hypergraph<O, A>) -> bool {
    let sl = src_lens(h.adjacency@); let tl = tgt_lens(h.adjacency@);
    &&& s.wf()
    &&& s.w@.len() == h.nodes@.len() && s.x@.len() == h.edges@.len()
    &&& s.s.sources.table@ =~= sl && s.t.sources.table@ =~= tl
    &&& (forall|i: int, j: int| 0 <= i < h.adjacency@.len() && 0 <= j < sl[i] ==> s.s.values.table@[#[trigger] seg_at(sl, i, j)] == h.adjacency@[i].sources@[j].0)
    &&& (forall|i: int, j: int| 0 <= i < h.adjacency@.len() && 0 <= j < tl[i] ==> s.t.values.table@[#[trigger] seg_at(tl, i, j)] == h.adjacency@[i].targets@[j].0)
}

pub proof fn lemma_psum_push(s: Seq<usize>, x: usize, i: int)
    requires 0 <= i <= s.len()
    ensures psum(s.push(x), i) == psum(s, i), psum(s.push(x), s.len() as int + 1) == psum(s, s.len() as int) + x
{
    lemma_psum_prefix(s.push(x), s, i);
    lemma_psum_prefix(s.push(x), s, s.len() as int);
}
''')

fn(LH, 'make_hypergraph', kind='free', status='P', props=['C10'], rules={'t9': True, 'subst': {'crate::strict::hypergraph::Hypergraph': 'crate::hypergraph::Hypergraph'}},
   where_add='O: Clone, A: Clone',
   requires=['h.wf()', 'total(src_lens(h.adjacency@)) < usize::MAX', 'total(tgt_lens(h.adjacency@)) < usize::MAX', 'h.adjacency@.len() < usize::MAX'],
   ensures=[('C10.make_hypergraph', 'is_strict_of(r, *h)'),
            ('C10.make_hypergraph-labels', '(lawful_clone::<O>() ==> r.w@ == h.nodes@) && (lawful_clone::<A>() ==> r.x@ == h.edges@)')],
   loops={1: {'iter': 'it', 'invariant': ['h.wf()', 'it.seq().len() == h.adjacency@.len()', 'forall|k: int| 0 <= k < h.adjacency@.len() ==> *it.seq()[k] == h.adjacency@[k]', 'lengths@.len() == it.index@', 'forall|i: int| 0 <= i < it.index@ ==> lengths@[i] == h.adjacency@[i].sources@.len()', 'values@.len() == psum(lengths@, it.index@ as int)', 'in_bounds(values@, h.nodes@.len() as int)', 'forall|i: int, j: int| 0 <= i < it.index@ && 0 <= j < lengths@[i] ==> values@[#[trigger] seg_at(lengths@, i, j)] == h.adjacency@[i].sources@[j].0']}, 2: {'iter': 'it2', 'invariant': ['it2.seq().len() == e.sources@.len()', 'forall|k: int| 0 <= k < e.sources@.len() ==> *it2.seq()[k] == e.sources@[k]', 'ids_ok(e.sources@, h.nodes@.len() as int)', 'lengths@ == lens1', 'values@.len() == base + it2.index@', 'in_bounds(values@, h.nodes@.len() as int)', 'forall|m: int| 0 <= m < base ==> values@[m] == vals0[m]', 'forall|j: int| 0 <= j < it2.index@ ==> values@[base + j] == e.sources@[j].0']}, 3: {'iter': 'it', 'invariant': ['h.wf()', 'it.seq().len() == h.adjacency@.len()', 'forall|k: int| 0 <= k < h.adjacency@.len() ==> *it.seq()[k] == h.adjacency@[k]', 'lengths@.len() == it.index@', 'forall|i: int| 0 <= i < it.index@ ==> lengths@[i] == h.adjacency@[i].targets@.len()', 'values@.len() == psum(lengths@, it.index@ as int)', 'in_bounds(values@, h.nodes@.len() as int)', 'forall|i: int, j: int| 0 <= i < it.index@ && 0 <= j < lengths@[i] ==> values@[#[trigger] seg_at(lengths@, i, j)] == h.adjacency@[i].targets@[j].0']}, 4: {'iter': 'it2', 'invariant': ['it2.seq().len() == e.targets@.len()', 'forall|k: int| 0 <= k < e.targets@.len() ==> *it2.seq()[k] == e.targets@[k]', 'ids_ok(e.targets@, h.nodes@.len() as int)', 'lengths@ == lens1', 'values@.len() == base + it2.index@', 'in_bounds(values@, h.nodes@.len() as int)', 'forall|m: int| 0 <= m < base ==> values@[m] == vals0[m]', 'forall|j: int| 0 <= j < it2.index@ ==> values@[base + j] == e.targets@[j].0']}},
   proofs=[G('before:lengths.push(e.sources.len());', 'let ghost lens0 = lengths@; let ghost base = values@.len() as int; let ghost vals0 = values@; let ghost idx = it.index@ as int; proof { assert(*e == h.adjacency@[idx]); }'),
           G('before:values.extend(e.sources.iter().map(|x| x.0));', 'let ghost lens1 = lengths@;'),
           ('after:values.extend(e.sources.iter().map(|x| x.0));', '''let ln = e.sources@.len() as usize;
            assert(lens1 =~= lens0.push(ln));
            assert forall|i: int| 0 <= i <= idx implies psum(lens1, i) == psum(lens0, i) by { lemma_psum_push(lens0, ln, i); }
            lemma_psum_push(lens0, ln, idx);
            assert(psum(lens1, idx + 1) == base + ln);
            assert forall|i: int, j: int| 0 <= i < idx + 1 && 0 <= j < lens1[i] implies values@[#[trigger] seg_at(lens1, i, j)] == h.adjacency@[i].sources@[j].0 by {
                if i < idx { assert(psum(lens1, i) == psum(lens0, i)); assert(seg_at(lens1, i, j) == seg_at(lens0, i, j)); lemma_psum_mono(lens0, i + 1, idx); assert(psum(lens0, i + 1) == psum(lens0, i) + lens0[i]); assert(lens0[i] == lens1[i]);
                    let m = seg_at(lens0, i, j); lemma_psum_mono(lens0, 0, i); assert(base == psum(lens0, idx)); assert(0 <= m < base); assert(values@[m] == vals0[m]); assert(vals0[seg_at(lens0, i, j)] == h.adjacency@[i].sources@[j].0); }
                else { assert(i == idx); assert(psum(lens1, idx) == psum(lens0, idx)); assert(seg_at(lens1, i, j) == base + j); assert(lens1[idx] == ln); assert(values@[base + j] == e.sources@[j].0); }
            }'''),
           ('before#1:let sources = SemifiniteFunction(VecArray(lengths));', '''assert(lengths@ =~= src_lens(h.adjacency@));'''),
           G('before:lengths.push(e.targets.len());', 'let ghost lens0 = lengths@; let ghost base = values@.len() as int; let ghost vals0 = values@; let ghost idx = it.index@ as int; proof { assert(*e == h.adjacency@[idx]); }'),
           G('before:values.extend(e.targets.iter().map(|x| x.0));', 'let ghost lens1 = lengths@;'),
           ('after:values.extend(e.targets.iter().map(|x| x.0));', '''let ln = e.targets@.len() as usize;
            assert(lens1 =~= lens0.push(ln));
            assert forall|i: int| 0 <= i <= idx implies psum(lens1, i) == psum(lens0, i) by { lemma_psum_push(lens0, ln, i); }
            lemma_psum_push(lens0, ln, idx);
            assert(psum(lens1, idx + 1) == base + ln);
            assert forall|i: int, j: int| 0 <= i < idx + 1 && 0 <= j < lens1[i] implies values@[#[trigger] seg_at(lens1, i, j)] == h.adjacency@[i].targets@[j].0 by {
                if i < idx { assert(psum(lens1, i) == psum(lens0, i)); assert(seg_at(lens1, i, j) == seg_at(lens0, i, j)); lemma_psum_mono(lens0, i + 1, idx); assert(psum(lens0, i + 1) == psum(lens0, i) + lens0[i]); assert(lens0[i] == lens1[i]);
                    let m = seg_at(lens0, i, j); lemma_psum_mono(lens0, 0, i); assert(base == psum(lens0, idx)); assert(0 <= m < base); assert(values@[m] == vals0[m]); assert(vals0[seg_at(lens0, i, j)] == h.adjacency@[i].targets@[j].0); }
                else { assert(i == idx); assert(psum(lens1, idx) == psum(lens0, idx)); assert(seg_at(lens1, i, j) == base + j); assert(lens1[idx] == ln); assert(values@[base + j] == e.targets@[j].0); }
            }'''),
           ('before#2:let sources = SemifiniteFunction(VecArray(lengths));', '''assert(lengths@ =~= tgt_lens(h.adjacency@));''')])

group('impl<O: Clone, A: Clone> Hypergraph<O, A>')
fn(LH, 'to_hypergraph', self_ty='Hypergraph', status='P', props=['C10'], rules={'subst': {'crate::strict::Hypergraph': 'crate::hypergraph::Hypergraph'}},
   requires=['self.wf()', 'total(src_lens(self.adjacency@)) < usize::MAX', 'total(tgt_lens(self.adjacency@)) < usize::MAX', 'self.adjacency@.len() < usize::MAX'],
   ensures=[('C10.to_hypergraph', 'is_strict_of(r, *self)'),
            ('C10.to_hypergraph-labels', '(lawful_clone::<O>() ==> r.w@ == self.nodes@) && (lawful_clone::<A>() ==> r.x@ == self.edges@)')])
endgroup()

raw(r'''
// `Result<FiniteFunction, FiniteFunction>::unwrap()` needs `FiniteFunction: Debug` to compile (only used to format the panic
// message; /repo has a hand-written impl); outside verification
#[verifier::external]
impl core::fmt::Debug for FiniteFunction {
    fn fmt(&self, f: &mut core::fmt::Formatter<'_>) -> core::fmt::Result { f.write_str("FiniteFunction") }
}

/// the pending unifications only relate nodes with equal labels (what `to_strict` needs: its quotient().unwrap() cannot fail)
pub open spec fn unifiable<O, A>(h: Hypergraph<O, A>) -> bool {
    forall|q: Seq<usize>, k: int| #[trigger] is_coeq(q, k, ids(h.quotient.0@), ids(h.quotient.1@), h.nodes@.len() as int) ==> constant_on_fibres(q, h.nodes@)
}

/// C10: `s` is the strictification of the lax diagram `f`: quotient, then read off the same data
pub open spec fn is_strictification<O: Clone, A: Clone>(s: crate::open_hypergraph::OpenHypergraph<O, A>, f: OpenHypergraph<O, A>) -> bool {
    exists|mid: OpenHypergraph<O, A>, q: FiniteFunction|
        #[trigger] is_quotient_of(f.hypergraph, mid.hypergraph, q)
        && mapped(f.sources@, mid.sources@, q.table@) && mapped(f.targets@, mid.targets@, q.table@)
        && is_strict_of(s.h, mid.hypergraph) && s.s.table@ =~= ids(mid.sources@) && s.t.table@ =~= ids(mid.targets@)
        && (lawful_clone::<O>() ==> s.h.w@ == mid.hypergraph.nodes@) && (lawful_clone::<A>() ==> s.h.x@ == mid.hypergraph.edges@)
}
''')

group('impl<O: Clone + PartialEq, A: Clone> OpenHypergraph<O, A>')
fn(LO, 'to_strict', self_ty='OpenHypergraph', status='P', props=['C10'],
   rules={'t9': True, 'self_rename': ['this', 'OpenHypergraph<O, A>'], 'subst': {'crate::strict::OpenHypergraph': 'crate::open_hypergraph::OpenHypergraph', 'OpenHypergraph': 'crate::open_hypergraph::OpenHypergraph'}},
   requires=['this_in.wf()', 'unifiable(this_in.hypergraph)', 'lawful_clone::<O>()', 'lawful_eq::<O>()',
             'total(src_lens(this_in.hypergraph.adjacency@)) < usize::MAX', 'total(tgt_lens(this_in.hypergraph.adjacency@)) < usize::MAX', 'this_in.hypergraph.adjacency@.len() < usize::MAX'],
   ensures=[('C10.to_strict', 'is_strictification(r, this_in)'),
            ('C10.to_strict-wf', 'r.wf()')],
   loops={1: {'iter': 'it', 'elem_ty': 'usize', 'invariant': ['vx_v1@.len() == it.index@', 'it.seq().len() == this.sources@.len()', 'forall|k: int| 0 <= k < this.sources@.len() ==> *it.seq()[k] == this.sources@[k]',
                                                             'forall|k: int| 0 <= k < it.index@ ==> vx_v1@[k] == this.sources@[k].0']},
          2: {'iter': 'it', 'elem_ty': 'usize', 'invariant': ['vx_v2@.len() == it.index@', 'it.seq().len() == this.targets@.len()', 'forall|k: int| 0 <= k < this.targets@.len() ==> *it.seq()[k] == this.targets@[k]',
                                                             'forall|k: int| 0 <= k < it.index@ ==> vx_v2@[k] == this.targets@[k].0']}},
   proofs=[('after:self.quotient().unwrap();', '''assert(src_lens(this.hypergraph.adjacency@) =~= src_lens(this_in.hypergraph.adjacency@));
            assert(tgt_lens(this.hypergraph.adjacency@) =~= tgt_lens(this_in.hypergraph.adjacency@));''')])
endgroup()

raw(r'''
/// C10: the lax hypergraph `l` has exactly the data of the strict hypergraph `h`: same labels, adjacency entry i = (segment i of
/// h.s, segment i of h.t), nothing pending
pub open spec fn is_lax_of<O, A>(l: Hypergraph<O, A>, h: crate::hypergraph::Hypergraph<O, A>) -> bool {
    let ss = h.s.sources.table@; let ts = h.t.sources.table@;
    &&& l.nodes@ == h.w@ && l.edges@ == h.x@ && l.quotient.0@.len() == 0 && l.quotient.1@.len() == 0
    &&& l.adjacency@.len() == h.x@.len()
    &&& (forall|i: int| 0 <= i < h.x@.len() ==> (#[trigger] l.adjacency@[i]).sources@.len() == ss[i] && l.adjacency@[i].targets@.len() == ts[i])
    &&& (forall|i: int, j: int| 0 <= i < h.x@.len() && 0 <= j < ss[i] ==> l.adjacency@[i].sources@[j].0 == h.s.values.table@[#[trigger] seg_at(ss, i, j)])
    &&& (forall|i: int, j: int| 0 <= i < h.x@.len() && 0 <= j < ts[i] ==> l.adjacency@[i].targets@[j].0 == h.t.values.table@[#[trigger] seg_at(ts, i, j)])
}
''')

group('impl<O, A> Hypergraph<O, A>')
fn(LH, 'from_strict', self_ty='Hypergraph', status='P', props=['C10'],
   rules={'t9': True, 't17': True, 'let_ty': {'adjacency': 'Vec<Hyperedge>'}, 'subst': {'crate::strict::hypergraph::Hypergraph': 'crate::hypergraph::Hypergraph'}},
   requires=['h.wf()', 'h.x@.len() < usize::MAX'],
   ensures=[('C10.from_strict', 'is_lax_of(r, h)'), ('C10.from_strict-wf', 'r.wf()')],
   loops={1: {'invariant': ['hs.wf() && ht.wf()', 'hs.sources.table@.len() == ht.sources.table@.len()',
                            'vx_za1.values == hs.values && vx_zb1.values == ht.values',
                            'vx_za1.pointers@.len() == hs.sources.table@.len() + 1 && vx_zb1.pointers@.len() == ht.sources.table@.len() + 1',
                            'forall|i: int| 0 <= i <= hs.sources.table@.len() ==> vx_za1.pointers@[i] == psum(hs.sources.table@, i)',
                            'forall|i: int| 0 <= i <= ht.sources.table@.len() ==> vx_zb1.pointers@[i] == psum(ht.sources.table@, i)',
                            'ptr_wf(vx_za1.pointers@, hs.values.table@.len() as int, vx_za1.index as int)', 'ptr_wf(vx_zb1.pointers@, ht.values.table@.len() as int, vx_zb1.index as int)',
                            'vx_za1.index == adjacency@.len() && vx_zb1.index == adjacency@.len()',
                            '''forall|i: int| 0 <= i < adjacency@.len() ==> ids((#[trigger] adjacency@[i]).sources@) =~= hs.values.table@.subrange(psum(hs.sources.table@, i), psum(hs.sources.table@, i + 1))
                                && ids(adjacency@[i].targets@) =~= ht.values.table@.subrange(psum(ht.sources.table@, i), psum(ht.sources.table@, i + 1))
                                && ids_ok(adjacency@[i].sources@, hs.values.target as int) && ids_ok(adjacency@[i].targets@, ht.values.target as int)'''],
              'ensures': ['adjacency@.len() == hs.sources.table@.len()'],
              'decreases': 'vx_za1.pointers@.len() - vx_za1.index'},
          2: {'iter': 'it', 'elem_ty': 'NodeId', 'invariant': ['vx_v2@.len() == it.index@', 'it.seq().len() == sources.table@.len()', 'forall|k: int| 0 <= k < sources.table@.len() ==> *it.seq()[k] == sources.table@[k]',
                                                              'forall|k: int| 0 <= k < it.index@ ==> (#[trigger] vx_v2@[k]).0 == sources.table@[k]']},
          3: {'iter': 'it', 'elem_ty': 'NodeId', 'invariant': ['vx_v3@.len() == it.index@', 'it.seq().len() == targets.table@.len()', 'forall|k: int| 0 <= k < targets.table@.len() ==> *it.seq()[k] == targets.table@[k]',
                                                              'forall|k: int| 0 <= k < it.index@ ==> (#[trigger] vx_v3@[k]).0 == targets.table@[k]']}},
   proofs=[G('start', 'let ghost hs = h.s; let ghost ht = h.t;'),
           ('end', '''let ss = hs.sources.table@; let ts = ht.sources.table@; let n = ss.len() as int;
            assert forall|i: int| 0 <= i < n implies (#[trigger] adjacency@[i]).sources@.len() == ss[i] && adjacency@[i].targets@.len() == ts[i]
                    && (forall|j: int| 0 <= j < ss[i] ==> adjacency@[i].sources@[j].0 == hs.values.table@[seg_at(ss, i, j)])
                    && (forall|j: int| 0 <= j < ts[i] ==> adjacency@[i].targets@[j].0 == ht.values.table@[seg_at(ts, i, j)]) by {
                lemma_psum_mono(ss, 0, i); lemma_psum_mono(ss, i + 1, n); lemma_psum_mono(ts, 0, i); lemma_psum_mono(ts, i + 1, n);
                assert(psum(ss, i + 1) == psum(ss, i) + ss[i] && psum(ts, i + 1) == psum(ts, i) + ts[i]);
                let a = ids(adjacency@[i].sources@); let b = hs.values.table@.subrange(psum(ss, i), psum(ss, i + 1));
                assert(a.len() == b.len());
                assert forall|j: int| 0 <= j < ss[i] implies adjacency@[i].sources@[j].0 == hs.values.table@[seg_at(ss, i, j)] by { assert(a[j] == b[j]); }
                let c = ids(adjacency@[i].targets@); let d = ht.values.table@.subrange(psum(ts, i), psum(ts, i + 1));
                assert(c.len() == d.len());
                assert forall|j: int| 0 <= j < ts[i] implies adjacency@[i].targets@[j].0 == ht.values.table@[seg_at(ts, i, j)] by { assert(c[j] == d[j]); }
            }''')])
endgroup()

group('impl<O, A> OpenHypergraph<O, A>')
fn(LO, 'from_strict', self_ty='OpenHypergraph', status='P', props=['C10'],
   rules={'t9': True, 'subst': {'crate::strict::open_hypergraph::OpenHypergraph': 'crate::open_hypergraph::OpenHypergraph'}},
   requires=['f.wf()', 'f.h.x@.len() < usize::MAX'],
   ensures=[('C10.open-from_strict', 'ids(r.sources@) =~= f.s.table@ && ids(r.targets@) =~= f.t.table@ && is_lax_of(r.hypergraph, f.h)'),
            ('C10.open-from_strict-wf', 'r.wf()')],
   loops={1: {'iter': 'it', 'elem_ty': 'NodeId', 'invariant': ['vx_v1@.len() == it.index@', 'forall|k: int| 0 <= k < it.index@ ==> (#[trigger] vx_v1@[k]).0 == f.s.table@[k]']},
          2: {'iter': 'it', 'elem_ty': 'NodeId', 'invariant': ['vx_v2@.len() == it.index@', 'forall|k: int| 0 <= k < it.index@ ==> (#[trigger] vx_v2@[k]).0 == f.t.table@[k]']}})
endgroup()

raw(r'''
/// C10 round trip at the hypergraph level: strict -> lax -> strict returns the same incidence data
pub proof fn lemma_roundtrip_strict<O, A>(h: crate::hypergraph::Hypergraph<O, A>, l: Hypergraph<O, A>, s2: crate::hypergraph::Hypergraph<O, A>)
    requires h.wf(), is_lax_of(l, h), is_strict_of(s2, l)
    ensures s2.s.sources.table@ =~= h.s.sources.table@, s2.t.sources.table@ =~= h.t.sources.table@,
        s2.s.values.table@ =~= h.s.values.table@, s2.t.values.table@ =~= h.t.values.table@,
        s2.w@.len() == h.w@.len() && s2.x@.len() == h.x@.len(),
{
    let ss = h.s.sources.table@; let ts = h.t.sources.table@; let n = h.x@.len() as int;
    let sl = src_lens(l.adjacency@); let tl = tgt_lens(l.adjacency@);
    assert(sl =~= ss && tl =~= ts);
    assert(s2.s.values.table@.len() == h.s.values.table@.len() && s2.t.values.table@.len() == h.t.values.table@.len());
    assert forall|m: int| 0 <= m < h.s.values.table@.len() implies s2.s.values.table@[m] == h.s.values.table@[m] by {
        let (i, j) = lemma_seg_find(ss, m);
        assert(s2.s.values.table@[seg_at(sl, i, j)] == l.adjacency@[i].sources@[j].0);
        assert(l.adjacency@[i].sources@[j].0 == h.s.values.table@[seg_at(ss, i, j)]);
    }
    assert forall|m: int| 0 <= m < h.t.values.table@.len() implies s2.t.values.table@[m] == h.t.values.table@[m] by {
        let (i, j) = lemma_seg_find(ts, m);
        assert(s2.t.values.table@[seg_at(tl, i, j)] == l.adjacency@[i].targets@[j].0);
        assert(l.adjacency@[i].targets@[j].0 == h.t.values.table@[seg_at(ts, i, j)]);
    }
}
''')

raw(r'''
/// C10 round trip at the diagram level: strict -> lax -> strict returns the diagram renumbered by a node bijection, hyperedges in
/// place (the bijection is the coequalizer of NO pairs that `to_strict` computes; on the Vec backend it is the identity, which the
/// bounded module checks)
pub proof fn lemma_roundtrip_open<O: Clone, A: Clone>(f: crate::open_hypergraph::OpenHypergraph<O, A>, l: OpenHypergraph<O, A>, r: crate::open_hypergraph::OpenHypergraph<O, A>) -> (phi: Seq<usize>)
    requires f.wf(), lawful_clone::<O>(), lawful_clone::<A>(),
        ids(l.sources@) =~= f.s.table@, ids(l.targets@) =~= f.t.table@, is_lax_of(l.hypergraph, f.h),
        is_strictification(r, l),
    ensures node_iso(f, r, phi)
{
    let (mid, q) = choose|mid: OpenHypergraph<O, A>, q: FiniteFunction|
        #[trigger] is_quotient_of(l.hypergraph, mid.hypergraph, q)
        && mapped(l.sources@, mid.sources@, q.table@) && mapped(l.targets@, mid.targets@, q.table@)
        && is_strict_of(r.h, mid.hypergraph) && r.s.table@ =~= ids(mid.sources@) && r.t.table@ =~= ids(mid.targets@)
        && (lawful_clone::<O>() ==> r.h.w@ == mid.hypergraph.nodes@) && (lawful_clone::<A>() ==> r.h.x@ == mid.hypergraph.edges@);
    let n = f.h.w@.len() as int; let ne = f.h.x@.len() as int;
    let ss = f.h.s.sources.table@; let ts = f.h.t.sources.table@;
    let phi = q.table@;
    vstd::std_specs::vec::axiom_spec_len(&f.h.w.0.0);
    lemma_coeq_empty(q.table@, q.target as int, ids(l.hypergraph.quotient.0@), ids(l.hypergraph.quotient.1@), n);
    let sl = src_lens(mid.hypergraph.adjacency@); let tl = tgt_lens(mid.hypergraph.adjacency@);
    assert(sl =~= ss && tl =~= ts);
    assert(r.h.s.sources.table@ =~= ss && r.h.t.sources.table@ =~= ts);
    assert(in_bounds(phi, n));
    assert forall|m: int| 0 <= m < f.h.s.values.table@.len() implies (#[trigger] r.h.s.values.table@[m]) == phi[f.h.s.values.table@[m] as int] by {
        let (i, j) = lemma_seg_find(ss, m);
        assert(r.h.s.values.table@[seg_at(sl, i, j)] == mid.hypergraph.adjacency@[i].sources@[j].0);
        assert(mid.hypergraph.adjacency@[i].sources@[j].0 == phi[l.hypergraph.adjacency@[i].sources@[j].0 as int]);
        assert(l.hypergraph.adjacency@[i].sources@[j].0 == f.h.s.values.table@[seg_at(ss, i, j)]);
    }
    assert forall|m: int| 0 <= m < f.h.t.values.table@.len() implies (#[trigger] r.h.t.values.table@[m]) == phi[f.h.t.values.table@[m] as int] by {
        let (i, j) = lemma_seg_find(ts, m);
        assert(r.h.t.values.table@[seg_at(tl, i, j)] == mid.hypergraph.adjacency@[i].targets@[j].0);
        assert(mid.hypergraph.adjacency@[i].targets@[j].0 == phi[l.hypergraph.adjacency@[i].targets@[j].0 as int]);
        assert(l.hypergraph.adjacency@[i].targets@[j].0 == f.h.t.values.table@[seg_at(ts, i, j)]);
    }
    assert forall|i: int| 0 <= i < f.s.table@.len() implies (#[trigger] r.s.table@[i]) == phi[f.s.table@[i] as int] by {
        assert(ids(mid.sources@)[i] == mid.sources@[i].0); assert(ids(l.sources@)[i] == l.sources@[i].0);
    }
    assert forall|i: int| 0 <= i < f.t.table@.len() implies (#[trigger] r.t.table@[i]) == phi[f.t.table@[i] as int] by {
        assert(ids(mid.targets@)[i] == mid.targets@[i].0); assert(ids(l.targets@)[i] == l.targets@[i].0);
    }
    phi
}
''')

raw(r'''
/// C10 round trip the other way: a lax diagram WITHOUT pending unifications -> strict -> lax is the diagram renumbered by a node
/// bijection q: labels carried along q, every reference mapped through q, hyperedges and their labels in place, nothing pending
pub proof fn lemma_roundtrip_lax<O: Clone, A: Clone>(l: OpenHypergraph<O, A>, r: crate::open_hypergraph::OpenHypergraph<O, A>, l2: OpenHypergraph<O, A>) -> (q: Seq<usize>)
    requires l.wf(), l.hypergraph.quotient.0@.len() == 0, lawful_clone::<O>(), lawful_clone::<A>(), l.hypergraph.nodes@.len() <= usize::MAX,
        is_strictification(r, l), r.wf(),
        ids(l2.sources@) =~= r.s.table@, ids(l2.targets@) =~= r.t.table@, is_lax_of(l2.hypergraph, r.h),
    ensures injective(q) && q.len() == l.hypergraph.nodes@.len() && in_bounds(q, l.hypergraph.nodes@.len() as int),
        l2.hypergraph.nodes@.len() == l.hypergraph.nodes@.len(),
        forall|i: int| 0 <= i < l.hypergraph.nodes@.len() ==> l2.hypergraph.nodes@[(#[trigger] q[i]) as int] == l.hypergraph.nodes@[i],
        l2.hypergraph.edges@ == l.hypergraph.edges@,
        l2.hypergraph.adjacency@.len() == l.hypergraph.adjacency@.len(),
        forall|j: int| 0 <= j < l.hypergraph.adjacency@.len() ==> mapped(l.hypergraph.adjacency@[j].sources@, (#[trigger] l2.hypergraph.adjacency@[j]).sources@, q)
            && mapped(l.hypergraph.adjacency@[j].targets@, l2.hypergraph.adjacency@[j].targets@, q),
        mapped(l.sources@, l2.sources@, q) && mapped(l.targets@, l2.targets@, q),
        l2.hypergraph.quotient.0@.len() == 0 && l2.hypergraph.quotient.1@.len() == 0,
{
    let (mid, qf) = choose|mid: OpenHypergraph<O, A>, q: FiniteFunction|
        #[trigger] is_quotient_of(l.hypergraph, mid.hypergraph, q)
        && mapped(l.sources@, mid.sources@, q.table@) && mapped(l.targets@, mid.targets@, q.table@)
        && is_strict_of(r.h, mid.hypergraph) && r.s.table@ =~= ids(mid.sources@) && r.t.table@ =~= ids(mid.targets@)
        && (lawful_clone::<O>() ==> r.h.w@ == mid.hypergraph.nodes@) && (lawful_clone::<A>() ==> r.h.x@ == mid.hypergraph.edges@);
    let n = l.hypergraph.nodes@.len() as int;
    let q = qf.table@;
    lemma_coeq_empty(q, qf.target as int, ids(l.hypergraph.quotient.0@), ids(l.hypergraph.quotient.1@), n);
    let sl = src_lens(mid.hypergraph.adjacency@); let tl = tgt_lens(mid.hypergraph.adjacency@);
    let ss = r.h.s.sources.table@; let ts = r.h.t.sources.table@;
    assert(sl =~= ss && tl =~= ts);
    assert forall|j: int| 0 <= j < l.hypergraph.adjacency@.len() implies mapped(l.hypergraph.adjacency@[j].sources@, (#[trigger] l2.hypergraph.adjacency@[j]).sources@, q)
            && mapped(l.hypergraph.adjacency@[j].targets@, l2.hypergraph.adjacency@[j].targets@, q) by {
        let a = l.hypergraph.adjacency@[j]; let m = mid.hypergraph.adjacency@[j]; let b = l2.hypergraph.adjacency@[j];
        assert(mapped(a.sources@, m.sources@, q) && mapped(a.targets@, m.targets@, q));
        vstd::std_specs::vec::axiom_spec_len(&m.sources); vstd::std_specs::vec::axiom_spec_len(&m.targets);
        assert(sl[j] == m.sources@.len() && tl[j] == m.targets@.len());
        assert forall|k: int| 0 <= k < a.sources@.len() implies (#[trigger] b.sources@[k]).0 == q[a.sources@[k].0 as int] by {
            assert(b.sources@[k].0 == r.h.s.values.table@[seg_at(ss, j, k)]);
            assert(r.h.s.values.table@[seg_at(sl, j, k)] == m.sources@[k].0);
        }
        assert forall|k: int| 0 <= k < a.targets@.len() implies (#[trigger] b.targets@[k]).0 == q[a.targets@[k].0 as int] by {
            assert(b.targets@[k].0 == r.h.t.values.table@[seg_at(ts, j, k)]);
            assert(r.h.t.values.table@[seg_at(tl, j, k)] == m.targets@[k].0);
        }
    }
    assert forall|i: int| 0 <= i < l.sources@.len() implies (#[trigger] l2.sources@[i]).0 == q[l.sources@[i].0 as int] by {
        assert(ids(l2.sources@)[i] == r.s.table@[i]); assert(ids(mid.sources@)[i] == mid.sources@[i].0);
    }
    assert forall|i: int| 0 <= i < l.targets@.len() implies (#[trigger] l2.targets@[i]).0 == q[l.targets@[i].0 as int] by {
        assert(ids(l2.targets@)[i] == r.t.table@[i]); assert(ids(mid.targets@)[i] == mid.targets@[i].0);
    }
    assert(ids(l2.sources@).len() == l2.sources@.len() && ids(l2.targets@).len() == l2.targets@.len());
    assert(ids(mid.sources@).len() == mid.sources@.len() && ids(mid.targets@).len() == mid.targets@.len());
    q
}
''')

# ---------------------------------------------------------------------------------------------
# C11: delete_edges removes exactly the named hyperedges (duplicates allowed), keeps the order of the survivors, touches
# nothing else.  (rule T18: full-range drain; T8: enumerate; zip of two Vec IntoIter)
# ---------------------------------------------------------------------------------------------
raw(r'''
/// the first n elements of s that are not marked, in order
pub open spec fn kept<T>(s: Seq<T>, rm: Seq<bool>, n: int) -> Seq<T>
    decreases n
{
    if n <= 0 { Seq::empty() } else if rm[n - 1] { kept(s, rm, n - 1) } else { kept(s, rm, n - 1).push(s[n - 1]) }
}
/// edge i is named by (the first m entries of) the id list
pub open spec fn named_upto(ids: Seq<EdgeId>, m: int, i: int) -> bool { exists|k: int| 0 <= k < m && #[trigger] ids[k].0 == i }
pub open spec fn named(ids: Seq<EdgeId>, i: int) -> bool { named_upto(ids, ids.len() as int, i) }
/// number of marked positions among the first n
pub open spec fn cnt(rm: Seq<bool>, n: int) -> int
    decreases n
{
    if n <= 0 { 0 } else { cnt(rm, n - 1) + if rm[n - 1] { 1int } else { 0int } }
}
pub proof fn lemma_cnt_le(rm: Seq<bool>, n: int)
    requires 0 <= n <= rm.len()
    ensures 0 <= cnt(rm, n) <= n
    decreases n
{
    if n > 0 { lemma_cnt_le(rm, n - 1); }
}
pub proof fn lemma_cnt_set(rm: Seq<bool>, i: int, n: int)
    requires 0 <= i < rm.len(), !rm[i], 0 <= n <= rm.len()
    ensures cnt(rm.update(i, true), n) == cnt(rm, n) + if i < n { 1int } else { 0int }
    decreases n
{
    if n > 0 { lemma_cnt_set(rm, i, n - 1); }
}
pub proof fn lemma_cnt_zero(rm: Seq<bool>, n: int)
    requires 0 <= n <= rm.len(), forall|i: int| 0 <= i < n ==> !rm[i]
    ensures cnt(rm, n) == 0
    decreases n
{
    if n > 0 { lemma_cnt_zero(rm, n - 1); }
}
pub proof fn lemma_cnt_pos(rm: Seq<bool>, n: int, i: int)
    requires 0 <= i < n <= rm.len(), rm[i]
    ensures cnt(rm, n) >= 1
    decreases n
{
    lemma_cnt_le(rm, n - 1);
    if i < n - 1 { lemma_cnt_pos(rm, n - 1, i); }
}
pub proof fn lemma_kept_none<T>(s: Seq<T>, rm: Seq<bool>, n: int)
    requires 0 <= n <= s.len(), n <= rm.len(), forall|i: int| 0 <= i < n ==> !rm[i]
    ensures kept(s, rm, n) =~= s.subrange(0, n)
    decreases n
{
    if n > 0 { lemma_kept_none(s, rm, n - 1); }
}
''')

group('impl<O, A> Hypergraph<O, A>')
fn(LH, 'delete_edges', self_ty='Hypergraph', status='P', props=['C11'], rules={'t18': True, 'let_ty': {'edges': 'Vec<A>', 'adjacency': 'Vec<Hyperedge>'}},
   requires=['old(self).edges@.len() == old(self).adjacency@.len()', 'forall|k: int| 0 <= k < edge_ids@.len() ==> (#[trigger] edge_ids@[k]).0 < old(self).edges@.len()'],
   ensures=[('C11.delete_edges', '''exists|rm: Seq<bool>| rm.len() == old(self).edges@.len() && (forall|i: int| 0 <= i < rm.len() ==> (#[trigger] rm[i] <==> named(edge_ids@, i)))
                && final(self).edges@ == kept(old(self).edges@, rm, rm.len() as int) && final(self).adjacency@ == kept(old(self).adjacency@, rm, rm.len() as int)'''),
            ('C11.delete_edges-frame', 'final(self).nodes == old(self).nodes && final(self).quotient == old(self).quotient')],
   loops={1: {'iter': 'it', 'invariant': ['edge_count == old(self).edges@.len()', 'remove@.len() == edge_count', 'self.edges == old(self).edges && self.adjacency == old(self).adjacency && self.nodes == old(self).nodes && self.quotient == old(self).quotient',
                                         'it.seq().len() == edge_ids@.len()', 'forall|k: int| 0 <= k < edge_ids@.len() ==> *it.seq()[k] == edge_ids@[k]',
                                         'forall|k: int| 0 <= k < edge_ids@.len() ==> (#[trigger] edge_ids@[k]).0 < edge_count',
                                         'forall|i: int| 0 <= i < edge_count ==> (#[trigger] remove@[i] <==> named_upto(edge_ids@, it.index@ as int, i))',
                                         'remove_count == cnt(remove@, edge_count as int)', 'any_removed <==> remove_count > 0']},
          2: {'iter': 'it', 'invariant': ['rm.len() == e0.len() && e0.len() == a0.len()', 'remove@ == rm', 'self.nodes == old(self).nodes && self.quotient == old(self).quotient',
                                         'it.seq().len() == e0.len()', 'forall|k: int| 0 <= k < e0.len() ==> (#[trigger] it.seq()[k]).0 == e0[k]', 'forall|k: int| 0 <= k < e0.len() ==> (#[trigger] it.seq()[k]).1 == a0[k]',
                                         'vx_i2 == it.index@', 'edges@ == kept(e0, rm, it.index@ as int)', 'adjacency@ == kept(a0, rm, it.index@ as int)']}},
   proofs=[('before:if edge_ids.is_empty()', '''let rm0 = Seq::new(edge_count as nat, |i: int| false);
            if edge_ids@.len() == 0 {
                lemma_kept_none(self.edges@, rm0, edge_count as int); lemma_kept_none(self.adjacency@, rm0, edge_count as int);
                assert(self.edges@ =~= kept(self.edges@, rm0, rm0.len() as int) && self.adjacency@ =~= kept(self.adjacency@, rm0, rm0.len() as int));
                assert forall|i: int| 0 <= i < rm0.len() implies (#[trigger] rm0[i] <==> named(edge_ids@, i)) by { }
            }'''),
           ('before:for edge_id in edge_ids', '''lemma_cnt_zero(remove@, edge_count as int);'''),
           ('before:if !remove[edge_id.0]', '''assert(*edge_id == edge_ids@[it.index@ as int]);
            lemma_cnt_le(remove@, edge_count as int);
            if !remove@[edge_id.0 as int] { lemma_cnt_set(remove@, edge_id.0 as int, edge_count as int); lemma_cnt_le(remove@.update(edge_id.0 as int, true), edge_count as int); } else { lemma_cnt_pos(remove@, edge_count as int, edge_id.0 as int); }
            let idx = it.index@ as int; let ids = edge_ids@; let e = edge_id.0 as int;
            assert forall|i: int| 0 <= i < edge_count implies (named_upto(ids, idx + 1, i) <==> (named_upto(ids, idx, i) || i == e)) by {
                if named_upto(ids, idx + 1, i) { let k = choose|k: int| 0 <= k < idx + 1 && #[trigger] ids[k].0 == i; if k < idx { assert(named_upto(ids, idx, i)); } }
                if named_upto(ids, idx, i) { let k = choose|k: int| 0 <= k < idx && #[trigger] ids[k].0 == i; assert(0 <= k < idx + 1 && ids[k].0 == i); }
                if i == e { assert(ids[idx].0 == i); }
            }'''),
           ('before:if !any_removed', '''let rm = remove@; lemma_cnt_le(rm, edge_count as int);
            if !any_removed {
                assert forall|i: int| 0 <= i < edge_count implies !rm[i] by { if rm[i] { lemma_cnt_pos(rm, edge_count as int, i); } }
                lemma_kept_none(self.edges@, rm, edge_count as int); lemma_kept_none(self.adjacency@, rm, edge_count as int);
                assert(self.edges@ =~= kept(self.edges@, rm, rm.len() as int) && self.adjacency@ =~= kept(self.adjacency@, rm, rm.len() as int));
            }'''),
           G('before:let mut edges = Vec::with_capacity', 'let ghost rm = remove@; let ghost e0 = self.edges@; let ghost a0 = self.adjacency@;'),
           ('before:if !remove[i]', '''assert(it.seq()[it.index@ as int].0 == e0[it.index@ as int]);''')])
endgroup()

group('impl<O, A> OpenHypergraph<O, A>')
fn(LO, 'delete_edges', self_ty='OpenHypergraph', status='P', props=['C11'],
   requires=['old(self).hypergraph.edges@.len() == old(self).hypergraph.adjacency@.len()', 'forall|k: int| 0 <= k < edge_ids@.len() ==> (#[trigger] edge_ids@[k]).0 < old(self).hypergraph.edges@.len()'],
   ensures=[('C11.open-delete_edges', '''exists|rm: Seq<bool>| rm.len() == old(self).hypergraph.edges@.len() && (forall|i: int| 0 <= i < rm.len() ==> (#[trigger] rm[i] <==> named(edge_ids@, i)))
                && final(self).hypergraph.edges@ == kept(old(self).hypergraph.edges@, rm, rm.len() as int) && final(self).hypergraph.adjacency@ == kept(old(self).hypergraph.adjacency@, rm, rm.len() as int)'''),
            ('C11.open-delete_edges-frame', 'final(self).hypergraph.nodes == old(self).hypergraph.nodes && final(self).hypergraph.quotient == old(self).hypergraph.quotient && final(self).sources == old(self).sources && final(self).targets == old(self).targets')])
endgroup()

raw(r'''
// ---------------------------------------------------------------------------------------------
// C11: delete_nodes_witness against the list model
// ---------------------------------------------------------------------------------------------
pub open spec fn named_node_upto(ids: Seq<NodeId>, m: int, i: int) -> bool { exists|k: int| 0 <= k < m && #[trigger] ids[k].0 == i }
/// new number of a surviving node: the number of survivors before it
pub open spec fn rank(rm: Seq<bool>, i: int) -> int { i - cnt(rm, i) }
/// the reported renumbering is the right one on the first n positions
pub open spec fn idx_ok(rm: Seq<bool>, ni: Seq<Option<usize>>, n: int) -> bool {
    forall|i: int| 0 <= i < n ==> (#[trigger] ni[i]) == (if rm[i] { None::<usize> } else { Some(rank(rm, i) as usize) })
}
/// a reference list with the references to deleted nodes dropped and the others renumbered, order kept
pub open spec fn renum(v: Seq<NodeId>, ni: Seq<Option<usize>>, n: int) -> Seq<NodeId>
    decreases n
{
    if n <= 0 { Seq::empty() } else { match ni[v[n - 1].0 as int] { Some(y) => renum(v, ni, n - 1).push(NodeId(y)), None => renum(v, ni, n - 1) } }
}
/// pending unifications: a pair survives iff both ends do
pub open spec fn renum_l(l: Seq<NodeId>, r: Seq<NodeId>, ni: Seq<Option<usize>>, n: int) -> Seq<NodeId>
    decreases n
{
    if n <= 0 { Seq::empty() } else { match (ni[l[n - 1].0 as int], ni[r[n - 1].0 as int]) { (Some(a), Some(b)) => renum_l(l, r, ni, n - 1).push(NodeId(a)), _ => renum_l(l, r, ni, n - 1) } }
}
pub open spec fn renum_r(l: Seq<NodeId>, r: Seq<NodeId>, ni: Seq<Option<usize>>, n: int) -> Seq<NodeId>
    decreases n
{
    if n <= 0 { Seq::empty() } else { match (ni[l[n - 1].0 as int], ni[r[n - 1].0 as int]) { (Some(a), Some(b)) => renum_r(l, r, ni, n - 1).push(NodeId(b)), _ => renum_r(l, r, ni, n - 1) } }
}
/// the identity renumbering changes nothing
pub open spec fn ni_id(ni: Seq<Option<usize>>) -> bool { forall|i: int| 0 <= i < ni.len() ==> (#[trigger] ni[i]) == Some(i as usize) }
pub proof fn lemma_renum_id(v: Seq<NodeId>, ni: Seq<Option<usize>>, n: int)
    requires ni_id(ni), 0 <= n <= v.len(), ids_ok(v, ni.len() as int)
    ensures renum(v, ni, n) =~= v.subrange(0, n)
    decreases n
{
    if n > 0 { lemma_renum_id(v, ni, n - 1); assert(ni[v[n - 1].0 as int] == Some(v[n - 1].0)); }
}
pub proof fn lemma_renum_lr_id(l: Seq<NodeId>, r: Seq<NodeId>, ni: Seq<Option<usize>>, n: int)
    requires ni_id(ni), 0 <= n <= l.len(), l.len() == r.len(), ids_ok(l, ni.len() as int), ids_ok(r, ni.len() as int)
    ensures renum_l(l, r, ni, n) =~= l.subrange(0, n), renum_r(l, r, ni, n) =~= r.subrange(0, n)
    decreases n
{
    if n > 0 { lemma_renum_lr_id(l, r, ni, n - 1); assert(ni[l[n - 1].0 as int] == Some(l[n - 1].0)); assert(ni[r[n - 1].0 as int] == Some(r[n - 1].0)); }
}

pub proof fn lemma_kept_len<T>(s: Seq<T>, rm: Seq<bool>, n: int)
    requires 0 <= n <= s.len(), n <= rm.len()
    ensures kept(s, rm, n).len() == n - cnt(rm, n)
    decreases n
{
    if n > 0 { lemma_kept_len(s, rm, n - 1); }
}
pub proof fn lemma_cnt_mono(rm: Seq<bool>, i: int, n: int)
    requires 0 <= i <= n <= rm.len()
    ensures cnt(rm, i) <= cnt(rm, n), n - cnt(rm, n) >= i - cnt(rm, i), (i < n && !rm[i]) ==> n - cnt(rm, n) >= i - cnt(rm, i) + 1
    decreases n - i
{
    if i < n { lemma_cnt_mono(rm, i, n - 1); if i < n - 1 { } }
}
/// every renumbered reference names a surviving node
pub proof fn lemma_renum_ok(v: Seq<NodeId>, rm: Seq<bool>, ni: Seq<Option<usize>>, n0: int, m: int)
    requires 0 <= m <= v.len(), ids_ok(v, n0), rm.len() == n0, ni.len() == n0, idx_ok(rm, ni, n0), n0 <= usize::MAX
    ensures ids_ok(renum(v, ni, m), n0 - cnt(rm, n0))
    decreases m
{
    if m > 0 {
        lemma_renum_ok(v, rm, ni, n0, m - 1);
        let x = v[m - 1].0 as int;
        if !rm[x] { lemma_cnt_mono(rm, x, n0); lemma_cnt_le(rm, x); }
    }
}
pub proof fn lemma_renum_lr_ok(l: Seq<NodeId>, r: Seq<NodeId>, rm: Seq<bool>, ni: Seq<Option<usize>>, n0: int, m: int)
    requires 0 <= m <= l.len(), l.len() == r.len(), ids_ok(l, n0), ids_ok(r, n0), rm.len() == n0, ni.len() == n0, idx_ok(rm, ni, n0), n0 <= usize::MAX
    ensures renum_l(l, r, ni, m).len() == renum_r(l, r, ni, m).len(), ids_ok(renum_l(l, r, ni, m), n0 - cnt(rm, n0)), ids_ok(renum_r(l, r, ni, m), n0 - cnt(rm, n0))
    decreases m
{
    if m > 0 {
        lemma_renum_lr_ok(l, r, rm, ni, n0, m - 1);
        let x = l[m - 1].0 as int; let y = r[m - 1].0 as int;
        if !rm[x] { lemma_cnt_mono(rm, x, n0); lemma_cnt_le(rm, x); }
        if !rm[y] { lemma_cnt_mono(rm, y, n0); lemma_cnt_le(rm, y); }
    }
}
/// deleting nodes of a well-formed lax hypergraph leaves a well-formed one
pub proof fn lemma_node_deletion_wf<O, A>(old: Hypergraph<O, A>, new: Hypergraph<O, A>, rm: Seq<bool>, ni: Seq<Option<usize>>)
    requires old.wf(), is_node_deletion(old, new, rm, ni), old.nodes@.len() <= usize::MAX
    ensures new.wf()
{
    let n0 = old.nodes@.len() as int;
    lemma_kept_len(old.nodes@, rm, n0);
    assert forall|j: int| 0 <= j < new.adjacency@.len() implies ids_ok((#[trigger] new.adjacency@[j]).sources@, new.nodes@.len() as int) && ids_ok(new.adjacency@[j].targets@, new.nodes@.len() as int) by {
        lemma_renum_ok(old.adjacency@[j].sources@, rm, ni, n0, old.adjacency@[j].sources@.len() as int);
        lemma_renum_ok(old.adjacency@[j].targets@, rm, ni, n0, old.adjacency@[j].targets@.len() as int);
    }
    lemma_renum_lr_ok(old.quotient.0@, old.quotient.1@, rm, ni, n0, old.quotient.0@.len() as int);
}

/// C11: `new` is `old` with the nodes marked by rm deleted, `ni` the reported renumbering
pub open spec fn is_node_deletion<O, A>(old: Hypergraph<O, A>, new: Hypergraph<O, A>, rm: Seq<bool>, ni: Seq<Option<usize>>) -> bool {
    let n = old.nodes@.len() as int;
    &&& rm.len() == n && ni.len() == n && idx_ok(rm, ni, n)
    &&& new.nodes@ == kept(old.nodes@, rm, n)
    &&& new.edges == old.edges
    &&& new.adjacency@.len() == old.adjacency@.len()
    &&& (forall|j: int| 0 <= j < old.adjacency@.len() ==> (#[trigger] new.adjacency@[j]).sources@ == renum(old.adjacency@[j].sources@, ni, old.adjacency@[j].sources@.len() as int)
            && new.adjacency@[j].targets@ == renum(old.adjacency@[j].targets@, ni, old.adjacency@[j].targets@.len() as int))
    &&& new.quotient.0@ == renum_l(old.quotient.0@, old.quotient.1@, ni, old.quotient.0@.len() as int)
    &&& new.quotient.1@ == renum_r(old.quotient.0@, old.quotient.1@, ni, old.quotient.0@.len() as int)
}
''')

raw(r'''
pub open spec fn del_post<O, A>(old: Hypergraph<O, A>, new: Hypergraph<O, A>, ids: Seq<NodeId>, ni: Seq<Option<usize>>) -> bool {
    exists|rm: Seq<bool>| rm.len() == old.nodes@.len()
        && (forall|i: int| 0 <= i < rm.len() ==> (#[trigger] rm[i] <==> named_node_upto(ids, ids.len() as int, i)))
        && #[trigger] is_node_deletion(old, new, rm, ni)
}

/// nothing marked: the identity renumbering is a correct report and nothing changes
pub proof fn lemma_delete_nothing<O, A>(h: Hypergraph<O, A>, ids: Seq<NodeId>, rm: Seq<bool>, ni: Seq<Option<usize>>)
    requires h.wf(), rm.len() == h.nodes@.len(), forall|i: int| 0 <= i < rm.len() ==> !rm[i] && !named_node_upto(ids, ids.len() as int, i),
        ni.len() == h.nodes@.len(), ni_id(ni), h.nodes@.len() <= usize::MAX,
    ensures del_post(h, h, ids, ni)
{
    let n = h.nodes@.len() as int;
    assert forall|i: int| 0 <= i < n implies (#[trigger] ni[i]) == (if rm[i] { None::<usize> } else { Some(rank(rm, i) as usize) }) by { lemma_cnt_zero(rm, i); }
    lemma_kept_none(h.nodes@, rm, n);
    assert(h.nodes@ =~= kept(h.nodes@, rm, n));
    assert forall|j: int| 0 <= j < h.adjacency@.len() implies (#[trigger] h.adjacency@[j]).sources@ == renum(h.adjacency@[j].sources@, ni, h.adjacency@[j].sources@.len() as int)
            && h.adjacency@[j].targets@ == renum(h.adjacency@[j].targets@, ni, h.adjacency@[j].targets@.len() as int) by {
        lemma_renum_id(h.adjacency@[j].sources@, ni, h.adjacency@[j].sources@.len() as int);
        lemma_renum_id(h.adjacency@[j].targets@, ni, h.adjacency@[j].targets@.len() as int);
        assert(h.adjacency@[j].sources@ =~= renum(h.adjacency@[j].sources@, ni, h.adjacency@[j].sources@.len() as int));
        assert(h.adjacency@[j].targets@ =~= renum(h.adjacency@[j].targets@, ni, h.adjacency@[j].targets@.len() as int));
    }
    lemma_renum_lr_id(h.quotient.0@, h.quotient.1@, ni, h.quotient.0@.len() as int);
    assert(h.quotient.0@ =~= renum_l(h.quotient.0@, h.quotient.1@, ni, h.quotient.0@.len() as int));
    assert(h.quotient.1@ =~= renum_r(h.quotient.0@, h.quotient.1@, ni, h.quotient.0@.len() as int));
    assert(is_node_deletion(h, h, rm, ni));
}
''')

group('impl<O, A> Hypergraph<O, A>')
fn(LH, 'delete_nodes_witness', self_ty='Hypergraph', status='P', props=['C11'],
   rules={'t9': True, 't15': True, 't18': True, 't19': True,
          'let_ty': {'nodes': 'Vec<O>', 'new_index': 'Vec<Option<usize>>', 'quotient_left': 'Vec<NodeId>', 'quotient_right': 'Vec<NodeId>'}},
   requires=['old(self).wf()', 'forall|k: int| 0 <= k < node_ids@.len() ==> (#[trigger] node_ids@[k]).0 < old(self).nodes@.len()'],
   ensures=[('C11.delete_nodes', 'del_post(*old(self), *final(self), node_ids@, r@)')],
   loops={1: {'iter': 'it', 'elem_ty': 'Option<usize>', 'invariant': ['vx_v1@.len() == it.index@', 'forall|i: int| 0 <= i < it.index@ ==> (#[trigger] vx_v1@[i]) == Some(i as usize)']},
          2: {'iter': 'it', 'invariant': ['node_count == old(self).nodes@.len()', 'remove@.len() == node_count', '*self == *old(self)',
                                         'it.seq().len() == node_ids@.len()', 'forall|k: int| 0 <= k < node_ids@.len() ==> *it.seq()[k] == node_ids@[k]',
                                         'forall|k: int| 0 <= k < node_ids@.len() ==> (#[trigger] node_ids@[k]).0 < node_count',
                                         'forall|i: int| 0 <= i < node_count ==> (#[trigger] remove@[i] <==> named_node_upto(node_ids@, it.index@ as int, i))',
                                         'remove_count == cnt(remove@, node_count as int)', 'any_removed <==> remove_count > 0']},
          3: {'iter': 'it', 'elem_ty': 'Option<usize>', 'invariant': ['vx_v3@.len() == it.index@', 'forall|i: int| 0 <= i < it.index@ ==> (#[trigger] vx_v3@[i]) == Some(i as usize)']},
          4: {'iter': 'it', 'invariant': ['rm.len() == n0s.len()', 'remove@ == rm', 'new_index@.len() == n0s.len()', 'n0s.len() <= usize::MAX',
                                         'it.seq().len() == n0s.len()', 'forall|k: int| 0 <= k < n0s.len() ==> (#[trigger] it.seq()[k]) == n0s[k]',
                                         'vx_i4 == it.index@', 'nodes@ == kept(n0s, rm, it.index@ as int)', 'nodes@.len() == rank(rm, it.index@ as int)',
                                         'idx_ok(rm, new_index@, it.index@ as int)', 'forall|i: int| it.index@ <= i < n0s.len() ==> (#[trigger] new_index@[i]) == None::<usize>',
                                         'self.edges == old(self).edges && self.adjacency == old(self).adjacency && self.quotient == old(self).quotient']},
          5: {'invariant': ['self.adjacency@.len() == adj0.len()', '0 <= vx_j5 <= adj0.len()', 'self.nodes@ == nodes1', 'self.edges == old(self).edges', 'self.quotient == old(self).quotient',
                            'new_index@ == ni', 'ni.len() == n0',
                            'forall|j: int| 0 <= j < vx_j5 ==> (#[trigger] self.adjacency@[j]).sources@ == renum(adj0[j].sources@, ni, adj0[j].sources@.len() as int) && self.adjacency@[j].targets@ == renum(adj0[j].targets@, ni, adj0[j].targets@.len() as int)',
                            'forall|j: int| vx_j5 <= j < adj0.len() ==> (#[trigger] self.adjacency@[j]) == adj0[j]',
                            'forall|j: int| 0 <= j < adj0.len() ==> ids_ok((#[trigger] adj0[j]).sources@, n0) && ids_ok(adj0[j].targets@, n0)'],
              'decreases': 'adj0.len() - vx_j5'},
          6: {'iter': 'it', 'elem_ty': 'NodeId', 'invariant': ['new_index@ == ni', 'ni.len() == n0', 'ids_ok(src0, n0)', 'it.seq().len() == src0.len()', 'forall|k: int| 0 <= k < src0.len() ==> *it.seq()[k] == src0[k]',
                                                              'vx_v6@ == renum(src0, ni, it.index@ as int)'], 'body_pre': 'proof { assert(*node == src0[it.index@ as int]); }'},
          7: {'iter': 'it', 'elem_ty': 'NodeId', 'invariant': ['new_index@ == ni', 'ni.len() == n0', 'ids_ok(tgt0, n0)', 'it.seq().len() == tgt0.len()', 'forall|k: int| 0 <= k < tgt0.len() ==> *it.seq()[k] == tgt0[k]',
                                                              'vx_v7@ == renum(tgt0, ni, it.index@ as int)'], 'body_pre': 'proof { assert(*node == tgt0[it.index@ as int]); }'},
          8: {'iter': 'it', 'invariant': ['new_index@ == ni', 'ni.len() == n0', 'ids_ok(q0, n0) && ids_ok(q1, n0)', 'q0.len() == q1.len()', 'it.seq().len() == q0.len()',
                                         'forall|k: int| 0 <= k < q0.len() ==> *(#[trigger] it.seq()[k]).0 == q0[k]', 'forall|k: int| 0 <= k < q0.len() ==> *(#[trigger] it.seq()[k]).1 == q1[k]',
                                         'quotient_left@ == renum_l(q0, q1, ni, it.index@ as int)', 'quotient_right@ == renum_r(q0, q1, ni, it.index@ as int)']}},
   proofs=[('before:if node_ids.is_empty()', '''let rm0 = Seq::new(self.nodes@.len(), |i: int| false);
            vstd::std_specs::vec::axiom_spec_len(&self.nodes);
            if node_ids@.len() == 0 {
                assert forall|ni: Seq<Option<usize>>| ni.len() == self.nodes@.len() && ni_id(ni) implies #[trigger] del_post(*self, *self, node_ids@, ni) by {
                    lemma_delete_nothing(*self, node_ids@, rm0, ni);
                }
            }'''),
           ('before:for node_id in node_ids', '''lemma_cnt_zero(remove@, node_count as int);'''),
           ('before:if !remove[node_id.0]', '''assert(*node_id == node_ids@[it.index@ as int]);
            lemma_cnt_le(remove@, node_count as int);
            if !remove@[node_id.0 as int] { lemma_cnt_set(remove@, node_id.0 as int, node_count as int); lemma_cnt_le(remove@.update(node_id.0 as int, true), node_count as int); } else { lemma_cnt_pos(remove@, node_count as int, node_id.0 as int); }
            let idx = it.index@ as int; let ids = node_ids@; let e = node_id.0 as int;
            assert forall|i: int| 0 <= i < node_count implies (named_node_upto(ids, idx + 1, i) <==> (named_node_upto(ids, idx, i) || i == e)) by {
                if named_node_upto(ids, idx + 1, i) { let k = choose|k: int| 0 <= k < idx + 1 && #[trigger] ids[k].0 == i; if k < idx { assert(named_node_upto(ids, idx, i)); } }
                if named_node_upto(ids, idx, i) { let k = choose|k: int| 0 <= k < idx && #[trigger] ids[k].0 == i; assert(0 <= k < idx + 1 && ids[k].0 == i); }
                if i == e { assert(ids[idx].0 == i); }
            }'''),
           ('before:if !any_removed', '''let rmx = remove@; lemma_cnt_le(rmx, node_count as int);
            if !any_removed {
                assert forall|i: int| 0 <= i < node_count implies !rmx[i] by { if rmx[i] { lemma_cnt_pos(rmx, node_count as int, i); } }
                assert forall|ni: Seq<Option<usize>>| ni.len() == self.nodes@.len() && ni_id(ni) implies #[trigger] del_post(*self, *self, node_ids@, ni) by {
                    lemma_delete_nothing(*self, node_ids@, rmx, ni);
                }
            }'''),
           G('before:let mut new_index = vec![None; node_count];', 'let ghost rm = remove@; let ghost n0s = self.nodes@; let ghost n0 = self.nodes@.len() as int; let ghost adj0 = self.adjacency@; let ghost q0 = self.quotient.0@; let ghost q1 = self.quotient.1@;'),
           ('before:if !remove[i]', '''assert(it.seq()[it.index@ as int] == n0s[it.index@ as int]); lemma_cnt_le(rm, it.index@ as int);'''),
           G('before:for edge in &mut self.adjacency', 'let ghost ni = new_index@; let ghost nodes1 = self.nodes@;'),
           G('before:edge.sources = edge', 'let ghost src0 = edge.sources@; let ghost tgt0 = edge.targets@; proof { assert(ids_ok(adj0[vx_j5 as int].sources@, n0) && ids_ok(adj0[vx_j5 as int].targets@, n0)); }'),
           ('end', '''assert(is_node_deletion(*old(self), *self, rm, ni));''')])
endgroup()

group('impl<O, A> Hypergraph<O, A>')
fn(LH, 'delete_nodes', self_ty='Hypergraph', status='P', props=['C11'],
   requires=['old(self).wf()', 'forall|k: int| 0 <= k < node_ids@.len() ==> (#[trigger] node_ids@[k]).0 < old(self).nodes@.len()'],
   ensures=[('C11.delete_nodes-unit', 'exists|ni: Seq<Option<usize>>| #[trigger] del_post(*old(self), *final(self), node_ids@, ni)')])
endgroup()

group('impl<O, A> OpenHypergraph<O, A>')
fn(LO, 'delete_nodes', self_ty='OpenHypergraph', status='P', props=['C11'], rules={'t19': True},
   requires=['old(self).wf()', 'forall|k: int| 0 <= k < node_ids@.len() ==> (#[trigger] node_ids@[k]).0 < old(self).hypergraph.nodes@.len()'],
   ensures=[('C11.open-delete_nodes', '''exists|ni: Seq<Option<usize>>| #[trigger] del_post(old(self).hypergraph, final(self).hypergraph, node_ids@, ni)
                && final(self).sources@ == renum(old(self).sources@, ni, old(self).sources@.len() as int)
                && final(self).targets@ == renum(old(self).targets@, ni, old(self).targets@.len() as int)''')],
   loops={1: {'iter': 'it', 'elem_ty': 'NodeId', 'invariant': ['new_index@.len() == n0', 'ids_ok(src0, n0)', 'it.seq().len() == src0.len()', 'forall|k: int| 0 <= k < src0.len() ==> *it.seq()[k] == src0[k]',
                                                              'vx_v1@ == renum(src0, new_index@, it.index@ as int)'], 'body_pre': 'proof { assert(*n == src0[it.index@ as int]); }'},
          2: {'iter': 'it', 'elem_ty': 'NodeId', 'invariant': ['new_index@.len() == n0', 'ids_ok(tgt0, n0)', 'it.seq().len() == tgt0.len()', 'forall|k: int| 0 <= k < tgt0.len() ==> *it.seq()[k] == tgt0[k]',
                                                              'vx_v2@ == renum(tgt0, new_index@, it.index@ as int)'], 'body_pre': 'proof { assert(*n == tgt0[it.index@ as int]); }'}},
   proofs=[G('start', 'let ghost n0 = self.hypergraph.nodes@.len() as int; let ghost src0 = self.sources@; let ghost tgt0 = self.targets@;'),
           ('after:let new_index = self.hypergraph.delete_nodes_witness(node_ids);', '''let rm = choose|rm: Seq<bool>| rm.len() == old(self).hypergraph.nodes@.len()
                && (forall|i: int| 0 <= i < rm.len() ==> (#[trigger] rm[i] <==> named_node_upto(node_ids@, node_ids@.len() as int, i)))
                && #[trigger] is_node_deletion(old(self).hypergraph, self.hypergraph, rm, new_index@);
            assert(new_index@.len() == n0);'''),
           G('after:let new_index = self.hypergraph.delete_nodes_witness(node_ids);', 'let ghost hg1 = self.hypergraph;'),
           ('close', '''assert(self.hypergraph == hg1);
            assert(del_post(old(self).hypergraph, self.hypergraph, node_ids@, new_index@));''')])
endgroup()

group('impl<O, A> Hypergraph<O, A>')
fn(LH, 'with_nodes', self_ty='Hypergraph', status='P', props=['C11'],
   requires=['f.requires((self.nodes,))'],
   ensures=[('C11.with_nodes', '''exists|nn: Vec<T>| f.ensures((self.nodes,), nn) && (r.is_some() <==> nn@.len() == self.nodes@.len())
                && (r.is_some() ==> r.unwrap().nodes == nn && r.unwrap().edges == self.edges && r.unwrap().adjacency == self.adjacency && r.unwrap().quotient == self.quotient)''')])
fn(LH, 'with_edges', self_ty='Hypergraph', status='P', props=['C11'],
   requires=['f.requires((self.edges,))'],
   ensures=[('C11.with_edges', '''exists|ne: Vec<T>| f.ensures((self.edges,), ne) && (r.is_some() <==> ne@.len() == self.edges@.len())
                && (r.is_some() ==> r.unwrap().edges == ne && r.unwrap().nodes == self.nodes && r.unwrap().adjacency == self.adjacency && r.unwrap().quotient == self.quotient)''')])
endgroup()

group('impl<O, A> Hypergraph<O, A>')
fn(LH, 'map_nodes', self_ty='Hypergraph', status='P', props=['C11'], rules={'t9': True},
   requires=['forall|o: O| #[trigger] f.requires((o,))'],
   ensures=[('C11.map_nodes', '''r.nodes@.len() == self.nodes@.len() && (forall|i: int| 0 <= i < self.nodes@.len() ==> f.ensures((self.nodes@[i],), #[trigger] r.nodes@[i]))
                && r.edges == self.edges && r.adjacency == self.adjacency && r.quotient == self.quotient''')],
   closures={1: {'header': '|nodes: Vec<O>| -> (rr: Vec<T>)', 'spec': 'requires forall|o: O| #[trigger] f.requires((o,)) ensures rr@.len() == nodes@.len() && (forall|i: int| 0 <= i < nodes@.len() ==> f.ensures((nodes@[i],), #[trigger] rr@[i])),'}},
   loops={1: {'iter': 'it', 'elem_ty': 'T', 'invariant': ['forall|o: O| #[trigger] f.requires((o,))', 'vx_v1@.len() == it.index@', 'it.seq() == nodes@',
                                                         'forall|i: int| 0 <= i < it.index@ ==> f.ensures((nodes@[i],), #[trigger] vx_v1@[i])']}})
endgroup()

group('impl<O, A> Hypergraph<O, A>')
fn(LH, 'map_edges', self_ty='Hypergraph', status='P', props=['C11'], rules={'t9': True},
   requires=['forall|o: A| #[trigger] f.requires((o,))'],
   ensures=[('C11.map_edges', '''r.edges@.len() == self.edges@.len() && (forall|i: int| 0 <= i < self.edges@.len() ==> f.ensures((self.edges@[i],), #[trigger] r.edges@[i]))
                && r.nodes == self.nodes && r.adjacency == self.adjacency && r.quotient == self.quotient''')],
   closures={1: {'header': '|edges: Vec<A>| -> (rr: Vec<T>)', 'spec': 'requires forall|o: A| #[trigger] f.requires((o,)) ensures rr@.len() == edges@.len() && (forall|i: int| 0 <= i < edges@.len() ==> f.ensures((edges@[i],), #[trigger] rr@[i])),'}},
   loops={1: {'iter': 'it', 'elem_ty': 'T', 'invariant': ['forall|o: A| #[trigger] f.requires((o,))', 'vx_v1@.len() == it.index@', 'it.seq() == edges@',
                                                         'forall|i: int| 0 <= i < it.index@ ==> f.ensures((edges@[i],), #[trigger] vx_v1@[i])']}})
endgroup()

group('impl<O, A> OpenHypergraph<O, A>')
fn(LO, 'map_nodes', self_ty='OpenHypergraph', status='P', props=['C11'],
   requires=['forall|o: O| #[trigger] f.requires((o,))'],
   ensures=[('C11.open-map_nodes', '''r.hypergraph.nodes@.len() == self.hypergraph.nodes@.len() && (forall|i: int| 0 <= i < self.hypergraph.nodes@.len() ==> f.ensures((self.hypergraph.nodes@[i],), #[trigger] r.hypergraph.nodes@[i]))
                && r.hypergraph.edges == self.hypergraph.edges && r.hypergraph.adjacency == self.hypergraph.adjacency && r.hypergraph.quotient == self.hypergraph.quotient
                && r.sources == self.sources && r.targets == self.targets''')])
fn(LO, 'map_edges', self_ty='OpenHypergraph', status='P', props=['C11'],
   requires=['forall|o: A| #[trigger] f.requires((o,))'],
   ensures=[('C11.open-map_edges', '''r.hypergraph.edges@.len() == self.hypergraph.edges@.len() && (forall|i: int| 0 <= i < self.hypergraph.edges@.len() ==> f.ensures((self.hypergraph.edges@[i],), #[trigger] r.hypergraph.edges@[i]))
                && r.hypergraph.nodes == self.hypergraph.nodes && r.hypergraph.adjacency == self.hypergraph.adjacency && r.hypergraph.quotient == self.hypergraph.quotient
                && r.sources == self.sources && r.targets == self.targets''')])
endgroup()

# ---------------------------------------------------------------------------------------------
# C02 (lax part) / C10: coproduct and tensor of lax diagrams are juxtaposition: the second operand's node references shifted
# by the first operand's node count, everything concatenated (rule T20: chain + collect)
# ---------------------------------------------------------------------------------------------
raw(r'''
pub open spec fn shift_ids(v: Seq<NodeId>, n: int) -> Seq<NodeId> { Seq::new(v.len(), |i: int| NodeId((v[i].0 + n) as usize)) }
pub open spec fn shift_edge_ok(e: Hyperedge, n: int) -> bool {
    (forall|i: int| 0 <= i < e.sources@.len() ==> (#[trigger] e.sources@[i]).0 + n <= usize::MAX) && (forall|i: int| 0 <= i < e.targets@.len() ==> (#[trigger] e.targets@[i]).0 + n <= usize::MAX)
}
''')
fn(LH, 'finite_function_coproduct', kind='free', status='P', props=['C10', 'C02'], rules={'t20': True},
   requires=['forall|i: int| 0 <= i < v2@.len() ==> (#[trigger] v2@[i]).0 + target <= usize::MAX'],
   ensures=[('C10.ff-coproduct', 'r@ =~= v1@ + shift_ids(v2@, target as int)')],
   loops={1: {'iter': 'it', 'elem_ty': 'NodeId', 'invariant': ['it.seq().len() == v1@.len()', 'forall|k: int| 0 <= k < v1@.len() ==> *it.seq()[k] == v1@[k]', 'vx_v1@ =~= v1@.subrange(0, it.index@ as int)'],
              'body_pre': 'proof { assert(*vx_c1 == v1@[it.index@ as int]); }'},
          2: {'iter': 'it', 'invariant': ['it.seq().len() == v2@.len()', 'forall|k: int| 0 <= k < v2@.len() ==> *it.seq()[k] == v2@[k]',
                                         'forall|i: int| 0 <= i < v2@.len() ==> (#[trigger] v2@[i]).0 + target <= usize::MAX',
                                         'vx_v1@ =~= v1@ + shift_ids(v2@, target as int).subrange(0, it.index@ as int)'],
              'body_pre': 'proof { assert(*s_ref == v2@[it.index@ as int]); }'}})
fn(LH, 'concat', kind='free', status='P', props=['C10', 'C02'], rules={'t20': True},
   ensures=[('C10.concat', 'r@.len() == v1@.len() + v2@.len() && (lawful_clone::<T>() ==> r@ =~= v1@ + v2@)')],
   loops={1: {'iter': 'it', 'elem_ty': 'T', 'invariant': ['it.seq().len() == v1@.len()', 'forall|k: int| 0 <= k < v1@.len() ==> *it.seq()[k] == v1@[k]', 'vx_v1@.len() == it.index@',
                                                         'lawful_clone::<T>() ==> vx_v1@ =~= v1@.subrange(0, it.index@ as int)'],
              'body_pre': 'proof { assert(*vx_c1 == v1@[it.index@ as int]); }'},
          2: {'iter': 'it', 'invariant': ['it.seq().len() == v2@.len()', 'forall|k: int| 0 <= k < v2@.len() ==> *it.seq()[k] == v2@[k]', 'vx_v1@.len() == v1@.len() + it.index@',
                                         'lawful_clone::<T>() ==> vx_v1@ =~= v1@ + v2@.subrange(0, it.index@ as int)'],
              'body_pre': 'proof { assert(*vx_c2 == v2@[it.index@ as int]); }'}})

raw(r'''
pub open spec fn shift_edge(e: Hyperedge, n: int) -> (Seq<NodeId>, Seq<NodeId>) { (shift_ids(e.sources@, n), shift_ids(e.targets@, n)) }
/// C02 / C10: r is the juxtaposition of the lax hypergraphs a and b
pub open spec fn is_lax_coproduct<O, A>(r: Hypergraph<O, A>, a: Hypergraph<O, A>, b: Hypergraph<O, A>) -> bool {
    let n = a.nodes@.len() as int; let m = a.adjacency@.len() as int;
    &&& r.nodes@.len() == a.nodes@.len() + b.nodes@.len() && r.edges@.len() == a.edges@.len() + b.edges@.len()
    &&& r.adjacency@.len() == a.adjacency@.len() + b.adjacency@.len()
    &&& (forall|j: int| 0 <= j < m ==> (#[trigger] r.adjacency@[j]).sources@ == a.adjacency@[j].sources@ && r.adjacency@[j].targets@ == a.adjacency@[j].targets@)
    &&& (forall|j: int| 0 <= j < b.adjacency@.len() ==> (#[trigger] r.adjacency@[m + j]).sources@ =~= shift_ids(b.adjacency@[j].sources@, n) && r.adjacency@[m + j].targets@ =~= shift_ids(b.adjacency@[j].targets@, n))
    &&& r.quotient.0@ =~= a.quotient.0@ + shift_ids(b.quotient.0@, n) && r.quotient.1@ =~= a.quotient.1@ + shift_ids(b.quotient.1@, n)
}
''')

group('impl<O: Clone, A: Clone> Hypergraph<O, A>')
fn(LH, 'coproduct', self_ty='Hypergraph', status='P', props=['C10', 'C02'], rules={'t9': True, 't20': True},
   requires=['self.wf()', 'other.wf()', 'self.nodes@.len() + other.nodes@.len() <= usize::MAX'],
   ensures=[('C10.lax-coproduct', 'is_lax_coproduct(r, *self, *other)'),
            ('C10.lax-coproduct-labels', '(lawful_clone::<O>() ==> r.nodes@ =~= self.nodes@ + other.nodes@) && (lawful_clone::<A>() ==> r.edges@ =~= self.edges@ + other.edges@)'),
            ('C10.lax-coproduct-wf', 'r.wf()')],
   loops={1: {'iter': 'it1', 'elem_ty': 'NodeId', 'invariant': ['n == self.nodes@.len()', 'n + other.nodes@.len() <= usize::MAX', 'ids_ok(edge.sources@, other.nodes@.len() as int)',
                                                               'it1.seq().len() == edge.sources@.len()', 'forall|k: int| 0 <= k < edge.sources@.len() ==> *it1.seq()[k] == edge.sources@[k]',
                                                               'vx_v1@ =~= shift_ids(edge.sources@, n as int).subrange(0, it1.index@ as int)'],
              'body_pre': 'proof { assert(*s_ref == edge.sources@[it1.index@ as int]); }'},
          2: {'iter': 'it2', 'elem_ty': 'NodeId', 'invariant': ['n == self.nodes@.len()', 'n + other.nodes@.len() <= usize::MAX', 'ids_ok(edge.targets@, other.nodes@.len() as int)',
                                                               'it2.seq().len() == edge.targets@.len()', 'forall|k: int| 0 <= k < edge.targets@.len() ==> *it2.seq()[k] == edge.targets@[k]',
                                                               'vx_v2@ =~= shift_ids(edge.targets@, n as int).subrange(0, it2.index@ as int)'],
              'body_pre': 'proof { assert(*t_ref == edge.targets@[it2.index@ as int]); }'},
          3: {'iter': 'it', 'elem_ty': 'Hyperedge', 'invariant': ['it.seq().len() == self.adjacency@.len()', 'forall|k: int| 0 <= k < self.adjacency@.len() ==> *it.seq()[k] == self.adjacency@[k]',
                                                                 'vx_v3@.len() == it.index@',
                                                                 'forall|j: int| 0 <= j < it.index@ ==> (#[trigger] vx_v3@[j]).sources@ == self.adjacency@[j].sources@ && vx_v3@[j].targets@ == self.adjacency@[j].targets@'],
              'body_pre': 'proof { assert(*vx_c3 == self.adjacency@[it.index@ as int]); }'},
          4: {'iter': 'it', 'invariant': ['n == self.nodes@.len()', 'n + other.nodes@.len() <= usize::MAX', 'other.wf()',
                                         'it.seq().len() == other.adjacency@.len()', 'forall|k: int| 0 <= k < other.adjacency@.len() ==> *it.seq()[k] == other.adjacency@[k]',
                                         'vx_v3@.len() == self.adjacency@.len() + it.index@',
                                         'forall|j: int| 0 <= j < self.adjacency@.len() ==> (#[trigger] vx_v3@[j]).sources@ == self.adjacency@[j].sources@ && vx_v3@[j].targets@ == self.adjacency@[j].targets@',
                                         'forall|j: int| 0 <= j < it.index@ ==> (#[trigger] vx_v3@[self.adjacency@.len() + j]).sources@ =~= shift_ids(other.adjacency@[j].sources@, n as int) && vx_v3@[self.adjacency@.len() + j].targets@ =~= shift_ids(other.adjacency@[j].targets@, n as int)'],
              'body_pre': 'proof { assert(*edge == other.adjacency@[it.index@ as int]); }'}},
   proofs=[('end', '''let nn = (self.nodes@.len() + other.nodes@.len()) as int; let m = self.adjacency@.len() as int; let n0 = self.nodes@.len() as int;
            assert forall|j: int| 0 <= j < adjacency@.len() implies ids_ok((#[trigger] adjacency@[j]).sources@, nn) && ids_ok(adjacency@[j].targets@, nn) by {
                if j < m { assert(ids_ok(self.adjacency@[j].sources@, n0) && ids_ok(self.adjacency@[j].targets@, n0)); }
                else { let j2 = j - m; assert(adjacency@[m + j2].sources@ =~= shift_ids(other.adjacency@[j2].sources@, n0));
                       assert(ids_ok(other.adjacency@[j2].sources@, other.nodes@.len() as int) && ids_ok(other.adjacency@[j2].targets@, other.nodes@.len() as int));
                       assert forall|i: int| 0 <= i < adjacency@[j].sources@.len() implies (#[trigger] adjacency@[j].sources@[i]).0 < nn by { assert(shift_ids(other.adjacency@[j2].sources@, n0)[i].0 == other.adjacency@[j2].sources@[i].0 + n0); }
                       assert forall|i: int| 0 <= i < adjacency@[j].targets@.len() implies (#[trigger] adjacency@[j].targets@[i]).0 < nn by { assert(shift_ids(other.adjacency@[j2].targets@, n0)[i].0 == other.adjacency@[j2].targets@[i].0 + n0); }
                }
            }
            assert forall|i: int| 0 <= i < quotient.0@.len() implies (#[trigger] quotient.0@[i]).0 < nn by {
                if i >= self.quotient.0@.len() { assert(shift_ids(other.quotient.0@, n0)[i - self.quotient.0@.len()].0 == other.quotient.0@[i - self.quotient.0@.len()].0 + n0); }
            }
            assert forall|i: int| 0 <= i < quotient.1@.len() implies (#[trigger] quotient.1@[i]).0 < nn by {
                if i >= self.quotient.1@.len() { assert(shift_ids(other.quotient.1@, n0)[i - self.quotient.1@.len()].0 == other.quotient.1@[i - self.quotient.1@.len()].0 + n0); }
            }''')])
endgroup()

raw(r'''
/// C02 (lax): r is the tensor (juxtaposition) of the lax diagrams a and b
pub open spec fn is_lax_tensor<O, A>(r: OpenHypergraph<O, A>, a: OpenHypergraph<O, A>, b: OpenHypergraph<O, A>) -> bool {
    let n = a.hypergraph.nodes@.len() as int;
    &&& is_lax_coproduct(r.hypergraph, a.hypergraph, b.hypergraph)
    &&& r.sources@ =~= a.sources@ + shift_ids(b.sources@, n) && r.targets@ =~= a.targets@ + shift_ids(b.targets@, n)
}
''')
group('impl<O: Clone, A: Clone> OpenHypergraph<O, A>')
fn(LO, 'tensor', self_ty='OpenHypergraph', status='P', props=['C10', 'C02'], rules={'t20': True},
   requires=['self.wf()', 'other.wf()', 'self.hypergraph.nodes@.len() + other.hypergraph.nodes@.len() <= usize::MAX'],
   ensures=[('C02.lax-tensor', 'is_lax_tensor(r, *self, *other)'),
            ('C02.lax-tensor-labels', '(lawful_clone::<O>() ==> r.hypergraph.nodes@ =~= self.hypergraph.nodes@ + other.hypergraph.nodes@) && (lawful_clone::<A>() ==> r.hypergraph.edges@ =~= self.hypergraph.edges@ + other.hypergraph.edges@)'),
            ('C02.lax-tensor-wf', 'r.wf()')],
   loops={1: {'iter': 'it', 'elem_ty': 'NodeId', 'invariant': ['it.seq().len() == self.sources@.len()', 'forall|k: int| 0 <= k < self.sources@.len() ==> *it.seq()[k] == self.sources@[k]', 'vx_v1@ =~= self.sources@.subrange(0, it.index@ as int)'],
              'body_pre': 'proof { assert(*vx_c1 == self.sources@[it.index@ as int]); }'},
          2: {'iter': 'it', 'invariant': ['n == self.hypergraph.nodes@.len()', 'n + other.hypergraph.nodes@.len() <= usize::MAX', 'ids_ok(other.sources@, other.hypergraph.nodes@.len() as int)',
                                         'it.seq().len() == other.sources@.len()', 'forall|k: int| 0 <= k < other.sources@.len() ==> *it.seq()[k] == other.sources@[k]',
                                         'vx_v1@ =~= self.sources@ + shift_ids(other.sources@, n as int).subrange(0, it.index@ as int)'],
              'body_pre': 'proof { assert(*i_ref == other.sources@[it.index@ as int]); }'},
          3: {'iter': 'it', 'elem_ty': 'NodeId', 'invariant': ['it.seq().len() == self.targets@.len()', 'forall|k: int| 0 <= k < self.targets@.len() ==> *it.seq()[k] == self.targets@[k]', 'vx_v3@ =~= self.targets@.subrange(0, it.index@ as int)'],
              'body_pre': 'proof { assert(*vx_c3 == self.targets@[it.index@ as int]); }'},
          4: {'iter': 'it', 'invariant': ['n == self.hypergraph.nodes@.len()', 'n + other.hypergraph.nodes@.len() <= usize::MAX', 'ids_ok(other.targets@, other.hypergraph.nodes@.len() as int)',
                                         'it.seq().len() == other.targets@.len()', 'forall|k: int| 0 <= k < other.targets@.len() ==> *it.seq()[k] == other.targets@[k]',
                                         'vx_v3@ =~= self.targets@ + shift_ids(other.targets@, n as int).subrange(0, it.index@ as int)'],
              'body_pre': 'proof { assert(*i_ref == other.targets@[it.index@ as int]); }'}},
   proofs=[('end', '''let nn = (self.hypergraph.nodes@.len() + other.hypergraph.nodes@.len()) as int; let n0 = self.hypergraph.nodes@.len() as int;
            assert forall|i: int| 0 <= i < sources@.len() implies (#[trigger] sources@[i]).0 < nn by {
                if i >= self.sources@.len() { assert(shift_ids(other.sources@, n0)[i - self.sources@.len()].0 == other.sources@[i - self.sources@.len()].0 + n0); }
            }
            assert forall|i: int| 0 <= i < targets@.len() implies (#[trigger] targets@[i]).0 < nn by {
                if i >= self.targets@.len() { assert(shift_ids(other.targets@, n0)[i - self.targets@.len()].0 == other.targets@[i - self.targets@.len()].0 + n0); }
            }''')])
endgroup()

raw(r'''
/// C10: r is the unchecked lax composite of a and b: their juxtaposition, with output k of a and input k of b recorded as a pending
/// unification, inputs of a and outputs of b as interfaces
pub open spec fn is_lax_compose<O, A>(r: OpenHypergraph<O, A>, a: OpenHypergraph<O, A>, b: OpenHypergraph<O, A>) -> bool {
    let n = a.hypergraph.nodes@.len() as int; let m = a.hypergraph.adjacency@.len() as int;
    &&& r.hypergraph.nodes@.len() == a.hypergraph.nodes@.len() + b.hypergraph.nodes@.len() && r.hypergraph.edges@.len() == a.hypergraph.edges@.len() + b.hypergraph.edges@.len()
    &&& r.hypergraph.adjacency@.len() == a.hypergraph.adjacency@.len() + b.hypergraph.adjacency@.len()
    &&& (forall|j: int| 0 <= j < m ==> (#[trigger] r.hypergraph.adjacency@[j]).sources@ == a.hypergraph.adjacency@[j].sources@ && r.hypergraph.adjacency@[j].targets@ == a.hypergraph.adjacency@[j].targets@)
    &&& (forall|j: int| 0 <= j < b.hypergraph.adjacency@.len() ==> (#[trigger] r.hypergraph.adjacency@[m + j]).sources@ =~= shift_ids(b.hypergraph.adjacency@[j].sources@, n)
            && r.hypergraph.adjacency@[m + j].targets@ =~= shift_ids(b.hypergraph.adjacency@[j].targets@, n))
    &&& r.hypergraph.quotient.0@ =~= a.hypergraph.quotient.0@ + shift_ids(b.hypergraph.quotient.0@, n) + a.targets@
    &&& r.hypergraph.quotient.1@ =~= a.hypergraph.quotient.1@ + shift_ids(b.hypergraph.quotient.1@, n) + shift_ids(b.sources@, n)
    &&& r.sources@ =~= a.sources@ && r.targets@ =~= shift_ids(b.targets@, n)
}
''')
group('impl<O: Clone, A: Clone> OpenHypergraph<O, A>')
fn(LC, 'lax_compose', self_ty='OpenHypergraph', status='P', props=['C10'], rules={'t20': True},
   requires=['self.wf()', 'other.wf()', 'self.hypergraph.nodes@.len() + other.hypergraph.nodes@.len() <= usize::MAX'],
   ensures=[('C10.lax_compose-defined', 'r.is_some() <==> self.targets@.len() == other.sources@.len()'),
            ('C10.lax_compose', 'r.is_some() ==> is_lax_compose(r.unwrap(), *self, *other)'),
            ('C10.lax_compose-labels', 'r.is_some() ==> (lawful_clone::<O>() ==> r.unwrap().hypergraph.nodes@ =~= self.hypergraph.nodes@ + other.hypergraph.nodes@) && (lawful_clone::<A>() ==> r.unwrap().hypergraph.edges@ =~= self.hypergraph.edges@ + other.hypergraph.edges@)'),
            ('C10.lax_compose-wf', 'r.is_some() ==> r.unwrap().wf()')],
   loops={1: {'iter': 'it', 'invariant': ['n == self.hypergraph.nodes@.len()', 'n + other.hypergraph.nodes@.len() <= usize::MAX', 'self.wf() && other.wf()', 'self.targets@.len() == other.sources@.len()',
                                         'it.seq().len() == self.targets@.len()', 'forall|k: int| 0 <= k < self.targets@.len() ==> *(#[trigger] it.seq()[k]).0 == self.targets@[k]',
                                         'forall|k: int| 0 <= k < self.targets@.len() ==> *(#[trigger] it.seq()[k]).1 == other.sources@[k]',
                                         'f.hypergraph.nodes == t0.hypergraph.nodes && f.hypergraph.edges == t0.hypergraph.edges && f.hypergraph.adjacency == t0.hypergraph.adjacency && f.sources == t0.sources && f.targets == t0.targets',
                                         'f.hypergraph.quotient.0@ =~= t0.hypergraph.quotient.0@ + self.targets@.subrange(0, it.index@ as int)',
                                         'f.hypergraph.quotient.1@ =~= t0.hypergraph.quotient.1@ + shift_ids(other.sources@, n as int).subrange(0, it.index@ as int)']},
          2: {'elem_ty': 'NodeId', 'invariant': ['k0 <= vx_k2 <= tg1.len()', 'f.targets@ == tg1', 'vx_v2@ =~= tg1.subrange(k0 as int, vx_k2 as int)'], 'decreases': 'tg1.len() - vx_k2'}},
   proofs=[G('after:let mut f = self.tensor(other);', 'let ghost t0 = f;'),
           ('before:f.unify(*u, NodeId(v.0 + n));', '''assert(*u == self.targets@[it.index@ as int] && *v == other.sources@[it.index@ as int]); assert(v.0 < other.hypergraph.nodes@.len());'''),
           G('before:f.targets = f.targets', 'let ghost tg1 = f.targets@; let ghost k0 = self.targets@.len();'),
           ('end', '''let nn = (self.hypergraph.nodes@.len() + other.hypergraph.nodes@.len()) as int; let n0 = self.hypergraph.nodes@.len() as int;
            assert(f.targets@ =~= shift_ids(other.targets@, n0));
            assert(f.sources@ =~= self.sources@);
            assert forall|i: int| 0 <= i < f.hypergraph.quotient.0@.len() implies (#[trigger] f.hypergraph.quotient.0@[i]).0 < nn by {
                let l0 = t0.hypergraph.quotient.0@.len() as int;
                if i >= l0 { assert(f.hypergraph.quotient.0@[i] == self.targets@[i - l0]); } else { assert(f.hypergraph.quotient.0@[i] == t0.hypergraph.quotient.0@[i]); }
            }
            assert forall|i: int| 0 <= i < f.hypergraph.quotient.1@.len() implies (#[trigger] f.hypergraph.quotient.1@[i]).0 < nn by {
                let l1 = t0.hypergraph.quotient.1@.len() as int;
                if i >= l1 { assert(f.hypergraph.quotient.1@[i] == shift_ids(other.sources@, n0)[i - l1]); } else { assert(f.hypergraph.quotient.1@[i] == t0.hypergraph.quotient.1@[i]); }
            }
            assert forall|i: int| 0 <= i < f.targets@.len() implies (#[trigger] f.targets@[i]).0 < nn by { assert(f.targets@[i] == shift_ids(other.targets@, n0)[i]); }''')])
endgroup()

raw(r'''
// ---------------------------------------------------------------------------------------------
// C10, second sentence (for operands without pending unifications): strictification commutes with composition ON THE NOSE --
// the strictified lax composite satisfies the contract of the strict composition of the strictified operands (it IS a pushout of
// them), hence is isomorphic to whatever strict `compose` returns (lemma_compose_unique)
// ---------------------------------------------------------------------------------------------
/// the strict diagram sv has exactly the data of the (quotient-free) lax diagram l
pub open spec fn is_strict_view<O, A>(sv: crate::open_hypergraph::OpenHypergraph<O, A>, l: OpenHypergraph<O, A>) -> bool {
    &&& sv.wf() && is_strict_of(sv.h, l.hypergraph)
    &&& sv.s.table@ =~= ids(l.sources@) && sv.t.table@ =~= ids(l.targets@)
    &&& sv.h.w@ == l.hypergraph.nodes@ && sv.h.x@ == l.hypergraph.edges@
}

pub proof fn lemma_strict_lax_compose<O: Clone, A: Clone>(f: OpenHypergraph<O, A>, g: OpenHypergraph<O, A>, c: OpenHypergraph<O, A>,
        s: crate::open_hypergraph::OpenHypergraph<O, A>, sf: crate::open_hypergraph::OpenHypergraph<O, A>, sg: crate::open_hypergraph::OpenHypergraph<O, A>)
    requires f.wf(), g.wf(), lawful_clone::<O>(), lawful_clone::<A>(),
        f.hypergraph.quotient.0@.len() == 0 && f.hypergraph.quotient.1@.len() == 0 && g.hypergraph.quotient.0@.len() == 0 && g.hypergraph.quotient.1@.len() == 0,
        f.targets@.len() == g.sources@.len(),
        f.hypergraph.nodes@.len() + g.hypergraph.nodes@.len() <= usize::MAX,
        is_lax_compose(c, f, g), c.hypergraph.nodes@ =~= f.hypergraph.nodes@ + g.hypergraph.nodes@, c.hypergraph.edges@ =~= f.hypergraph.edges@ + g.hypergraph.edges@,
        is_strictification(s, c), is_strict_view(sf, f), is_strict_view(sg, g),
    ensures is_pushout(sf, sg, s)
{
    let (mid, qf) = choose|mid: OpenHypergraph<O, A>, q: FiniteFunction|
        #[trigger] is_quotient_of(c.hypergraph, mid.hypergraph, q)
        && mapped(c.sources@, mid.sources@, q.table@) && mapped(c.targets@, mid.targets@, q.table@)
        && is_strict_of(s.h, mid.hypergraph) && s.s.table@ =~= ids(mid.sources@) && s.t.table@ =~= ids(mid.targets@)
        && (lawful_clone::<O>() ==> s.h.w@ == mid.hypergraph.nodes@) && (lawful_clone::<A>() ==> s.h.x@ == mid.hypergraph.edges@);
    let q = qf.table@; let k = qf.target as int;
    let nf = f.hypergraph.nodes@.len() as int; let ng = g.hypergraph.nodes@.len() as int; let m = f.hypergraph.adjacency@.len() as int;
    // the pending pairs of the lax composite are the gluing pairs of the strict composition
    assert(ids(c.hypergraph.quotient.0@) =~= glue_left(sf)) by {
        assert forall|j: int| 0 <= j < f.targets@.len() implies ids(c.hypergraph.quotient.0@)[j] == sf.t.table@[j] by { assert(ids(f.targets@)[j] == f.targets@[j].0); }
    }
    assert(ids(c.hypergraph.quotient.1@) =~= glue_right(sf, sg)) by {
        assert forall|j: int| 0 <= j < g.sources@.len() implies ids(c.hypergraph.quotient.1@)[j] == nf + sg.s.table@[j] by {
            assert(ids(g.sources@)[j] == g.sources@[j].0); assert(shift_ids(g.sources@, nf)[j].0 == g.sources@[j].0 + nf);
        }
    }
    assert(is_coeq(q, k, glue_left(sf), glue_right(sf, sg), nf + ng));
    // incidence: segment lengths and values
    let sl = src_lens(mid.hypergraph.adjacency@); let tl = tgt_lens(mid.hypergraph.adjacency@);
    let sfl = sf.h.s.sources.table@; let sgl = sg.h.s.sources.table@; let tfl = sf.h.t.sources.table@; let tgl = sg.h.t.sources.table@;
    assert(sl =~= sfl + sgl && tl =~= tfl + tgl) by {
        assert forall|j: int| 0 <= j < sl.len() implies sl[j] == (sfl + sgl)[j] && tl[j] == (tfl + tgl)[j] by {
            let e = mid.hypergraph.adjacency@[j]; let ce = c.hypergraph.adjacency@[j];
            assert(mapped(ce.sources@, e.sources@, q) && mapped(ce.targets@, e.targets@, q));
            if j < m { assert(ce.sources@ == f.hypergraph.adjacency@[j].sources@ && ce.targets@ == f.hypergraph.adjacency@[j].targets@); }
            else { assert(c.hypergraph.adjacency@[m + (j - m)].sources@ =~= shift_ids(g.hypergraph.adjacency@[j - m].sources@, nf)); }
        }
    }
    let lf = sf.h.s.values.table@.len() as int; let lg = sg.h.s.values.table@.len() as int;
    let mf = sf.h.t.values.table@.len() as int; let mg = sg.h.t.values.table@.len() as int;
    assert forall|i: int| 0 <= i < lf implies s.h.s.values.table@[i] == q[sf.h.s.values.table@[i] as int] by {
        let (j, kk) = lemma_seg_find(sfl, i);
        lemma_psum_prefix(sl, sfl, j); lemma_psum_prefix(sl, sfl, j + 1);
        assert(seg_at(sl, j, kk) == seg_at(sfl, j, kk));
        assert(s.h.s.values.table@[seg_at(sl, j, kk)] == mid.hypergraph.adjacency@[j].sources@[kk].0);
        assert(mapped(c.hypergraph.adjacency@[j].sources@, mid.hypergraph.adjacency@[j].sources@, q));
        assert(sf.h.s.values.table@[seg_at(sfl, j, kk)] == f.hypergraph.adjacency@[j].sources@[kk].0);
    }
    assert forall|i: int| lf <= i < lf + lg implies s.h.s.values.table@[i] == q[nf + sg.h.s.values.table@[i - lf]] by {
        let (j, kk) = lemma_seg_find(sgl, i - lf);
        lemma_psum_concat(sfl, sgl, j);
        assert(seg_at(sl, m + j, kk) == lf + seg_at(sgl, j, kk));
        assert(s.h.s.values.table@[seg_at(sl, m + j, kk)] == mid.hypergraph.adjacency@[m + j].sources@[kk].0);
        assert(mapped(c.hypergraph.adjacency@[m + j].sources@, mid.hypergraph.adjacency@[m + j].sources@, q));
        assert(c.hypergraph.adjacency@[m + j].sources@ =~= shift_ids(g.hypergraph.adjacency@[j].sources@, nf));
        assert(sg.h.s.values.table@[seg_at(sgl, j, kk)] == g.hypergraph.adjacency@[j].sources@[kk].0);
    }
    assert forall|i: int| 0 <= i < mf implies s.h.t.values.table@[i] == q[sf.h.t.values.table@[i] as int] by {
        let (j, kk) = lemma_seg_find(tfl, i);
        lemma_psum_prefix(tl, tfl, j); lemma_psum_prefix(tl, tfl, j + 1);
        assert(seg_at(tl, j, kk) == seg_at(tfl, j, kk));
        assert(s.h.t.values.table@[seg_at(tl, j, kk)] == mid.hypergraph.adjacency@[j].targets@[kk].0);
        assert(mapped(c.hypergraph.adjacency@[j].targets@, mid.hypergraph.adjacency@[j].targets@, q));
        assert(sf.h.t.values.table@[seg_at(tfl, j, kk)] == f.hypergraph.adjacency@[j].targets@[kk].0);
    }
    assert forall|i: int| mf <= i < mf + mg implies s.h.t.values.table@[i] == q[nf + sg.h.t.values.table@[i - mf]] by {
        let (j, kk) = lemma_seg_find(tgl, i - mf);
        lemma_psum_concat(tfl, tgl, j);
        assert(seg_at(tl, m + j, kk) == mf + seg_at(tgl, j, kk));
        assert(s.h.t.values.table@[seg_at(tl, m + j, kk)] == mid.hypergraph.adjacency@[m + j].targets@[kk].0);
        assert(mapped(c.hypergraph.adjacency@[m + j].targets@, mid.hypergraph.adjacency@[m + j].targets@, q));
        assert(c.hypergraph.adjacency@[m + j].targets@ =~= shift_ids(g.hypergraph.adjacency@[j].targets@, nf));
        assert(sg.h.t.values.table@[seg_at(tgl, j, kk)] == g.hypergraph.adjacency@[j].targets@[kk].0);
    }
    assert forall|v: int| 0 <= v < nf + ng implies s.h.w@[q[v] as int] == jux_label(sf, sg, v) by {
        assert(mid.hypergraph.nodes@[q[v] as int] == c.hypergraph.nodes@[v]);
        assert(c.hypergraph.nodes@[v] == (f.hypergraph.nodes@ + g.hypergraph.nodes@)[v]);
    }
    assert forall|i: int| 0 <= i < sf.s.table@.len() implies s.s.table@[i] == q[sf.s.table@[i] as int] by {
        assert(ids(mid.sources@)[i] == mid.sources@[i].0); assert(ids(f.sources@)[i] == f.sources@[i].0);
    }
    assert forall|i: int| 0 <= i < sg.t.table@.len() implies s.t.table@[i] == q[nf + sg.t.table@[i]] by {
        assert(ids(mid.targets@)[i] == mid.targets@[i].0); assert(ids(g.targets@)[i] == g.targets@[i].0); assert(shift_ids(g.targets@, nf)[i].0 == g.targets@[i].0 + nf);
    }
    assert(s.h.x@ =~= sf.h.x@ + sg.h.x@);
    lemma_psum_concat(sfl, sgl, sgl.len() as int); lemma_psum_concat(tfl, tgl, tgl.len() as int);
    assert(s.h.s.values.table@.len() == lf + lg && s.h.t.values.table@.len() == mf + mg);
    assert(q.len() == nf + ng && s.h.w@.len() == k);
    assert(s.h.s.sources.table@ == sfl + sgl && s.h.t.sources.table@ == tfl + tgl);
    assert(s.s.table@.len() == sf.s.table@.len() && s.t.table@.len() == sg.t.table@.len());
    assert(is_quotient_of_jux(sf, sg, s, q, k));
}
''')

raw(r'''
/// the label lists of the interfaces
pub open spec fn lax_src_type<O, A>(f: OpenHypergraph<O, A>) -> Seq<O> { Seq::new(f.sources@.len(), |k: int| f.hypergraph.nodes@[f.sources@[k].0 as int]) }
pub open spec fn lax_tgt_type<O, A>(f: OpenHypergraph<O, A>) -> Seq<O> { Seq::new(f.targets@.len(), |k: int| f.hypergraph.nodes@[f.targets@[k].0 as int]) }
''')
group('impl<O: Clone + PartialEq, A: Clone> OpenHypergraph<O, A>')
fn(LC, 'compose', trait='Arrow', self_ty='OpenHypergraph', status='P', props=['C10'],
   requires=['self.wf()', 'other.wf()', 'self.hypergraph.nodes@.len() + other.hypergraph.nodes@.len() <= usize::MAX', 'lawful_clone::<O>()', 'lawful_eq::<O>()'],
   ensures=[('C10.lax-compose-defined', 'r.is_some() <==> lax_tgt_type(*self) =~= lax_src_type(*other)'),
            ('C10.lax-compose', 'r.is_some() ==> is_lax_compose(r.unwrap(), *self, *other) && r.unwrap().wf()')],
   proofs=[('start', '''assert forall|a: Vec<O>| #![trigger a@.len()] a@.len() == self.targets@.len() && (forall|k: int| 0 <= k < a@.len() ==> a@[k] == self.hypergraph.nodes@[self.targets@[k].0 as int]) implies a@ == lax_tgt_type(*self) by { assert(a@ =~= lax_tgt_type(*self)); }
            assert forall|a: Vec<O>| #![trigger a@.len()] a@.len() == other.sources@.len() && (forall|k: int| 0 <= k < a@.len() ==> a@[k] == other.hypergraph.nodes@[other.sources@[k].0 as int]) implies a@ == lax_src_type(*other) by { assert(a@ =~= lax_src_type(*other)); }''')])
endgroup()

raw(r'''
/// C10, second sentence, tensor (operands without pending unifications): the strictified lax tensor is the strict tensor of the
/// strictified operands renumbered by a node bijection (the coequalizer of no pairs inside to_strict), hyperedges in place
pub proof fn lemma_strict_lax_tensor<O: Clone, A: Clone>(f: OpenHypergraph<O, A>, g: OpenHypergraph<O, A>, t: OpenHypergraph<O, A>,
        s: crate::open_hypergraph::OpenHypergraph<O, A>, sf: crate::open_hypergraph::OpenHypergraph<O, A>, sg: crate::open_hypergraph::OpenHypergraph<O, A>,
        r: crate::open_hypergraph::OpenHypergraph<O, A>) -> (phi: Seq<usize>)
    requires f.wf(), g.wf(), lawful_clone::<O>(), lawful_clone::<A>(),
        f.hypergraph.quotient.0@.len() == 0 && f.hypergraph.quotient.1@.len() == 0 && g.hypergraph.quotient.0@.len() == 0 && g.hypergraph.quotient.1@.len() == 0,
        f.hypergraph.nodes@.len() + g.hypergraph.nodes@.len() <= usize::MAX,
        is_lax_tensor(t, f, g), t.hypergraph.nodes@ =~= f.hypergraph.nodes@ + g.hypergraph.nodes@, t.hypergraph.edges@ =~= f.hypergraph.edges@ + g.hypergraph.edges@,
        is_strictification(s, t), is_strict_view(sf, f), is_strict_view(sg, g), is_tensor(r, sf, sg),
    ensures node_iso(r, s, phi)
{
    let (mid, qf) = choose|mid: OpenHypergraph<O, A>, q: FiniteFunction|
        #[trigger] is_quotient_of(t.hypergraph, mid.hypergraph, q)
        && mapped(t.sources@, mid.sources@, q.table@) && mapped(t.targets@, mid.targets@, q.table@)
        && is_strict_of(s.h, mid.hypergraph) && s.s.table@ =~= ids(mid.sources@) && s.t.table@ =~= ids(mid.targets@)
        && (lawful_clone::<O>() ==> s.h.w@ == mid.hypergraph.nodes@) && (lawful_clone::<A>() ==> s.h.x@ == mid.hypergraph.edges@);
    let q = qf.table@; let k = qf.target as int;
    let nf = f.hypergraph.nodes@.len() as int; let ng = g.hypergraph.nodes@.len() as int; let m = f.hypergraph.adjacency@.len() as int; let nn = nf + ng;
    assert(t.hypergraph.quotient.0@.len() == 0 && t.hypergraph.quotient.1@.len() == 0);
    lemma_coeq_empty(q, k, ids(t.hypergraph.quotient.0@), ids(t.hypergraph.quotient.1@), nn);
    let sl = src_lens(mid.hypergraph.adjacency@); let tl = tgt_lens(mid.hypergraph.adjacency@);
    let sfl = sf.h.s.sources.table@; let sgl = sg.h.s.sources.table@; let tfl = sf.h.t.sources.table@; let tgl = sg.h.t.sources.table@;
    assert(sl =~= sfl + sgl && tl =~= tfl + tgl) by {
        assert forall|j: int| 0 <= j < sl.len() implies sl[j] == (sfl + sgl)[j] && tl[j] == (tfl + tgl)[j] by {
            let e = mid.hypergraph.adjacency@[j]; let ce = t.hypergraph.adjacency@[j];
            assert(mapped(ce.sources@, e.sources@, q) && mapped(ce.targets@, e.targets@, q));
            if j < m { assert(ce.sources@ == f.hypergraph.adjacency@[j].sources@ && ce.targets@ == f.hypergraph.adjacency@[j].targets@); }
            else { assert(t.hypergraph.adjacency@[m + (j - m)].sources@ =~= shift_ids(g.hypergraph.adjacency@[j - m].sources@, nf)); }
        }
    }
    let lf = sf.h.s.values.table@.len() as int; let lg = sg.h.s.values.table@.len() as int;
    let mf = sf.h.t.values.table@.len() as int; let mg = sg.h.t.values.table@.len() as int;
    lemma_psum_concat(sfl, sgl, sgl.len() as int); lemma_psum_concat(tfl, tgl, tgl.len() as int);
    assert(s.h.s.values.table@.len() == lf + lg && s.h.t.values.table@.len() == mf + mg);
    assert(sf.h.s.values.target == nf && sf.h.t.values.target == nf);
    assert forall|i: int| 0 <= i < lf + lg implies (#[trigger] s.h.s.values.table@[i]) == q[r.h.s.values.table@[i] as int] by {
        if i < lf {
            let (j, kk) = lemma_seg_find(sfl, i);
            lemma_psum_prefix(sl, sfl, j); lemma_psum_prefix(sl, sfl, j + 1);
            assert(seg_at(sl, j, kk) == seg_at(sfl, j, kk));
            assert(s.h.s.values.table@[seg_at(sl, j, kk)] == mid.hypergraph.adjacency@[j].sources@[kk].0);
            assert(mapped(t.hypergraph.adjacency@[j].sources@, mid.hypergraph.adjacency@[j].sources@, q));
            assert(sf.h.s.values.table@[seg_at(sfl, j, kk)] == f.hypergraph.adjacency@[j].sources@[kk].0);
        } else {
            let (j, kk) = lemma_seg_find(sgl, i - lf);
            lemma_psum_concat(sfl, sgl, j);
            assert(seg_at(sl, m + j, kk) == lf + seg_at(sgl, j, kk));
            assert(s.h.s.values.table@[seg_at(sl, m + j, kk)] == mid.hypergraph.adjacency@[m + j].sources@[kk].0);
            assert(mapped(t.hypergraph.adjacency@[m + j].sources@, mid.hypergraph.adjacency@[m + j].sources@, q));
            assert(t.hypergraph.adjacency@[m + j].sources@ =~= shift_ids(g.hypergraph.adjacency@[j].sources@, nf));
            assert(sg.h.s.values.table@[seg_at(sgl, j, kk)] == g.hypergraph.adjacency@[j].sources@[kk].0);
        }
    }
    assert forall|i: int| 0 <= i < mf + mg implies (#[trigger] s.h.t.values.table@[i]) == q[r.h.t.values.table@[i] as int] by {
        if i < mf {
            let (j, kk) = lemma_seg_find(tfl, i);
            lemma_psum_prefix(tl, tfl, j); lemma_psum_prefix(tl, tfl, j + 1);
            assert(seg_at(tl, j, kk) == seg_at(tfl, j, kk));
            assert(s.h.t.values.table@[seg_at(tl, j, kk)] == mid.hypergraph.adjacency@[j].targets@[kk].0);
            assert(mapped(t.hypergraph.adjacency@[j].targets@, mid.hypergraph.adjacency@[j].targets@, q));
            assert(sf.h.t.values.table@[seg_at(tfl, j, kk)] == f.hypergraph.adjacency@[j].targets@[kk].0);
        } else {
            let (j, kk) = lemma_seg_find(tgl, i - mf);
            lemma_psum_concat(tfl, tgl, j);
            assert(seg_at(tl, m + j, kk) == mf + seg_at(tgl, j, kk));
            assert(s.h.t.values.table@[seg_at(tl, m + j, kk)] == mid.hypergraph.adjacency@[m + j].targets@[kk].0);
            assert(mapped(t.hypergraph.adjacency@[m + j].targets@, mid.hypergraph.adjacency@[m + j].targets@, q));
            assert(t.hypergraph.adjacency@[m + j].targets@ =~= shift_ids(g.hypergraph.adjacency@[j].targets@, nf));
            assert(sg.h.t.values.table@[seg_at(tgl, j, kk)] == g.hypergraph.adjacency@[j].targets@[kk].0);
        }
    }
    assert forall|v: int| 0 <= v < nn implies s.h.w@[(#[trigger] q[v]) as int] == r.h.w@[v] by {
        assert(mid.hypergraph.nodes@[q[v] as int] == t.hypergraph.nodes@[v]);
        assert(t.hypergraph.nodes@[v] == (f.hypergraph.nodes@ + g.hypergraph.nodes@)[v]);
    }
    assert forall|i: int| 0 <= i < r.s.table@.len() implies (#[trigger] s.s.table@[i]) == q[r.s.table@[i] as int] by {
        assert(ids(mid.sources@)[i] == mid.sources@[i].0);
        if i < sf.s.table@.len() { assert(ids(f.sources@)[i] == f.sources@[i].0); }
        else { let i2 = i - sf.s.table@.len(); assert(ids(g.sources@)[i2] == g.sources@[i2].0); assert(shift_ids(g.sources@, nf)[i2].0 == g.sources@[i2].0 + nf); }
    }
    assert forall|i: int| 0 <= i < r.t.table@.len() implies (#[trigger] s.t.table@[i]) == q[r.t.table@[i] as int] by {
        assert(ids(mid.targets@)[i] == mid.targets@[i].0);
        if i < sf.t.table@.len() { assert(ids(f.targets@)[i] == f.targets@[i].0); }
        else { let i2 = i - sf.t.table@.len(); assert(ids(g.targets@)[i2] == g.targets@[i2].0); assert(shift_ids(g.targets@, nf)[i2].0 == g.targets@[i2].0 + nf); }
    }
    assert(s.h.x@ =~= r.h.x@);
    assert(s.h.s.sources.table@ =~= r.h.s.sources.table@ && s.h.t.sources.table@ =~= r.h.t.sources.table@);
    q
}
''')

raw(r'''
// #[derive(Clone)] of /repo on the two lax structs: field-wise clone (trusted, as for VecArray / Hyperedge); with lawful label
// clones the copies have equal views
impl<O: Clone, A: Clone> Clone for Hypergraph<O, A> {
    #[verifier::external_body]
    fn clone(&self) -> (r: Self)
        ensures r.nodes@.len() == self.nodes@.len() && r.edges@.len() == self.edges@.len() && r.adjacency@ == self.adjacency@
            && r.quotient.0@ == self.quotient.0@ && r.quotient.1@ == self.quotient.1@
            && (lawful_clone::<O>() ==> r.nodes@ == self.nodes@) && (lawful_clone::<A>() ==> r.edges@ == self.edges@)
    { Hypergraph { nodes: self.nodes.clone(), edges: self.edges.clone(), adjacency: self.adjacency.clone(), quotient: self.quotient.clone() } }
}
impl<O: Clone, A: Clone> Clone for OpenHypergraph<O, A> {
    #[verifier::external_body]
    fn clone(&self) -> (r: Self)
        ensures r.sources@ == self.sources@ && r.targets@ == self.targets@
            && r.hypergraph.nodes@.len() == self.hypergraph.nodes@.len() && r.hypergraph.edges@.len() == self.hypergraph.edges@.len() && r.hypergraph.adjacency@ == self.hypergraph.adjacency@
            && r.hypergraph.quotient.0@ == self.hypergraph.quotient.0@ && r.hypergraph.quotient.1@ == self.hypergraph.quotient.1@
            && (lawful_clone::<O>() ==> r.hypergraph.nodes@ == self.hypergraph.nodes@) && (lawful_clone::<A>() ==> r.hypergraph.edges@ == self.hypergraph.edges@)
    { OpenHypergraph { sources: self.sources.clone(), targets: self.targets.clone(), hypergraph: self.hypergraph.clone() } }
}
''', tag='T:derive-clone-lax')

group('impl<O: Clone + PartialEq, A: Clone + PartialEq> OpenHypergraph<O, A>')
fn(LC, 'dagger', trait='Spider', self_ty='OpenHypergraph', status='P', props=['C04', 'C10'],
   ensures=[('C04.lax-dagger', '''r.sources@ == self.targets@ && r.targets@ == self.sources@ && r.hypergraph.adjacency@ == self.hypergraph.adjacency@
                && r.hypergraph.quotient.0@ == self.hypergraph.quotient.0@ && r.hypergraph.quotient.1@ == self.hypergraph.quotient.1@
                && r.hypergraph.nodes@.len() == self.hypergraph.nodes@.len() && r.hypergraph.edges@.len() == self.hypergraph.edges@.len()
                && (lawful_clone::<O>() ==> r.hypergraph.nodes@ == self.hypergraph.nodes@) && (lawful_clone::<A>() ==> r.hypergraph.edges@ == self.hypergraph.edges@)''')])
endgroup()

# ---------------------------------------------------------------------------------------------
# the thin trait / operator forms of the lax diagram (src/lax/category.rs): each must agree with the inherent operation
# it forwards to, so `f | g`, `f >> g`, Monoidal::tensor, Arrow::identity and Spider::spider carry the same contracts
# ---------------------------------------------------------------------------------------------
group('impl<O: Clone + PartialEq, A: Clone> OpenHypergraph<O, A>')
fn(LC, 'identity', trait='Arrow', self_ty='OpenHypergraph', status='P', props=['C10', 'C04'], rename='arrow_identity', rules={'subst': {'Self::Object': 'Vec<O>'}},
   ensures=[('C10.lax-arrow-identity', 'r.hypergraph.nodes == a && r.hypergraph.edges@.len() == 0 && r.hypergraph.adjacency@.len() == 0'),
            ('C10.lax-arrow-identity-q', 'r.hypergraph.quotient.0@.len() == 0 && r.hypergraph.quotient.1@.len() == 0'),
            ('C10.lax-arrow-identity-len', 'r.sources@.len() == a@.len() && r.targets@.len() == a@.len()'),
            ('C10.lax-arrow-identity-ids', 'forall|i: int| 0 <= i < a@.len() ==> ((#[trigger] r.sources@[i]).0 as int, (#[trigger] r.targets@[i]).0 as int) == (i, i)'),
            ('C10.lax-arrow-identity-wf', 'r.wf()')])
fn(LC, 'tensor', trait='Monoidal', self_ty='OpenHypergraph', status='P', props=['C10', 'C02'], rename='monoidal_tensor',
   requires=['self.wf()', 'other.wf()', 'self.hypergraph.nodes@.len() + other.hypergraph.nodes@.len() <= usize::MAX'],
   ensures=[('C02.lax-monoidal-tensor', 'is_lax_tensor(r, *self, *other)'),
            ('C02.lax-monoidal-tensor-labels', '(lawful_clone::<O>() ==> r.hypergraph.nodes@ =~= self.hypergraph.nodes@ + other.hypergraph.nodes@) && (lawful_clone::<A>() ==> r.hypergraph.edges@ =~= self.hypergraph.edges@ + other.hypergraph.edges@)'),
            ('C02.lax-monoidal-tensor-wf', 'r.wf()')])
endgroup()
group('impl<O: Clone + PartialEq, A: Clone + PartialEq> OpenHypergraph<O, A>')
fn(LC, 'twist', trait='SymmetricMonoidal', self_ty='OpenHypergraph', status='P', props=['C03', 'C04', 'C10'], rename='lax_twist',
   rules={'subst': {'Self::Object': 'Vec<O>', 'crate::strict::open_hypergraph::OpenHypergraph': 'crate::open_hypergraph::OpenHypergraph'}},
   requires=['a@.len() + b@.len() <= usize::MAX'],
   ensures=[('C03.lax-twist-wf', 'r.wf()'),
            ('C03.lax-twist-discrete', """r.hypergraph.edges@.len() == 0 && r.hypergraph.adjacency@.len() == 0 && r.hypergraph.quotient.0@.len() == 0 && r.hypergraph.quotient.1@.len() == 0
                && r.hypergraph.nodes@.len() == a@.len() + b@.len() && (lawful_clone::<O>() ==> r.hypergraph.nodes@ == b@ + a@)"""),
            ('C03.lax-twist-legs', """r.sources@.len() == a@.len() + b@.len() && r.targets@.len() == a@.len() + b@.len()
                && (forall|i: int| 0 <= i < a@.len() ==> #[trigger] ids(r.sources@)[i] == b@.len() + i)
                && (forall|i: int| a@.len() <= i < a@.len() + b@.len() ==> #[trigger] ids(r.sources@)[i] == i - a@.len())
                && (forall|i: int| 0 <= i < a@.len() + b@.len() ==> #[trigger] ids(r.targets@)[i] == i)""")])
fn(LC, 'spider', trait='Spider', self_ty='OpenHypergraph', status='P', props=['C04', 'C10'], rename='spider_spider',
   rules={'subst': {'Self::Object': 'Vec<O>', 'crate::finite_function::FiniteFunction': 'FiniteFunction'}},
   requires=['s.wf()', 't.wf()'],
   ensures=[('C04.lax-trait-spider-iff', 'r.is_some() <==> (s.target == t.target && s.target == w@.len())'),
            ('C04.lax-trait-spider', """r.is_some() ==> ({ let f = r.unwrap(); f.hypergraph.nodes == w && f.hypergraph.edges@.len() == 0 && f.hypergraph.adjacency@.len() == 0
                && f.hypergraph.quotient.0@.len() == 0 && f.hypergraph.quotient.1@.len() == 0
                && ids(f.sources@) =~= s.table@ && ids(f.targets@) =~= t.table@ && f.wf() })""")])
endgroup()
fn(LC, 'bitor', trait='BitOr', self_ty='OpenHypergraph', status='P', props=['C02', 'C10'], rename='lax_bitor',
   rules={'self_rename': ['f', '&OpenHypergraph<O, A>'], 'subst': {'Self::Output': 'OpenHypergraph<O, A>'}},
   generics_add=['O: Clone + PartialEq, A: Clone'],
   requires=['f.wf()', 'rhs.wf()', 'f.hypergraph.nodes@.len() + rhs.hypergraph.nodes@.len() <= usize::MAX'],
   ensures=[('C02.lax-bitor', 'is_lax_tensor(r, *f, *rhs)'),
            ('C02.lax-bitor-labels', '(lawful_clone::<O>() ==> r.hypergraph.nodes@ =~= f.hypergraph.nodes@ + rhs.hypergraph.nodes@) && (lawful_clone::<A>() ==> r.hypergraph.edges@ =~= f.hypergraph.edges@ + rhs.hypergraph.edges@)'),
            ('C02.lax-bitor-wf', 'r.wf()')])
fn(LC, 'shr', trait='Shr', self_ty='OpenHypergraph', status='P', props=['C10'], rename='lax_shr',
   rules={'self_rename': ['f', '&OpenHypergraph<O, A>'], 'subst': {'Self::Output': 'Option<OpenHypergraph<O, A>>'}},
   generics_add=['O: Clone + PartialEq, A: Clone'],
   requires=['f.wf()', 'rhs.wf()', 'f.hypergraph.nodes@.len() + rhs.hypergraph.nodes@.len() <= usize::MAX', 'lawful_clone::<O>()', 'lawful_eq::<O>()'],
   ensures=[('C10.lax-shr-defined', 'r.is_some() <==> lax_tgt_type(*f) =~= lax_src_type(*rhs)'),
            ('C10.lax-shr', 'r.is_some() ==> is_lax_compose(r.unwrap(), *f, *rhs) && r.unwrap().wf()')])

# ---------------------------------------------------------------------------------------------
# C19 (forgetting, per operation): Forget::map_operation replaces a variable-labelled operation whose incident labels are all equal
# by one merged node (by nothing when it has no incident nodes) and leaves every other operation intact.
# ---------------------------------------------------------------------------------------------
LV = 'src/lax/var/forget.rs'
raw(r'''
/// the trait HasVar of /repo: a distinguished edge label
pub trait HasVar: Sized {
    spec fn var_spec() -> Self;
    fn var() -> (r: Self)
        ensures r == Self::var_spec();
}
pub struct Forget;
pub struct ForgetMonogamous;

/// all elements of a ++ b are equal
pub open spec fn all_equal<T>(a: Seq<T>, b: Seq<T>) -> bool {
    forall|i: int, j: int| 0 <= i < a.len() + b.len() && 0 <= j < a.len() + b.len() ==> (a + b)[i] == (a + b)[j]
}

/// what forgetting does to ONE operation a : source -> target
pub open spec fn is_forgotten_op<O, A: HasVar>(r: OpenHypergraph<O, A>, a: A, source: Seq<O>, target: Seq<O>) -> bool {
    if a == A::var_spec() && all_equal(source, target) {
        if source.len() == 0 && target.len() == 0 {
            r.hypergraph.nodes@.len() == 0 && r.hypergraph.edges@.len() == 0 && r.hypergraph.adjacency@.len() == 0 && r.sources@.len() == 0 && r.targets@.len() == 0
                && r.hypergraph.quotient.0@.len() == 0
        } else {
            // one merged node carrying the common label; every input and output is that node; no hyperedge
            r.hypergraph.nodes@.len() == 1 && r.hypergraph.nodes@[0] == (source + target)[0] && r.hypergraph.edges@.len() == 0 && r.hypergraph.adjacency@.len() == 0
                && r.hypergraph.quotient.0@.len() == 0
                && r.sources@.len() == source.len() && (forall|i: int| 0 <= i < source.len() ==> (#[trigger] r.sources@[i]).0 == 0)
                && r.targets@.len() == target.len() && (forall|i: int| 0 <= i < target.len() ==> (#[trigger] r.targets@[i]).0 == 0)
        }
    } else {
        // the operation itself, on fresh nodes
        r.hypergraph.nodes@ =~= source + target && r.hypergraph.edges@ =~= seq![a] && r.hypergraph.adjacency@.len() == 1
            && r.hypergraph.quotient.0@.len() == 0
            && r.sources@.len() == source.len() && (forall|i: int| 0 <= i < source.len() ==> (#[trigger] r.sources@[i]).0 == i)
            && r.targets@.len() == target.len() && (forall|i: int| 0 <= i < target.len() ==> (#[trigger] r.targets@[i]).0 == source.len() + i)
            && r.hypergraph.adjacency@[0].sources@ == r.sources@ && r.hypergraph.adjacency@[0].targets@ == r.targets@
    }
}
''')
fn(LV, 'all_elements_equal', kind='free', status='B', props=['C19'],
   requires=['lawful_eq::<T>()'],
   ensures=[('C19.all_elements_equal', 'r <==> all_equal(a@, b@)')],
   note='iterator chain + all(): outside Verus; checked by the bounded module through the verif-hooks wrapper')
fn(LV, 'map_operation', trait='Functor', self_ty='Forget', status='P', props=['C19'], rename='forget_map_operation',
   rules={'t20': True, 'self_rename': ['this', '&Forget']}, generics_add=['O: Clone + PartialEq, A: HasVar + Clone + PartialEq'],
   requires=['lawful_clone::<O>()', 'lawful_clone::<A>()', 'lawful_eq::<O>()', 'lawful_eq::<A>()'],
   ensures=[('C19.forget-op', 'is_forgotten_op(r, *a, source@, target@)')],
   loops={1: {'elem_ty': 'O', 'invariant': ['vx_k1 <= source@.len()', 'vx_v1@ =~= source@.subrange(0, vx_k1 as int)', 'lawful_clone::<O>()'], 'decreases': 'source@.len() - vx_k1'},
          2: {'elem_ty': 'O', 'invariant': ['vx_k2 <= target@.len()', 'vx_v2@ =~= target@.subrange(0, vx_k2 as int)', 'lawful_clone::<O>()'], 'decreases': 'target@.len() - vx_k2'}})
raw(r'''
/// forget_monogamous: only 1 -> 1 variable operations are forgotten
pub open spec fn is_forgotten_mono_op<O, A: HasVar>(r: OpenHypergraph<O, A>, a: A, source: Seq<O>, target: Seq<O>) -> bool {
    if source.len() == 1 && target.len() == 1 { is_forgotten_op(r, a, source, target) }
    else {
        r.hypergraph.nodes@ =~= source + target && r.hypergraph.edges@ =~= seq![a] && r.hypergraph.adjacency@.len() == 1
            && r.hypergraph.quotient.0@.len() == 0
            && r.sources@.len() == source.len() && (forall|i: int| 0 <= i < source.len() ==> (#[trigger] r.sources@[i]).0 == i)
            && r.targets@.len() == target.len() && (forall|i: int| 0 <= i < target.len() ==> (#[trigger] r.targets@[i]).0 == source.len() + i)
            && r.hypergraph.adjacency@[0].sources@ == r.sources@ && r.hypergraph.adjacency@[0].targets@ == r.targets@
    }
}
''')
fn(LV, 'map_operation', trait='Functor', self_ty='ForgetMonogamous', status='P', props=['C19'], rename='forget_monogamous_map_operation',
   rules={'t20': True, 'self_rename': ['this', '&ForgetMonogamous']}, generics_add=['O: Clone + PartialEq, A: HasVar + Clone + PartialEq'],
   requires=['lawful_clone::<O>()', 'lawful_clone::<A>()', 'lawful_eq::<O>()', 'lawful_eq::<A>()'],
   ensures=[('C19.forget-monogamous-op', 'is_forgotten_mono_op(r, *a, source@, target@)')],
   loops={1: {'elem_ty': 'O', 'invariant': ['vx_k1 <= source@.len()', 'vx_v1@ =~= source@.subrange(0, vx_k1 as int)', 'lawful_clone::<O>()'], 'decreases': 'source@.len() - vx_k1'},
          2: {'elem_ty': 'O', 'invariant': ['vx_k2 <= target@.len()', 'vx_v2@ =~= target@.subrange(0, vx_k2 as int)', 'lawful_clone::<O>()'], 'decreases': 'target@.len() - vx_k2'},
          3: {'elem_ty': 'O', 'invariant': ['vx_k3 <= source@.len()', 'vx_v3@ =~= source@.subrange(0, vx_k3 as int)', 'lawful_clone::<O>()'], 'decreases': 'source@.len() - vx_k3'},
          4: {'elem_ty': 'O', 'invariant': ['vx_k4 <= target@.len()', 'vx_v4@ =~= target@.subrange(0, vx_k4 as int)', 'lawful_clone::<O>()'], 'decreases': 'target@.len() - vx_k4'}})

# ---------------------------------------------------------------------------------------------
# C13 (native lax functor path): the refusal clause and the structure of the witness.  The lax `Functor` trait has a method
# returning `impl ExactSizeIterator`, which Verus rejects: the trait is declared here WITHOUT its methods (it is only passed
# through by the functions below); map_operations / map_objects / the lax spider_map_arrow are assumed with no postcondition at
# all (status B, `ensures true`), so nothing about the image itself is claimed here -- that stays with the bounded module C13.
# ---------------------------------------------------------------------------------------------
LF = 'src/lax/functor/traits.rs'
raw(r'''
pub trait Functor<O1, A1, O2, A2> {}

/// sizes of a nested list
pub open spec fn nested_lens<T>(fw: Seq<Vec<T>>) -> Seq<usize> { Seq::new(fw.len(), |i: int| fw[i]@.len() as usize) }
''', tag='T:lax-Functor-trait')
fn(LF, 'map_operations', kind='free', status='B', props=['C13'], ensures=[('C13.assumed-nothing-1', 'true')], note='generic over the lax Functor trait (impl-Trait returns): no contract assumed')
fn(LF, 'map_objects', kind='free', status='B', props=['C13'], ensures=[('C13.assumed-size', '2 * total(nested_lens(r@)) + 1 < usize::MAX && r@.len() < usize::MAX')],
   note='generic over the lax Functor trait (impl-Trait returns): nothing assumed about the contents; machine arithmetic only: the object images fit in memory (twice their total length is below usize::MAX)')
fn(LF, 'spider_map_arrow', kind='free', status='B', props=['C13'], ensures=[('C13.assumed-nothing-3', 'true')], note='flat_map / copied pipelines: no contract assumed')
fn(LF, 'try_define_map_arrow', kind='free', status='P', props=['C13'],
   ensures=[('C13.refuses-pending', 'f.hypergraph.quotient.0@.len() != 0 ==> r.is_none()')])
fn(LF, 'map_arrow_witness', kind='free', status='P', props=['C13'], rules={'t9': True},
   requires=['true'],
   ensures=[('C13.witness-refuses-pending', 'f.hypergraph.quotient.0@.len() != 0 ==> r.is_none()'),
            ('C13.witness-structure', '''match r { None => true, Some(rw) => ({ let w = rw.1;
                exists|fw: Seq<Vec<O2>>| fw.len() == w.sources.table@.len() && w.sources.table@ =~= nested_lens(fw) && w.values.table@.len() == total(nested_lens(fw))
                    && (forall|m: int| 0 <= m < w.values.table@.len() ==> (#[trigger] w.values.table@[m]) == total(nested_lens(fw)) + m) && w.values.target == rw.0.hypergraph.nodes@.len() && w.wf() }) }''')],
   loops={1: {'iter': 'it', 'invariant': ['2 * total(nested_lens(fw@)) + 1 < usize::MAX', 'it.seq().len() == fw@.len()', 'forall|k: int| 0 <= k < fw@.len() ==> *it.seq()[k] == fw@[k]',
                                         'vx_s1 == psum(nested_lens(fw@), it.index@ as int)'],
              'body_pre': 'proof { assert(*v == fw@[it.index@ as int]); lemma_psum_mono(nested_lens(fw@), it.index@ as int + 1, fw@.len() as int); assert(psum(nested_lens(fw@), it.index@ as int + 1) == psum(nested_lens(fw@), it.index@ as int) + nested_lens(fw@)[it.index@ as int]); }'},
          2: {'iter': 'it', 'elem_ty': 'usize', 'invariant': ['it.seq().len() == fw@.len()', 'forall|k: int| 0 <= k < fw@.len() ==> *it.seq()[k] == fw@[k]',
                                                             'vx_v2@ =~= nested_lens(fw@).subrange(0, it.index@ as int)'],
              'body_pre': 'proof { assert(*v == fw@[it.index@ as int]); }'}},
   proofs=[('before:let witness = IndexedCoproduct::new(fw_sizes, witness_values)?;', '''assert(fw_sizes.table@ =~= nested_lens(fw@));''')])
fn(LF, 'map_half_spider', kind='free', status='P', props=['C13'], rules={'t9': True},
   requires=['total(nested_lens(fw@)) + 1 <= usize::MAX', 'fw@.len() < usize::MAX', 'node_ids@.len() < usize::MAX',
             'ids_ok(node_ids@, fw@.len() as int) ==> total(kseq(nested_lens(fw@), ids(node_ids@))) <= usize::MAX'],
   ensures=[('C13.map_half_spider-defined', 'r.is_some() <==> ids_ok(node_ids@, fw@.len() as int)'),
            ('C13.map_half_spider', '''r.is_some() ==> ({ let s = nested_lens(fw@); let k = kseq(s, ids(node_ids@)); let o = r.unwrap();
                o.target == total(s) && o.table@.len() == total(k) && o.wf()
                && (forall|i: int, j: int| 0 <= i < k.len() && 0 <= j < k[i] ==> o.table@[#[trigger] seg_at(k, i, j)] == psum(s, node_ids@[i].0 as int) + j) })''')],
   loops={1: {'iter': 'it', 'invariant': ['total(nested_lens(fw@)) + 1 <= usize::MAX', 'it.seq().len() == fw@.len()', 'forall|k: int| 0 <= k < fw@.len() ==> *it.seq()[k] == fw@[k]',
                                         'vx_s1 == psum(nested_lens(fw@), it.index@ as int)'],
              'body_pre': 'proof { assert(*v == fw@[it.index@ as int]); lemma_psum_mono(nested_lens(fw@), it.index@ as int + 1, fw@.len() as int); assert(psum(nested_lens(fw@), it.index@ as int + 1) == psum(nested_lens(fw@), it.index@ as int) + nested_lens(fw@)[it.index@ as int]); }'},
          2: {'iter': 'it', 'elem_ty': 'usize', 'invariant': ['it.seq().len() == fw@.len()', 'forall|k: int| 0 <= k < fw@.len() ==> *it.seq()[k] == fw@[k]',
                                                             'vx_v2@ =~= nested_lens(fw@).subrange(0, it.index@ as int)'],
              'body_pre': 'proof { assert(*v == fw@[it.index@ as int]); }'},
          3: {'iter': 'it', 'elem_ty': 'usize', 'invariant': ['it.seq().len() == node_ids@.len()', 'forall|k: int| 0 <= k < node_ids@.len() ==> *it.seq()[k] == node_ids@[k]',
                                                             'vx_v3@ =~= ids(node_ids@).subrange(0, it.index@ as int)'],
              'body_pre': 'proof { assert(*n == node_ids@[it.index@ as int]); }'}},
   proofs=[('before:let fw_sizes =', '''assert forall|i: int| 0 <= i < fw@.len() implies (#[trigger] nested_lens(fw@)[i]) < fw_total + 1 by {
                lemma_psum_mono(nested_lens(fw@), 0, i); lemma_psum_mono(nested_lens(fw@), i + 1, fw@.len() as int);
                assert(psum(nested_lens(fw@), i + 1) == psum(nested_lens(fw@), i) + nested_lens(fw@)[i]);
            }'''),
           ('before:let node_count = fw.len();', '''assert(fw_sizes.table@ =~= nested_lens(fw@));'''),
           ('before:fw_sizes.injections(&f)', '''assert(f.table@ =~= ids(node_ids@));
            assert(in_bounds(ids(node_ids@), fw@.len() as int) <==> ids_ok(node_ids@, fw@.len() as int)) by {
                if ids_ok(node_ids@, fw@.len() as int) { assert forall|i: int| 0 <= i < node_ids@.len() implies ids(node_ids@)[i] < fw@.len() by { assert(node_ids@[i].0 < fw@.len()); } }
                if in_bounds(ids(node_ids@), fw@.len() as int) { assert forall|i: int| 0 <= i < node_ids@.len() implies (#[trigger] node_ids@[i]).0 < fw@.len() by { assert(ids(node_ids@)[i] < fw@.len()); } }
            }''')])

raw(r'''
/// C10, second sentence, composition, GENERAL operands (pending unifications allowed): the strictification of the lax composite is
/// isomorphic to ANY strict composite of the strictifications of the operands (node bijection, hyperedges in place).
/// Proof: sum of the two operand coequalizers, pasted with the pushout's coequalizer, is a coequalizer of all pending pairs of
/// the lax composite; so is the one `to_strict` computes; coequalizers of the same pairs differ by a bijection.
pub proof fn lemma_strict_lax_compose_general<O: Clone, A: Clone>(f: OpenHypergraph<O, A>, g: OpenHypergraph<O, A>, c: OpenHypergraph<O, A>,
        s: crate::open_hypergraph::OpenHypergraph<O, A>, sf: crate::open_hypergraph::OpenHypergraph<O, A>, sg: crate::open_hypergraph::OpenHypergraph<O, A>,
        r: crate::open_hypergraph::OpenHypergraph<O, A>) -> (phi: Seq<usize>)
    requires f.wf(), g.wf(), lawful_clone::<O>(), lawful_clone::<A>(),
        f.targets@.len() == g.sources@.len(),
        f.hypergraph.nodes@.len() + g.hypergraph.nodes@.len() <= usize::MAX,
        is_lax_compose(c, f, g), c.hypergraph.nodes@ =~= f.hypergraph.nodes@ + g.hypergraph.nodes@, c.hypergraph.edges@ =~= f.hypergraph.edges@ + g.hypergraph.edges@,
        is_strictification(s, c), is_strictification(sf, f), is_strictification(sg, g), sf.wf(), sg.wf(), s.wf(),
        is_pushout(sf, sg, r),
    ensures node_iso(r, s, phi)
{
    let nf = f.hypergraph.nodes@.len() as int; let ng = g.hypergraph.nodes@.len() as int; let nn = nf + ng; let m = f.hypergraph.adjacency@.len() as int;
    let (midf, qff) = choose|mid: OpenHypergraph<O, A>, q: FiniteFunction|
        #[trigger] is_quotient_of(f.hypergraph, mid.hypergraph, q) && mapped(f.sources@, mid.sources@, q.table@) && mapped(f.targets@, mid.targets@, q.table@)
        && is_strict_of(sf.h, mid.hypergraph) && sf.s.table@ =~= ids(mid.sources@) && sf.t.table@ =~= ids(mid.targets@)
        && (lawful_clone::<O>() ==> sf.h.w@ == mid.hypergraph.nodes@) && (lawful_clone::<A>() ==> sf.h.x@ == mid.hypergraph.edges@);
    let (midg, qgf) = choose|mid: OpenHypergraph<O, A>, q: FiniteFunction|
        #[trigger] is_quotient_of(g.hypergraph, mid.hypergraph, q) && mapped(g.sources@, mid.sources@, q.table@) && mapped(g.targets@, mid.targets@, q.table@)
        && is_strict_of(sg.h, mid.hypergraph) && sg.s.table@ =~= ids(mid.sources@) && sg.t.table@ =~= ids(mid.targets@)
        && (lawful_clone::<O>() ==> sg.h.w@ == mid.hypergraph.nodes@) && (lawful_clone::<A>() ==> sg.h.x@ == mid.hypergraph.edges@);
    let (midc, qcf) = choose|mid: OpenHypergraph<O, A>, q: FiniteFunction|
        #[trigger] is_quotient_of(c.hypergraph, mid.hypergraph, q) && mapped(c.sources@, mid.sources@, q.table@) && mapped(c.targets@, mid.targets@, q.table@)
        && is_strict_of(s.h, mid.hypergraph) && s.s.table@ =~= ids(mid.sources@) && s.t.table@ =~= ids(mid.targets@)
        && (lawful_clone::<O>() ==> s.h.w@ == mid.hypergraph.nodes@) && (lawful_clone::<A>() ==> s.h.x@ == mid.hypergraph.edges@);
    let qf = qff.table@; let kf = qff.target as int; let qg = qgf.table@; let kg = qgf.target as int; let qc = qcf.table@; let kc = qcf.target as int;
    let (qp, kp) = choose|q: Seq<usize>, k: int| is_coeq(q, k, glue_left(sf), glue_right(sf, sg), (sf.h.w@.len() + sg.h.w@.len()) as int) && #[trigger] is_quotient_of_jux(sf, sg, r, q, k);
    assert(sf.h.w@.len() == kf && sg.h.w@.len() == kg);
    assert(kf <= nf && kg <= ng) by {
        if nf == 0 && kf > 0 { assert(hit(qf, 0, 0)); } if ng == 0 && kg > 0 { assert(hit(qg, 0, 0)); }
        if kf > nf { lemma_surjection_small(qf, kf, nf); } if kg > ng { lemma_surjection_small(qg, kg, ng); }
    }
    // the pending pairs of f and g, as node numbers
    let fs0 = ids(f.hypergraph.quotient.0@); let ft0 = ids(f.hypergraph.quotient.1@); let gs0 = ids(g.hypergraph.quotient.0@); let gt0 = ids(g.hypergraph.quotient.1@);
    assert forall|j: int| 0 <= j < fs0.len() implies 0 <= #[trigger] fs0[j] < nf && 0 <= ft0[j] < nf by { assert(f.hypergraph.quotient.0@[j].0 < nf && f.hypergraph.quotient.1@[j].0 < nf); }
    assert forall|j: int| 0 <= j < gs0.len() implies 0 <= #[trigger] gs0[j] < ng && 0 <= gt0[j] < ng by { assert(g.hypergraph.quotient.0@[j].0 < ng && g.hypergraph.quotient.1@[j].0 < ng); }
    lemma_coeq_sum(qf, kf, fs0, ft0, nf, qg, kg, gs0, gt0, ng);
    let q1 = sum_map(qf, kf, qg);
    let s1 = fs0 + shifted(gs0, nf); let t1 = ft0 + shifted(gt0, nf);
    // boundary pairs, upstairs and downstairs
    let s2l = ids(f.targets@); let t2l = shifted(ids(g.sources@), nf);
    let s2 = glue_left(sf); let t2 = glue_right(sf, sg);
    assert forall|j: int| 0 <= j < s1.len() implies 0 <= #[trigger] s1[j] < nn && 0 <= t1[j] < nn by {
        if j < fs0.len() { assert(s1[j] == fs0[j] && t1[j] == ft0[j]); } else { assert(s1[j] == shifted(gs0, nf)[j - fs0.len()] && t1[j] == shifted(gt0, nf)[j - fs0.len()]); }
    }
    assert forall|j: int| 0 <= j < s2.len() implies 0 <= #[trigger] s2l[j] < nn && 0 <= t2l[j] < nn && q1[s2l[j] as int] == s2[j] && q1[t2l[j] as int] == t2[j] by {
        assert(f.targets@[j].0 < nf && g.sources@[j].0 < ng);
        assert(ids(midf.targets@)[j] == midf.targets@[j].0); assert(ids(midg.sources@)[j] == midg.sources@[j].0);
        assert(t2l[j] == nf + g.sources@[j].0);
    }
    lemma_coeq_paste(q1, kf + kg, s1, t1, nn, qp, kp, s2, t2, s2l, t2l);
    let qq = Seq::new(nn as nat, |a: int| qp[q1[a] as int]);
    // ... and those are the pending pairs of the lax composite
    let cs = ids(c.hypergraph.quotient.0@); let ct = ids(c.hypergraph.quotient.1@);
    assert(cs =~= s1 + s2l) by {
        assert forall|j: int| 0 <= j < cs.len() implies cs[j] == (s1 + s2l)[j] by {
            let l0 = fs0.len() as int; let l1 = gs0.len() as int;
            if j < l0 { } else if j < l0 + l1 { assert(shift_ids(g.hypergraph.quotient.0@, nf)[j - l0].0 == g.hypergraph.quotient.0@[j - l0].0 + nf); } else { }
        }
    }
    assert(ct =~= t1 + t2l) by {
        assert forall|j: int| 0 <= j < ct.len() implies ct[j] == (t1 + t2l)[j] by {
            let l0 = ft0.len() as int; let l1 = gt0.len() as int;
            if j < l0 { } else if j < l0 + l1 { assert(shift_ids(g.hypergraph.quotient.1@, nf)[j - l0].0 == g.hypergraph.quotient.1@[j - l0].0 + nf); }
            else { assert(shift_ids(g.sources@, nf)[j - l0 - l1].0 == g.sources@[j - l0 - l1].0 + nf); }
        }
    }
    let ss = s1 + s2l; let tt = t1 + t2l;
    assert forall|j: int| 0 <= j < ss.len() implies 0 <= #[trigger] ss[j] < nn && 0 <= tt[j] < nn by {
        if j < s1.len() { assert(ss[j] == s1[j] && tt[j] == t1[j]); } else { assert(ss[j] == s2l[j - s1.len()] && tt[j] == t2l[j - s1.len()]); }
    }
    lemma_coeq_unique(qq, kp, qc, kc, ss, tt, nn);
    if nn == 0 && kp > 0 { assert(hit(qq, 0, 0)); }
    if nn == 0 && kc > 0 { assert(hit(qc, 0, 0)); }
    let phi = lemma_factor_iso(qq, kp, ss, tt, nn, qc, kc);
    // what qq is on the two parts
    assert forall|a: int| 0 <= a < nf implies (#[trigger] qq[a]) == qp[qf[a] as int] by { }
    assert forall|a: int| 0 <= a < ng implies (#[trigger] qq[nf + a]) == qp[kf + qg[a]] by { }
    // labels
    assert forall|x: int| 0 <= x < kp implies s.h.w@[(#[trigger] phi[x]) as int] == r.h.w@[x] by {
        assert(hit(qq, x, nn));
        let a = choose|a: int| 0 <= a < nn && #[trigger] qq[a] == x;
        assert(phi[qq[a] as int] == qc[a]);
        assert(midc.hypergraph.nodes@[qc[a] as int] == c.hypergraph.nodes@[a]);
        assert(c.hypergraph.nodes@[a] == (f.hypergraph.nodes@ + g.hypergraph.nodes@)[a]);
        if a < nf { assert(qf[a] < kf); assert(r.h.w@[qp[qf[a] as int] as int] == jux_label(sf, sg, qf[a] as int)); assert(midf.hypergraph.nodes@[qf[a] as int] == f.hypergraph.nodes@[a]); }
        else { assert(qg[a - nf] < kg); assert(r.h.w@[qp[kf + qg[a - nf]] as int] == jux_label(sf, sg, kf + qg[a - nf])); assert(midg.hypergraph.nodes@[qg[a - nf] as int] == g.hypergraph.nodes@[a - nf]); }
    }
    // incidence
    let sl = src_lens(midc.hypergraph.adjacency@); let tl = tgt_lens(midc.hypergraph.adjacency@);
    let sfl = sf.h.s.sources.table@; let sgl = sg.h.s.sources.table@; let tfl = sf.h.t.sources.table@; let tgl = sg.h.t.sources.table@;
    assert(sfl =~= src_lens(midf.hypergraph.adjacency@) && sgl =~= src_lens(midg.hypergraph.adjacency@) && tfl =~= tgt_lens(midf.hypergraph.adjacency@) && tgl =~= tgt_lens(midg.hypergraph.adjacency@));
    assert(sl =~= sfl + sgl && tl =~= tfl + tgl) by {
        assert forall|j: int| 0 <= j < sl.len() implies sl[j] == (sfl + sgl)[j] && tl[j] == (tfl + tgl)[j] by {
            let e = midc.hypergraph.adjacency@[j]; let ce = c.hypergraph.adjacency@[j];
            assert(mapped(ce.sources@, e.sources@, qc) && mapped(ce.targets@, e.targets@, qc));
            if j < m { assert(ce.sources@ == f.hypergraph.adjacency@[j].sources@ && ce.targets@ == f.hypergraph.adjacency@[j].targets@);
                       assert(mapped(f.hypergraph.adjacency@[j].sources@, midf.hypergraph.adjacency@[j].sources@, qf) && mapped(f.hypergraph.adjacency@[j].targets@, midf.hypergraph.adjacency@[j].targets@, qf)); }
            else { let j2 = j - m; assert(c.hypergraph.adjacency@[m + j2].sources@ =~= shift_ids(g.hypergraph.adjacency@[j2].sources@, nf) && c.hypergraph.adjacency@[m + j2].targets@ =~= shift_ids(g.hypergraph.adjacency@[j2].targets@, nf));
                   assert(mapped(g.hypergraph.adjacency@[j2].sources@, midg.hypergraph.adjacency@[j2].sources@, qg) && mapped(g.hypergraph.adjacency@[j2].targets@, midg.hypergraph.adjacency@[j2].targets@, qg)); }
        }
    }
    let lf = sf.h.s.values.table@.len() as int; let lg = sg.h.s.values.table@.len() as int;
    let mf = sf.h.t.values.table@.len() as int; let mg = sg.h.t.values.table@.len() as int;
    lemma_psum_concat(sfl, sgl, sgl.len() as int); lemma_psum_concat(tfl, tgl, tgl.len() as int);
    assert(s.h.s.values.table@.len() == lf + lg && s.h.t.values.table@.len() == mf + mg);
    assert(r.h.s.values.table@.len() == lf + lg && r.h.t.values.table@.len() == mf + mg);
    assert forall|i: int| 0 <= i < lf + lg implies (#[trigger] s.h.s.values.table@[i]) == phi[r.h.s.values.table@[i] as int] by {
        if i < lf {
            let (j, kk) = lemma_seg_find(sfl, i);
            lemma_psum_prefix(sl, sfl, j); lemma_psum_prefix(sl, sfl, j + 1);
            assert(seg_at(sl, j, kk) == seg_at(sfl, j, kk));
            let x = f.hypergraph.adjacency@[j].sources@[kk].0 as int; assert(x < nf);
            assert(s.h.s.values.table@[seg_at(sl, j, kk)] == midc.hypergraph.adjacency@[j].sources@[kk].0);
            assert(mapped(c.hypergraph.adjacency@[j].sources@, midc.hypergraph.adjacency@[j].sources@, qc));
            assert(sf.h.s.values.table@[seg_at(sfl, j, kk)] == midf.hypergraph.adjacency@[j].sources@[kk].0);
            assert(mapped(f.hypergraph.adjacency@[j].sources@, midf.hypergraph.adjacency@[j].sources@, qf));
            assert(r.h.s.values.table@[i] == qp[sf.h.s.values.table@[i] as int]);
            assert(phi[qq[x] as int] == qc[x]);
        } else {
            let (j, kk) = lemma_seg_find(sgl, i - lf);
            lemma_psum_concat(sfl, sgl, j);
            assert(seg_at(sl, m + j, kk) == lf + seg_at(sgl, j, kk));
            let y = g.hypergraph.adjacency@[j].sources@[kk].0 as int; assert(y < ng);
            assert(s.h.s.values.table@[seg_at(sl, m + j, kk)] == midc.hypergraph.adjacency@[m + j].sources@[kk].0);
            assert(mapped(c.hypergraph.adjacency@[m + j].sources@, midc.hypergraph.adjacency@[m + j].sources@, qc));
            assert(c.hypergraph.adjacency@[m + j].sources@ =~= shift_ids(g.hypergraph.adjacency@[j].sources@, nf));
            assert(sg.h.s.values.table@[seg_at(sgl, j, kk)] == midg.hypergraph.adjacency@[j].sources@[kk].0);
            assert(mapped(g.hypergraph.adjacency@[j].sources@, midg.hypergraph.adjacency@[j].sources@, qg));
            assert(r.h.s.values.table@[i] == qp[kf + sg.h.s.values.table@[i - lf]]);
            assert(phi[qq[nf + y] as int] == qc[nf + y]);
        }
    }
    assert forall|i: int| 0 <= i < mf + mg implies (#[trigger] s.h.t.values.table@[i]) == phi[r.h.t.values.table@[i] as int] by {
        if i < mf {
            let (j, kk) = lemma_seg_find(tfl, i);
            lemma_psum_prefix(tl, tfl, j); lemma_psum_prefix(tl, tfl, j + 1);
            assert(seg_at(tl, j, kk) == seg_at(tfl, j, kk));
            let x = f.hypergraph.adjacency@[j].targets@[kk].0 as int; assert(x < nf);
            assert(s.h.t.values.table@[seg_at(tl, j, kk)] == midc.hypergraph.adjacency@[j].targets@[kk].0);
            assert(mapped(c.hypergraph.adjacency@[j].targets@, midc.hypergraph.adjacency@[j].targets@, qc));
            assert(sf.h.t.values.table@[seg_at(tfl, j, kk)] == midf.hypergraph.adjacency@[j].targets@[kk].0);
            assert(mapped(f.hypergraph.adjacency@[j].targets@, midf.hypergraph.adjacency@[j].targets@, qf));
            assert(r.h.t.values.table@[i] == qp[sf.h.t.values.table@[i] as int]);
            assert(phi[qq[x] as int] == qc[x]);
        } else {
            let (j, kk) = lemma_seg_find(tgl, i - mf);
            lemma_psum_concat(tfl, tgl, j);
            assert(seg_at(tl, m + j, kk) == mf + seg_at(tgl, j, kk));
            let y = g.hypergraph.adjacency@[j].targets@[kk].0 as int; assert(y < ng);
            assert(s.h.t.values.table@[seg_at(tl, m + j, kk)] == midc.hypergraph.adjacency@[m + j].targets@[kk].0);
            assert(mapped(c.hypergraph.adjacency@[m + j].targets@, midc.hypergraph.adjacency@[m + j].targets@, qc));
            assert(c.hypergraph.adjacency@[m + j].targets@ =~= shift_ids(g.hypergraph.adjacency@[j].targets@, nf));
            assert(sg.h.t.values.table@[seg_at(tgl, j, kk)] == midg.hypergraph.adjacency@[j].targets@[kk].0);
            assert(mapped(g.hypergraph.adjacency@[j].targets@, midg.hypergraph.adjacency@[j].targets@, qg));
            assert(r.h.t.values.table@[i] == qp[kf + sg.h.t.values.table@[i - mf]]);
            assert(phi[qq[nf + y] as int] == qc[nf + y]);
        }
    }
    // interfaces
    assert forall|i: int| 0 <= i < r.s.table@.len() implies (#[trigger] s.s.table@[i]) == phi[r.s.table@[i] as int] by {
        let x = f.sources@[i].0 as int; assert(x < nf);
        assert(ids(midc.sources@)[i] == midc.sources@[i].0); assert(ids(midf.sources@)[i] == midf.sources@[i].0);
        assert(r.s.table@[i] == qp[sf.s.table@[i] as int]);
        assert(phi[qq[x] as int] == qc[x]);
    }
    assert forall|i: int| 0 <= i < r.t.table@.len() implies (#[trigger] s.t.table@[i]) == phi[r.t.table@[i] as int] by {
        let y = g.targets@[i].0 as int; assert(y < ng);
        assert(ids(midc.targets@)[i] == midc.targets@[i].0); assert(ids(midg.targets@)[i] == midg.targets@[i].0);
        assert(shift_ids(g.targets@, nf)[i].0 == g.targets@[i].0 + nf);
        assert(r.t.table@[i] == qp[kf + sg.t.table@[i]]);
        assert(phi[qq[nf + y] as int] == qc[nf + y]);
    }
    assert(s.h.x@ =~= r.h.x@);
    assert(s.h.s.sources.table@ =~= r.h.s.sources.table@ && s.h.t.sources.table@ =~= r.h.t.sources.table@);
    phi
}

/// C10, second sentence, tensor, GENERAL operands: the strictification of the lax tensor is isomorphic to the strict tensor of the
/// strictifications (the sum of the operands' coequalizers is a coequalizer of the pending pairs of the lax tensor)
pub proof fn lemma_strict_lax_tensor_general<O: Clone, A: Clone>(f: OpenHypergraph<O, A>, g: OpenHypergraph<O, A>, c: OpenHypergraph<O, A>,
        s: crate::open_hypergraph::OpenHypergraph<O, A>, sf: crate::open_hypergraph::OpenHypergraph<O, A>, sg: crate::open_hypergraph::OpenHypergraph<O, A>,
        r: crate::open_hypergraph::OpenHypergraph<O, A>) -> (phi: Seq<usize>)
    requires f.wf(), g.wf(), lawful_clone::<O>(), lawful_clone::<A>(),
        f.hypergraph.nodes@.len() + g.hypergraph.nodes@.len() <= usize::MAX,
        is_lax_tensor(c, f, g), c.hypergraph.nodes@ =~= f.hypergraph.nodes@ + g.hypergraph.nodes@, c.hypergraph.edges@ =~= f.hypergraph.edges@ + g.hypergraph.edges@,
        is_strictification(s, c), is_strictification(sf, f), is_strictification(sg, g), sf.wf(), sg.wf(), s.wf(),
        is_tensor(r, sf, sg),
    ensures node_iso(r, s, phi)
{
    let nf = f.hypergraph.nodes@.len() as int; let ng = g.hypergraph.nodes@.len() as int; let nn = nf + ng; let m = f.hypergraph.adjacency@.len() as int;
    let (midf, qff) = choose|mid: OpenHypergraph<O, A>, q: FiniteFunction|
        #[trigger] is_quotient_of(f.hypergraph, mid.hypergraph, q) && mapped(f.sources@, mid.sources@, q.table@) && mapped(f.targets@, mid.targets@, q.table@)
        && is_strict_of(sf.h, mid.hypergraph) && sf.s.table@ =~= ids(mid.sources@) && sf.t.table@ =~= ids(mid.targets@)
        && (lawful_clone::<O>() ==> sf.h.w@ == mid.hypergraph.nodes@) && (lawful_clone::<A>() ==> sf.h.x@ == mid.hypergraph.edges@);
    let (midg, qgf) = choose|mid: OpenHypergraph<O, A>, q: FiniteFunction|
        #[trigger] is_quotient_of(g.hypergraph, mid.hypergraph, q) && mapped(g.sources@, mid.sources@, q.table@) && mapped(g.targets@, mid.targets@, q.table@)
        && is_strict_of(sg.h, mid.hypergraph) && sg.s.table@ =~= ids(mid.sources@) && sg.t.table@ =~= ids(mid.targets@)
        && (lawful_clone::<O>() ==> sg.h.w@ == mid.hypergraph.nodes@) && (lawful_clone::<A>() ==> sg.h.x@ == mid.hypergraph.edges@);
    let (midc, qcf) = choose|mid: OpenHypergraph<O, A>, q: FiniteFunction|
        #[trigger] is_quotient_of(c.hypergraph, mid.hypergraph, q) && mapped(c.sources@, mid.sources@, q.table@) && mapped(c.targets@, mid.targets@, q.table@)
        && is_strict_of(s.h, mid.hypergraph) && s.s.table@ =~= ids(mid.sources@) && s.t.table@ =~= ids(mid.targets@)
        && (lawful_clone::<O>() ==> s.h.w@ == mid.hypergraph.nodes@) && (lawful_clone::<A>() ==> s.h.x@ == mid.hypergraph.edges@);
    let qf = qff.table@; let kf = qff.target as int; let qg = qgf.table@; let kg = qgf.target as int; let qc = qcf.table@; let kc = qcf.target as int;
    assert(sf.h.w@.len() == kf && sg.h.w@.len() == kg);
    assert(kf <= nf && kg <= ng) by {
        if nf == 0 && kf > 0 { assert(hit(qf, 0, 0)); } if ng == 0 && kg > 0 { assert(hit(qg, 0, 0)); }
        if kf > nf { lemma_surjection_small(qf, kf, nf); } if kg > ng { lemma_surjection_small(qg, kg, ng); }
    }
    // the pending pairs of f and g, as node numbers
    let fs0 = ids(f.hypergraph.quotient.0@); let ft0 = ids(f.hypergraph.quotient.1@); let gs0 = ids(g.hypergraph.quotient.0@); let gt0 = ids(g.hypergraph.quotient.1@);
    assert forall|j: int| 0 <= j < fs0.len() implies 0 <= #[trigger] fs0[j] < nf && 0 <= ft0[j] < nf by { assert(f.hypergraph.quotient.0@[j].0 < nf && f.hypergraph.quotient.1@[j].0 < nf); }
    assert forall|j: int| 0 <= j < gs0.len() implies 0 <= #[trigger] gs0[j] < ng && 0 <= gt0[j] < ng by { assert(g.hypergraph.quotient.0@[j].0 < ng && g.hypergraph.quotient.1@[j].0 < ng); }
    lemma_coeq_sum(qf, kf, fs0, ft0, nf, qg, kg, gs0, gt0, ng);
    let q1 = sum_map(qf, kf, qg);
    let s1 = fs0 + shifted(gs0, nf); let t1 = ft0 + shifted(gt0, nf);
    let qq = q1; let kp = kf + kg;
    // ... and those are the pending pairs of the lax composite
    let cs = ids(c.hypergraph.quotient.0@); let ct = ids(c.hypergraph.quotient.1@);
    assert(cs =~= s1) by {
        assert forall|j: int| 0 <= j < cs.len() implies cs[j] == s1[j] by {
            let l0 = fs0.len() as int;
            if j >= l0 { assert(shift_ids(g.hypergraph.quotient.0@, nf)[j - l0].0 == g.hypergraph.quotient.0@[j - l0].0 + nf); }
        }
    }
    assert(ct =~= t1) by {
        assert forall|j: int| 0 <= j < ct.len() implies ct[j] == t1[j] by {
            let l0 = ft0.len() as int;
            if j >= l0 { assert(shift_ids(g.hypergraph.quotient.1@, nf)[j - l0].0 == g.hypergraph.quotient.1@[j - l0].0 + nf); }
        }
    }
    let ss = s1; let tt = t1;
    lemma_coeq_unique(qq, kp, qc, kc, ss, tt, nn);
    if nn == 0 && kp > 0 { assert(hit(qq, 0, 0)); }
    if nn == 0 && kc > 0 { assert(hit(qc, 0, 0)); }
    let phi = lemma_factor_iso(qq, kp, ss, tt, nn, qc, kc);
    // what qq is on the two parts
    assert forall|a: int| 0 <= a < nf implies (#[trigger] qq[a]) == qf[a] by { }
    assert forall|a: int| 0 <= a < ng implies (#[trigger] qq[nf + a]) == kf + qg[a] by { }
    // labels
    assert forall|x: int| 0 <= x < kp implies s.h.w@[(#[trigger] phi[x]) as int] == r.h.w@[x] by {
        assert(hit(qq, x, nn));
        let a = choose|a: int| 0 <= a < nn && #[trigger] qq[a] == x;
        assert(phi[qq[a] as int] == qc[a]);
        assert(midc.hypergraph.nodes@[qc[a] as int] == c.hypergraph.nodes@[a]);
        assert(c.hypergraph.nodes@[a] == (f.hypergraph.nodes@ + g.hypergraph.nodes@)[a]);
        if a < nf { assert(qf[a] < kf); assert(r.h.w@[qf[a] as int] == sf.h.w@[qf[a] as int]); assert(midf.hypergraph.nodes@[qf[a] as int] == f.hypergraph.nodes@[a]); }
        else { assert(qg[a - nf] < kg); assert(r.h.w@[kf + qg[a - nf]] == sg.h.w@[qg[a - nf] as int]); assert(midg.hypergraph.nodes@[qg[a - nf] as int] == g.hypergraph.nodes@[a - nf]); }
    }
    // incidence
    let sl = src_lens(midc.hypergraph.adjacency@); let tl = tgt_lens(midc.hypergraph.adjacency@);
    let sfl = sf.h.s.sources.table@; let sgl = sg.h.s.sources.table@; let tfl = sf.h.t.sources.table@; let tgl = sg.h.t.sources.table@;
    assert(sfl =~= src_lens(midf.hypergraph.adjacency@) && sgl =~= src_lens(midg.hypergraph.adjacency@) && tfl =~= tgt_lens(midf.hypergraph.adjacency@) && tgl =~= tgt_lens(midg.hypergraph.adjacency@));
    assert(sl =~= sfl + sgl && tl =~= tfl + tgl) by {
        assert forall|j: int| 0 <= j < sl.len() implies sl[j] == (sfl + sgl)[j] && tl[j] == (tfl + tgl)[j] by {
            let e = midc.hypergraph.adjacency@[j]; let ce = c.hypergraph.adjacency@[j];
            assert(mapped(ce.sources@, e.sources@, qc) && mapped(ce.targets@, e.targets@, qc));
            if j < m { assert(ce.sources@ == f.hypergraph.adjacency@[j].sources@ && ce.targets@ == f.hypergraph.adjacency@[j].targets@);
                       assert(mapped(f.hypergraph.adjacency@[j].sources@, midf.hypergraph.adjacency@[j].sources@, qf) && mapped(f.hypergraph.adjacency@[j].targets@, midf.hypergraph.adjacency@[j].targets@, qf)); }
            else { let j2 = j - m; assert(c.hypergraph.adjacency@[m + j2].sources@ =~= shift_ids(g.hypergraph.adjacency@[j2].sources@, nf) && c.hypergraph.adjacency@[m + j2].targets@ =~= shift_ids(g.hypergraph.adjacency@[j2].targets@, nf));
                   assert(mapped(g.hypergraph.adjacency@[j2].sources@, midg.hypergraph.adjacency@[j2].sources@, qg) && mapped(g.hypergraph.adjacency@[j2].targets@, midg.hypergraph.adjacency@[j2].targets@, qg)); }
        }
    }
    let lf = sf.h.s.values.table@.len() as int; let lg = sg.h.s.values.table@.len() as int;
    let mf = sf.h.t.values.table@.len() as int; let mg = sg.h.t.values.table@.len() as int;
    lemma_psum_concat(sfl, sgl, sgl.len() as int); lemma_psum_concat(tfl, tgl, tgl.len() as int);
    assert(s.h.s.values.table@.len() == lf + lg && s.h.t.values.table@.len() == mf + mg);
    assert(r.h.s.values.table@.len() == lf + lg && r.h.t.values.table@.len() == mf + mg);
    assert forall|i: int| 0 <= i < lf + lg implies (#[trigger] s.h.s.values.table@[i]) == phi[r.h.s.values.table@[i] as int] by {
        if i < lf {
            let (j, kk) = lemma_seg_find(sfl, i);
            lemma_psum_prefix(sl, sfl, j); lemma_psum_prefix(sl, sfl, j + 1);
            assert(seg_at(sl, j, kk) == seg_at(sfl, j, kk));
            let x = f.hypergraph.adjacency@[j].sources@[kk].0 as int; assert(x < nf);
            assert(s.h.s.values.table@[seg_at(sl, j, kk)] == midc.hypergraph.adjacency@[j].sources@[kk].0);
            assert(mapped(c.hypergraph.adjacency@[j].sources@, midc.hypergraph.adjacency@[j].sources@, qc));
            assert(sf.h.s.values.table@[seg_at(sfl, j, kk)] == midf.hypergraph.adjacency@[j].sources@[kk].0);
            assert(mapped(f.hypergraph.adjacency@[j].sources@, midf.hypergraph.adjacency@[j].sources@, qf));
            assert(r.h.s.values.table@[i] == sf.h.s.values.table@[i]);
            assert(phi[qq[x] as int] == qc[x]);
        } else {
            let (j, kk) = lemma_seg_find(sgl, i - lf);
            lemma_psum_concat(sfl, sgl, j);
            assert(seg_at(sl, m + j, kk) == lf + seg_at(sgl, j, kk));
            let y = g.hypergraph.adjacency@[j].sources@[kk].0 as int; assert(y < ng);
            assert(s.h.s.values.table@[seg_at(sl, m + j, kk)] == midc.hypergraph.adjacency@[m + j].sources@[kk].0);
            assert(mapped(c.hypergraph.adjacency@[m + j].sources@, midc.hypergraph.adjacency@[m + j].sources@, qc));
            assert(c.hypergraph.adjacency@[m + j].sources@ =~= shift_ids(g.hypergraph.adjacency@[j].sources@, nf));
            assert(sg.h.s.values.table@[seg_at(sgl, j, kk)] == midg.hypergraph.adjacency@[j].sources@[kk].0);
            assert(mapped(g.hypergraph.adjacency@[j].sources@, midg.hypergraph.adjacency@[j].sources@, qg));
            assert(sf.h.s.values.target == kf); assert(r.h.s.values.table@[i] == kf + sg.h.s.values.table@[i - lf]);
            assert(phi[qq[nf + y] as int] == qc[nf + y]);
        }
    }
    assert forall|i: int| 0 <= i < mf + mg implies (#[trigger] s.h.t.values.table@[i]) == phi[r.h.t.values.table@[i] as int] by {
        if i < mf {
            let (j, kk) = lemma_seg_find(tfl, i);
            lemma_psum_prefix(tl, tfl, j); lemma_psum_prefix(tl, tfl, j + 1);
            assert(seg_at(tl, j, kk) == seg_at(tfl, j, kk));
            let x = f.hypergraph.adjacency@[j].targets@[kk].0 as int; assert(x < nf);
            assert(s.h.t.values.table@[seg_at(tl, j, kk)] == midc.hypergraph.adjacency@[j].targets@[kk].0);
            assert(mapped(c.hypergraph.adjacency@[j].targets@, midc.hypergraph.adjacency@[j].targets@, qc));
            assert(sf.h.t.values.table@[seg_at(tfl, j, kk)] == midf.hypergraph.adjacency@[j].targets@[kk].0);
            assert(mapped(f.hypergraph.adjacency@[j].targets@, midf.hypergraph.adjacency@[j].targets@, qf));
            assert(r.h.t.values.table@[i] == sf.h.t.values.table@[i]);
            assert(phi[qq[x] as int] == qc[x]);
        } else {
            let (j, kk) = lemma_seg_find(tgl, i - mf);
            lemma_psum_concat(tfl, tgl, j);
            assert(seg_at(tl, m + j, kk) == mf + seg_at(tgl, j, kk));
            let y = g.hypergraph.adjacency@[j].targets@[kk].0 as int; assert(y < ng);
            assert(s.h.t.values.table@[seg_at(tl, m + j, kk)] == midc.hypergraph.adjacency@[m + j].targets@[kk].0);
            assert(mapped(c.hypergraph.adjacency@[m + j].targets@, midc.hypergraph.adjacency@[m + j].targets@, qc));
            assert(c.hypergraph.adjacency@[m + j].targets@ =~= shift_ids(g.hypergraph.adjacency@[j].targets@, nf));
            assert(sg.h.t.values.table@[seg_at(tgl, j, kk)] == midg.hypergraph.adjacency@[j].targets@[kk].0);
            assert(mapped(g.hypergraph.adjacency@[j].targets@, midg.hypergraph.adjacency@[j].targets@, qg));
            assert(sf.h.t.values.target == kf); assert(r.h.t.values.table@[i] == kf + sg.h.t.values.table@[i - mf]);
            assert(phi[qq[nf + y] as int] == qc[nf + y]);
        }
    }
    // interfaces
    assert forall|i: int| 0 <= i < r.s.table@.len() implies (#[trigger] s.s.table@[i]) == phi[r.s.table@[i] as int] by {
        assert(ids(midc.sources@)[i] == midc.sources@[i].0);
        if i < sf.s.table@.len() {
            let x = f.sources@[i].0 as int; assert(x < nf);
            assert(ids(midf.sources@)[i] == midf.sources@[i].0);
            assert(r.s.table@[i] == sf.s.table@[i]);
            assert(phi[qq[x] as int] == qc[x]);
        } else {
            let i2 = i - sf.s.table@.len(); let y = g.sources@[i2].0 as int; assert(y < ng);
            assert(ids(midg.sources@)[i2] == midg.sources@[i2].0);
            assert(shift_ids(g.sources@, nf)[i2].0 == g.sources@[i2].0 + nf);
            assert(r.s.table@[i] == kf + sg.s.table@[i2]);
            assert(phi[qq[nf + y] as int] == qc[nf + y]);
        }
    }
    assert forall|i: int| 0 <= i < r.t.table@.len() implies (#[trigger] s.t.table@[i]) == phi[r.t.table@[i] as int] by {
        assert(ids(midc.targets@)[i] == midc.targets@[i].0);
        if i < sf.t.table@.len() {
            let x = f.targets@[i].0 as int; assert(x < nf);
            assert(ids(midf.targets@)[i] == midf.targets@[i].0);
            assert(r.t.table@[i] == sf.t.table@[i]);
            assert(phi[qq[x] as int] == qc[x]);
        } else {
            let i2 = i - sf.t.table@.len(); let y = g.targets@[i2].0 as int; assert(y < ng);
            assert(ids(midg.targets@)[i2] == midg.targets@[i2].0);
            assert(shift_ids(g.targets@, nf)[i2].0 == g.targets@[i2].0 + nf);
            assert(r.t.table@[i] == kf + sg.t.table@[i2]);
            assert(phi[qq[nf + y] as int] == qc[nf + y]);
        }
    }
    assert(s.h.x@ =~= r.h.x@);
    assert(s.h.s.sources.table@ =~= r.h.s.sources.table@ && s.h.t.sources.table@ =~= r.h.t.sources.table@);
    phi
}
''')

raw(r'''
/// C10, second sentence, identity and spiders: the lax identity / spider is the image of the strict one under from_strict's relation,
/// so its strictification is the strict identity / spider renumbered by a node bijection (corollaries of lemma_roundtrip_open;
/// the lax symmetry is literally from_strict(strict twist), to which lemma_roundtrip_open applies as it stands)
pub proof fn lemma_strict_lax_spider<O: Clone, A: Clone>(l: OpenHypergraph<O, A>, r: crate::open_hypergraph::OpenHypergraph<O, A>, s: crate::open_hypergraph::OpenHypergraph<O, A>) -> (phi: Seq<usize>)
    requires r.wf(), lawful_clone::<O>(), lawful_clone::<A>(),
        // r is a strict spider (no hyperedges), l the lax spider with the same legs and labels (the postconditions of the two `spider`s)
        r.h.x@.len() == 0 && r.h.s.sources.table@.len() == 0 && r.h.t.sources.table@.len() == 0,
        l.hypergraph.nodes@ == r.h.w@ && l.hypergraph.edges@.len() == 0 && l.hypergraph.adjacency@.len() == 0
            && l.hypergraph.quotient.0@.len() == 0 && l.hypergraph.quotient.1@.len() == 0,
        ids(l.sources@) =~= r.s.table@ && ids(l.targets@) =~= r.t.table@,
        is_strictification(s, l),
    ensures node_iso(r, s, phi)
{
    assert(l.hypergraph.edges@ =~= r.h.x@);
    assert(is_lax_of(l.hypergraph, r.h));
    lemma_roundtrip_open(r, l, s)
}
''')

raw(r'''
/// C10, second sentence, dagger: strictification commutes with the dagger up to a node bijection (both strictifications quotient by
/// coequalizers of the same pending pairs)
pub proof fn lemma_strict_lax_dagger<O: Clone, A: Clone>(l: OpenHypergraph<O, A>, ld: OpenHypergraph<O, A>,
        s: crate::open_hypergraph::OpenHypergraph<O, A>, sd: crate::open_hypergraph::OpenHypergraph<O, A>, d: crate::open_hypergraph::OpenHypergraph<O, A>) -> (phi: Seq<usize>)
    requires l.wf(), lawful_clone::<O>(), lawful_clone::<A>(), l.hypergraph.nodes@.len() <= usize::MAX,
        // ld is the lax dagger of l (postcondition of the lax `dagger`)
        ld.sources@ == l.targets@ && ld.targets@ == l.sources@ && ld.hypergraph.adjacency@ == l.hypergraph.adjacency@
            && ld.hypergraph.quotient.0@ == l.hypergraph.quotient.0@ && ld.hypergraph.quotient.1@ == l.hypergraph.quotient.1@
            && ld.hypergraph.nodes@ == l.hypergraph.nodes@ && ld.hypergraph.edges@ == l.hypergraph.edges@,
        is_strictification(s, l), is_strictification(sd, ld), s.wf(), is_dagger(d, s),
    ensures node_iso(d, sd, phi)
{
    let n = l.hypergraph.nodes@.len() as int;
    let (mid, qf) = choose|mid: OpenHypergraph<O, A>, q: FiniteFunction|
        #[trigger] is_quotient_of(l.hypergraph, mid.hypergraph, q) && mapped(l.sources@, mid.sources@, q.table@) && mapped(l.targets@, mid.targets@, q.table@)
        && is_strict_of(s.h, mid.hypergraph) && s.s.table@ =~= ids(mid.sources@) && s.t.table@ =~= ids(mid.targets@)
        && (lawful_clone::<O>() ==> s.h.w@ == mid.hypergraph.nodes@) && (lawful_clone::<A>() ==> s.h.x@ == mid.hypergraph.edges@);
    let (midd, qdf) = choose|mid: OpenHypergraph<O, A>, q: FiniteFunction|
        #[trigger] is_quotient_of(ld.hypergraph, mid.hypergraph, q) && mapped(ld.sources@, mid.sources@, q.table@) && mapped(ld.targets@, mid.targets@, q.table@)
        && is_strict_of(sd.h, mid.hypergraph) && sd.s.table@ =~= ids(mid.sources@) && sd.t.table@ =~= ids(mid.targets@)
        && (lawful_clone::<O>() ==> sd.h.w@ == mid.hypergraph.nodes@) && (lawful_clone::<A>() ==> sd.h.x@ == mid.hypergraph.edges@);
    let q = qf.table@; let k = qf.target as int; let q2 = qdf.table@; let k2 = qdf.target as int;
    let ps = ids(l.hypergraph.quotient.0@); let pt = ids(l.hypergraph.quotient.1@);
    assert forall|j: int| 0 <= j < ps.len() implies 0 <= #[trigger] ps[j] < n && 0 <= pt[j] < n by { assert(l.hypergraph.quotient.0@[j].0 < n && l.hypergraph.quotient.1@[j].0 < n); }
    lemma_coeq_unique(q, k, q2, k2, ps, pt, n);
    if n == 0 && k > 0 { assert(hit(q, 0, 0)); }
    if n == 0 && k2 > 0 { assert(hit(q2, 0, 0)); }
    let phi = lemma_factor_iso(q, k, ps, pt, n, q2, k2);
    assert forall|x: int| 0 <= x < k implies sd.h.w@[(#[trigger] phi[x]) as int] == d.h.w@[x] by {
        assert(hit(q, x, n));
        let a = choose|a: int| 0 <= a < n && #[trigger] q[a] == x;
        assert(phi[q[a] as int] == q2[a]);
        assert(mid.hypergraph.nodes@[q[a] as int] == l.hypergraph.nodes@[a] && midd.hypergraph.nodes@[q2[a] as int] == ld.hypergraph.nodes@[a]);
    }
    let sl = src_lens(mid.hypergraph.adjacency@); let tl = tgt_lens(mid.hypergraph.adjacency@);
    let sl2 = src_lens(midd.hypergraph.adjacency@); let tl2 = tgt_lens(midd.hypergraph.adjacency@);
    assert(sl =~= sl2 && tl =~= tl2) by {
        assert forall|j: int| 0 <= j < sl.len() implies sl[j] == sl2[j] && tl[j] == tl2[j] by {
            assert(mapped(l.hypergraph.adjacency@[j].sources@, mid.hypergraph.adjacency@[j].sources@, q) && mapped(l.hypergraph.adjacency@[j].targets@, mid.hypergraph.adjacency@[j].targets@, q));
            assert(mapped(ld.hypergraph.adjacency@[j].sources@, midd.hypergraph.adjacency@[j].sources@, q2) && mapped(ld.hypergraph.adjacency@[j].targets@, midd.hypergraph.adjacency@[j].targets@, q2));
        }
    }
    assert forall|i: int| 0 <= i < d.h.s.values.table@.len() implies (#[trigger] sd.h.s.values.table@[i]) == phi[d.h.s.values.table@[i] as int] by {
        let (j, kk) = lemma_seg_find(sl, i);
        let x = l.hypergraph.adjacency@[j].sources@[kk].0 as int; assert(x < n);
        assert(s.h.s.values.table@[seg_at(sl, j, kk)] == mid.hypergraph.adjacency@[j].sources@[kk].0);
        assert(sd.h.s.values.table@[seg_at(sl2, j, kk)] == midd.hypergraph.adjacency@[j].sources@[kk].0);
        assert(mapped(l.hypergraph.adjacency@[j].sources@, mid.hypergraph.adjacency@[j].sources@, q));
        assert(mapped(ld.hypergraph.adjacency@[j].sources@, midd.hypergraph.adjacency@[j].sources@, q2));
        assert(phi[q[x] as int] == q2[x]);
    }
    assert forall|i: int| 0 <= i < d.h.t.values.table@.len() implies (#[trigger] sd.h.t.values.table@[i]) == phi[d.h.t.values.table@[i] as int] by {
        let (j, kk) = lemma_seg_find(tl, i);
        let x = l.hypergraph.adjacency@[j].targets@[kk].0 as int; assert(x < n);
        assert(s.h.t.values.table@[seg_at(tl, j, kk)] == mid.hypergraph.adjacency@[j].targets@[kk].0);
        assert(sd.h.t.values.table@[seg_at(tl2, j, kk)] == midd.hypergraph.adjacency@[j].targets@[kk].0);
        assert(mapped(l.hypergraph.adjacency@[j].targets@, mid.hypergraph.adjacency@[j].targets@, q));
        assert(mapped(ld.hypergraph.adjacency@[j].targets@, midd.hypergraph.adjacency@[j].targets@, q2));
        assert(phi[q[x] as int] == q2[x]);
    }
    assert forall|i: int| 0 <= i < d.s.table@.len() implies (#[trigger] sd.s.table@[i]) == phi[d.s.table@[i] as int] by {
        let x = l.targets@[i].0 as int; assert(x < n);
        assert(ids(mid.targets@)[i] == mid.targets@[i].0); assert(ids(midd.sources@)[i] == midd.sources@[i].0);
        assert(phi[q[x] as int] == q2[x]);
    }
    assert forall|i: int| 0 <= i < d.t.table@.len() implies (#[trigger] sd.t.table@[i]) == phi[d.t.table@[i] as int] by {
        let x = l.sources@[i].0 as int; assert(x < n);
        assert(ids(mid.sources@)[i] == mid.sources@[i].0); assert(ids(midd.targets@)[i] == midd.targets@[i].0);
        assert(phi[q[x] as int] == q2[x]);
    }
    assert(sd.h.x@ =~= d.h.x@);
    assert(sd.h.s.sources.table@ =~= d.h.s.sources.table@ && sd.h.t.sources.table@ =~= d.h.t.sources.table@);
    phi
}
''')

raw(r'''
/// C10, second sentence, singleton: the strictified lax singleton is the strict singleton renumbered by a node bijection
/// (the two postconditions describe the same data; corollary of lemma_roundtrip_open)
pub proof fn lemma_strict_lax_singleton<O: Clone, A: Clone>(l: OpenHypergraph<O, A>, r: crate::open_hypergraph::OpenHypergraph<O, A>, s: crate::open_hypergraph::OpenHypergraph<O, A>,
        x: A, a: Seq<O>, b: Seq<O>) -> (phi: Seq<usize>)
    requires r.wf(), lawful_clone::<O>(), lawful_clone::<A>(),
        // the postcondition of the strict singleton
        r.h.x@.len() == 1 && r.h.x@[0] == x && r.h.w@ == a + b
            && r.h.s.sources.table@ =~= seq![a.len() as usize] && r.h.t.sources.table@ =~= seq![b.len() as usize]
            && r.s.table@.len() == a.len() && (forall|i: int| 0 <= i < a.len() ==> (#[trigger] r.s.table@[i]) == i) && (forall|i: int| 0 <= i < a.len() ==> (#[trigger] r.h.s.values.table@[i]) == i)
            && r.t.table@.len() == b.len() && (forall|i: int| 0 <= i < b.len() ==> (#[trigger] r.t.table@[i]) == a.len() + i) && (forall|i: int| 0 <= i < b.len() ==> (#[trigger] r.h.t.values.table@[i]) == a.len() + i)
            && r.h.s.values.table@.len() == a.len() && r.h.t.values.table@.len() == b.len(),
        // the postcondition of the lax singleton
        l.hypergraph.nodes@ =~= a + b && l.hypergraph.edges@ =~= seq![x] && l.hypergraph.adjacency@.len() == 1
            && l.hypergraph.quotient.0@.len() == 0 && l.hypergraph.quotient.1@.len() == 0
            && l.sources@.len() == a.len() && (forall|i: int| 0 <= i < a.len() ==> (#[trigger] l.sources@[i]).0 == i)
            && l.targets@.len() == b.len() && (forall|i: int| 0 <= i < b.len() ==> (#[trigger] l.targets@[i]).0 == a.len() + i)
            && l.hypergraph.adjacency@[0].sources@ == l.sources@ && l.hypergraph.adjacency@[0].targets@ == l.targets@,
        a.len() + b.len() < usize::MAX,
        is_strictification(s, l),
    ensures node_iso(r, s, phi)
{
    let ss = r.h.s.sources.table@; let ts = r.h.t.sources.table@;
    assert(l.hypergraph.edges@ =~= r.h.x@);
    assert(psum(ss, 0) == 0 && psum(ts, 0) == 0);
    assert forall|i: int, j: int| 0 <= i < 1 && 0 <= j < ss[i] implies l.hypergraph.adjacency@[i].sources@[j].0 == r.h.s.values.table@[#[trigger] seg_at(ss, i, j)] by {
        assert(i == 0 && seg_at(ss, 0, j) == j); assert(l.sources@[j].0 == j); assert(r.h.s.values.table@[j] == j);
    }
    assert forall|i: int, j: int| 0 <= i < 1 && 0 <= j < ts[i] implies l.hypergraph.adjacency@[i].targets@[j].0 == r.h.t.values.table@[#[trigger] seg_at(ts, i, j)] by {
        assert(i == 0 && seg_at(ts, 0, j) == j); assert(l.targets@[j].0 == a.len() + j); assert(r.h.t.values.table@[j] == a.len() + j);
    }
    assert(is_lax_of(l.hypergraph, r.h));
    assert(ids(l.sources@) =~= r.s.table@ && ids(l.targets@) =~= r.t.table@);
    lemma_roundtrip_open(r, l, s)
}
''')
