# lax/hypergraph.rs, lax/open_hypergraph.rs: quotienting a lax diagram (C09).  The two `quotient` functions and
# `coequalizer` are extracted and proved; loops over `&mut` collections and `iter_mut().for_each(..)` become index loops
# binding the same name to `&mut V[i]` (rule T15), `.iter().map(|x| x.0).collect()` becomes a loop (rule T9).
# The module is not re-exported at the top level (its Hypergraph / OpenHypergraph are the lax types).
LH = 'src/lax/hypergraph.rs'
LO = 'src/lax/open_hypergraph.rs'

module('lax', uses=['std::mem::take'], export=False)

raw(r'''
// std::mem::take: the old value is returned; nothing is assumed about what is left behind (every caller below overwrites it)
pub assume_specification<T: Default>[core::mem::take::<T>](dest: &mut T) -> (r: T)
    ensures r == *old(dest);
''', tag='T:mem-take')

typedef(LH, 'NodeId', rules={'keep_derive': ['Clone', 'Copy', 'PartialEq', 'Eq']})
typedef(LH, 'EdgeId', rules={'keep_derive': ['Clone', 'Copy', 'PartialEq', 'Eq']})
typedef(LH, 'Hyperedge')
typedef(LH, 'Hypergraph')
typedef(LO, 'OpenHypergraph')

raw(r'''
/// the node numbers behind a list of node ids
pub open spec fn ids(v: Seq<NodeId>) -> Seq<usize> { Seq::new(v.len(), |i: int| v[i].0) }
pub open spec fn ids_ok(v: Seq<NodeId>, n: int) -> bool { forall|i: int| 0 <= i < v.len() ==> (#[trigger] v[i]).0 < n }
/// w is v with every node reference replaced by its image under q
pub open spec fn mapped(v: Seq<NodeId>, w: Seq<NodeId>, q: Seq<usize>) -> bool {
    w.len() == v.len() && forall|i: int| 0 <= i < v.len() ==> (#[trigger] w[i]).0 == q[v[i].0 as int]
}

impl<O, A> Hypergraph<O, A> {
    /// every node reference (hyperedge sources and targets, pending unifications) names an existing node,
    /// one adjacency entry per hyperedge label, unification pairs come in pairs
    pub open spec fn wf(&self) -> bool {
        let n = self.nodes@.len() as int;
        &&& self.edges@.len() == self.adjacency@.len()
        &&& self.quotient.0@.len() == self.quotient.1@.len()
        &&& ids_ok(self.quotient.0@, n) && ids_ok(self.quotient.1@, n)
        &&& forall|j: int| 0 <= j < self.adjacency@.len() ==> ids_ok((#[trigger] self.adjacency@[j]).sources@, n) && ids_ok(self.adjacency@[j].targets@, n)
    }
}
impl<O, A> OpenHypergraph<O, A> {
    pub open spec fn wf(&self) -> bool {
        self.hypergraph.wf() && ids_ok(self.sources@, self.hypergraph.nodes@.len() as int) && ids_ok(self.targets@, self.hypergraph.nodes@.len() as int)
    }
}

/// C09: `new` is `old` quotiented by q: q is a coequalizer of the recorded unification pairs (its fibres are exactly their
/// connected components); every node reference is replaced by its image; hyperedges, their labels and their order are
/// untouched; every new node carries the label of its fibre; the pending unifications are cleared
pub open spec fn is_quotient_of<O, A>(old: Hypergraph<O, A>, new: Hypergraph<O, A>, q: FiniteFunction) -> bool {
    let n = old.nodes@.len() as int;
    &&& is_coeq(q.table@, q.target as int, ids(old.quotient.0@), ids(old.quotient.1@), n)
    &&& q.wf()
    &&& new.nodes@.len() == q.target
    &&& (forall|i: int| 0 <= i < n ==> new.nodes@[q.table@[i] as int] == old.nodes@[i])
    &&& new.edges@ == old.edges@
    &&& new.adjacency@.len() == old.adjacency@.len()
    &&& (forall|j: int| 0 <= j < old.adjacency@.len() ==> mapped(old.adjacency@[j].sources@, (#[trigger] new.adjacency@[j]).sources@, q.table@)
            && mapped(old.adjacency@[j].targets@, new.adjacency@[j].targets@, q.table@))
    &&& new.quotient.0@.len() == 0 && new.quotient.1@.len() == 0
}
''')

raw(r'''
/// a coequalizer of NO pairs identifies nothing: it is a bijection (a renumbering of the nodes)
pub proof fn lemma_coeq_empty(q: Seq<usize>, k: int, s: Seq<usize>, t: Seq<usize>, n: int)
    requires is_coeq(q, k, s, t, n), s.len() == 0, t.len() == 0, 0 <= k, 0 <= n <= usize::MAX
    ensures injective(q), k == n
{
    let r = |a: int, b: int| a == b;
    assert(compat(r, s, t, n));
    assert forall|a: int, b: int| 0 <= a < n && 0 <= b < n && a != b implies q[a] != q[b] by { if q[a] == q[b] { assert(r(a, b)); } }
    let h = Seq::new(n as nat, |a: int| a as usize);
    assert forall|c: int| 0 <= c < n implies #[trigger] hit(h, c, n) by { assert(h[c] == c); }
    let phi = lemma_factor_iso(q, k, s, t, n, h, n);
}
''')

group('impl<O: Clone, A: Clone> Hypergraph<O, A>')
fn(LH, 'coequalizer', self_ty='Hypergraph', status='P', props=['C09'], rules={'t9': True},
   requires=['self.wf()'],
   ensures=[('C09.coequalizer', 'is_coeq(r.table@, r.target as int, ids(self.quotient.0@), ids(self.quotient.1@), self.nodes@.len() as int) && r.wf() && r.table@.len() == self.nodes@.len() && r.target <= self.nodes@.len()')],
   loops={1: {'iter': 'it', 'invariant': ['vx_v1@.len() == it.index@', 'forall|k: int| 0 <= k < it.index@ ==> vx_v1@[k] == self.quotient.0@[k].0']},
          2: {'iter': 'it', 'invariant': ['vx_v2@.len() == it.index@', 'forall|k: int| 0 <= k < it.index@ ==> vx_v2@[k] == self.quotient.1@[k].0']}},
   proofs=[('before:s.coequalizer(&t)', '''assert(s.table@ =~= ids(self.quotient.0@) && t.table@ =~= ids(self.quotient.1@));''')])
endgroup()

group('impl<O: Clone + PartialEq, A: Clone> Hypergraph<O, A>')
fn(LH, 'quotient', self_ty='Hypergraph', status='P', props=['C09'], rules={'t15': True},
   requires=['old(self).wf()', 'lawful_clone::<O>()', 'lawful_eq::<O>()'],
   ensures=[('C09.quotient-ok', 'match r { Ok(q) => is_quotient_of(*old(self), *final(self), q), Err(_) => true }'),
            ('C09.quotient-err-unchanged', '''match r { Ok(_) => true, Err(q) => final(self).nodes@ == old(self).nodes@ && final(self).edges@ == old(self).edges@
                && final(self).adjacency@ == old(self).adjacency@ && final(self).quotient == old(self).quotient
                && is_coeq(q.table@, q.target as int, ids(old(self).quotient.0@), ids(old(self).quotient.1@), old(self).nodes@.len() as int) }'''),
            ('C09.quotient-fails-iff', '''({ let q = match r { Ok(q) => q, Err(q) => q }; r.is_err() <==> !constant_on_fibres(q.table@, old(self).nodes@) })'''),
            ('C09.quotient-wf', 'r.is_ok() ==> final(self).wf()'),
            ('C09.quotient-idempotent', '''old(self).quotient.0@.len() == 0 ==> match r { Ok(q) => injective(q.table@) && q.target == old(self).nodes@.len(), Err(_) => false }''')],
   loops={1: {'invariant': ['self.adjacency@.len() == adj0.len()', '0 <= vx_j1 <= adj0.len()', 'q.wf()', 'q.table@.len() == n0', 'self.nodes@ == nodes1',
                            'self.edges@ == old(self).edges@', 'self.quotient == old(self).quotient',
                            'forall|j: int| 0 <= j < vx_j1 ==> mapped(adj0[j].sources@, (#[trigger] self.adjacency@[j]).sources@, q.table@) && mapped(adj0[j].targets@, self.adjacency@[j].targets@, q.table@)',
                            'forall|j: int| vx_j1 <= j < adj0.len() ==> (#[trigger] self.adjacency@[j]) == adj0[j]',
                            'forall|j: int| 0 <= j < adj0.len() ==> ids_ok((#[trigger] adj0[j]).sources@, n0) && ids_ok(adj0[j].targets@, n0)'],
              'decreases': 'adj0.len() - vx_j1'}},
   closures={1: {'t15': True, 'invariant': ['e.targets@ == tgt0', 'e.sources@.len() == src0.len()', '0 <= vx_c1 <= src0.len()', 'ids_ok(src0, q.table@.len() as int)',
                                           'forall|i: int| 0 <= i < vx_c1 ==> (#[trigger] e.sources@[i]).0 == q.table@[src0[i].0 as int]',
                                           'forall|i: int| vx_c1 <= i < src0.len() ==> (#[trigger] e.sources@[i]) == src0[i]'],
                 'decreases': 'src0.len() - vx_c1', 'body_pre': 'proof { assert(src0[vx_c1 as int].0 < q.table@.len()); }'},
             2: {'t15': True, 'invariant': ['e.sources@ == src1', 'e.targets@.len() == tgt0.len()', '0 <= vx_c2 <= tgt0.len()', 'ids_ok(tgt0, q.table@.len() as int)',
                                           'forall|i: int| 0 <= i < vx_c2 ==> (#[trigger] e.targets@[i]).0 == q.table@[tgt0[i].0 as int]',
                                           'forall|i: int| vx_c2 <= i < tgt0.len() ==> (#[trigger] e.targets@[i]) == tgt0[i]'],
                 'decreases': 'tgt0.len() - vx_c2', 'body_pre': 'proof { assert(tgt0[vx_c2 as int].0 < q.table@.len()); }'}},
   proofs=[('after:let q = self.coequalizer();', '''if old(self).quotient.0@.len() == 0 {
                vstd::std_specs::vec::axiom_spec_len(&old(self).nodes);
                lemma_coeq_empty(q.table@, q.target as int, ids(old(self).quotient.0@), ids(old(self).quotient.1@), old(self).nodes@.len() as int);
            }'''),
           G('before:for e in &mut self.adjacency', 'let ghost adj0 = self.adjacency@; let ghost n0 = old(self).nodes@.len() as int; let ghost nodes1 = self.nodes@;'),
           G('before:e.sources.iter_mut().for_each', 'let ghost src0 = e.sources@; let ghost tgt0 = e.targets@; proof { assert(ids_ok(adj0[vx_j1 as int].sources@, n0) && ids_ok(adj0[vx_j1 as int].targets@, n0)); }'),
           G('before:e.targets.iter_mut().for_each', 'let ghost src1 = e.sources@;')])
endgroup()

group('impl<O: Clone + PartialEq, A: Clone> OpenHypergraph<O, A>')
fn(LO, 'quotient', self_ty='OpenHypergraph', status='P', props=['C09'], rules={'t15': True},
   requires=['old(self).wf()', 'lawful_clone::<O>()', 'lawful_eq::<O>()'],
   ensures=[('C09.open-quotient-ok', '''match r { Ok(q) => is_quotient_of(old(self).hypergraph, final(self).hypergraph, q)
                && mapped(old(self).sources@, final(self).sources@, q.table@) && mapped(old(self).targets@, final(self).targets@, q.table@), Err(_) => true }'''),
            ('C09.open-quotient-err-unchanged', '''match r { Ok(_) => true, Err(q) => final(self).sources@ == old(self).sources@ && final(self).targets@ == old(self).targets@
                && final(self).hypergraph.nodes@ == old(self).hypergraph.nodes@ && final(self).hypergraph.edges@ == old(self).hypergraph.edges@
                && final(self).hypergraph.adjacency@ == old(self).hypergraph.adjacency@ && final(self).hypergraph.quotient == old(self).hypergraph.quotient
                && is_coeq(q.table@, q.target as int, ids(old(self).hypergraph.quotient.0@), ids(old(self).hypergraph.quotient.1@), old(self).hypergraph.nodes@.len() as int) }'''),
            ('C09.open-quotient-fails-iff', '''({ let q = match r { Ok(q) => q, Err(q) => q }; r.is_err() <==> !constant_on_fibres(q.table@, old(self).hypergraph.nodes@) })'''),
            ('C09.open-quotient-wf', 'r.is_ok() ==> final(self).wf()'),
            ('C09.open-quotient-idempotent', '''old(self).hypergraph.quotient.0@.len() == 0 ==> match r { Ok(q) => injective(q.table@) && q.target == old(self).hypergraph.nodes@.len(), Err(_) => false }''')],
   closures={1: {'t15': True, 'invariant': ['self.targets@ == old(self).targets@', 'self.hypergraph == hg1', 'self.sources@.len() == src0.len()', '0 <= vx_c1 <= src0.len()', 'ids_ok(src0, q.table@.len() as int)', 'q.wf()',
                                           'forall|i: int| 0 <= i < vx_c1 ==> (#[trigger] self.sources@[i]).0 == q.table@[src0[i].0 as int]',
                                           'forall|i: int| vx_c1 <= i < src0.len() ==> (#[trigger] self.sources@[i]) == src0[i]'],
                 'decreases': 'src0.len() - vx_c1', 'body_pre': 'proof { assert(src0[vx_c1 as int].0 < q.table@.len()); }'},
             2: {'t15': True, 'invariant': ['self.sources@ == src1', 'self.hypergraph == hg1', 'self.targets@.len() == tgt0.len()', '0 <= vx_c2 <= tgt0.len()', 'ids_ok(tgt0, q.table@.len() as int)', 'q.wf()',
                                           'forall|i: int| 0 <= i < vx_c2 ==> (#[trigger] self.targets@[i]).0 == q.table@[tgt0[i].0 as int]',
                                           'forall|i: int| vx_c2 <= i < tgt0.len() ==> (#[trigger] self.targets@[i]) == tgt0[i]'],
                 'decreases': 'tgt0.len() - vx_c2', 'body_pre': 'proof { assert(tgt0[vx_c2 as int].0 < q.table@.len()); }'}},
   proofs=[G('before:self.sources', 'let ghost src0 = self.sources@; let ghost tgt0 = self.targets@; let ghost hg1 = self.hypergraph;'),
           G('before:self.targets', 'let ghost src1 = self.sources@;')])
endgroup()

# ---------------------------------------------------------------------------------------------
# C11: the builder calls that do not delete anything, against the plain list model -- the struct IS the list model
# (node labels, edge labels, one (sources, targets) pair per edge, two lists of pending unifications), so each contract
# states the new lists exactly and frames everything else.
# ---------------------------------------------------------------------------------------------
group('impl<O, A> Hypergraph<O, A>')
fn(LH, 'empty', self_ty='Hypergraph', status='P', props=['C11'],
   ensures=[('C11.empty', 'r.nodes@.len() == 0 && r.edges@.len() == 0 && r.adjacency@.len() == 0 && r.quotient.0@.len() == 0 && r.quotient.1@.len() == 0 && r.wf()')])
fn(LH, 'is_strict', self_ty='Hypergraph', status='P', props=['C11', 'C13'],
   ensures=[('C11.is_strict', 'r <==> self.quotient.0@.len() == 0')])
fn(LH, 'discrete', self_ty='Hypergraph', status='P', props=['C11'],
   ensures=[('C11.discrete', 'r.nodes == nodes && r.edges@.len() == 0 && r.adjacency@.len() == 0 && r.quotient.0@.len() == 0 && r.quotient.1@.len() == 0 && r.wf()')])
fn(LH, 'new_node', self_ty='Hypergraph', status='P', props=['C11'],
   ensures=[('C11.new_node', '''r.0 == old(self).nodes@.len() && final(self).nodes@ == old(self).nodes@.push(w)
                && final(self).edges == old(self).edges && final(self).adjacency == old(self).adjacency && final(self).quotient == old(self).quotient'''),
            ('C11.new_node-wf', 'old(self).wf() ==> final(self).wf()')])
fn(LH, 'new_edge', self_ty='Hypergraph', status='P', props=['C11'],
   ensures=[('C11.new_edge', '''r.0 == old(self).edges@.len() && final(self).edges@ == old(self).edges@.push(x)
                && final(self).adjacency@.len() == old(self).adjacency@.len() + 1 && final(self).adjacency@.subrange(0, old(self).adjacency@.len() as int) == old(self).adjacency@
                && final(self).nodes == old(self).nodes && final(self).quotient == old(self).quotient''')])
fn(LH, 'unify', self_ty='Hypergraph', status='P', props=['C11'],
   ensures=[('C11.unify', '''final(self).quotient.0@ == old(self).quotient.0@.push(v) && final(self).quotient.1@ == old(self).quotient.1@.push(w)
                && final(self).nodes == old(self).nodes && final(self).edges == old(self).edges && final(self).adjacency == old(self).adjacency'''),
            ('C11.unify-wf', 'old(self).wf() && v.0 < old(self).nodes@.len() && w.0 < old(self).nodes@.len() ==> final(self).wf()')])
fn(LH, 'add_edge_source', self_ty='Hypergraph', status='P', props=['C11'],
   requires=['edge_id.0 < old(self).adjacency@.len()'],
   ensures=[('C11.add_edge_source', '''r.0 == old(self).nodes@.len() && final(self).nodes@ == old(self).nodes@.push(w)
                && final(self).edges == old(self).edges && final(self).quotient == old(self).quotient
                && final(self).adjacency@.len() == old(self).adjacency@.len()
                && final(self).adjacency@[edge_id.0 as int].sources@ == old(self).adjacency@[edge_id.0 as int].sources@.push(r)
                && final(self).adjacency@[edge_id.0 as int].targets@ == old(self).adjacency@[edge_id.0 as int].targets@
                && (forall|j: int| 0 <= j < old(self).adjacency@.len() && j != edge_id.0 ==> (#[trigger] final(self).adjacency@[j]) == old(self).adjacency@[j])''')])
fn(LH, 'add_edge_target', self_ty='Hypergraph', status='P', props=['C11'],
   requires=['edge_id.0 < old(self).adjacency@.len()'],
   ensures=[('C11.add_edge_target', '''r.0 == old(self).nodes@.len() && final(self).nodes@ == old(self).nodes@.push(w)
                && final(self).edges == old(self).edges && final(self).quotient == old(self).quotient
                && final(self).adjacency@.len() == old(self).adjacency@.len()
                && final(self).adjacency@[edge_id.0 as int].targets@ == old(self).adjacency@[edge_id.0 as int].targets@.push(r)
                && final(self).adjacency@[edge_id.0 as int].sources@ == old(self).adjacency@[edge_id.0 as int].sources@
                && (forall|j: int| 0 <= j < old(self).adjacency@.len() && j != edge_id.0 ==> (#[trigger] final(self).adjacency@[j]) == old(self).adjacency@[j])''')])
endgroup()
