# C12 headline: the result of spider_map_arrow is the substitution instance (lemmas; the function-level clause is in 63_functor.py)
module('subst')

raw(r'''
/// where node a of A + B + X + C (three copies of the F(w) nodes around the nodes of fx) ends up in F(w) + X
pub open spec fn subst_kappa(n2: int, nx: int) -> Seq<usize> {
    Seq::new((3 * n2 + nx) as nat, |a: int| if a < n2 { a as usize } else if a < 2 * n2 { (a - n2) as usize } else if a < 2 * n2 + nx { (a - n2) as usize } else { (a - 2 * n2 - nx) as usize })
}
/// a section of subst_kappa: F(w) node c -> its A copy, X node -> itself
pub open spec fn subst_sigma(n2: int, nx: int) -> Seq<usize> {
    Seq::new((n2 + nx) as nat, |c: int| if c < n2 { c as usize } else { (c + n2) as usize })
}
/// the four families of gluing pairs on A + B + X + C:  (A_j, B_j), (A_es[j], X_fxs[j]), (B_j, C_j), (X_fxt[j], C_et[j])
pub open spec fn subst_s3(n2: int, nx: int, es: Seq<usize>, fxt: Seq<usize>) -> Seq<usize> {
    Seq::new((2 * n2 + es.len() + fxt.len()) as nat, |j: int|
        if j < n2 { j as usize } else if j < n2 + es.len() { es[j - n2] } else if j < 2 * n2 + es.len() { (n2 + (j - n2 - es.len())) as usize }
        else { (2 * n2 + fxt[j - 2 * n2 - es.len()]) as usize })
}
pub open spec fn subst_t3(n2: int, nx: int, fxs: Seq<usize>, et: Seq<usize>) -> Seq<usize> {
    Seq::new((2 * n2 + fxs.len() + et.len()) as nat, |j: int|
        if j < n2 { (n2 + j) as usize } else if j < n2 + fxs.len() { (2 * n2 + fxs[j - n2]) as usize } else if j < 2 * n2 + fxs.len() { (2 * n2 + nx + (j - n2 - fxs.len())) as usize }
        else { (2 * n2 + nx + et[j - 2 * n2 - fxs.len()]) as usize })
}

pub open spec fn same3(q3: Seq<usize>, n2: int, nx: int, j: int) -> bool { q3[j] == q3[n2 + j] && q3[n2 + j] == q3[2 * n2 + nx + j] }
/// q3 does not distinguish the three copies of an F(w) node
pub proof fn lemma_subst_copies(n2: int, nx: int, es: Seq<usize>, et: Seq<usize>, fxs: Seq<usize>, fxt: Seq<usize>, q3: Seq<usize>, k: int)
    requires 0 <= n2, 0 <= nx, 3 * n2 + nx <= usize::MAX, es.len() == fxs.len(), et.len() == fxt.len(),
        in_bounds(es, n2), in_bounds(et, n2), in_bounds(fxs, nx), in_bounds(fxt, nx),
        is_coeq(q3, k, subst_s3(n2, nx, es, fxt), subst_t3(n2, nx, fxs, et), 3 * n2 + nx),
    ensures forall|j: int| 0 <= j < n2 ==> #[trigger] same3(q3, n2, nx, j),
        forall|a: int| 0 <= a < 3 * n2 + nx ==> q3[a] == q3[subst_sigma(n2, nx)[#[trigger] subst_kappa(n2, nx)[a] as int] as int],
{
    let nn = 3 * n2 + nx; let s3 = subst_s3(n2, nx, es, fxt); let t3 = subst_t3(n2, nx, fxs, et);
    let kap = subst_kappa(n2, nx); let sig = subst_sigma(n2, nx);
    let ne = es.len() as int; let nt = et.len() as int;
    assert forall|j: int| 0 <= j < n2 implies #[trigger] same3(q3, n2, nx, j) by {
        assert(s3[j] == j && t3[j] == n2 + j);
        assert(q3[s3[j] as int] == q3[t3[j] as int]);
        assert(s3[n2 + ne + j] == n2 + j && t3[n2 + ne + j] == 2 * n2 + nx + j);
        assert(q3[s3[n2 + ne + j] as int] == q3[t3[n2 + ne + j] as int]);
    }
    assert forall|a: int| 0 <= a < nn implies q3[a] == q3[sig[#[trigger] kap[a] as int] as int] by {
        if a < n2 {} else if a < 2 * n2 { assert(same3(q3, n2, nx, a - n2)); } else if a < 2 * n2 + nx {} else { assert(same3(q3, n2, nx, a - 2 * n2 - nx)); }
    }
}

/// an equivalence on F(w) + X containing the substitution pairs pulls back along kappa to one containing the four families
pub proof fn lemma_subst_compat(n2: int, nx: int, es: Seq<usize>, et: Seq<usize>, fxs: Seq<usize>, fxt: Seq<usize>, r: spec_fn(int, int) -> bool)
    requires 0 <= n2, 0 <= nx, 3 * n2 + nx <= usize::MAX, es.len() == fxs.len(), et.len() == fxt.len(),
        in_bounds(es, n2), in_bounds(et, n2), in_bounds(fxs, nx), in_bounds(fxt, nx),
        compat(r, es + et, shifted(fxs, n2) + shifted(fxt, n2), n2 + nx),
    ensures compat(|a: int, b: int| r(subst_kappa(n2, nx)[a] as int, subst_kappa(n2, nx)[b] as int), subst_s3(n2, nx, es, fxt), subst_t3(n2, nx, fxs, et), 3 * n2 + nx),
{
    let nn = 3 * n2 + nx; let s3 = subst_s3(n2, nx, es, fxt); let t3 = subst_t3(n2, nx, fxs, et);
    let kap = subst_kappa(n2, nx);
    let ne = es.len() as int; let nt = et.len() as int;
    let ps = es + et; let pt = shifted(fxs, n2) + shifted(fxt, n2);
    let r3 = |a: int, b: int| r(subst_kappa(n2, nx)[a] as int, subst_kappa(n2, nx)[b] as int);
    assert forall|a: int| 0 <= a < nn implies #[trigger] r3(a, a) by { assert(kap[a] < n2 + nx); assert(r(kap[a] as int, kap[a] as int)); }
    assert forall|a: int, b: int| 0 <= a < nn && 0 <= b < nn && #[trigger] r3(a, b) implies r3(b, a) by { assert(kap[a] < n2 + nx && kap[b] < n2 + nx); assert(r(kap[a] as int, kap[b] as int)); }
    assert forall|a: int, b: int, c: int| 0 <= a < nn && 0 <= b < nn && 0 <= c < nn && #[trigger] r3(a, b) && #[trigger] r3(b, c) implies r3(a, c) by {
        assert(kap[a] < n2 + nx && kap[b] < n2 + nx && kap[c] < n2 + nx); assert(r(kap[a] as int, kap[b] as int) && r(kap[b] as int, kap[c] as int));
    }
    assert forall|j: int| 0 <= j < s3.len() implies #[trigger] r3(s3[j] as int, t3[j] as int) by {
        if j < n2 { assert(s3[j] == j && t3[j] == n2 + j); assert(r(j, j)); }
        else if j < n2 + ne { let j2 = j - n2; assert(s3[n2 + j2] == es[j2] && t3[n2 + j2] == 2 * n2 + fxs[j2]); assert(ps[j2] == es[j2] && pt[j2] == n2 + fxs[j2]); assert(r(ps[j2] as int, pt[j2] as int)); }
        else if j < 2 * n2 + ne { let j2 = j - n2 - ne; assert(s3[n2 + ne + j2] == n2 + j2 && t3[n2 + ne + j2] == 2 * n2 + nx + j2); assert(r(j2, j2)); }
        else { let j2 = j - 2 * n2 - ne; assert(s3[2 * n2 + ne + j2] == 2 * n2 + fxt[j2] && t3[2 * n2 + ne + j2] == 2 * n2 + nx + et[j2]);
               assert(ps[ne + j2] == et[j2] && pt[ne + j2] == n2 + fxt[j2]); assert(r(ps[ne + j2] as int, pt[ne + j2] as int)); assert(r(pt[ne + j2] as int, ps[ne + j2] as int)); }
    }
}

/// collapsing the three copies: a coequalizer of the four families on A + B + X + C restricts to a coequalizer of the
/// substitution pairs (es -> fx.s, et -> fx.t) on F(w) + X
pub proof fn lemma_subst_coeq(n2: int, nx: int, es: Seq<usize>, et: Seq<usize>, fxs: Seq<usize>, fxt: Seq<usize>, q3: Seq<usize>, k: int)
    requires 0 <= n2, 0 <= nx, 3 * n2 + nx <= usize::MAX, es.len() == fxs.len(), et.len() == fxt.len(),
        in_bounds(es, n2), in_bounds(et, n2), in_bounds(fxs, nx), in_bounds(fxt, nx),
        is_coeq(q3, k, subst_s3(n2, nx, es, fxt), subst_t3(n2, nx, fxs, et), 3 * n2 + nx),
    ensures is_coeq(Seq::new((n2 + nx) as nat, |c: int| q3[subst_sigma(n2, nx)[c] as int]), k, es + et, shifted(fxs, n2) + shifted(fxt, n2), n2 + nx),
        forall|a: int| 0 <= a < 3 * n2 + nx ==> q3[a] == q3[subst_sigma(n2, nx)[#[trigger] subst_kappa(n2, nx)[a] as int] as int],
{
    let nn = 3 * n2 + nx; let s3 = subst_s3(n2, nx, es, fxt); let t3 = subst_t3(n2, nx, fxs, et);
    let kap = subst_kappa(n2, nx); let sig = subst_sigma(n2, nx);
    let q = Seq::new((n2 + nx) as nat, |c: int| q3[subst_sigma(n2, nx)[c] as int]);
    let ne = es.len() as int; let nt = et.len() as int;
    lemma_subst_copies(n2, nx, es, et, fxs, fxt, q3, k);
    assert forall|c: int| 0 <= c < n2 + nx implies (#[trigger] q[c]) < k by { assert(q3[sig[c] as int] < k); }
    assert forall|c: int| 0 <= c < k implies #[trigger] hit(q, c, n2 + nx) by {
        assert(hit(q3, c, nn));
        let a = choose|a: int| 0 <= a < nn && #[trigger] q3[a] == c;
        assert(q3[a] == q3[sig[kap[a] as int] as int]);
        assert(q[kap[a] as int] == c);
    }
    let ps = es + et; let pt = shifted(fxs, n2) + shifted(fxt, n2);
    assert forall|j: int| 0 <= j < ps.len() implies q[#[trigger] ps[j] as int] == q[pt[j] as int] by {
        if j < ne {
            assert(ps[j] == es[j] && pt[j] == n2 + fxs[j]);
            assert(s3[n2 + j] == es[j] && t3[n2 + j] == 2 * n2 + fxs[j]);
            assert(q3[s3[n2 + j] as int] == q3[t3[n2 + j] as int]);
        } else {
            let j2 = j - ne;
            assert(ps[j] == et[j2] && pt[j] == n2 + fxt[j2]);
            assert(s3[2 * n2 + ne + j2] == 2 * n2 + fxt[j2] && t3[2 * n2 + ne + j2] == 2 * n2 + nx + et[j2]);
            assert(q3[s3[2 * n2 + ne + j2] as int] == q3[t3[2 * n2 + ne + j2] as int]);
            assert(same3(q3, n2, nx, et[j2] as int));
        }
    }
    assert forall|r: spec_fn(int, int) -> bool| #[trigger] compat(r, ps, pt, n2 + nx) implies (forall|c: int, d: int| 0 <= c < n2 + nx && 0 <= d < n2 + nx && q[c] == q[d] ==> #[trigger] r(c, d)) by {
        let r3 = |a: int, b: int| r(subst_kappa(n2, nx)[a] as int, subst_kappa(n2, nx)[b] as int);
        lemma_subst_compat(n2, nx, es, et, fxs, fxt, r);
        assert(compat(r3, s3, t3, nn));
        assert forall|c: int, d: int| 0 <= c < n2 + nx && 0 <= d < n2 + nx && q[c] == q[d] implies #[trigger] r(c, d) by {
            assert(sig[c] < nn && sig[d] < nn);
            assert(r3(sig[c] as int, sig[d] as int));
            assert(kap[sig[c] as int] == c && kap[sig[d] as int] == d);
        }
    }
}
''')

raw(r'''
/// r is the quotient of the juxtaposition f + g + h by q3 (labels, hyperedges with their ordered incidence, interfaces of f and h)
pub open spec fn is_quotient_of_jux3<O, A>(f: OpenHypergraph<O, A>, g: OpenHypergraph<O, A>, h: OpenHypergraph<O, A>, r: OpenHypergraph<O, A>, q3: Seq<usize>) -> bool {
    let nf = f.h.w@.len() as int; let ng = g.h.w@.len() as int; let nh = h.h.w@.len() as int;
    let lf = f.h.s.values.table@.len() as int; let lg = g.h.s.values.table@.len() as int; let lh = h.h.s.values.table@.len() as int;
    let mf = f.h.t.values.table@.len() as int; let mg = g.h.t.values.table@.len() as int; let mh = h.h.t.values.table@.len() as int;
    &&& q3.len() == nf + ng + nh
    &&& (forall|a: int| 0 <= a < nf + ng + nh ==> r.h.w@[(#[trigger] q3[a]) as int] == label3(f, g, h, a))
    &&& r.h.x@ == f.h.x@ + g.h.x@ + h.h.x@
    &&& r.h.s.sources.table@ == f.h.s.sources.table@ + g.h.s.sources.table@ + h.h.s.sources.table@
    &&& r.h.s.values.table@.len() == lf + lg + lh
    &&& (forall|i: int| 0 <= i < lf ==> (#[trigger] r.h.s.values.table@[i]) == q3[f.h.s.values.table@[i] as int])
    &&& (forall|i: int| lf <= i < lf + lg ==> (#[trigger] r.h.s.values.table@[i]) == q3[nf + g.h.s.values.table@[i - lf]])
    &&& (forall|i: int| lf + lg <= i < lf + lg + lh ==> (#[trigger] r.h.s.values.table@[i]) == q3[nf + ng + h.h.s.values.table@[i - lf - lg]])
    &&& r.h.t.sources.table@ == f.h.t.sources.table@ + g.h.t.sources.table@ + h.h.t.sources.table@
    &&& r.h.t.values.table@.len() == mf + mg + mh
    &&& (forall|i: int| 0 <= i < mf ==> (#[trigger] r.h.t.values.table@[i]) == q3[f.h.t.values.table@[i] as int])
    &&& (forall|i: int| mf <= i < mf + mg ==> (#[trigger] r.h.t.values.table@[i]) == q3[nf + g.h.t.values.table@[i - mf]])
    &&& (forall|i: int| mf + mg <= i < mf + mg + mh ==> (#[trigger] r.h.t.values.table@[i]) == q3[nf + ng + h.h.t.values.table@[i - mf - mg]])
    &&& r.s.table@.len() == f.s.table@.len() && (forall|i: int| 0 <= i < f.s.table@.len() ==> (#[trigger] r.s.table@[i]) == q3[f.s.table@[i] as int])
    &&& r.t.table@.len() == h.t.table@.len() && (forall|i: int| 0 <= i < h.t.table@.len() ==> (#[trigger] r.t.table@[i]) == q3[nf + ng + h.t.table@[i]])
}

/// (f ; g) ; h, for ANY results allowed by the contract of compose, is the quotient of f + g + h by a coequalizer of
/// the two families of boundary pairs
pub proof fn lemma_two_step_quotient<O, A>(f: OpenHypergraph<O, A>, g: OpenHypergraph<O, A>, h: OpenHypergraph<O, A>,
                                           r1: OpenHypergraph<O, A>, r: OpenHypergraph<O, A>) -> (q3: Seq<usize>)
    requires f.wf(), g.wf(), h.wf(), is_pushout(f, g, r1), is_pushout(r1, h, r),
        f.t.table@.len() == g.s.table@.len(), g.t.table@.len() == h.s.table@.len(),
        f.h.w@.len() + g.h.w@.len() + h.h.w@.len() <= usize::MAX,
    ensures is_quotient_of_jux3(f, g, h, r, q3),
        is_coeq(q3, r.h.w@.len() as int, glue_left(f) + shifted(g.t.table@, f.h.w@.len() as int), glue_right(f, g) + shifted(h.s.table@, (f.h.w@.len() + g.h.w@.len()) as int),
                (f.h.w@.len() + g.h.w@.len() + h.h.w@.len()) as int),
{
    let nf = f.h.w@.len() as int; let ng = g.h.w@.len() as int; let nh = h.h.w@.len() as int; let nn = nf + ng + nh;
    let (q1, k1) = choose|q: Seq<usize>, k: int| is_coeq(q, k, glue_left(f), glue_right(f, g), nf + ng) && #[trigger] is_quotient_of_jux(f, g, r1, q, k);
    let (q, k) = choose|q: Seq<usize>, k: int| is_coeq(q, k, glue_left(r1), glue_right(r1, h), (r1.h.w@.len() + nh) as int) && #[trigger] is_quotient_of_jux(r1, h, r, q, k);
    assert(r1.h.w@.len() == k1 && r.h.w@.len() == k);
    if nf + ng == 0 && k1 > 0 { assert(hit(q1, 0, 0)); }
    assert(k1 <= nf + ng) by { if k1 > nf + ng { lemma_surjection_small(q1, k1, nf + ng); } }
    let s1 = glue_left(f); let t1 = glue_right(f, g);
    let s2l = shifted(g.t.table@, nf);
    let t2l = shifted(h.s.table@, nf + ng);
    assert forall|j: int| 0 <= j < s1.len() implies 0 <= #[trigger] s1[j] < nf + ng && 0 <= t1[j] < nf + ng by { assert(f.t.table@[j] < f.t.target && g.s.table@[j] < g.s.target); }
    assert forall|j: int| 0 <= j < s2l.len() implies 0 <= #[trigger] s2l[j] < nn && 0 <= t2l[j] < nn by { assert(g.t.table@[j] < g.t.target && h.s.table@[j] < h.s.target); }
    lemma_coeq_ext_right(q1, k1, s1, t1, nf + ng, nh);
    let q1e = ext_right(q1, k1, nh);
    let s2 = glue_left(r1); let t2 = glue_right(r1, h);
    assert forall|j: int| 0 <= j < s2.len() implies q1e[s2l[j] as int] == s2[j] && q1e[t2l[j] as int] == t2[j] by {
        assert(g.t.table@[j] < g.t.target && h.s.table@[j] < h.s.target);
        assert(r1.t.table@[j] == q1[nf + g.t.table@[j]]);
    }
    lemma_coeq_paste(q1e, k1 + nh, s1, t1, nn, q, k, s2, t2, s2l, t2l);
    let ql = Seq::new(nn as nat, |a: int| q[q1e[a] as int]);
    assert forall|a: int| 0 <= a < nf + ng implies (#[trigger] ql[a]) == q[q1[a] as int] by {}
    assert forall|a: int| 0 <= a < nh implies (#[trigger] ql[nf + ng + a]) == q[k1 + a] by {}
    assert forall|a: int| 0 <= a < nn implies r.h.w@[(#[trigger] ql[a]) as int] == label3(f, g, h, a) by {
        if a < nf + ng {
            assert(q1[a] < k1);
            assert(r.h.w@[q[q1[a] as int] as int] == jux_label(r1, h, q1[a] as int));
            assert(r1.h.w@[q1[a] as int] == jux_label(f, g, a));
        } else {
            assert(r.h.w@[q[k1 + (a - nf - ng)] as int] == jux_label(r1, h, k1 + (a - nf - ng)));
        }
    }
    assert(r.h.x@ =~= f.h.x@ + g.h.x@ + h.h.x@);
    assert(r.h.s.sources.table@ =~= f.h.s.sources.table@ + g.h.s.sources.table@ + h.h.s.sources.table@);
    assert(r.h.t.sources.table@ =~= f.h.t.sources.table@ + g.h.t.sources.table@ + h.h.t.sources.table@);
    let lf = f.h.s.values.table@.len() as int; let lg = g.h.s.values.table@.len() as int; let lh = h.h.s.values.table@.len() as int;
    assert forall|i: int| 0 <= i < lf implies (#[trigger] r.h.s.values.table@[i]) == ql[f.h.s.values.table@[i] as int] by {
        let v = f.h.s.values.table@[i] as int; assert(v < f.h.s.values.target);
        assert(r1.h.s.values.table@[i] == q1[v]); assert(r.h.s.values.table@[i] == q[r1.h.s.values.table@[i] as int]);
    }
    assert forall|i: int| lf <= i < lf + lg implies (#[trigger] r.h.s.values.table@[i]) == ql[nf + g.h.s.values.table@[i - lf]] by {
        let v = g.h.s.values.table@[i - lf] as int; assert(v < g.h.s.values.target);
        assert(r1.h.s.values.table@[i] == q1[nf + v]); assert(r.h.s.values.table@[i] == q[r1.h.s.values.table@[i] as int]);
    }
    assert forall|i: int| lf + lg <= i < lf + lg + lh implies (#[trigger] r.h.s.values.table@[i]) == ql[nf + ng + h.h.s.values.table@[i - lf - lg]] by {
        let v = h.h.s.values.table@[i - lf - lg] as int; assert(v < h.h.s.values.target);
        assert(r.h.s.values.table@[i] == q[k1 + v]);
    }
    let mf = f.h.t.values.table@.len() as int; let mg = g.h.t.values.table@.len() as int; let mh = h.h.t.values.table@.len() as int;
    assert forall|i: int| 0 <= i < mf implies (#[trigger] r.h.t.values.table@[i]) == ql[f.h.t.values.table@[i] as int] by {
        let v = f.h.t.values.table@[i] as int; assert(v < f.h.t.values.target);
        assert(r1.h.t.values.table@[i] == q1[v]); assert(r.h.t.values.table@[i] == q[r1.h.t.values.table@[i] as int]);
    }
    assert forall|i: int| mf <= i < mf + mg implies (#[trigger] r.h.t.values.table@[i]) == ql[nf + g.h.t.values.table@[i - mf]] by {
        let v = g.h.t.values.table@[i - mf] as int; assert(v < g.h.t.values.target);
        assert(r1.h.t.values.table@[i] == q1[nf + v]); assert(r.h.t.values.table@[i] == q[r1.h.t.values.table@[i] as int]);
    }
    assert forall|i: int| mf + mg <= i < mf + mg + mh implies (#[trigger] r.h.t.values.table@[i]) == ql[nf + ng + h.h.t.values.table@[i - mf - mg]] by {
        let v = h.h.t.values.table@[i - mf - mg] as int; assert(v < h.h.t.values.target);
        assert(r.h.t.values.table@[i] == q[k1 + v]);
    }
    assert forall|i: int| 0 <= i < f.s.table@.len() implies (#[trigger] r.s.table@[i]) == ql[f.s.table@[i] as int] by {
        let v = f.s.table@[i] as int; assert(v < f.s.target);
        assert(r1.s.table@[i] == q1[v]); assert(r.s.table@[i] == q[r1.s.table@[i] as int]);
    }
    assert forall|i: int| 0 <= i < h.t.table@.len() implies (#[trigger] r.t.table@[i]) == ql[nf + ng + h.t.table@[i]] by {
        let v = h.t.table@[i] as int; assert(v < h.t.target);
        assert(r.t.table@[i] == q[k1 + v]);
    }
    ql
}
''')

raw(r'''
/// r is the quotient by q of  (nodes labelled w) + fx : hyperedges are those of fx, interfaces are fs and ft read through q
pub open spec fn is_subst_quotient<O, A>(r: OpenHypergraph<O, A>, w: Seq<O>, fx: OpenHypergraph<O, A>, fs: Seq<usize>, ft: Seq<usize>, q: Seq<usize>, k: int) -> bool {
    let n2 = w.len() as int; let nx = fx.h.w@.len() as int;
    &&& q.len() == n2 + nx && r.h.w@.len() == k
    &&& (forall|c: int| 0 <= c < n2 + nx ==> r.h.w@[(#[trigger] q[c]) as int] == (w + fx.h.w@)[c])
    &&& r.h.x@ == fx.h.x@
    &&& r.h.s.sources.table@ == fx.h.s.sources.table@ && r.h.s.values.table@.len() == fx.h.s.values.table@.len()
    &&& (forall|i: int| 0 <= i < fx.h.s.values.table@.len() ==> (#[trigger] r.h.s.values.table@[i]) == q[n2 + fx.h.s.values.table@[i]])
    &&& r.h.t.sources.table@ == fx.h.t.sources.table@ && r.h.t.values.table@.len() == fx.h.t.values.table@.len()
    &&& (forall|i: int| 0 <= i < fx.h.t.values.table@.len() ==> (#[trigger] r.h.t.values.table@[i]) == q[n2 + fx.h.t.values.table@[i]])
    &&& r.s.table@.len() == fs.len() && (forall|i: int| 0 <= i < fs.len() ==> (#[trigger] r.s.table@[i]) == q[fs[i] as int])
    &&& r.t.table@.len() == ft.len() && (forall|i: int| 0 <= i < ft.len() ==> (#[trigger] r.t.table@[i]) == q[ft[i] as int])
}

/// THE SUBSTITUTION INSTANCE: r consists of one node per element of w (the expanded node list) and a copy of fx (the
/// images of the operations, side by side), where the j-th input of fx is glued to node ees[j] and the j-th output of fx
/// to node eet[j] -- and nothing else is glued (coequalizer) -- with interfaces fs and ft
pub open spec fn is_subst_of<O, A>(r: OpenHypergraph<O, A>, w: Seq<O>, fx: OpenHypergraph<O, A>, fs: Seq<usize>, ees: Seq<usize>, eet: Seq<usize>, ft: Seq<usize>) -> bool {
    let n2 = w.len() as int; let nx = fx.h.w@.len() as int;
    exists|q: Seq<usize>, k: int| is_coeq(q, k, ees + eet, shifted(fx.s.table@, n2) + shifted(fx.t.table@, n2), n2 + nx) && #[trigger] is_subst_quotient(r, w, fx, fs, ft, q, k)
}

/// the diagram sx ; (id (x) fx) ; yt  built by spider_map_arrow IS the substitution instance, for any results of compose and tensor
pub proof fn lemma_subst_instance<O, A>(sx: OpenHypergraph<O, A>, i: OpenHypergraph<O, A>, fx: OpenHypergraph<O, A>, m: OpenHypergraph<O, A>, yt: OpenHypergraph<O, A>,
        c1: OpenHypergraph<O, A>, r: OpenHypergraph<O, A>, w: Seq<O>, fs: Seq<usize>, ees: Seq<usize>, eet: Seq<usize>, ft: Seq<usize>)
    requires is_identity_on(i, w), fx.wf(), is_tensor(m, i, fx),
        sx.wf(), sx.h.w@ == w, sx.h.x@.len() == 0, sx.s.table@ == fs, sx.t.table@ == id_seq(w.len() as int) + ees,
        yt.wf(), yt.h.w@ == w, yt.h.x@.len() == 0, yt.s.table@ == id_seq(w.len() as int) + eet, yt.t.table@ == ft,
        is_pushout(sx, m, c1), is_pushout(c1, yt, r),
        ees.len() == fx.s.table@.len(), eet.len() == fx.t.table@.len(), in_bounds(ees, w.len() as int), in_bounds(eet, w.len() as int),
        3 * w.len() + fx.h.w@.len() <= usize::MAX,
    ensures is_subst_of(r, w, fx, fs, ees, eet, ft)
{
    let n2 = w.len() as int; let nx = fx.h.w@.len() as int; let nn = 3 * n2 + nx;
    lemma_no_edges(sx); lemma_no_edges(yt); lemma_no_edges(i);
    let q3 = lemma_two_step_quotient(sx, m, yt, c1, r);
    let k = r.h.w@.len() as int;
    let fxs = fx.s.table@; let fxt = fx.t.table@;
    let s3 = subst_s3(n2, nx, ees, fxt); let t3 = subst_t3(n2, nx, fxs, eet);
    let ne = ees.len() as int; let nt = eet.len() as int;
    assert forall|j: int| 0 <= j < fxs.len() implies (#[trigger] fxs[j]) < nx by { assert(fx.s.table@[j] < fx.s.target); }
    assert forall|j: int| 0 <= j < fxt.len() implies (#[trigger] fxt[j]) < nx by { assert(fx.t.table@[j] < fx.t.target); }
    let ga = glue_left(sx) + shifted(m.t.table@, n2);
    let gb = glue_right(sx, m) + shifted(yt.s.table@, n2 + (n2 + nx));
    assert(m.h.w@.len() == n2 + nx);
    assert(ga.len() == s3.len());
    assert forall|j: int| 0 <= j < ga.len() implies ga[j] == s3[j] by {
        if j < n2 { assert(sx.t.table@[j] == id_seq(n2)[j]); }
        else if j < n2 + ne { assert(sx.t.table@[j] == ees[j - n2]); }
        else if j < 2 * n2 + ne { let j2 = j - n2 - ne; assert(ga[j] == shifted(m.t.table@, n2)[j2]); assert(m.t.table@[j2] == i.t.table@[j2]); }
        else { let j2 = j - n2 - ne; assert(ga[j] == shifted(m.t.table@, n2)[j2]); assert(m.t.table@[j2] == n2 + fxt[j2 - n2]); }
    }
    assert(ga =~= s3);
    assert(gb.len() == t3.len());
    assert forall|j: int| 0 <= j < gb.len() implies gb[j] == t3[j] by {
        if j < n2 { assert(glue_right(sx, m)[j] == n2 + m.s.table@[j]); assert(m.s.table@[j] == i.s.table@[j]); }
        else if j < n2 + ne { assert(glue_right(sx, m)[j] == n2 + m.s.table@[j]); assert(m.s.table@[j] == n2 + fxs[j - n2]); }
        else if j < 2 * n2 + ne { let j2 = j - n2 - ne; assert(gb[j] == shifted(yt.s.table@, n2 + (n2 + nx))[j2]); assert(yt.s.table@[j2] == id_seq(n2)[j2]); }
        else { let j2 = j - n2 - ne; assert(gb[j] == shifted(yt.s.table@, n2 + (n2 + nx))[j2]); assert(yt.s.table@[j2] == eet[j2 - n2]); }
    }
    assert(gb =~= t3);
    lemma_subst_coeq(n2, nx, ees, eet, fxs, fxt, q3, k);
    let sig = subst_sigma(n2, nx); let kap = subst_kappa(n2, nx);
    let q = Seq::new((n2 + nx) as nat, |c: int| q3[subst_sigma(n2, nx)[c] as int]);
    assert forall|c: int| 0 <= c < n2 + nx implies r.h.w@[(#[trigger] q[c]) as int] == (w + fx.h.w@)[c] by {
        assert(r.h.w@[q3[sig[c] as int] as int] == label3(sx, m, yt, sig[c] as int));
    }
    assert(r.h.x@ =~= fx.h.x@);
    assert(r.h.s.sources.table@ =~= fx.h.s.sources.table@);
    assert(r.h.t.sources.table@ =~= fx.h.t.sources.table@);
    assert(i.h.s.values.target == n2 && i.h.t.values.target == n2);
    assert forall|p: int| 0 <= p < fx.h.s.values.table@.len() implies (#[trigger] r.h.s.values.table@[p]) == q[n2 + fx.h.s.values.table@[p]] by {
        let v = fx.h.s.values.table@[p] as int; assert(v < fx.h.s.values.target);
        assert(m.h.s.values.table@[p] == n2 + v);
        assert(r.h.s.values.table@[p] == q3[n2 + m.h.s.values.table@[p]]);
        assert(sig[n2 + v] == 2 * n2 + v);
    }
    assert forall|p: int| 0 <= p < fx.h.t.values.table@.len() implies (#[trigger] r.h.t.values.table@[p]) == q[n2 + fx.h.t.values.table@[p]] by {
        let v = fx.h.t.values.table@[p] as int; assert(v < fx.h.t.values.target);
        assert(m.h.t.values.table@[p] == n2 + v);
        assert(r.h.t.values.table@[p] == q3[n2 + m.h.t.values.table@[p]]);
        assert(sig[n2 + v] == 2 * n2 + v);
    }
    assert forall|p: int| 0 <= p < fs.len() implies (#[trigger] r.s.table@[p]) == q[fs[p] as int] by {
        assert(sx.s.table@[p] < sx.s.target);
        assert(sig[fs[p] as int] == fs[p]);
    }
    assert forall|p: int| 0 <= p < ft.len() implies (#[trigger] r.t.table@[p]) == q[ft[p] as int] by {
        assert(yt.t.table@[p] < yt.t.target);
        let a = 2 * n2 + nx + ft[p];
        assert(r.t.table@[p] == q3[a]);
        assert(kap[a] == ft[p]);
        assert(q3[a] == q3[sig[kap[a] as int] as int]);
    }
    assert(is_subst_quotient(r, w, fx, fs, ft, q, k));
}
''')

raw(r'''
/// the substitution instance is determined up to isomorphism by its ingredients (C12 "up to isomorphism"; C20 for functor application)
pub proof fn lemma_subst_unique<O, A>(r1: OpenHypergraph<O, A>, r2: OpenHypergraph<O, A>, w: Seq<O>, fx: OpenHypergraph<O, A>, fs: Seq<usize>, ees: Seq<usize>, eet: Seq<usize>, ft: Seq<usize>) -> (phi: Seq<usize>)
    requires fx.wf(), is_subst_of(r1, w, fx, fs, ees, eet, ft), is_subst_of(r2, w, fx, fs, ees, eet, ft),
        ees.len() == fx.s.table@.len(), eet.len() == fx.t.table@.len(), in_bounds(ees, w.len() as int), in_bounds(eet, w.len() as int),
        in_bounds(fs, w.len() as int), in_bounds(ft, w.len() as int), w.len() + fx.h.w@.len() <= usize::MAX,
    ensures node_iso(r1, r2, phi)
{
    let n2 = w.len() as int; let nx = fx.h.w@.len() as int; let n = n2 + nx;
    let s = ees + eet; let t = shifted(fx.s.table@, n2) + shifted(fx.t.table@, n2);
    let (q1, k1) = choose|q: Seq<usize>, k: int| is_coeq(q, k, s, t, n) && #[trigger] is_subst_quotient(r1, w, fx, fs, ft, q, k);
    let (q2, k2) = choose|q: Seq<usize>, k: int| is_coeq(q, k, s, t, n) && #[trigger] is_subst_quotient(r2, w, fx, fs, ft, q, k);
    assert forall|j: int| 0 <= j < s.len() implies 0 <= #[trigger] s[j] < n && 0 <= t[j] < n by {
        if j < ees.len() { assert(s[j] == ees[j]); assert(t[j] == shifted(fx.s.table@, n2)[j]); assert(fx.s.table@[j] < fx.s.target); }
        else { let j2 = j - ees.len(); assert(s[j] == eet[j2]); assert(t[j] == shifted(fx.t.table@, n2)[j2]); assert(fx.t.table@[j2] < fx.t.target); }
    }
    lemma_coeq_unique(q1, k1, q2, k2, s, t, n);
    if n == 0 && k1 > 0 { assert(hit(q1, 0, 0)); }
    if n == 0 && k2 > 0 { assert(hit(q2, 0, 0)); }
    let phi = lemma_factor_iso(q1, k1, s, t, n, q2, k2);
    assert forall|c: int| 0 <= c < k1 implies r2.h.w@[(#[trigger] phi[c]) as int] == r1.h.w@[c] by {
        assert(hit(q1, c, n));
        let a = choose|a: int| 0 <= a < n && #[trigger] q1[a] == c;
        assert(phi[q1[a] as int] == q2[a]);
        assert(r1.h.w@[q1[a] as int] == (w + fx.h.w@)[a] && r2.h.w@[q2[a] as int] == (w + fx.h.w@)[a]);
    }
    assert forall|i: int| 0 <= i < r1.h.s.values.table@.len() implies (#[trigger] r2.h.s.values.table@[i]) == phi[r1.h.s.values.table@[i] as int] by {
        let v = fx.h.s.values.table@[i]; assert(v < fx.h.s.values.target); assert(phi[q1[n2 + v] as int] == q2[n2 + v]);
    }
    assert forall|i: int| 0 <= i < r1.h.t.values.table@.len() implies (#[trigger] r2.h.t.values.table@[i]) == phi[r1.h.t.values.table@[i] as int] by {
        let v = fx.h.t.values.table@[i]; assert(v < fx.h.t.values.target); assert(phi[q1[n2 + v] as int] == q2[n2 + v]);
    }
    assert forall|i: int| 0 <= i < r1.s.table@.len() implies (#[trigger] r2.s.table@[i]) == phi[r1.s.table@[i] as int] by {
        assert(phi[q1[fs[i] as int] as int] == q2[fs[i] as int]);
    }
    assert forall|i: int| 0 <= i < r1.t.table@.len() implies (#[trigger] r2.t.table@[i]) == phi[r1.t.table@[i] as int] by {
        assert(phi[q1[ft[i] as int] as int] == q2[ft[i] as int]);
    }
    phi
}
''')
