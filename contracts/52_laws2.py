# More laws of C03 as lemmas over the contracts (no code of /repo is extracted here): general isomorphisms (node bijection
# + hyperedge bijection), composition with a wiring diagram on the left / right, hexagon, naturality of the symmetry.
module('laws2')

raw(r'''
/// b is a with its nodes renamed by the bijection phi and its hyperedges renamed by the bijection psi: an isomorphism of
/// open hypergraphs (node labels, edge labels, the ordered source and target list of every hyperedge and both interfaces
/// are preserved position by position)
pub open spec fn oh_iso<O, A>(a: OpenHypergraph<O, A>, b: OpenHypergraph<O, A>, phi: Seq<usize>, psi: Seq<usize>) -> bool {
    let n = a.h.w@.len() as int; let m = a.h.x@.len() as int;
    &&& b.h.w@.len() == n && phi.len() == n && in_bounds(phi, n) && injective(phi)
    &&& forall|v: int| 0 <= v < n ==> b.h.w@[(#[trigger] phi[v]) as int] == a.h.w@[v]
    &&& b.h.x@.len() == m && psi.len() == m && in_bounds(psi, m) && injective(psi)
    &&& forall|e: int| 0 <= e < m ==> b.h.x@[(#[trigger] psi[e]) as int] == a.h.x@[e]
    &&& a.h.s.sources.table@.len() == m && b.h.s.sources.table@.len() == m && a.h.t.sources.table@.len() == m && b.h.t.sources.table@.len() == m
    &&& forall|e: int| 0 <= e < m ==> b.h.s.sources.table@[(#[trigger] psi[e]) as int] == a.h.s.sources.table@[e] && b.h.t.sources.table@[psi[e] as int] == a.h.t.sources.table@[e]
    &&& forall|e: int, j: int| 0 <= e < m && 0 <= j < a.h.s.sources.table@[e] ==>
            b.h.s.values.table@[seg_at(b.h.s.sources.table@, psi[e] as int, j)] == phi[(#[trigger] a.h.s.values.table@[seg_at(a.h.s.sources.table@, e, j)]) as int]
    &&& forall|e: int, j: int| 0 <= e < m && 0 <= j < a.h.t.sources.table@[e] ==>
            b.h.t.values.table@[seg_at(b.h.t.sources.table@, psi[e] as int, j)] == phi[(#[trigger] a.h.t.values.table@[seg_at(a.h.t.sources.table@, e, j)]) as int]
    &&& b.s.table@.len() == a.s.table@.len() && forall|i: int| 0 <= i < a.s.table@.len() ==> (#[trigger] b.s.table@[i]) == phi[a.s.table@[i] as int]
    &&& b.t.table@.len() == a.t.table@.len() && forall|i: int| 0 <= i < a.t.table@.len() ==> (#[trigger] b.t.table@[i]) == phi[a.t.table@[i] as int]
}

pub open spec fn id_seq(m: int) -> Seq<usize> { Seq::new(m as nat, |e: int| e as usize) }

/// an isomorphism that keeps the hyperedges in place is one with psi = identity
pub proof fn lemma_node_iso_is_iso<O, A>(a: OpenHypergraph<O, A>, b: OpenHypergraph<O, A>, phi: Seq<usize>)
    requires a.wf(), b.wf(), node_iso(a, b, phi), a.h.x@.len() <= usize::MAX
    ensures oh_iso(a, b, phi, id_seq(a.h.x@.len() as int))
{
    let m = a.h.x@.len() as int; let psi = id_seq(m);
    assert forall|e: int, j: int| 0 <= e < m && 0 <= j < a.h.s.sources.table@[e] implies
            b.h.s.values.table@[seg_at(b.h.s.sources.table@, psi[e] as int, j)] == phi[(#[trigger] a.h.s.values.table@[seg_at(a.h.s.sources.table@, e, j)]) as int] by {
        lemma_pos(a.h.s, e, j);
        assert(b.h.s.values.table@[seg_at(a.h.s.sources.table@, e, j)] == phi[a.h.s.values.table@[seg_at(a.h.s.sources.table@, e, j)] as int]);
    }
    assert forall|e: int, j: int| 0 <= e < m && 0 <= j < a.h.t.sources.table@[e] implies
            b.h.t.values.table@[seg_at(b.h.t.sources.table@, psi[e] as int, j)] == phi[(#[trigger] a.h.t.values.table@[seg_at(a.h.t.sources.table@, e, j)]) as int] by {
        lemma_pos(a.h.t, e, j);
        assert(b.h.t.values.table@[seg_at(a.h.t.sources.table@, e, j)] == phi[a.h.t.values.table@[seg_at(a.h.t.sources.table@, e, j)] as int]);
    }
}

/// isomorphisms compose
pub proof fn lemma_iso_trans<O, A>(a: OpenHypergraph<O, A>, b: OpenHypergraph<O, A>, c: OpenHypergraph<O, A>, phi1: Seq<usize>, psi1: Seq<usize>, phi2: Seq<usize>, psi2: Seq<usize>)
    requires a.wf(), oh_iso(a, b, phi1, psi1), oh_iso(b, c, phi2, psi2)
    ensures oh_iso(a, c, kseq(phi2, phi1), kseq(psi2, psi1))
{
    let phi = kseq(phi2, phi1); let psi = kseq(psi2, psi1);
    let n = a.h.w@.len() as int; let m = a.h.x@.len() as int;
    assert forall|v: int| 0 <= v < n implies (#[trigger] phi[v]) < n && c.h.w@[phi[v] as int] == a.h.w@[v] by { assert(phi1[v] < n); assert(phi2[phi1[v] as int] < n); }
    assert forall|v1: int, v2: int| 0 <= v1 < n && 0 <= v2 < n && v1 != v2 implies phi[v1] != phi[v2] by { assert(phi1[v1] != phi1[v2]); assert(phi1[v1] < n && phi1[v2] < n); }
    assert forall|e: int| 0 <= e < m implies (#[trigger] psi[e]) < m && c.h.x@[psi[e] as int] == a.h.x@[e]
            && c.h.s.sources.table@[psi[e] as int] == a.h.s.sources.table@[e] && c.h.t.sources.table@[psi[e] as int] == a.h.t.sources.table@[e] by {
        assert(psi1[e] < m); assert(psi2[psi1[e] as int] < m);
    }
    assert forall|e1: int, e2: int| 0 <= e1 < m && 0 <= e2 < m && e1 != e2 implies psi[e1] != psi[e2] by { assert(psi1[e1] != psi1[e2]); assert(psi1[e1] < m && psi1[e2] < m); }
    assert forall|e: int, j: int| 0 <= e < m && 0 <= j < a.h.s.sources.table@[e] implies
            c.h.s.values.table@[seg_at(c.h.s.sources.table@, psi[e] as int, j)] == phi[(#[trigger] a.h.s.values.table@[seg_at(a.h.s.sources.table@, e, j)]) as int] by {
        lemma_pos(a.h.s, e, j);
        let v = a.h.s.values.table@[seg_at(a.h.s.sources.table@, e, j)];
        assert(psi1[e] < m);
        assert(b.h.s.values.table@[seg_at(b.h.s.sources.table@, psi1[e] as int, j)] == phi1[v as int]);
        assert(b.h.s.sources.table@[psi1[e] as int] == a.h.s.sources.table@[e]);
    }
    assert forall|e: int, j: int| 0 <= e < m && 0 <= j < a.h.t.sources.table@[e] implies
            c.h.t.values.table@[seg_at(c.h.t.sources.table@, psi[e] as int, j)] == phi[(#[trigger] a.h.t.values.table@[seg_at(a.h.t.sources.table@, e, j)]) as int] by {
        lemma_pos(a.h.t, e, j);
        let v = a.h.t.values.table@[seg_at(a.h.t.sources.table@, e, j)];
        assert(psi1[e] < m);
        assert(b.h.t.values.table@[seg_at(b.h.t.sources.table@, psi1[e] as int, j)] == phi1[v as int]);
        assert(b.h.t.sources.table@[psi1[e] as int] == a.h.t.sources.table@[e]);
    }
    assert forall|i: int| 0 <= i < a.s.table@.len() implies (#[trigger] c.s.table@[i]) == phi[a.s.table@[i] as int] by { assert(a.s.table@[i] < a.s.target); assert(b.s.table@[i] == phi1[a.s.table@[i] as int]); }
    assert forall|i: int| 0 <= i < a.t.table@.len() implies (#[trigger] c.t.table@[i]) == phi[a.t.table@[i] as int] by { assert(a.t.table@[i] < a.t.target); assert(b.t.table@[i] == phi1[a.t.table@[i] as int]); }
}
''')

raw(r'''
/// u is a wiring diagram "read from the right": no hyperedges, every node is an output exactly once, in order
pub open spec fn is_wiring_tid<O, A>(u: OpenHypergraph<O, A>) -> bool {
    &&& u.wf() && u.h.x@.len() == 0 && u.h.s.sources.table@.len() == 0 && u.h.t.sources.table@.len() == 0
    &&& u.t.table@.len() == u.h.w@.len() && forall|i: int| 0 <= i < u.h.w@.len() ==> u.t.table@[i] == i
}
/// v is a wiring diagram "read from the left": no hyperedges, every node is an input exactly once, in order
pub open spec fn is_wiring_sid<O, A>(v: OpenHypergraph<O, A>) -> bool {
    &&& v.wf() && v.h.x@.len() == 0 && v.h.s.sources.table@.len() == 0 && v.h.t.sources.table@.len() == 0
    &&& v.s.table@.len() == v.h.w@.len() && forall|i: int| 0 <= i < v.h.w@.len() ==> v.s.table@[i] == i
}

/// r is f with its inputs re-routed through src (r.s[i] corresponds to f.s[src[i]]), everything else in place, up to the node bijection phi
pub open spec fn rerouted_left<O, A>(r: OpenHypergraph<O, A>, f: OpenHypergraph<O, A>, src: Seq<usize>, phi: Seq<usize>) -> bool {
    let n = r.h.w@.len() as int;
    &&& f.h.w@.len() == n && phi.len() == n && in_bounds(phi, n) && injective(phi)
    &&& forall|v: int| 0 <= v < n ==> f.h.w@[(#[trigger] phi[v]) as int] == r.h.w@[v]
    &&& f.h.x@ == r.h.x@ && f.h.s.sources.table@ == r.h.s.sources.table@ && f.h.t.sources.table@ == r.h.t.sources.table@
    &&& f.h.s.values.table@.len() == r.h.s.values.table@.len() && forall|i: int| 0 <= i < r.h.s.values.table@.len() ==> (#[trigger] f.h.s.values.table@[i]) == phi[r.h.s.values.table@[i] as int]
    &&& f.h.t.values.table@.len() == r.h.t.values.table@.len() && forall|i: int| 0 <= i < r.h.t.values.table@.len() ==> (#[trigger] f.h.t.values.table@[i]) == phi[r.h.t.values.table@[i] as int]
    &&& r.s.table@.len() == src.len() && forall|i: int| 0 <= i < src.len() ==> f.s.table@[(#[trigger] src[i]) as int] == phi[r.s.table@[i] as int]
    &&& f.t.table@.len() == r.t.table@.len() && forall|i: int| 0 <= i < r.t.table@.len() ==> (#[trigger] f.t.table@[i]) == phi[r.t.table@[i] as int]
}
/// r is f with its outputs re-routed through tgt
pub open spec fn rerouted_right<O, A>(r: OpenHypergraph<O, A>, f: OpenHypergraph<O, A>, tgt: Seq<usize>, phi: Seq<usize>) -> bool {
    let n = r.h.w@.len() as int;
    &&& f.h.w@.len() == n && phi.len() == n && in_bounds(phi, n) && injective(phi)
    &&& forall|v: int| 0 <= v < n ==> f.h.w@[(#[trigger] phi[v]) as int] == r.h.w@[v]
    &&& f.h.x@ == r.h.x@ && f.h.s.sources.table@ == r.h.s.sources.table@ && f.h.t.sources.table@ == r.h.t.sources.table@
    &&& f.h.s.values.table@.len() == r.h.s.values.table@.len() && forall|i: int| 0 <= i < r.h.s.values.table@.len() ==> (#[trigger] f.h.s.values.table@[i]) == phi[r.h.s.values.table@[i] as int]
    &&& f.h.t.values.table@.len() == r.h.t.values.table@.len() && forall|i: int| 0 <= i < r.h.t.values.table@.len() ==> (#[trigger] f.h.t.values.table@[i]) == phi[r.h.t.values.table@[i] as int]
    &&& f.s.table@.len() == r.s.table@.len() && forall|i: int| 0 <= i < r.s.table@.len() ==> (#[trigger] f.s.table@[i]) == phi[r.s.table@[i] as int]
    &&& r.t.table@.len() == tgt.len() && forall|i: int| 0 <= i < tgt.len() ==> f.t.table@[(#[trigger] tgt[i]) as int] == phi[r.t.table@[i] as int]
}

/// composing a wiring diagram on the left re-routes the inputs (generalises the left unit law)
pub proof fn lemma_compose_wiring_left<O, A>(u: OpenHypergraph<O, A>, f: OpenHypergraph<O, A>, r: OpenHypergraph<O, A>) -> (phi: Seq<usize>)
    requires f.wf(), is_wiring_tid(u), is_pushout(u, f, r), u.h.w@.len() + f.h.w@.len() <= usize::MAX, u.tgt_type() =~= f.src_type(),
    ensures rerouted_left(r, f, u.s.table@, phi)
{
    lemma_no_edges(u);
    assert(u.tgt_type().len() == f.src_type().len());
    assert(f.s.table@.len() == u.h.w@.len());
    assert forall|i: int| 0 <= i < u.h.w@.len() implies f.h.w@[f.s.table@[i] as int] == u.h.w@[i] by { assert(f.src_type()[i] == u.tgt_type()[i]); }
    let (q, k) = choose|q: Seq<usize>, k: int| is_coeq(q, k, glue_left(u), glue_right(u, f), (u.h.w@.len() + f.h.w@.len()) as int) && #[trigger] is_quotient_of_jux(u, f, r, q, k);
    let na = u.h.w@.len() as int; let nf = f.h.w@.len() as int; let n = na + nf;
    let s = glue_left(u); let t = glue_right(u, f);
    let h = Seq::new(n as nat, |v: int| if v < na { f.s.table@[v] } else { (v - na) as usize });
    assert forall|c: int| 0 <= c < nf implies #[trigger] hit(h, c, n) by { assert(h[na + c] == c); }
    assert forall|j: int| 0 <= j < s.len() implies h[#[trigger] s[j] as int] == h[t[j] as int] && 0 <= s[j] < n && 0 <= t[j] < n by {
        assert(s[j] == j && t[j] == na + f.s.table@[j]);
    }
    assert forall|a: int, b: int| 0 <= a < n && 0 <= b < n && #[trigger] h[a] == #[trigger] h[b] implies q[a] == q[b] by {
        if a < na { assert(s[a] == a && t[a] == na + f.s.table@[a]); assert(q[s[a] as int] == q[t[a] as int]); }
        if b < na { assert(s[b] == b && t[b] == na + f.s.table@[b]); assert(q[s[b] as int] == q[t[b] as int]); }
    }
    let phi = lemma_factor_iso(q, k, s, t, n, h, nf);
    assert forall|c: int| 0 <= c < k implies f.h.w@[(#[trigger] phi[c]) as int] == r.h.w@[c] by {
        assert(hit(q, c, n));
        let a = choose|a: int| 0 <= a < n && #[trigger] q[a] == c;
        assert(phi[q[a] as int] == h[a]);
        assert(r.h.w@[q[a] as int] == jux_label(u, f, a));
    }
    assert(r.h.x@ =~= f.h.x@);
    assert(r.h.s.sources.table@ =~= f.h.s.sources.table@ && r.h.t.sources.table@ =~= f.h.t.sources.table@);
    assert forall|i: int| 0 <= i < r.h.s.values.table@.len() implies (#[trigger] f.h.s.values.table@[i]) == phi[r.h.s.values.table@[i] as int] by {
        assert(phi[q[na + f.h.s.values.table@[i]] as int] == h[na + f.h.s.values.table@[i]]);
    }
    assert forall|i: int| 0 <= i < r.h.t.values.table@.len() implies (#[trigger] f.h.t.values.table@[i]) == phi[r.h.t.values.table@[i] as int] by {
        assert(phi[q[na + f.h.t.values.table@[i]] as int] == h[na + f.h.t.values.table@[i]]);
    }
    assert forall|i: int| 0 <= i < u.s.table@.len() implies f.s.table@[(#[trigger] u.s.table@[i]) as int] == phi[r.s.table@[i] as int] by {
        assert(u.s.table@[i] < u.s.target);
        assert(phi[q[u.s.table@[i] as int] as int] == h[u.s.table@[i] as int]);
    }
    assert forall|i: int| 0 <= i < r.t.table@.len() implies (#[trigger] f.t.table@[i]) == phi[r.t.table@[i] as int] by {
        assert(phi[q[na + f.t.table@[i]] as int] == h[na + f.t.table@[i]]);
    }
    phi
}

/// composing a wiring diagram on the right re-routes the outputs (generalises the right unit law)
pub proof fn lemma_compose_wiring_right<O, A>(f: OpenHypergraph<O, A>, v: OpenHypergraph<O, A>, r: OpenHypergraph<O, A>) -> (phi: Seq<usize>)
    requires f.wf(), is_wiring_sid(v), is_pushout(f, v, r), v.h.w@.len() + f.h.w@.len() <= usize::MAX, f.tgt_type() =~= v.src_type(),
    ensures rerouted_right(r, f, v.t.table@, phi)
{
    lemma_no_edges(v);
    assert(f.tgt_type().len() == v.src_type().len());
    assert(f.t.table@.len() == v.h.w@.len());
    assert forall|i: int| 0 <= i < v.h.w@.len() implies f.h.w@[f.t.table@[i] as int] == v.h.w@[i] by { assert(f.tgt_type()[i] == v.src_type()[i]); }
    let (q, k) = choose|q: Seq<usize>, k: int| is_coeq(q, k, glue_left(f), glue_right(f, v), (f.h.w@.len() + v.h.w@.len()) as int) && #[trigger] is_quotient_of_jux(f, v, r, q, k);
    let nf = f.h.w@.len() as int; let nb = v.h.w@.len() as int; let n = nf + nb;
    let s = glue_left(f); let t = glue_right(f, v);
    let h = Seq::new(n as nat, |x: int| if x < nf { x as usize } else { f.t.table@[x - nf] });
    assert forall|c: int| 0 <= c < nf implies #[trigger] hit(h, c, n) by { assert(h[c] == c); }
    assert forall|j: int| 0 <= j < s.len() implies h[#[trigger] s[j] as int] == h[t[j] as int] && 0 <= s[j] < n && 0 <= t[j] < n by {
        assert(s[j] == f.t.table@[j] && t[j] == nf + j);
    }
    assert forall|a: int, b: int| 0 <= a < n && 0 <= b < n && #[trigger] h[a] == #[trigger] h[b] implies q[a] == q[b] by {
        if a >= nf { assert(s[a - nf] == f.t.table@[a - nf] && t[a - nf] == a); assert(q[s[a - nf] as int] == q[t[a - nf] as int]); }
        if b >= nf { assert(s[b - nf] == f.t.table@[b - nf] && t[b - nf] == b); assert(q[s[b - nf] as int] == q[t[b - nf] as int]); }
    }
    let phi = lemma_factor_iso(q, k, s, t, n, h, nf);
    assert forall|c: int| 0 <= c < k implies f.h.w@[(#[trigger] phi[c]) as int] == r.h.w@[c] by {
        assert(hit(q, c, n));
        let a = choose|a: int| 0 <= a < n && #[trigger] q[a] == c;
        assert(phi[q[a] as int] == h[a]);
        assert(r.h.w@[q[a] as int] == jux_label(f, v, a));
    }
    assert(r.h.x@ =~= f.h.x@);
    assert(r.h.s.sources.table@ =~= f.h.s.sources.table@ && r.h.t.sources.table@ =~= f.h.t.sources.table@);
    assert forall|i: int| 0 <= i < r.h.s.values.table@.len() implies (#[trigger] f.h.s.values.table@[i]) == phi[r.h.s.values.table@[i] as int] by {
        assert(phi[q[f.h.s.values.table@[i] as int] as int] == h[f.h.s.values.table@[i] as int]);
    }
    assert forall|i: int| 0 <= i < r.h.t.values.table@.len() implies (#[trigger] f.h.t.values.table@[i]) == phi[r.h.t.values.table@[i] as int] by {
        assert(phi[q[f.h.t.values.table@[i] as int] as int] == h[f.h.t.values.table@[i] as int]);
    }
    assert forall|i: int| 0 <= i < r.s.table@.len() implies (#[trigger] f.s.table@[i]) == phi[r.s.table@[i] as int] by {
        assert(phi[q[f.s.table@[i] as int] as int] == h[f.s.table@[i] as int]);
    }
    assert forall|i: int| 0 <= i < v.t.table@.len() implies f.t.table@[(#[trigger] v.t.table@[i]) as int] == phi[r.t.table@[i] as int] by {
        assert(v.t.table@[i] < v.t.target);
        assert(phi[q[nf + v.t.table@[i]] as int] == h[nf + v.t.table@[i]]);
    }
    phi
}
''')

raw(r'''
/// if r is v with inputs re-routed through src, and w is v with exactly that re-routing done, then r is isomorphic to w
pub proof fn lemma_rerouted_left_iso<O, A>(r: OpenHypergraph<O, A>, v: OpenHypergraph<O, A>, w: OpenHypergraph<O, A>, src: Seq<usize>, phi: Seq<usize>)
    requires rerouted_left(r, v, src, phi), in_bounds(src, v.s.table@.len() as int),
        w.h.w@ == v.h.w@, w.h.x@ == v.h.x@, w.h.s.sources.table@ == v.h.s.sources.table@, w.h.t.sources.table@ == v.h.t.sources.table@,
        w.h.s.values.table@ == v.h.s.values.table@, w.h.t.values.table@ == v.h.t.values.table@, w.t.table@ == v.t.table@,
        w.s.table@.len() == src.len(), forall|i: int| 0 <= i < src.len() ==> (#[trigger] w.s.table@[i]) == v.s.table@[src[i] as int],
    ensures node_iso(r, w, phi)
{
}

/// the tensor of two wiring diagrams with identity target legs is one
pub proof fn lemma_tensor_wiring_tid<O, A>(r: OpenHypergraph<O, A>, f: OpenHypergraph<O, A>, g: OpenHypergraph<O, A>)
    requires is_tensor(r, f, g), is_wiring_tid(f), is_wiring_tid(g)
    ensures is_wiring_tid(r)
{
    lemma_no_edges(f); lemma_no_edges(g);
    assert(r.h.s.sources.table@.len() == 0 && r.h.t.sources.table@.len() == 0);
}

/// first hexagon: (twist(a,b) | id_c) ; (id_b | twist(a,c)) is isomorphic to twist(a, b ++ c)
pub proof fn lemma_hexagon_1<O, A>(a: Seq<O>, b: Seq<O>, c: Seq<O>, tab: OpenHypergraph<O, A>, idc: OpenHypergraph<O, A>, u: OpenHypergraph<O, A>,
                                   idb: OpenHypergraph<O, A>, tac: OpenHypergraph<O, A>, v: OpenHypergraph<O, A>, r: OpenHypergraph<O, A>, t: OpenHypergraph<O, A>) -> (phi: Seq<usize>)
    requires is_twist(tab, a, b), is_identity_on(idc, c), is_tensor(u, tab, idc),
        is_identity_on(idb, b), is_twist(tac, a, c), is_tensor(v, idb, tac),
        is_pushout(u, v, r), is_twist(t, a, b + c), 2 * (a.len() + b.len() + c.len()) <= usize::MAX,
    ensures node_iso(r, t, phi)
{
    let na = a.len() as int; let nb = b.len() as int; let nc = c.len() as int;
    lemma_tensor_wiring_tid(u, tab, idc);
    lemma_no_edges(tab); lemma_no_edges(idc); lemma_no_edges(idb); lemma_no_edges(tac); lemma_no_edges(t);
    assert(u.h.w@ =~= (b + a) + c);
    assert(v.h.w@ =~= b + (c + a));
    assert(u.tgt_type() =~= v.src_type()) by {
        assert forall|i: int| 0 <= i < na + nb + nc implies u.tgt_type()[i] == v.src_type()[i] by {
            if i < nb { assert(v.s.table@[i] == idb.s.table@[i]); }
            else { assert(v.s.table@[i] == nb + tac.s.table@[i - nb]); }
        }
    }
    let phi = lemma_compose_wiring_left(u, v, r);
    assert forall|i: int| 0 <= i < u.s.table@.len() implies (#[trigger] t.s.table@[i]) == v.s.table@[u.s.table@[i] as int] by {
        if i < na { assert(u.s.table@[i] == tab.s.table@[i]); assert(v.s.table@[nb + i] == nb + tac.s.table@[i]); }
        else if i < na + nb { assert(u.s.table@[i] == tab.s.table@[i]); assert(v.s.table@[i - na] == idb.s.table@[i - na]); }
        else { assert(u.s.table@[i] == (na + nb) + idc.s.table@[i - na - nb]); assert(v.s.table@[i] == nb + tac.s.table@[i - nb]); }
    }
    assert(t.h.w@ =~= v.h.w@);
    assert(t.t.table@ =~= v.t.table@) by {
        assert forall|i: int| 0 <= i < na + nb + nc implies t.t.table@[i] == v.t.table@[i] by {
            if i < nb { assert(v.t.table@[i] == idb.t.table@[i]); } else { assert(v.t.table@[i] == nb + tac.t.table@[i - nb]); }
        }
    }
    assert(t.h.x@ =~= v.h.x@);
    assert(t.h.s.sources.table@ =~= v.h.s.sources.table@ && t.h.t.sources.table@ =~= v.h.t.sources.table@);
    assert(t.h.s.values.table@ =~= v.h.s.values.table@ && t.h.t.values.table@ =~= v.h.t.values.table@);
    assert(in_bounds(u.s.table@, v.s.table@.len() as int)) by {
        assert forall|i: int| 0 <= i < u.s.table@.len() implies (#[trigger] u.s.table@[i]) < v.s.table@.len() by { assert(u.s.table@[i] < u.s.target); }
    }
    lemma_rerouted_left_iso(r, v, t, u.s.table@, phi);
    phi
}

/// second hexagon: (id_a | twist(b,c)) ; (twist(a,c) | id_b) is isomorphic to twist(a ++ b, c)
pub proof fn lemma_hexagon_2<O, A>(a: Seq<O>, b: Seq<O>, c: Seq<O>, ida: OpenHypergraph<O, A>, tbc: OpenHypergraph<O, A>, u: OpenHypergraph<O, A>,
                                   tac: OpenHypergraph<O, A>, idb: OpenHypergraph<O, A>, v: OpenHypergraph<O, A>, r: OpenHypergraph<O, A>, t: OpenHypergraph<O, A>) -> (phi: Seq<usize>)
    requires is_identity_on(ida, a), is_twist(tbc, b, c), is_tensor(u, ida, tbc),
        is_twist(tac, a, c), is_identity_on(idb, b), is_tensor(v, tac, idb),
        is_pushout(u, v, r), is_twist(t, a + b, c), 2 * (a.len() + b.len() + c.len()) <= usize::MAX,
    ensures node_iso(r, t, phi)
{
    let na = a.len() as int; let nb = b.len() as int; let nc = c.len() as int;
    lemma_tensor_wiring_tid(u, ida, tbc);
    lemma_no_edges(tbc); lemma_no_edges(ida); lemma_no_edges(idb); lemma_no_edges(tac); lemma_no_edges(t);
    assert(u.h.w@ =~= a + (c + b));
    assert(v.h.w@ =~= (c + a) + b);
    assert(u.tgt_type() =~= v.src_type()) by {
        assert forall|i: int| 0 <= i < na + nb + nc implies u.tgt_type()[i] == v.src_type()[i] by {
            if i < na + nc { assert(v.s.table@[i] == tac.s.table@[i]); }
            else { assert(v.s.table@[i] == (na + nc) + idb.s.table@[i - na - nc]); }
        }
    }
    let phi = lemma_compose_wiring_left(u, v, r);
    assert forall|i: int| 0 <= i < u.s.table@.len() implies (#[trigger] t.s.table@[i]) == v.s.table@[u.s.table@[i] as int] by {
        if i < na { assert(u.s.table@[i] == ida.s.table@[i]); assert(v.s.table@[i] == tac.s.table@[i]); }
        else {
            assert(u.s.table@[i] == na + tbc.s.table@[i - na]);
            if i < na + nb { assert(v.s.table@[nc + i] == (na + nc) + idb.s.table@[i - na]); }
            else { assert(v.s.table@[i - nb] == tac.s.table@[i - nb]); }
        }
    }
    assert(t.h.w@ =~= v.h.w@);
    assert(t.t.table@ =~= v.t.table@) by {
        assert forall|i: int| 0 <= i < na + nb + nc implies t.t.table@[i] == v.t.table@[i] by {
            if i < na + nc { assert(v.t.table@[i] == tac.t.table@[i]); } else { assert(v.t.table@[i] == (na + nc) + idb.t.table@[i - na - nc]); }
        }
    }
    assert(t.h.x@ =~= v.h.x@);
    assert(t.h.s.sources.table@ =~= v.h.s.sources.table@ && t.h.t.sources.table@ =~= v.h.t.sources.table@);
    assert(t.h.s.values.table@ =~= v.h.s.values.table@ && t.h.t.values.table@ =~= v.h.t.values.table@);
    assert(in_bounds(u.s.table@, v.s.table@.len() as int)) by {
        assert forall|i: int| 0 <= i < u.s.table@.len() implies (#[trigger] u.s.table@[i]) < v.s.table@.len() by { assert(u.s.table@[i] < u.s.target); }
    }
    lemma_rerouted_left_iso(r, v, t, u.s.table@, phi);
    phi
}
''')

raw(r'''
/// the inverse of a permutation of 0..n
pub open spec fn inv_perm(p: Seq<usize>) -> Seq<usize> {
    Seq::new(p.len(), |y: int| (choose|x: int| 0 <= x < p.len() && #[trigger] p[x] == y) as usize)
}

pub proof fn lemma_inv_perm(p: Seq<usize>)
    requires in_bounds(p, p.len() as int), injective(p), p.len() <= usize::MAX
    ensures inv_perm(p).len() == p.len(), in_bounds(inv_perm(p), p.len() as int), injective(inv_perm(p)),
        forall|y: int| 0 <= y < p.len() ==> p[(#[trigger] inv_perm(p)[y]) as int] == y,
        forall|x: int| 0 <= x < p.len() ==> inv_perm(p)[(#[trigger] p[x]) as int] == x,
{
    let n = p.len() as int; let q = inv_perm(p);
    assert(is_perm(p, n));
    assert forall|y: int| 0 <= y < n implies (#[trigger] q[y]) < n && p[q[y] as int] == y by {
        let x0 = lemma_perm_surjective(p, y);
    }
    assert forall|x: int| 0 <= x < n implies q[(#[trigger] p[x]) as int] == x by {
        let y = p[x] as int;
        assert(p[q[y] as int] == y);
    }
    assert forall|y1: int, y2: int| 0 <= y1 < n && 0 <= y2 < n && y1 != y2 implies q[y1] != q[y2] by {
        assert(p[q[y1] as int] == y1 && p[q[y2] as int] == y2);
    }
}

/// v is a wiring diagram whose source leg is a bijection onto its nodes, with inverse sinv
pub open spec fn is_wiring_sbij<O, A>(v: OpenHypergraph<O, A>, sinv: Seq<usize>) -> bool {
    &&& v.wf() && v.h.x@.len() == 0 && v.h.s.sources.table@.len() == 0 && v.h.t.sources.table@.len() == 0
    &&& v.s.table@.len() == v.h.w@.len() && sinv.len() == v.h.w@.len() && in_bounds(sinv, v.h.w@.len() as int)
    &&& forall|x: int| 0 <= x < v.h.w@.len() ==> v.s.table@[(#[trigger] sinv[x]) as int] == x
    &&& forall|j: int| 0 <= j < v.h.w@.len() ==> sinv[(#[trigger] v.s.table@[j]) as int] == j
}

/// composing a bijective wiring diagram on the right re-routes the outputs: r.t[i] corresponds to f.t[sinv[v.t[i]]]
pub proof fn lemma_compose_wiring_right_bij<O, A>(f: OpenHypergraph<O, A>, v: OpenHypergraph<O, A>, sinv: Seq<usize>, r: OpenHypergraph<O, A>) -> (phi: Seq<usize>)
    requires f.wf(), is_wiring_sbij(v, sinv), is_pushout(f, v, r), v.h.w@.len() + f.h.w@.len() <= usize::MAX, f.tgt_type() =~= v.src_type(),
    ensures rerouted_right(r, f, Seq::new(v.t.table@.len(), |i: int| sinv[v.t.table@[i] as int]), phi)
{
    lemma_no_edges(v);
    assert(f.tgt_type().len() == v.src_type().len());
    assert(f.t.table@.len() == v.h.w@.len());
    assert forall|j: int| 0 <= j < v.h.w@.len() implies f.h.w@[f.t.table@[j] as int] == v.h.w@[v.s.table@[j] as int] by { assert(f.tgt_type()[j] == v.src_type()[j]); }
    let (q, k) = choose|q: Seq<usize>, k: int| is_coeq(q, k, glue_left(f), glue_right(f, v), (f.h.w@.len() + v.h.w@.len()) as int) && #[trigger] is_quotient_of_jux(f, v, r, q, k);
    let nf = f.h.w@.len() as int; let nb = v.h.w@.len() as int; let n = nf + nb;
    let s = glue_left(f); let t = glue_right(f, v);
    let h = Seq::new(n as nat, |x: int| if x < nf { x as usize } else { f.t.table@[sinv[x - nf] as int] });
    assert forall|c: int| 0 <= c < nf implies #[trigger] hit(h, c, n) by { assert(h[c] == c); }
    assert forall|j: int| 0 <= j < s.len() implies h[#[trigger] s[j] as int] == h[t[j] as int] && 0 <= s[j] < n && 0 <= t[j] < n by {
        assert(s[j] == f.t.table@[j] && t[j] == nf + v.s.table@[j]);
        assert(v.s.table@[j] < v.s.target);
        assert(sinv[v.s.table@[j] as int] == j);
    }
    // every node is identified with its image under h
    assert forall|a: int| 0 <= a < n implies q[a] == q[#[trigger] h[a] as int] by {
        if a >= nf {
            let j = sinv[a - nf] as int;
            assert(v.s.table@[j] == a - nf);
            assert(s[j] == f.t.table@[j] && t[j] == nf + v.s.table@[j]);
            assert(q[s[j] as int] == q[t[j] as int]);
        }
    }
    assert forall|a: int, b: int| 0 <= a < n && 0 <= b < n && #[trigger] h[a] == #[trigger] h[b] implies q[a] == q[b] by {
        assert(q[a] == q[h[a] as int] && q[b] == q[h[b] as int]);
    }
    let phi = lemma_factor_iso(q, k, s, t, n, h, nf);
    assert forall|c: int| 0 <= c < k implies f.h.w@[(#[trigger] phi[c]) as int] == r.h.w@[c] by {
        assert(hit(q, c, n));
        let a = choose|a: int| 0 <= a < n && #[trigger] q[a] == c;
        assert(phi[q[a] as int] == h[a]);
        assert(r.h.w@[q[a] as int] == jux_label(f, v, a));
        if a >= nf { let j = sinv[a - nf] as int; assert(v.s.table@[j] == a - nf); }
    }
    assert(r.h.x@ =~= f.h.x@);
    assert(r.h.s.sources.table@ =~= f.h.s.sources.table@ && r.h.t.sources.table@ =~= f.h.t.sources.table@);
    assert forall|i: int| 0 <= i < r.h.s.values.table@.len() implies (#[trigger] f.h.s.values.table@[i]) == phi[r.h.s.values.table@[i] as int] by {
        assert(phi[q[f.h.s.values.table@[i] as int] as int] == h[f.h.s.values.table@[i] as int]);
    }
    assert forall|i: int| 0 <= i < r.h.t.values.table@.len() implies (#[trigger] f.h.t.values.table@[i]) == phi[r.h.t.values.table@[i] as int] by {
        assert(phi[q[f.h.t.values.table@[i] as int] as int] == h[f.h.t.values.table@[i] as int]);
    }
    assert forall|i: int| 0 <= i < r.s.table@.len() implies (#[trigger] f.s.table@[i]) == phi[r.s.table@[i] as int] by {
        assert(phi[q[f.s.table@[i] as int] as int] == h[f.s.table@[i] as int]);
    }
    let tgt = Seq::new(v.t.table@.len(), |i: int| sinv[v.t.table@[i] as int]);
    assert forall|i: int| 0 <= i < tgt.len() implies f.t.table@[(#[trigger] tgt[i]) as int] == phi[r.t.table@[i] as int] by {
        assert(v.t.table@[i] < v.t.target);
        assert(phi[q[nf + v.t.table@[i]] as int] == h[nf + v.t.table@[i]]);
    }
    phi
}
''')

raw(r'''
/// positions of the two blocks of a juxtaposition of segmented arrays
pub proof fn lemma_jux_seg(r: IndexedCoproduct<FiniteFunction>, a: IndexedCoproduct<FiniteFunction>, b: IndexedCoproduct<FiniteFunction>)
    requires juxtaposed(r, a, b), a.wf(), b.wf()
    ensures
        forall|e: int, j: int| 0 <= e < a.sources.table@.len() && 0 <= j < a.sources.table@[e] ==>
            r.sources.table@[e] == a.sources.table@[e] && #[trigger] r.values.table@[seg_at(r.sources.table@, e, j)] == a.values.table@[seg_at(a.sources.table@, e, j)],
        forall|e: int, j: int| 0 <= e < b.sources.table@.len() && 0 <= j < b.sources.table@[e] ==>
            r.sources.table@[a.sources.table@.len() + e] == b.sources.table@[e]
            && #[trigger] r.values.table@[seg_at(r.sources.table@, a.sources.table@.len() + e, j)] == a.values.target + b.values.table@[seg_at(b.sources.table@, e, j)],
{
    let asz = a.sources.table@; let bsz = b.sources.table@; let rsz = r.sources.table@; let ma = asz.len() as int;
    assert(total(asz) == a.values.table@.len() && total(bsz) == b.values.table@.len());
    assert forall|e: int, j: int| 0 <= e < ma && 0 <= j < asz[e] implies
            rsz[e] == asz[e] && #[trigger] r.values.table@[seg_at(rsz, e, j)] == a.values.table@[seg_at(asz, e, j)] by {
        lemma_psum_prefix(rsz, asz, e);
        lemma_seg_range(asz, e, j);
    }
    assert forall|e: int, j: int| 0 <= e < bsz.len() && 0 <= j < bsz[e] implies
            rsz[ma + e] == bsz[e] && #[trigger] r.values.table@[seg_at(rsz, ma + e, j)] == a.values.target + b.values.table@[seg_at(bsz, e, j)] by {
        lemma_psum_concat(asz, bsz, e);
        lemma_seg_range(bsz, e, j);
    }
}

/// block swap (g-part, f-part) -> (f-part, g-part)
pub open spec fn swap_blocks(nf: int, ng: int) -> Seq<usize> {
    Seq::new((nf + ng) as nat, |y: int| if y < ng { (nf + y) as usize } else { (y - ng) as usize })
}
/// the node map of the naturality isomorphism: l-node -> (g|f)-node -> (f|g)-node -> r-node
pub open spec fn nat_phi(phil: Seq<usize>, phir: Seq<usize>, nf: int, ng: int) -> Seq<usize> {
    Seq::new((nf + ng) as nat, |v: int| inv_perm(phir)[swap_blocks(nf, ng)[phil[v] as int] as int])
}

pub proof fn lemma_nat_phi(phil: Seq<usize>, phir: Seq<usize>, nf: int, ng: int)
    requires 0 <= nf, 0 <= ng, nf + ng <= usize::MAX, phil.len() == nf + ng, phir.len() == nf + ng,
        in_bounds(phil, nf + ng), injective(phil), in_bounds(phir, nf + ng), injective(phir),
    ensures ({ let phi = nat_phi(phil, phir, nf, ng); let sw = swap_blocks(nf, ng);
        phi.len() == nf + ng && in_bounds(phi, nf + ng) && injective(phi)
        && (forall|v: int| 0 <= v < nf + ng ==> phir[(#[trigger] phi[v]) as int] == sw[phil[v] as int])
        && (forall|v: int, z: int| 0 <= v < nf + ng && 0 <= z < nf + ng && #[trigger] phir[z] == #[trigger] sw[phil[v] as int] ==> phi[v] == z) })
{
    let n = nf + ng; let phi = nat_phi(phil, phir, nf, ng); let sw = swap_blocks(nf, ng);
    lemma_inv_perm(phir);
    let pinv = inv_perm(phir);
    assert forall|v: int| 0 <= v < n implies (#[trigger] phi[v]) < n && phir[phi[v] as int] == sw[phil[v] as int] by {
        assert(phil[v] < n); assert(sw[phil[v] as int] < n);
    }
    assert forall|v1: int, v2: int| 0 <= v1 < n && 0 <= v2 < n && v1 != v2 implies phi[v1] != phi[v2] by {
        assert(phil[v1] != phil[v2] && phil[v1] < n && phil[v2] < n);
        assert(sw[phil[v1] as int] != sw[phil[v2] as int]);
        assert(sw[phil[v1] as int] < n && sw[phil[v2] as int] < n);
    }
    assert forall|v: int, z: int| 0 <= v < n && 0 <= z < n && #[trigger] phir[z] == #[trigger] sw[phil[v] as int] implies phi[v] == z by {
        assert(phil[v] < n);
        assert(pinv[phir[z] as int] == z);
    }
}

/// one incidence side (sources or targets) of the naturality isomorphism
pub proof fn lemma_nat_incidence(li: IndexedCoproduct<FiniteFunction>, ri: IndexedCoproduct<FiniteFunction>, gfi: IndexedCoproduct<FiniteFunction>, fgi: IndexedCoproduct<FiniteFunction>,
                                 gi: IndexedCoproduct<FiniteFunction>, fi: IndexedCoproduct<FiniteFunction>, phil: Seq<usize>, phir: Seq<usize>, phi: Seq<usize>, nf: int, ng: int)
    requires li.wf(), ri.wf(), gfi.wf(), fgi.wf(), gi.wf(), fi.wf(), juxtaposed(gfi, gi, fi), juxtaposed(fgi, fi, gi),
        gi.values.target == ng, fi.values.target == nf, li.values.target == nf + ng, ri.values.target == nf + ng,
        li.sources.table@ == gfi.sources.table@, ri.sources.table@ == fgi.sources.table@,
        li.values.table@.len() == gfi.values.table@.len(), ri.values.table@.len() == fgi.values.table@.len(),
        phil.len() == nf + ng, phir.len() == nf + ng,
        forall|i: int| 0 <= i < li.values.table@.len() ==> (#[trigger] gfi.values.table@[i]) == phil[li.values.table@[i] as int],
        forall|i: int| 0 <= i < ri.values.table@.len() ==> (#[trigger] fgi.values.table@[i]) == phir[ri.values.table@[i] as int],
        forall|v: int, z: int| 0 <= v < nf + ng && 0 <= z < nf + ng && #[trigger] phir[z] == #[trigger] swap_blocks(nf, ng)[phil[v] as int] ==> phi[v] == z,
        in_bounds(phil, nf + ng), nf + ng <= usize::MAX, gi.sources.table@.len() + fi.sources.table@.len() <= usize::MAX,
    ensures ({ let mg = gi.sources.table@.len() as int; let mf = fi.sources.table@.len() as int; let psi = swap_blocks(mf, mg);
        forall|e: int, j: int| 0 <= e < mf + mg && 0 <= j < li.sources.table@[e] ==>
            ri.sources.table@[psi[e] as int] == li.sources.table@[e]
            && ri.values.table@[seg_at(ri.sources.table@, psi[e] as int, j)] == phi[(#[trigger] li.values.table@[seg_at(li.sources.table@, e, j)]) as int] })
{
    let mg = gi.sources.table@.len() as int; let mf = fi.sources.table@.len() as int; let psi = swap_blocks(mf, mg); let n = nf + ng;
    let sw = swap_blocks(nf, ng);
    lemma_jux_seg(gfi, gi, fi); lemma_jux_seg(fgi, fi, gi);
    assert forall|e: int, j: int| 0 <= e < mf + mg && 0 <= j < li.sources.table@[e] implies
            ri.sources.table@[psi[e] as int] == li.sources.table@[e]
            && ri.values.table@[seg_at(ri.sources.table@, psi[e] as int, j)] == phi[(#[trigger] li.values.table@[seg_at(li.sources.table@, e, j)]) as int] by {
        let pl = seg_at(li.sources.table@, e, j);
        lemma_pos(li, e, j);
        if e < mg {
            lemma_pos(gi, e, j);
            let gv = gi.values.table@[seg_at(gi.sources.table@, e, j)];
            assert(gfi.values.table@[seg_at(gfi.sources.table@, e, j)] == gv);
            assert(fgi.sources.table@[mf + e] == gi.sources.table@[e]);
            let pr = seg_at(ri.sources.table@, mf + e, j);
            lemma_pos(ri, mf + e, j);
            assert(fgi.values.table@[seg_at(fgi.sources.table@, mf + e, j)] == nf + gv);
            assert(gfi.values.table@[pl] == phil[li.values.table@[pl] as int]);
            assert(fgi.values.table@[pr] == phir[ri.values.table@[pr] as int]);
            assert(phir[ri.values.table@[pr] as int] == sw[phil[li.values.table@[pl] as int] as int]);
        } else {
            lemma_pos(fi, e - mg, j);
            let fv = fi.values.table@[seg_at(fi.sources.table@, e - mg, j)];
            assert(gfi.values.table@[seg_at(gfi.sources.table@, mg + (e - mg), j)] == ng + fv);
            assert(fgi.sources.table@[e - mg] == fi.sources.table@[e - mg]);
            let pr = seg_at(ri.sources.table@, e - mg, j);
            lemma_pos(ri, e - mg, j);
            assert(fgi.values.table@[seg_at(fgi.sources.table@, e - mg, j)] == fv);
            assert(gfi.values.table@[pl] == phil[li.values.table@[pl] as int]);
            assert(fgi.values.table@[pr] == phir[ri.values.table@[pr] as int]);
            assert(phir[ri.values.table@[pr] as int] == sw[phil[li.values.table@[pl] as int] as int]);
        }
    }
}
''')

raw(r'''
/// the interface part of the naturality isomorphism
pub proof fn lemma_nat_interfaces<O, A>(f: OpenHypergraph<O, A>, g: OpenHypergraph<O, A>, gf: OpenHypergraph<O, A>, fg: OpenHypergraph<O, A>,
        l: OpenHypergraph<O, A>, r: OpenHypergraph<O, A>, tws: Seq<usize>, tgt: Seq<usize>, phil: Seq<usize>, phir: Seq<usize>, phi: Seq<usize>,
        na: int, nb: int, nc: int, nd: int)
    requires f.wf(), g.wf(), l.wf(), r.wf(), is_tensor(gf, g, f), is_tensor(fg, f, g),
        f.s.table@.len() == na, f.t.table@.len() == nc, g.s.table@.len() == nb, g.t.table@.len() == nd,
        l.h.w@.len() == f.h.w@.len() + g.h.w@.len(), r.h.w@.len() == f.h.w@.len() + g.h.w@.len(), f.h.w@.len() + g.h.w@.len() <= usize::MAX,
        phil.len() == l.h.w@.len(), phir.len() == l.h.w@.len(), in_bounds(phil, l.h.w@.len() as int),
        tws.len() == na + nb, forall|i: int| 0 <= i < na ==> tws[i] == nb + i, forall|i: int| na <= i < na + nb ==> tws[i] == i - na,
        tgt.len() == nc + nd, forall|i: int| 0 <= i < nd ==> tgt[i] == nc + i, forall|i: int| nd <= i < nc + nd ==> tgt[i] == i - nd,
        l.s.table@.len() == na + nb, forall|i: int| 0 <= i < na + nb ==> gf.s.table@[(#[trigger] tws[i]) as int] == phil[l.s.table@[i] as int],
        r.s.table@.len() == na + nb, forall|i: int| 0 <= i < na + nb ==> (#[trigger] fg.s.table@[i]) == phir[r.s.table@[i] as int],
        l.t.table@.len() == nc + nd, forall|i: int| 0 <= i < nc + nd ==> (#[trigger] gf.t.table@[i]) == phil[l.t.table@[i] as int],
        r.t.table@.len() == nc + nd, forall|i: int| 0 <= i < nc + nd ==> fg.t.table@[(#[trigger] tgt[i]) as int] == phir[r.t.table@[i] as int],
        forall|v: int, z: int| 0 <= v < l.h.w@.len() && 0 <= z < l.h.w@.len() && #[trigger] phir[z] == #[trigger] swap_blocks(f.h.w@.len() as int, g.h.w@.len() as int)[phil[v] as int] ==> phi[v] == z,
    ensures forall|i: int| 0 <= i < l.s.table@.len() ==> (#[trigger] r.s.table@[i]) == phi[l.s.table@[i] as int],
        forall|i: int| 0 <= i < l.t.table@.len() ==> (#[trigger] r.t.table@[i]) == phi[l.t.table@[i] as int],
{
    let nf = f.h.w@.len() as int; let ng = g.h.w@.len() as int; let sw = swap_blocks(nf, ng);
    assert forall|i: int| 0 <= i < l.s.table@.len() implies (#[trigger] r.s.table@[i]) == phi[l.s.table@[i] as int] by {
        assert(l.s.table@[i] < l.s.target && r.s.table@[i] < r.s.target);
        assert(gf.s.table@[tws[i] as int] == phil[l.s.table@[i] as int]);
        assert(fg.s.table@[i] == phir[r.s.table@[i] as int]);
        if i < na { assert(gf.s.table@[nb + i] == ng + f.s.table@[i]); assert(fg.s.table@[i] == f.s.table@[i]); assert(f.s.table@[i] < f.s.target); }
        else { assert(gf.s.table@[i - na] == g.s.table@[i - na]); assert(fg.s.table@[i] == nf + g.s.table@[i - na]); assert(g.s.table@[i - na] < g.s.target); }
        assert(phir[r.s.table@[i] as int] == sw[phil[l.s.table@[i] as int] as int]);
    }
    assert forall|i: int| 0 <= i < l.t.table@.len() implies (#[trigger] r.t.table@[i]) == phi[l.t.table@[i] as int] by {
        assert(l.t.table@[i] < l.t.target && r.t.table@[i] < r.t.target);
        assert(gf.t.table@[i] == phil[l.t.table@[i] as int]);
        assert(fg.t.table@[tgt[i] as int] == phir[r.t.table@[i] as int]);
        if i < nd { assert(gf.t.table@[i] == g.t.table@[i]); assert(fg.t.table@[nc + i] == nf + g.t.table@[i]); assert(g.t.table@[i] < g.t.target); }
        else { assert(gf.t.table@[i] == ng + f.t.table@[i - nd]); assert(fg.t.table@[i - nd] == f.t.table@[i - nd]); assert(f.t.table@[i - nd] < f.t.target); }
        assert(phir[r.t.table@[i] as int] == sw[phil[l.t.table@[i] as int] as int]);
    }
}

/// assembling the naturality isomorphism from its parts
pub proof fn lemma_nat_assemble<O, A>(f: OpenHypergraph<O, A>, g: OpenHypergraph<O, A>, gf: OpenHypergraph<O, A>, fg: OpenHypergraph<O, A>,
        l: OpenHypergraph<O, A>, r: OpenHypergraph<O, A>, tws: Seq<usize>, tgt: Seq<usize>, phil: Seq<usize>, phir: Seq<usize>,
        na: int, nb: int, nc: int, nd: int)
    requires f.wf(), g.wf(), l.wf(), r.wf(), is_tensor(gf, g, f), is_tensor(fg, f, g),
        rerouted_left(l, gf, tws, phil), rerouted_right(r, fg, tgt, phir),
        f.s.table@.len() == na, f.t.table@.len() == nc, g.s.table@.len() == nb, g.t.table@.len() == nd,
        2 * (f.h.w@.len() + g.h.w@.len() + f.h.x@.len() + g.h.x@.len()) <= usize::MAX,
        tws.len() == na + nb, forall|i: int| 0 <= i < na ==> tws[i] == nb + i, forall|i: int| na <= i < na + nb ==> tws[i] == i - na,
        tgt.len() == nc + nd, forall|i: int| 0 <= i < nd ==> tgt[i] == nc + i, forall|i: int| nd <= i < nc + nd ==> tgt[i] == i - nd,
    ensures oh_iso(l, r, nat_phi(phil, phir, f.h.w@.len() as int, g.h.w@.len() as int), swap_blocks(f.h.x@.len() as int, g.h.x@.len() as int))
{
    let nf = f.h.w@.len() as int; let ng = g.h.w@.len() as int; let mf = f.h.x@.len() as int; let mg = g.h.x@.len() as int;
    let n = nf + ng; let m = mf + mg;
    assert(l.h.w@.len() == n && r.h.w@.len() == n && gf.h.w@.len() == n && fg.h.w@.len() == n);
    lemma_nat_phi(phil, phir, nf, ng);
    let phi = nat_phi(phil, phir, nf, ng); let psi = swap_blocks(mf, mg); let sw = swap_blocks(nf, ng);
    assert forall|v: int| 0 <= v < n implies r.h.w@[(#[trigger] phi[v]) as int] == l.h.w@[v] by {
        assert(phir[phi[v] as int] == sw[phil[v] as int]);
        assert(phil[v] < n);
        assert(fg.h.w@[phir[phi[v] as int] as int] == r.h.w@[phi[v] as int]);
        assert(gf.h.w@[phil[v] as int] == l.h.w@[v]);
        assert(gf.h.w@ == g.h.w@ + f.h.w@ && fg.h.w@ == f.h.w@ + g.h.w@);
    }
    assert(l.h.x@ == g.h.x@ + f.h.x@ && r.h.x@ == f.h.x@ + g.h.x@);
    assert forall|e1: int, e2: int| 0 <= e1 < m && 0 <= e2 < m && e1 != e2 implies psi[e1] != psi[e2] by {}
    assert forall|e: int| 0 <= e < m implies (#[trigger] psi[e]) < m && r.h.x@[psi[e] as int] == l.h.x@[e] by {}
    lemma_nat_incidence(l.h.s, r.h.s, gf.h.s, fg.h.s, g.h.s, f.h.s, phil, phir, phi, nf, ng);
    lemma_nat_incidence(l.h.t, r.h.t, gf.h.t, fg.h.t, g.h.t, f.h.t, phil, phir, phi, nf, ng);
    assert forall|e: int| 0 <= e < m implies r.h.s.sources.table@[(#[trigger] psi[e]) as int] == l.h.s.sources.table@[e] && r.h.t.sources.table@[psi[e] as int] == l.h.t.sources.table@[e] by {
        assert(l.h.s.sources.table@ == g.h.s.sources.table@ + f.h.s.sources.table@ && r.h.s.sources.table@ == f.h.s.sources.table@ + g.h.s.sources.table@);
        assert(l.h.t.sources.table@ == g.h.t.sources.table@ + f.h.t.sources.table@ && r.h.t.sources.table@ == f.h.t.sources.table@ + g.h.t.sources.table@);
    }
    lemma_nat_interfaces(f, g, gf, fg, l, r, tws, tgt, phil, phir, phi, na, nb, nc, nd);
}
''')

raw(r'''
/// naturality of the symmetry: twist(a,b) ; (g | f) is isomorphic to (f | g) ; twist(c,d) for f: a -> c, g: b -> d
/// (nodes and hyperedges of the two sides correspond by swapping the f- and g-blocks)
pub proof fn lemma_twist_natural<O, A>(a: Seq<O>, b: Seq<O>, c: Seq<O>, d: Seq<O>, f: OpenHypergraph<O, A>, g: OpenHypergraph<O, A>,
        tw: OpenHypergraph<O, A>, gf: OpenHypergraph<O, A>, l: OpenHypergraph<O, A>, fg: OpenHypergraph<O, A>, tw2: OpenHypergraph<O, A>, r: OpenHypergraph<O, A>) -> (res: (Seq<usize>, Seq<usize>))
    requires f.wf(), g.wf(), l.wf(), r.wf(), f.src_type() =~= a, f.tgt_type() =~= c, g.src_type() =~= b, g.tgt_type() =~= d,
        is_twist(tw, a, b), is_tensor(gf, g, f), is_pushout(tw, gf, l),
        is_tensor(fg, f, g), is_twist(tw2, c, d), is_pushout(fg, tw2, r),
        2 * (a.len() + b.len() + c.len() + d.len() + f.h.w@.len() + g.h.w@.len() + f.h.x@.len() + g.h.x@.len()) <= usize::MAX,
    ensures oh_iso(l, r, res.0, res.1)
{
    let na = a.len() as int; let nb = b.len() as int; let nc = c.len() as int; let nd = d.len() as int;
    let nf = f.h.w@.len() as int; let ng = g.h.w@.len() as int; let mf = f.h.x@.len() as int; let mg = g.h.x@.len() as int;
    lemma_no_edges(tw); lemma_no_edges(tw2);
    assert(f.s.table@.len() == na && f.t.table@.len() == nc && g.s.table@.len() == nb && g.t.table@.len() == nd) by {
        assert(f.src_type().len() == na && f.tgt_type().len() == nc && g.src_type().len() == nb && g.tgt_type().len() == nd);
    }
    assert(tw.tgt_type() =~= gf.src_type()) by {
        assert forall|i: int| 0 <= i < nb + na implies tw.tgt_type()[i] == gf.src_type()[i] by {
            if i < nb { assert(gf.s.table@[i] == g.s.table@[i]); assert(g.s.table@[i] < g.s.target); assert(g.src_type()[i] == b[i]); }
            else { assert(gf.s.table@[i] == ng + f.s.table@[i - nb]); assert(f.s.table@[i - nb] < f.s.target); assert(f.src_type()[i - nb] == a[i - nb]); }
        }
    }
    let phil = lemma_compose_wiring_left(tw, gf, l);
    let sinv = Seq::new((nc + nd) as nat, |x: int| if x < nd { (nc + x) as usize } else { (x - nd) as usize });
    assert(is_wiring_sbij(tw2, sinv));
    assert(fg.tgt_type() =~= tw2.src_type()) by {
        assert forall|i: int| 0 <= i < nc + nd implies fg.tgt_type()[i] == tw2.src_type()[i] by {
            if i < nc { assert(fg.t.table@[i] == f.t.table@[i]); assert(f.t.table@[i] < f.t.target); assert(f.tgt_type()[i] == c[i]); }
            else { assert(fg.t.table@[i] == nf + g.t.table@[i - nc]); assert(g.t.table@[i - nc] < g.t.target); assert(g.tgt_type()[i - nc] == d[i - nc]); }
        }
    }
    let phir = lemma_compose_wiring_right_bij(fg, tw2, sinv, r);
    let tgt = Seq::new(tw2.t.table@.len(), |i2: int| sinv[tw2.t.table@[i2] as int]);
    assert(tgt.len() == nc + nd);
    assert forall|i: int| 0 <= i < nd implies tgt[i] == nc + i by { assert(tw2.t.table@[i] == i); }
    assert forall|i: int| nd <= i < nc + nd implies tgt[i] == i - nd by { assert(tw2.t.table@[i] == i); }
    lemma_nat_assemble(f, g, gf, fg, l, r, tw.s.table@, tgt, phil, phir, na, nb, nc, nd);
    let phi = nat_phi(phil, phir, nf, ng); let psi = swap_blocks(mf, mg);
    (phi, psi)
}
''')

raw(r'''
// ---------------------------------------------------------------------------------------------
// interchange law: (f | g) ; (h | k)  is isomorphic to  (f ; h) | (g ; k)
// ---------------------------------------------------------------------------------------------
/// renaming the underlying set by a bijection rho: a coequalizer of the renamed pairs, precomposed with rho, is a
/// coequalizer of the original pairs
pub proof fn lemma_coeq_transport(q: Seq<usize>, k: int, s2: Seq<usize>, t2: Seq<usize>, n: int, rho: Seq<usize>, s: Seq<usize>, t: Seq<usize>)
    requires is_coeq(q, k, s2, t2, n), rho.len() == n, in_bounds(rho, n), injective(rho), n <= usize::MAX,
        s.len() == t.len(), s2.len() == s.len(), t2.len() == s.len(),
        forall|j: int| 0 <= j < s.len() ==> 0 <= #[trigger] s[j] < n && 0 <= t[j] < n && s2[j] == rho[s[j] as int] && t2[j] == rho[t[j] as int],
    ensures is_coeq(Seq::new(n as nat, |a: int| q[rho[a] as int]), k, s, t, n)
{
    let qq = Seq::new(n as nat, |a: int| q[rho[a] as int]);
    lemma_inv_perm(rho);
    let ri = inv_perm(rho);
    assert forall|i: int| 0 <= i < n implies (#[trigger] qq[i]) < k by { assert(rho[i] < n); assert(q[rho[i] as int] < k); }
    assert forall|c: int| 0 <= c < k implies #[trigger] hit(qq, c, n) by {
        assert(hit(q, c, n));
        let b = choose|b: int| 0 <= b < n && #[trigger] q[b] == c;
        assert(rho[ri[b] as int] == b);
        assert(qq[ri[b] as int] == c);
    }
    assert forall|j: int| 0 <= j < s.len() implies qq[#[trigger] s[j] as int] == qq[t[j] as int] by { assert(q[s2[j] as int] == q[t2[j] as int]); }
    assert forall|r: spec_fn(int, int) -> bool| #[trigger] compat(r, s, t, n) implies (forall|a: int, b: int| 0 <= a < n && 0 <= b < n && qq[a] == qq[b] ==> #[trigger] r(a, b)) by {
        let r2 = |x: int, y: int| r(ri[x] as int, ri[y] as int);
        assert(compat(r2, s2, t2, n)) by {
            assert forall|x: int| 0 <= x < n implies #[trigger] r2(x, x) by { assert(ri[x] < n); assert(r(ri[x] as int, ri[x] as int)); }
            assert forall|x: int, y: int| 0 <= x < n && 0 <= y < n && #[trigger] r2(x, y) implies r2(y, x) by { assert(ri[x] < n && ri[y] < n); assert(r(ri[x] as int, ri[y] as int)); }
            assert forall|x: int, y: int, z: int| 0 <= x < n && 0 <= y < n && 0 <= z < n && #[trigger] r2(x, y) && #[trigger] r2(y, z) implies r2(x, z) by {
                assert(ri[x] < n && ri[y] < n && ri[z] < n); assert(r(ri[x] as int, ri[y] as int) && r(ri[y] as int, ri[z] as int));
            }
            assert forall|j: int| 0 <= j < s2.len() implies #[trigger] r2(s2[j] as int, t2[j] as int) by {
                assert(ri[rho[s[j] as int] as int] == s[j] && ri[rho[t[j] as int] as int] == t[j]);
                assert(r(s[j] as int, t[j] as int));
            }
        }
        assert forall|a: int, b: int| 0 <= a < n && 0 <= b < n && qq[a] == qq[b] implies #[trigger] r(a, b) by {
            assert(rho[a] < n && rho[b] < n);
            assert(r2(rho[a] as int, rho[b] as int));
            assert(ri[rho[a] as int] == a && ri[rho[b] as int] == b);
        }
    }
}

/// the disjoint union of two coequalizers is a coequalizer of the disjoint union of the pairs
pub open spec fn sum_map(q1: Seq<usize>, k1: int, q2: Seq<usize>) -> Seq<usize> {
    Seq::new((q1.len() + q2.len()) as nat, |a: int| if a < q1.len() { q1[a] } else { (k1 + q2[a - q1.len()]) as usize })
}

pub proof fn lemma_coeq_sum(q1: Seq<usize>, k1: int, s1: Seq<usize>, t1: Seq<usize>, n1: int, q2: Seq<usize>, k2: int, s2: Seq<usize>, t2: Seq<usize>, n2: int)
    requires is_coeq(q1, k1, s1, t1, n1), is_coeq(q2, k2, s2, t2, n2), s1.len() == t1.len(), s2.len() == t2.len(), 0 <= k1, 0 <= k2,
        k1 + k2 <= usize::MAX, n1 + n2 <= usize::MAX, k1 + n2 <= usize::MAX,
        forall|j: int| 0 <= j < s1.len() ==> 0 <= #[trigger] s1[j] < n1 && 0 <= t1[j] < n1,
        forall|j: int| 0 <= j < s2.len() ==> 0 <= #[trigger] s2[j] < n2 && 0 <= t2[j] < n2,
    ensures is_coeq(sum_map(q1, k1, q2), k1 + k2, s1 + shifted(s2, n1), t1 + shifted(t2, n1), n1 + n2)
{
    // first quotient the left part, keeping the right part: n1 + n2 -> k1 + n2
    lemma_coeq_ext_right(q1, k1, s1, t1, n1, n2);
    let qa = ext_right(q1, k1, n2);
    // then quotient the right part, keeping the classes of the left part: k1 + n2 -> k1 + k2
    lemma_coeq_ext_left(q2, k2, s2, t2, n2, k1);
    let qb = ext_left(q2, k1);
    let s2l = shifted(s2, n1); let t2l = shifted(t2, n1);
    assert forall|j: int| 0 <= j < s2.len() implies 0 <= #[trigger] s2l[j] < n1 + n2 && 0 <= t2l[j] < n1 + n2
            && qa[s2l[j] as int] == shifted(s2, k1)[j] && qa[t2l[j] as int] == shifted(t2, k1)[j] by {
        assert(s2[j] < n2 && t2[j] < n2);
    }
    lemma_coeq_paste(qa, k1 + n2, s1, t1, n1 + n2, qb, k1 + k2, shifted(s2, k1), shifted(t2, k1), s2l, t2l);
    let qq = Seq::new((n1 + n2) as nat, |a: int| qb[qa[a] as int]);
    assert(qq =~= sum_map(q1, k1, q2)) by {
        assert forall|a: int| 0 <= a < n1 + n2 implies qq[a] == sum_map(q1, k1, q2)[a] by {
            if a < n1 { assert(q1[a] < k1); }
        }
    }
}
''')

raw(r'''
/// the rearrangement (f, g, h, k) -> (f, h, g, k) of the nodes of the four diagrams
pub open spec fn ichg_rho(nf: int, ng: int, nh: int, nk: int) -> Seq<usize> {
    Seq::new((nf + ng + nh + nk) as nat, |a: int|
        if a < nf { a as usize } else if a < nf + ng { (a + nh) as usize } else if a < nf + ng + nh { (a - ng) as usize } else { a as usize })
}
/// where node a of (f + g) + (h + k) ends up in (f;h) | (g;k)
pub open spec fn ichg_h(qp: Seq<usize>, kp: int, qw: Seq<usize>, nf: int, ng: int, nh: int, nk: int) -> Seq<usize> {
    Seq::new((nf + ng + nh + nk) as nat, |a: int|
        if a < nf { qp[a] } else if a < nf + ng { (kp + qw[a - nf]) as usize } else if a < nf + ng + nh { qp[a - ng] } else { (kp + qw[a - nf - nh]) as usize })
}

pub proof fn lemma_ichg_coeq<O, A>(f: OpenHypergraph<O, A>, g: OpenHypergraph<O, A>, h: OpenHypergraph<O, A>, k: OpenHypergraph<O, A>,
        u: OpenHypergraph<O, A>, v: OpenHypergraph<O, A>, qp: Seq<usize>, kp: int, qw: Seq<usize>, kw: int)
    requires f.wf(), g.wf(), h.wf(), k.wf(), is_tensor(u, f, g), is_tensor(v, h, k),
        f.t.table@.len() == h.s.table@.len(), g.t.table@.len() == k.s.table@.len(),
        is_coeq(qp, kp, glue_left(f), glue_right(f, h), (f.h.w@.len() + h.h.w@.len()) as int),
        is_coeq(qw, kw, glue_left(g), glue_right(g, k), (g.h.w@.len() + k.h.w@.len()) as int),
        0 <= kp <= f.h.w@.len() + h.h.w@.len(), 0 <= kw <= g.h.w@.len() + k.h.w@.len(),
        2 * (f.h.w@.len() + g.h.w@.len() + h.h.w@.len() + k.h.w@.len()) <= usize::MAX,
    ensures is_coeq(ichg_h(qp, kp, qw, f.h.w@.len() as int, g.h.w@.len() as int, h.h.w@.len() as int, k.h.w@.len() as int), kp + kw,
                    glue_left(u), glue_right(u, v), (u.h.w@.len() + v.h.w@.len()) as int)
{
    let nf = f.h.w@.len() as int; let ng = g.h.w@.len() as int; let nh = h.h.w@.len() as int; let nk = k.h.w@.len() as int; let nn = nf + ng + nh + nk;
    let s1 = glue_left(f); let t1 = glue_right(f, h); let s2 = glue_left(g); let t2 = glue_right(g, k);
    assert forall|j: int| 0 <= j < s1.len() implies 0 <= #[trigger] s1[j] < nf + nh && 0 <= t1[j] < nf + nh by { assert(f.t.table@[j] < f.t.target && h.s.table@[j] < h.s.target); }
    assert forall|j: int| 0 <= j < s2.len() implies 0 <= #[trigger] s2[j] < ng + nk && 0 <= t2[j] < ng + nk by { assert(g.t.table@[j] < g.t.target && k.s.table@[j] < k.s.target); }
    lemma_coeq_sum(qp, kp, s1, t1, nf + nh, qw, kw, s2, t2, ng + nk);
    let qs = sum_map(qp, kp, qw);
    let ss = s1 + shifted(s2, nf + nh); let ts = t1 + shifted(t2, nf + nh);
    let rho = ichg_rho(nf, ng, nh, nk);
    assert forall|a1: int, a2: int| 0 <= a1 < nn && 0 <= a2 < nn && a1 != a2 implies rho[a1] != rho[a2] by {}
    let su = glue_left(u); let tu = glue_right(u, v);
    assert(su.len() == s1.len() + s2.len() && tu.len() == su.len());
    assert forall|j: int| 0 <= j < su.len() implies 0 <= #[trigger] su[j] < nn && 0 <= tu[j] < nn && ss[j] == rho[su[j] as int] && ts[j] == rho[tu[j] as int] by {
        if j < s1.len() {
            assert(f.t.table@[j] < f.t.target && h.s.table@[j] < h.s.target);
            assert(u.t.table@[j] == f.t.table@[j]); assert(v.s.table@[j] == h.s.table@[j]);
            assert(ss[j] == s1[j] && ts[j] == t1[j]);
        } else {
            let j2 = j - s1.len();
            assert(g.t.table@[j2] < g.t.target && k.s.table@[j2] < k.s.target);
            assert(u.t.table@[j] == nf + g.t.table@[j2]); assert(v.s.table@[j] == nh + k.s.table@[j2]);
            assert(ss[j] == shifted(s2, nf + nh)[j2] && ts[j] == shifted(t2, nf + nh)[j2]);
        }
    }
    lemma_coeq_transport(qs, kp + kw, ss, ts, nn, rho, su, tu);
    let qq = Seq::new(nn as nat, |a: int| qs[rho[a] as int]);
    assert(qq =~= ichg_h(qp, kp, qw, nf, ng, nh, nk));
}
''')

raw(r'''
/// the rearrangement of the hyperedges (f, g, h, k) -> (f, h, g, k)
pub open spec fn ichg_psi(mf: int, mg: int, mh: int, mk: int) -> Seq<usize> {
    Seq::new((mf + mg + mh + mk) as nat, |e: int|
        if e < mf { e as usize } else if e < mf + mg { (e + mh) as usize } else if e < mf + mg + mh { (e - mg) as usize } else { e as usize })
}

/// positions in a concatenation of two size arrays
pub proof fn lemma_cat_pos(a: Seq<usize>, b: Seq<usize>)
    ensures forall|e: int, j: int| 0 <= e < a.len() ==> (a + b)[e] == a[e] && #[trigger] seg_at(a + b, e, j) == seg_at(a, e, j),
        forall|e: int, j: int| 0 <= e < b.len() ==> (a + b)[a.len() + e] == b[e] && #[trigger] seg_at(a + b, a.len() + e, j) == total(a) + seg_at(b, e, j),
        total(a + b) == total(a) + total(b),
{
    assert forall|e: int, j: int| 0 <= e < a.len() implies (a + b)[e] == a[e] && #[trigger] seg_at(a + b, e, j) == seg_at(a, e, j) by { lemma_psum_prefix(a + b, a, e); }
    assert forall|e: int, j: int| 0 <= e < b.len() implies (a + b)[a.len() + e] == b[e] && #[trigger] seg_at(a + b, a.len() + e, j) == total(a) + seg_at(b, e, j) by { lemma_psum_concat(a, b, e); }
    lemma_psum_concat(a, b, b.len() as int);
}

/// incidence of a composite: the juxtaposed incidence read through q (one side of is_quotient_of_jux)
pub open spec fn quot_incidence(r: IndexedCoproduct<FiniteFunction>, a: IndexedCoproduct<FiniteFunction>, b: IndexedCoproduct<FiniteFunction>, q: Seq<usize>, na: int) -> bool {
    &&& r.sources.table@ == a.sources.table@ + b.sources.table@
    &&& r.values.table@.len() == a.values.table@.len() + b.values.table@.len()
    &&& forall|i: int| 0 <= i < a.values.table@.len() ==> r.values.table@[i] == q[a.values.table@[i] as int]
    &&& forall|i: int| a.values.table@.len() <= i < a.values.table@.len() + b.values.table@.len() ==> r.values.table@[i] == q[na + b.values.table@[i - a.values.table@.len()]]
}

/// one incidence side of the interchange isomorphism
pub proof fn lemma_ichg_incidence(li: IndexedCoproduct<FiniteFunction>, ri: IndexedCoproduct<FiniteFunction>, ui: IndexedCoproduct<FiniteFunction>, vi: IndexedCoproduct<FiniteFunction>,
        pi: IndexedCoproduct<FiniteFunction>, wi: IndexedCoproduct<FiniteFunction>, fi: IndexedCoproduct<FiniteFunction>, gi: IndexedCoproduct<FiniteFunction>,
        hi: IndexedCoproduct<FiniteFunction>, ki: IndexedCoproduct<FiniteFunction>,
        ql: Seq<usize>, qp: Seq<usize>, kp: int, qw: Seq<usize>, phi: Seq<usize>, nf: int, ng: int, nh: int, nk: int)
    requires fi.wf(), gi.wf(), hi.wf(), ki.wf(), fi.values.target == nf, gi.values.target == ng, hi.values.target == nh, ki.values.target == nk,
        juxtaposed(ui, fi, gi), juxtaposed(vi, hi, ki), quot_incidence(li, ui, vi, ql, nf + ng),
        quot_incidence(pi, fi, hi, qp, nf), quot_incidence(wi, gi, ki, qw, ng), juxtaposed(ri, pi, wi), pi.values.target == kp,
        ql.len() == nf + ng + nh + nk, 0 <= kp, 2 * (nf + ng + nh + nk) <= usize::MAX,
        2 * (fi.sources.table@.len() + gi.sources.table@.len() + hi.sources.table@.len() + ki.sources.table@.len()) <= usize::MAX,
        forall|a: int| 0 <= a < nf + ng + nh + nk ==> phi[(#[trigger] ql[a]) as int] == ichg_h(qp, kp, qw, nf, ng, nh, nk)[a],
    ensures ({ let mf = fi.sources.table@.len() as int; let mg = gi.sources.table@.len() as int; let mh = hi.sources.table@.len() as int; let mk = ki.sources.table@.len() as int;
        let psi = ichg_psi(mf, mg, mh, mk);
        forall|e: int, j: int| 0 <= e < mf + mg + mh + mk && 0 <= j < li.sources.table@[e] ==>
            ri.sources.table@[psi[e] as int] == li.sources.table@[e]
            && ri.values.table@[seg_at(ri.sources.table@, psi[e] as int, j)] == phi[(#[trigger] li.values.table@[seg_at(li.sources.table@, e, j)]) as int] })
{
    let fz = fi.sources.table@; let gz = gi.sources.table@; let hz = hi.sources.table@; let kz = ki.sources.table@;
    let fv = fi.values.table@; let gv = gi.values.table@; let hv = hi.values.table@; let kv = ki.values.table@;
    let mf = fz.len() as int; let mg = gz.len() as int; let mh = hz.len() as int; let mk = kz.len() as int;
    let psi = ichg_psi(mf, mg, mh, mk); let hh = ichg_h(qp, kp, qw, nf, ng, nh, nk); let nu = nf + ng;
    assert(total(fz) == fv.len() && total(gz) == gv.len() && total(hz) == hv.len() && total(kz) == kv.len());
    lemma_cat_pos(fz, gz); lemma_cat_pos(hz, kz); lemma_cat_pos(fz + gz, hz + kz);
    lemma_cat_pos(fz, hz); lemma_cat_pos(gz, kz); lemma_cat_pos(fz + hz, gz + kz);
    let lz = li.sources.table@; let rz = ri.sources.table@;
    assert(lz == (fz + gz) + (hz + kz) && rz == (fz + hz) + (gz + kz));
    assert forall|e: int, j: int| 0 <= e < mf + mg + mh + mk && 0 <= j < lz[e] implies
            rz[psi[e] as int] == lz[e] && ri.values.table@[seg_at(rz, psi[e] as int, j)] == phi[(#[trigger] li.values.table@[seg_at(lz, e, j)]) as int] by {
        if e < mf {
            lemma_pos(fi, e, j); let pos = seg_at(fz, e, j);
            assert(seg_at(lz, e, j) == seg_at(fz + gz, e, j)); assert(seg_at(rz, e, j) == seg_at(fz + hz, e, j));
            assert(li.values.table@[pos] == ql[ui.values.table@[pos] as int]); assert(ui.values.table@[pos] == fv[pos]);
            assert(ri.values.table@[pos] == pi.values.table@[pos]); assert(pi.values.table@[pos] == qp[fv[pos] as int]);
            assert(hh[fv[pos] as int] == qp[fv[pos] as int]);
        } else if e < mf + mg {
            let e2 = e - mf; lemma_pos(gi, e2, j); let pg = seg_at(gz, e2, j);
            assert(seg_at(lz, e, j) == seg_at(fz + gz, mf + e2, j)); assert(seg_at(fz + gz, mf + e2, j) == fv.len() + pg);
            assert(psi[e] == mf + mh + e2);
            assert(seg_at(rz, (mf + mh) + e2, j) == total(fz + hz) + seg_at(gz + kz, e2, j)); assert(seg_at(gz + kz, e2, j) == pg);
            assert(li.values.table@[fv.len() + pg] == ql[ui.values.table@[fv.len() + pg] as int]); assert(ui.values.table@[fv.len() + pg] == nf + gv[pg]);
            assert(ri.values.table@[(fv.len() + hv.len()) + pg] == kp + wi.values.table@[pg]); assert(wi.values.table@[pg] == qw[gv[pg] as int]);
            assert(hh[nf + gv[pg]] == kp + qw[gv[pg] as int]);
        } else if e < mf + mg + mh {
            let e2 = e - mf - mg; lemma_pos(hi, e2, j); let ph = seg_at(hz, e2, j);
            assert(seg_at(lz, (mf + mg) + e2, j) == total(fz + gz) + seg_at(hz + kz, e2, j)); assert(seg_at(hz + kz, e2, j) == ph);
            assert(psi[e] == mf + e2);
            assert(seg_at(rz, mf + e2, j) == seg_at(fz + hz, mf + e2, j)); assert(seg_at(fz + hz, mf + e2, j) == fv.len() + ph);
            let pl = (fv.len() + gv.len()) + ph;
            assert(li.values.table@[pl] == ql[nu + vi.values.table@[ph]]); assert(vi.values.table@[ph] == hv[ph]);
            assert(ri.values.table@[fv.len() + ph] == pi.values.table@[fv.len() + ph]); assert(pi.values.table@[fv.len() + ph] == qp[nf + hv[ph]]);
            assert(hh[nu + hv[ph]] == qp[nf + hv[ph]]);
        } else {
            let e2 = e - mf - mg - mh; lemma_pos(ki, e2, j); let pk = seg_at(kz, e2, j);
            assert(seg_at(lz, (mf + mg) + (mh + e2), j) == total(fz + gz) + seg_at(hz + kz, mh + e2, j)); assert(seg_at(hz + kz, mh + e2, j) == hv.len() + pk);
            assert(psi[e] == e);
            assert(seg_at(rz, (mf + mh) + (mg + e2), j) == total(fz + hz) + seg_at(gz + kz, mg + e2, j)); assert(seg_at(gz + kz, mg + e2, j) == gv.len() + pk);
            let pl = (fv.len() + gv.len()) + (hv.len() + pk);
            assert(li.values.table@[pl] == ql[nu + vi.values.table@[hv.len() + pk]]); assert(vi.values.table@[hv.len() + pk] == nh + kv[pk]);
            let pr = (fv.len() + hv.len()) + (gv.len() + pk);
            assert(ri.values.table@[pr] == kp + wi.values.table@[gv.len() + pk]); assert(wi.values.table@[gv.len() + pk] == qw[ng + kv[pk]]);
            assert(hh[nu + nh + kv[pk]] == kp + qw[ng + kv[pk]]);
        }
    }
}
''')

raw(r'''
/// is_quotient_of_jux gives quot_incidence on both sides
pub proof fn lemma_quot_incidence<O, A>(f: OpenHypergraph<O, A>, g: OpenHypergraph<O, A>, r: OpenHypergraph<O, A>, q: Seq<usize>, k: int)
    requires is_quotient_of_jux(f, g, r, q, k)
    ensures quot_incidence(r.h.s, f.h.s, g.h.s, q, f.h.w@.len() as int), quot_incidence(r.h.t, f.h.t, g.h.t, q, f.h.w@.len() as int)
{
}

/// interchange: (f | g) ; (h | k) is isomorphic to (f ; h) | (g ; k); nodes and hyperedges correspond by the rearrangement
/// (f, g, h, k) -> (f, h, g, k)
pub proof fn lemma_interchange<O, A>(f: OpenHypergraph<O, A>, g: OpenHypergraph<O, A>, h: OpenHypergraph<O, A>, k: OpenHypergraph<O, A>,
        u: OpenHypergraph<O, A>, v: OpenHypergraph<O, A>, l: OpenHypergraph<O, A>, p: OpenHypergraph<O, A>, w: OpenHypergraph<O, A>, r: OpenHypergraph<O, A>) -> (res: (Seq<usize>, Seq<usize>))
    requires f.wf(), g.wf(), h.wf(), k.wf(), l.wf(), p.wf(), w.wf(),
        is_tensor(u, f, g), is_tensor(v, h, k), is_pushout(u, v, l),
        is_pushout(f, h, p), is_pushout(g, k, w), is_tensor(r, p, w),
        f.t.table@.len() == h.s.table@.len(), g.t.table@.len() == k.s.table@.len(),
        2 * (f.h.w@.len() + g.h.w@.len() + h.h.w@.len() + k.h.w@.len() + f.h.x@.len() + g.h.x@.len() + h.h.x@.len() + k.h.x@.len()) <= usize::MAX,
    ensures oh_iso(l, r, res.0, res.1)
{
    let nf = f.h.w@.len() as int; let ng = g.h.w@.len() as int; let nh = h.h.w@.len() as int; let nk = k.h.w@.len() as int; let nn = nf + ng + nh + nk;
    let mf = f.h.x@.len() as int; let mg = g.h.x@.len() as int; let mh = h.h.x@.len() as int; let mk = k.h.x@.len() as int; let mm = mf + mg + mh + mk;
    let (ql, kl) = choose|q: Seq<usize>, kk: int| is_coeq(q, kk, glue_left(u), glue_right(u, v), (u.h.w@.len() + v.h.w@.len()) as int) && #[trigger] is_quotient_of_jux(u, v, l, q, kk);
    let (qp, kp) = choose|q: Seq<usize>, kk: int| is_coeq(q, kk, glue_left(f), glue_right(f, h), nf + nh) && #[trigger] is_quotient_of_jux(f, h, p, q, kk);
    let (qw, kw) = choose|q: Seq<usize>, kk: int| is_coeq(q, kk, glue_left(g), glue_right(g, k), ng + nk) && #[trigger] is_quotient_of_jux(g, k, w, q, kk);
    if nf + nh == 0 && kp > 0 { assert(hit(qp, 0, 0)); }
    if ng + nk == 0 && kw > 0 { assert(hit(qw, 0, 0)); }
    assert(kp <= nf + nh) by { if kp > nf + nh { lemma_surjection_small(qp, kp, nf + nh); } }
    assert(kw <= ng + nk) by { if kw > ng + nk { lemma_surjection_small(qw, kw, ng + nk); } }
    lemma_ichg_coeq(f, g, h, k, u, v, qp, kp, qw, kw);
    let hh = ichg_h(qp, kp, qw, nf, ng, nh, nk);
    let su = glue_left(u); let tu = glue_right(u, v);
    assert forall|j: int| 0 <= j < su.len() implies 0 <= #[trigger] su[j] < nn && 0 <= tu[j] < nn by { assert(u.t.table@[j] < u.t.target && v.s.table@[j] < v.s.target); }
    assert(su.len() == tu.len());
    lemma_coeq_unique(ql, kl, hh, kp + kw, su, tu, nn);
    if nn == 0 && kl > 0 { assert(hit(ql, 0, 0)); }
    let phi = lemma_factor_iso(ql, kl, su, tu, nn, hh, kp + kw);
    let psi = ichg_psi(mf, mg, mh, mk);
    assert(l.h.w@.len() == kl && r.h.w@.len() == kp + kw && p.h.w@.len() == kp && w.h.w@.len() == kw);
    // labels
    assert forall|c: int| 0 <= c < kl implies r.h.w@[(#[trigger] phi[c]) as int] == l.h.w@[c] by {
        assert(hit(ql, c, nn));
        let a = choose|a: int| 0 <= a < nn && #[trigger] ql[a] == c;
        assert(phi[ql[a] as int] == hh[a]);
        assert(l.h.w@[ql[a] as int] == jux_label(u, v, a));
        if a < nf { assert(qp[a] < kp); assert(p.h.w@[qp[a] as int] == jux_label(f, h, a)); }
        else if a < nf + ng { assert(qw[a - nf] < kw); assert(w.h.w@[qw[a - nf] as int] == jux_label(g, k, a - nf)); }
        else if a < nf + ng + nh { assert(qp[a - ng] < kp); assert(p.h.w@[qp[a - ng] as int] == jux_label(f, h, a - ng)); }
        else { assert(qw[a - nf - nh] < kw); assert(w.h.w@[qw[a - nf - nh] as int] == jux_label(g, k, a - nf - nh)); }
    }
    // hyperedges
    assert(l.h.x@ == (f.h.x@ + g.h.x@) + (h.h.x@ + k.h.x@) && r.h.x@ == (f.h.x@ + h.h.x@) + (g.h.x@ + k.h.x@));
    assert forall|e1: int, e2: int| 0 <= e1 < mm && 0 <= e2 < mm && e1 != e2 implies psi[e1] != psi[e2] by {}
    assert forall|e: int| 0 <= e < mm implies (#[trigger] psi[e]) < mm && r.h.x@[psi[e] as int] == l.h.x@[e] by {}
    // incidence
    lemma_quot_incidence(u, v, l, ql, kl); lemma_quot_incidence(f, h, p, qp, kp); lemma_quot_incidence(g, k, w, qw, kw);
    lemma_ichg_incidence(l.h.s, r.h.s, u.h.s, v.h.s, p.h.s, w.h.s, f.h.s, g.h.s, h.h.s, k.h.s, ql, qp, kp, qw, phi, nf, ng, nh, nk);
    lemma_ichg_incidence(l.h.t, r.h.t, u.h.t, v.h.t, p.h.t, w.h.t, f.h.t, g.h.t, h.h.t, k.h.t, ql, qp, kp, qw, phi, nf, ng, nh, nk);
    // interfaces
    assert forall|i: int| 0 <= i < l.s.table@.len() implies (#[trigger] r.s.table@[i]) == phi[l.s.table@[i] as int] by {
        assert(u.s.table@[i] < u.s.target);
        assert(l.s.table@[i] == ql[u.s.table@[i] as int]);
        assert(phi[ql[u.s.table@[i] as int] as int] == hh[u.s.table@[i] as int]);
        if i < f.s.table@.len() { assert(u.s.table@[i] == f.s.table@[i]); assert(f.s.table@[i] < f.s.target); assert(r.s.table@[i] == p.s.table@[i]); assert(p.s.table@[i] == qp[f.s.table@[i] as int]); }
        else { let i2 = i - f.s.table@.len(); assert(u.s.table@[i] == nf + g.s.table@[i2]); assert(g.s.table@[i2] < g.s.target); assert(r.s.table@[i] == kp + w.s.table@[i2]); assert(w.s.table@[i2] == qw[g.s.table@[i2] as int]); }
    }
    assert forall|i: int| 0 <= i < l.t.table@.len() implies (#[trigger] r.t.table@[i]) == phi[l.t.table@[i] as int] by {
        assert(v.t.table@[i] < v.t.target);
        assert(l.t.table@[i] == ql[(nf + ng) + v.t.table@[i]]);
        assert(phi[ql[(nf + ng) + v.t.table@[i]] as int] == hh[(nf + ng) + v.t.table@[i]]);
        if i < h.t.table@.len() { assert(v.t.table@[i] == h.t.table@[i]); assert(h.t.table@[i] < h.t.target); assert(r.t.table@[i] == p.t.table@[i]); assert(p.t.table@[i] == qp[nf + h.t.table@[i]]); }
        else { let i2 = i - h.t.table@.len(); assert(v.t.table@[i] == nh + k.t.table@[i2]); assert(k.t.table@[i2] < k.t.target); assert(r.t.table@[i] == kp + w.t.table@[i2]); assert(w.t.table@[i2] == qw[ng + k.t.table@[i2]]); }
    }
    (phi, psi)
}
''')

raw(r'''
// ---------------------------------------------------------------------------------------------
// C04: dagger reverses composition, (f ; g)^dagger is isomorphic to g^dagger ; f^dagger
// ---------------------------------------------------------------------------------------------
pub proof fn lemma_coeq_pairs_flip(q: Seq<usize>, k: int, s: Seq<usize>, t: Seq<usize>, n: int)
    requires is_coeq(q, k, s, t, n), s.len() == t.len(), forall|j: int| 0 <= j < s.len() ==> 0 <= #[trigger] s[j] < n && 0 <= t[j] < n,
    ensures is_coeq(q, k, t, s, n)
{
    assert forall|j: int| 0 <= j < t.len() implies q[#[trigger] t[j] as int] == q[s[j] as int] by { assert(q[s[j] as int] == q[t[j] as int]); }
    assert forall|r: spec_fn(int, int) -> bool| #[trigger] compat(r, t, s, n) implies (forall|a: int, b: int| 0 <= a < n && 0 <= b < n && q[a] == q[b] ==> #[trigger] r(a, b)) by {
        assert(compat(r, s, t, n)) by {
            assert forall|j: int| 0 <= j < s.len() implies #[trigger] r(s[j] as int, t[j] as int) by { assert(r(t[j] as int, s[j] as int)); }
        }
    }
}

pub proof fn lemma_dagger_compose<O, A>(f: OpenHypergraph<O, A>, g: OpenHypergraph<O, A>, r: OpenHypergraph<O, A>, dr: OpenHypergraph<O, A>,
        df: OpenHypergraph<O, A>, dg: OpenHypergraph<O, A>, rp: OpenHypergraph<O, A>) -> (res: (Seq<usize>, Seq<usize>))
    requires f.wf(), g.wf(), r.wf(), rp.wf(), is_pushout(f, g, r), is_dagger(dr, r), is_dagger(df, f), is_dagger(dg, g), is_pushout(dg, df, rp),
        f.t.table@.len() == g.s.table@.len(), 2 * (f.h.w@.len() + g.h.w@.len() + f.h.x@.len() + g.h.x@.len()) <= usize::MAX,
    ensures oh_iso(dr, rp, res.0, res.1)
{
    let nf = f.h.w@.len() as int; let ng = g.h.w@.len() as int; let nn = nf + ng; let mf = f.h.x@.len() as int; let mg = g.h.x@.len() as int; let mm = mf + mg;
    let (q, k) = choose|q: Seq<usize>, kk: int| is_coeq(q, kk, glue_left(f), glue_right(f, g), nn) && #[trigger] is_quotient_of_jux(f, g, r, q, kk);
    let (qp, kp) = choose|q: Seq<usize>, kk: int| is_coeq(q, kk, glue_left(dg), glue_right(dg, df), (dg.h.w@.len() + df.h.w@.len()) as int) && #[trigger] is_quotient_of_jux(dg, df, rp, q, kk);
    // rp's quotient map, read on the node numbering (f, g) of r
    let rho = swap_blocks(ng, nf);   // (f-part, g-part) -> (g-part, f-part): a < nf |-> ng + a, nf + b |-> b
    let s1 = glue_left(f); let t1 = glue_right(f, g);
    let s2 = glue_left(dg); let t2 = glue_right(dg, df);
    assert forall|j: int| 0 <= j < s1.len() implies 0 <= #[trigger] s1[j] < nn && 0 <= t1[j] < nn && t2[j] == rho[s1[j] as int] && s2[j] == rho[t1[j] as int] by {
        assert(f.t.table@[j] < f.t.target && g.s.table@[j] < g.s.target);
    }
    assert forall|j: int| 0 <= j < s2.len() implies 0 <= #[trigger] s2[j] < nn && 0 <= t2[j] < nn by { assert(f.t.table@[j] < f.t.target && g.s.table@[j] < g.s.target); }
    lemma_coeq_pairs_flip(qp, kp, s2, t2, nn);
    assert forall|a1: int, a2: int| 0 <= a1 < nn && 0 <= a2 < nn && a1 != a2 implies rho[a1] != rho[a2] by {}
    lemma_coeq_transport(qp, kp, t2, s2, nn, rho, s1, t1);
    let hh = Seq::new(nn as nat, |a: int| qp[rho[a] as int]);
    lemma_coeq_unique(q, k, hh, kp, s1, t1, nn);
    if nn == 0 && k > 0 { assert(hit(q, 0, 0)); }
    if nn == 0 && kp > 0 { assert(hit(qp, 0, 0)); }
    let phi = lemma_factor_iso(q, k, s1, t1, nn, hh, kp);
    let psi = swap_blocks(mg, mf);   // hyperedges (f, g) -> (g, f)
    assert(dr.h.w@.len() == k && rp.h.w@.len() == kp);
    assert forall|c: int| 0 <= c < k implies rp.h.w@[(#[trigger] phi[c]) as int] == dr.h.w@[c] by {
        assert(hit(q, c, nn));
        let a = choose|a: int| 0 <= a < nn && #[trigger] q[a] == c;
        assert(phi[q[a] as int] == hh[a]);
        assert(r.h.w@[q[a] as int] == jux_label(f, g, a));
        assert(rp.h.w@[qp[rho[a] as int] as int] == jux_label(dg, df, rho[a] as int));
    }
    assert(dr.h.x@ == f.h.x@ + g.h.x@ && rp.h.x@ == g.h.x@ + f.h.x@);
    assert forall|e1: int, e2: int| 0 <= e1 < mm && 0 <= e2 < mm && e1 != e2 implies psi[e1] != psi[e2] by {}
    assert forall|e: int| 0 <= e < mm implies (#[trigger] psi[e]) < mm && rp.h.x@[psi[e] as int] == dr.h.x@[e] by {}
    lemma_quot_incidence(f, g, r, q, k); lemma_quot_incidence(dg, df, rp, qp, kp);
    lemma_dagger_incidence(dr.h.s, rp.h.s, f.h.s, g.h.s, dg.h.s, df.h.s, q, qp, phi, nf, ng);
    lemma_dagger_incidence(dr.h.t, rp.h.t, f.h.t, g.h.t, dg.h.t, df.h.t, q, qp, phi, nf, ng);
    assert forall|i: int| 0 <= i < dr.s.table@.len() implies (#[trigger] rp.s.table@[i]) == phi[dr.s.table@[i] as int] by {
        assert(g.t.table@[i] < g.t.target);
        assert(r.t.table@[i] == q[nf + g.t.table@[i]]);
        assert(phi[q[nf + g.t.table@[i]] as int] == hh[nf + g.t.table@[i]]);
        assert(rp.s.table@[i] == qp[dg.s.table@[i] as int]);
    }
    assert forall|i: int| 0 <= i < dr.t.table@.len() implies (#[trigger] rp.t.table@[i]) == phi[dr.t.table@[i] as int] by {
        assert(f.s.table@[i] < f.s.target);
        assert(r.s.table@[i] == q[f.s.table@[i] as int]);
        assert(phi[q[f.s.table@[i] as int] as int] == hh[f.s.table@[i] as int]);
        assert(rp.t.table@[i] == qp[ng + df.t.table@[i]]);
    }
    (phi, psi)
}

/// one incidence side of the dagger / composition isomorphism: blocks (f, g) -> (g, f)
pub proof fn lemma_dagger_incidence(li: IndexedCoproduct<FiniteFunction>, ri: IndexedCoproduct<FiniteFunction>, fi: IndexedCoproduct<FiniteFunction>, gi: IndexedCoproduct<FiniteFunction>,
        dgi: IndexedCoproduct<FiniteFunction>, dfi: IndexedCoproduct<FiniteFunction>, q: Seq<usize>, qp: Seq<usize>, phi: Seq<usize>, nf: int, ng: int)
    requires fi.wf(), gi.wf(), fi.values.target == nf, gi.values.target == ng,
        dfi.sources.table@ == fi.sources.table@ && dfi.values.table@ == fi.values.table@ && dgi.sources.table@ == gi.sources.table@ && dgi.values.table@ == gi.values.table@,
        li.sources.table@ == fi.sources.table@ + gi.sources.table@ && li.values.table@.len() == fi.values.table@.len() + gi.values.table@.len(),
        forall|i: int| 0 <= i < fi.values.table@.len() ==> li.values.table@[i] == q[fi.values.table@[i] as int],
        forall|i: int| fi.values.table@.len() <= i < fi.values.table@.len() + gi.values.table@.len() ==> li.values.table@[i] == q[nf + gi.values.table@[i - fi.values.table@.len()]],
        quot_incidence(ri, dgi, dfi, qp, ng), q.len() == nf + ng, 2 * (nf + ng) <= usize::MAX,
        2 * (fi.sources.table@.len() + gi.sources.table@.len()) <= usize::MAX,
        forall|a: int| 0 <= a < nf + ng ==> phi[(#[trigger] q[a]) as int] == qp[swap_blocks(ng, nf)[a] as int],
    ensures ({ let mf = fi.sources.table@.len() as int; let mg = gi.sources.table@.len() as int; let psi = swap_blocks(mg, mf);
        forall|e: int, j: int| 0 <= e < mf + mg && 0 <= j < li.sources.table@[e] ==>
            ri.sources.table@[psi[e] as int] == li.sources.table@[e]
            && ri.values.table@[seg_at(ri.sources.table@, psi[e] as int, j)] == phi[(#[trigger] li.values.table@[seg_at(li.sources.table@, e, j)]) as int] })
{
    let fz = fi.sources.table@; let gz = gi.sources.table@; let fv = fi.values.table@; let gv = gi.values.table@;
    let mf = fz.len() as int; let mg = gz.len() as int; let psi = swap_blocks(mg, mf); let rho = swap_blocks(ng, nf);
    assert(total(fz) == fv.len() && total(gz) == gv.len());
    lemma_cat_pos(fz, gz); lemma_cat_pos(gz, fz);
    let lz = li.sources.table@; let rz = ri.sources.table@;
    assert forall|e: int, j: int| 0 <= e < mf + mg && 0 <= j < lz[e] implies
            rz[psi[e] as int] == lz[e] && ri.values.table@[seg_at(rz, psi[e] as int, j)] == phi[(#[trigger] li.values.table@[seg_at(lz, e, j)]) as int] by {
        if e < mf {
            lemma_pos(fi, e, j); let pf = seg_at(fz, e, j);
            assert(seg_at(lz, e, j) == pf);
            assert(psi[e] == mg + e);
            assert(seg_at(rz, mg + e, j) == gv.len() + pf);
            assert(ri.values.table@[gv.len() + pf] == qp[ng + dfi.values.table@[pf]]);
            assert(rho[fv[pf] as int] == ng + fv[pf]);
        } else {
            let e2 = e - mf; lemma_pos(gi, e2, j); let pg = seg_at(gz, e2, j);
            assert(seg_at(lz, mf + e2, j) == fv.len() + pg);
            assert(psi[e] == e2);
            assert(seg_at(rz, e2, j) == pg);
            assert(ri.values.table@[pg] == qp[dgi.values.table@[pg] as int]);
            assert(li.values.table@[fv.len() + pg] == q[nf + gv[pg]]);
            assert(rho[nf + gv[pg]] == gv[pg]);
        }
    }
}
''')

raw(r'''
// ---------------------------------------------------------------------------------------------
// C04: spider fusion; identities and symmetries are spiders
// ---------------------------------------------------------------------------------------------
/// r is the spider with legs s, t on the node labels w (the postcondition of OpenHypergraph::spider when it succeeds)
pub open spec fn is_spider_on<O, A>(r: OpenHypergraph<O, A>, s: Seq<usize>, t: Seq<usize>, w: Seq<O>) -> bool {
    &&& r.wf() && r.h.x@.len() == 0 && r.h.s.sources.table@.len() == 0 && r.h.t.sources.table@.len() == 0
    &&& r.h.w@ == w && r.s.table@ == s && r.t.table@ == t
}

/// spider fusion: composing two spiders gives a spider again — discrete, its nodes are the classes of the shared
/// boundary's coequalizer q (each carrying the label of its class), its legs are the outer legs mapped through q
pub proof fn lemma_spider_fusion<O, A>(f: OpenHypergraph<O, A>, g: OpenHypergraph<O, A>, r: OpenHypergraph<O, A>)
    requires r.wf(), is_spider_on(f, f.s.table@, f.t.table@, f.h.w@), is_spider_on(g, g.s.table@, g.t.table@, g.h.w@), is_pushout(f, g, r)
    ensures exists|q: Seq<usize>, k: int| #[trigger] is_coeq(q, k, glue_left(f), glue_right(f, g), (f.h.w@.len() + g.h.w@.len()) as int)
        && is_spider_on(r, Seq::new(f.s.table@.len(), |i: int| q[f.s.table@[i] as int]), Seq::new(g.t.table@.len(), |i: int| q[f.h.w@.len() + g.t.table@[i]]), r.h.w@)
        && r.h.w@.len() == k && (forall|v: int| 0 <= v < f.h.w@.len() + g.h.w@.len() ==> r.h.w@[(#[trigger] q[v]) as int] == jux_label(f, g, v))
{
    let (q, k) = choose|q: Seq<usize>, k: int| is_coeq(q, k, glue_left(f), glue_right(f, g), (f.h.w@.len() + g.h.w@.len()) as int) && #[trigger] is_quotient_of_jux(f, g, r, q, k);
    assert(r.s.table@ =~= Seq::new(f.s.table@.len(), |i: int| q[f.s.table@[i] as int]));
    assert(r.t.table@ =~= Seq::new(g.t.table@.len(), |i: int| q[f.h.w@.len() + g.t.table@[i]]));
    assert(r.h.x@.len() == 0 && r.h.s.sources.table@.len() == 0 && r.h.t.sources.table@.len() == 0);
}

/// the identity is the spider with identity legs, the symmetry the spider with the block-swap source leg
pub proof fn lemma_identity_is_spider<O, A>(r: OpenHypergraph<O, A>, w: Seq<O>)
    requires is_identity_on(r, w)
    ensures is_spider_on(r, id_seq(w.len() as int), id_seq(w.len() as int), w)
{
    assert(r.s.table@ =~= id_seq(w.len() as int) && r.t.table@ =~= id_seq(w.len() as int)) by {
        assert forall|i: int| 0 <= i < w.len() implies r.s.table@[i] == id_seq(w.len() as int)[i] && r.t.table@[i] == id_seq(w.len() as int)[i] by {
            assert(r.s.table@[i] == i && r.t.table@[i] == i);
            assert(r.s.table@[i] < r.s.target);
        }
    }
}
pub proof fn lemma_twist_is_spider<O, A>(r: OpenHypergraph<O, A>, a: Seq<O>, b: Seq<O>)
    requires is_twist(r, a, b)
    ensures is_spider_on(r, swap_blocks(b.len() as int, a.len() as int), id_seq((a.len() + b.len()) as int), b + a)
{
    let na = a.len() as int; let nb = b.len() as int;
    assert(r.s.table@ =~= swap_blocks(nb, na)) by {
        assert forall|i: int| 0 <= i < na + nb implies r.s.table@[i] == swap_blocks(nb, na)[i] by { assert(r.s.table@[i] < r.s.target); }
    }
    assert(r.t.table@ =~= id_seq(na + nb)) by {
        assert forall|i: int| 0 <= i < na + nb implies r.t.table@[i] == id_seq(na + nb)[i] by { assert(r.t.table@[i] < r.t.target); }
    }
}
''')

raw(r'''
// ---------------------------------------------------------------------------------------------
// C20: composition respects isomorphism, hence iterated compositions (functor application) are determined up to isomorphism
// ---------------------------------------------------------------------------------------------
/// replacing the left operand by an isomorphic copy gives an isomorphic composite
pub proof fn lemma_compose_iso_left<O, A>(f: OpenHypergraph<O, A>, f2: OpenHypergraph<O, A>, g: OpenHypergraph<O, A>, r: OpenHypergraph<O, A>, r2: OpenHypergraph<O, A>, phi: Seq<usize>) -> (psi: Seq<usize>)
    requires f.wf(), f2.wf(), g.wf(), node_iso(f, f2, phi), is_pushout(f, g, r), is_pushout(f2, g, r2), f.t.table@.len() == g.s.table@.len(),
        f.h.w@.len() + g.h.w@.len() <= usize::MAX,
    ensures node_iso(r, r2, psi)
{
    let nf = f.h.w@.len() as int; let ng = g.h.w@.len() as int; let nn = nf + ng;
    let (q, k) = choose|q: Seq<usize>, kk: int| is_coeq(q, kk, glue_left(f), glue_right(f, g), nn) && #[trigger] is_quotient_of_jux(f, g, r, q, kk);
    let (q2, k2) = choose|q: Seq<usize>, kk: int| is_coeq(q, kk, glue_left(f2), glue_right(f2, g), (f2.h.w@.len() + ng) as int) && #[trigger] is_quotient_of_jux(f2, g, r2, q, kk);
    let rho = Seq::new(nn as nat, |a: int| if a < nf { phi[a] } else { a as usize });
    assert forall|a: int| 0 <= a < nn implies (#[trigger] rho[a]) < nn by { if a < nf { assert(phi[a] < nf); } }
    assert forall|a1: int, a2: int| 0 <= a1 < nn && 0 <= a2 < nn && a1 != a2 implies rho[a1] != rho[a2] by {
        if a1 < nf { assert(phi[a1] < nf); } if a2 < nf { assert(phi[a2] < nf); }
    }
    let s1 = glue_left(f); let t1 = glue_right(f, g); let s2 = glue_left(f2); let t2 = glue_right(f2, g);
    assert forall|j: int| 0 <= j < s1.len() implies 0 <= #[trigger] s1[j] < nn && 0 <= t1[j] < nn && s2[j] == rho[s1[j] as int] && t2[j] == rho[t1[j] as int] by {
        assert(f.t.table@[j] < f.t.target && g.s.table@[j] < g.s.target);
        assert(f2.t.table@[j] == phi[f.t.table@[j] as int]);
    }
    lemma_coeq_transport(q2, k2, s2, t2, nn, rho, s1, t1);
    let hh = Seq::new(nn as nat, |a: int| q2[rho[a] as int]);
    lemma_coeq_unique(q, k, hh, k2, s1, t1, nn);
    if nn == 0 && k > 0 { assert(hit(q, 0, 0)); }
    if nn == 0 && k2 > 0 { assert(hit(q2, 0, 0)); }
    let psi = lemma_factor_iso(q, k, s1, t1, nn, hh, k2);
    assert forall|c: int| 0 <= c < k implies r2.h.w@[(#[trigger] psi[c]) as int] == r.h.w@[c] by {
        assert(hit(q, c, nn));
        let a = choose|a: int| 0 <= a < nn && #[trigger] q[a] == c;
        assert(psi[q[a] as int] == hh[a]);
        assert(r.h.w@[q[a] as int] == jux_label(f, g, a));
        assert(r2.h.w@[q2[rho[a] as int] as int] == jux_label(f2, g, rho[a] as int));
        if a < nf { assert(phi[a] < nf); }
    }
    assert(r.h.x@ =~= r2.h.x@);
    assert(r.h.s.sources.table@ =~= r2.h.s.sources.table@ && r.h.t.sources.table@ =~= r2.h.t.sources.table@);
    assert forall|i: int| 0 <= i < r.h.s.values.table@.len() implies (#[trigger] r2.h.s.values.table@[i]) == psi[r.h.s.values.table@[i] as int] by {
        if i < f.h.s.values.table@.len() { let v = f.h.s.values.table@[i] as int; assert(v < f.h.s.values.target); assert(f2.h.s.values.table@[i] == phi[v]); assert(psi[q[v] as int] == hh[v]); }
        else { let v = g.h.s.values.table@[i - f.h.s.values.table@.len()] as int; assert(v < g.h.s.values.target); assert(psi[q[nf + v] as int] == hh[nf + v]); }
    }
    assert forall|i: int| 0 <= i < r.h.t.values.table@.len() implies (#[trigger] r2.h.t.values.table@[i]) == psi[r.h.t.values.table@[i] as int] by {
        if i < f.h.t.values.table@.len() { let v = f.h.t.values.table@[i] as int; assert(v < f.h.t.values.target); assert(f2.h.t.values.table@[i] == phi[v]); assert(psi[q[v] as int] == hh[v]); }
        else { let v = g.h.t.values.table@[i - f.h.t.values.table@.len()] as int; assert(v < g.h.t.values.target); assert(psi[q[nf + v] as int] == hh[nf + v]); }
    }
    assert forall|i: int| 0 <= i < r.s.table@.len() implies (#[trigger] r2.s.table@[i]) == psi[r.s.table@[i] as int] by {
        let v = f.s.table@[i] as int; assert(v < f.s.target); assert(f2.s.table@[i] == phi[v]); assert(psi[q[v] as int] == hh[v]);
    }
    assert forall|i: int| 0 <= i < r.t.table@.len() implies (#[trigger] r2.t.table@[i]) == psi[r.t.table@[i] as int] by {
        let v = g.t.table@[i] as int; assert(v < g.t.target); assert(psi[q[nf + v] as int] == hh[nf + v]);
    }
    psi
}

/// functor application sx ; (i | fx) ; yt (what spider_map_arrow computes) is determined up to isomorphism by its three
/// factors, whatever coequalizers the two compositions pick
pub proof fn lemma_two_step_compose_unique<O, A>(sx: OpenHypergraph<O, A>, m: OpenHypergraph<O, A>, yt: OpenHypergraph<O, A>,
        r1: OpenHypergraph<O, A>, o1: OpenHypergraph<O, A>, r2: OpenHypergraph<O, A>, o2: OpenHypergraph<O, A>) -> (psi: Seq<usize>)
    requires sx.wf(), m.wf(), yt.wf(), r1.wf(), r2.wf(), is_pushout(sx, m, r1), is_pushout(sx, m, r2), is_pushout(r1, yt, o1), is_pushout(r2, yt, o2),
        sx.t.table@.len() == m.s.table@.len(), m.t.table@.len() == yt.s.table@.len(),
        sx.h.w@.len() + m.h.w@.len() + yt.h.w@.len() <= usize::MAX,
    ensures node_iso(o1, o2, psi)
{
    let phi = lemma_compose_unique(sx, m, r1, r2);
    let (q1, k1) = choose|q: Seq<usize>, kk: int| is_coeq(q, kk, glue_left(sx), glue_right(sx, m), (sx.h.w@.len() + m.h.w@.len()) as int) && #[trigger] is_quotient_of_jux(sx, m, r1, q, kk);
    if sx.h.w@.len() + m.h.w@.len() == 0 && k1 > 0 { assert(hit(q1, 0, 0)); }
    assert(r1.h.w@.len() <= sx.h.w@.len() + m.h.w@.len()) by { if k1 > sx.h.w@.len() + m.h.w@.len() { lemma_surjection_small(q1, k1, (sx.h.w@.len() + m.h.w@.len()) as int); } }
    lemma_compose_iso_left(r1, r2, yt, o1, o2, phi)
}
''')

raw(r'''
/// replacing the right operand by an isomorphic copy gives an isomorphic composite
pub proof fn lemma_compose_iso_right<O, A>(f: OpenHypergraph<O, A>, g: OpenHypergraph<O, A>, g2: OpenHypergraph<O, A>, r: OpenHypergraph<O, A>, r2: OpenHypergraph<O, A>, phi: Seq<usize>) -> (psi: Seq<usize>)
    requires f.wf(), g.wf(), g2.wf(), node_iso(g, g2, phi), is_pushout(f, g, r), is_pushout(f, g2, r2), f.t.table@.len() == g.s.table@.len(),
        f.h.w@.len() + g.h.w@.len() <= usize::MAX,
    ensures node_iso(r, r2, psi)
{
    let nf = f.h.w@.len() as int; let ng = g.h.w@.len() as int; let nn = nf + ng;
    let (q, k) = choose|q: Seq<usize>, kk: int| is_coeq(q, kk, glue_left(f), glue_right(f, g), nn) && #[trigger] is_quotient_of_jux(f, g, r, q, kk);
    let (q2, k2) = choose|q: Seq<usize>, kk: int| is_coeq(q, kk, glue_left(f), glue_right(f, g2), (nf + g2.h.w@.len()) as int) && #[trigger] is_quotient_of_jux(f, g2, r2, q, kk);
    let rho = Seq::new(nn as nat, |a: int| if a < nf { a as usize } else { (nf + phi[a - nf]) as usize });
    assert forall|a: int| 0 <= a < nn implies (#[trigger] rho[a]) < nn by { if a >= nf { assert(phi[a - nf] < ng); } }
    assert forall|a1: int, a2: int| 0 <= a1 < nn && 0 <= a2 < nn && a1 != a2 implies rho[a1] != rho[a2] by {
        if a1 >= nf { assert(phi[a1 - nf] < ng); } if a2 >= nf { assert(phi[a2 - nf] < ng); }
    }
    let s1 = glue_left(f); let t1 = glue_right(f, g); let t2 = glue_right(f, g2);
    assert forall|j: int| 0 <= j < s1.len() implies 0 <= #[trigger] s1[j] < nn && 0 <= t1[j] < nn && s1[j] == rho[s1[j] as int] && t2[j] == rho[t1[j] as int] by {
        assert(f.t.table@[j] < f.t.target && g.s.table@[j] < g.s.target);
        assert(g2.s.table@[j] == phi[g.s.table@[j] as int]);
    }
    lemma_coeq_transport(q2, k2, s1, t2, nn, rho, s1, t1);
    let hh = Seq::new(nn as nat, |a: int| q2[rho[a] as int]);
    lemma_coeq_unique(q, k, hh, k2, s1, t1, nn);
    if nn == 0 && k > 0 { assert(hit(q, 0, 0)); }
    if nn == 0 && k2 > 0 { assert(hit(q2, 0, 0)); }
    let psi = lemma_factor_iso(q, k, s1, t1, nn, hh, k2);
    assert forall|c: int| 0 <= c < k implies r2.h.w@[(#[trigger] psi[c]) as int] == r.h.w@[c] by {
        assert(hit(q, c, nn));
        let a = choose|a: int| 0 <= a < nn && #[trigger] q[a] == c;
        assert(psi[q[a] as int] == hh[a]);
        assert(r.h.w@[q[a] as int] == jux_label(f, g, a));
        assert(r2.h.w@[q2[rho[a] as int] as int] == jux_label(f, g2, rho[a] as int));
        if a >= nf { assert(phi[a - nf] < ng); }
    }
    assert(r.h.x@ =~= r2.h.x@);
    assert(r.h.s.sources.table@ =~= r2.h.s.sources.table@ && r.h.t.sources.table@ =~= r2.h.t.sources.table@);
    assert forall|i: int| 0 <= i < r.h.s.values.table@.len() implies (#[trigger] r2.h.s.values.table@[i]) == psi[r.h.s.values.table@[i] as int] by {
        if i < f.h.s.values.table@.len() { let v = f.h.s.values.table@[i] as int; assert(v < f.h.s.values.target); assert(psi[q[v] as int] == hh[v]); }
        else { let i2 = i - f.h.s.values.table@.len(); let v = g.h.s.values.table@[i2] as int; assert(v < g.h.s.values.target); assert(g2.h.s.values.table@[i2] == phi[v]); assert(psi[q[nf + v] as int] == hh[nf + v]); }
    }
    assert forall|i: int| 0 <= i < r.h.t.values.table@.len() implies (#[trigger] r2.h.t.values.table@[i]) == psi[r.h.t.values.table@[i] as int] by {
        if i < f.h.t.values.table@.len() { let v = f.h.t.values.table@[i] as int; assert(v < f.h.t.values.target); assert(psi[q[v] as int] == hh[v]); }
        else { let i2 = i - f.h.t.values.table@.len(); let v = g.h.t.values.table@[i2] as int; assert(v < g.h.t.values.target); assert(g2.h.t.values.table@[i2] == phi[v]); assert(psi[q[nf + v] as int] == hh[nf + v]); }
    }
    assert forall|i: int| 0 <= i < r.s.table@.len() implies (#[trigger] r2.s.table@[i]) == psi[r.s.table@[i] as int] by {
        let v = f.s.table@[i] as int; assert(v < f.s.target); assert(psi[q[v] as int] == hh[v]);
    }
    assert forall|i: int| 0 <= i < r.t.table@.len() implies (#[trigger] r2.t.table@[i]) == psi[r.t.table@[i] as int] by {
        let v = g.t.table@[i] as int; assert(v < g.t.target); assert(g2.t.table@[i] == phi[v]); assert(psi[q[nf + v] as int] == hh[nf + v]);
    }
    psi
}

/// composition respects isomorphism in both operands at once
pub proof fn lemma_compose_iso_both<O, A>(f: OpenHypergraph<O, A>, f2: OpenHypergraph<O, A>, g: OpenHypergraph<O, A>, g2: OpenHypergraph<O, A>, r: OpenHypergraph<O, A>, r2: OpenHypergraph<O, A>, al: Seq<usize>, phi: Seq<usize>) -> (psi: Seq<usize>)
    requires f.wf(), f2.wf(), g.wf(), g2.wf(), node_iso(f, f2, al), node_iso(g, g2, phi), is_pushout(f, g, r), is_pushout(f2, g2, r2), f.t.table@.len() == g.s.table@.len(),
        f.h.w@.len() + g.h.w@.len() <= usize::MAX,
    ensures node_iso(r, r2, psi)
{
    let nf = f.h.w@.len() as int; let ng = g.h.w@.len() as int; let nn = nf + ng;
    let (q, k) = choose|q: Seq<usize>, kk: int| is_coeq(q, kk, glue_left(f), glue_right(f, g), nn) && #[trigger] is_quotient_of_jux(f, g, r, q, kk);
    let (q2, k2) = choose|q: Seq<usize>, kk: int| is_coeq(q, kk, glue_left(f2), glue_right(f2, g2), (f2.h.w@.len() + g2.h.w@.len()) as int) && #[trigger] is_quotient_of_jux(f2, g2, r2, q, kk);
    let rho = Seq::new(nn as nat, |a: int| if a < nf { al[a] } else { (nf + phi[a - nf]) as usize });
    assert forall|a: int| 0 <= a < nn implies (#[trigger] rho[a]) < nn by { if a >= nf { assert(phi[a - nf] < ng); } else { assert(al[a] < nf); } }
    assert forall|a1: int, a2: int| 0 <= a1 < nn && 0 <= a2 < nn && a1 != a2 implies rho[a1] != rho[a2] by {
        if a1 >= nf { assert(phi[a1 - nf] < ng); } else { assert(al[a1] < nf); } if a2 >= nf { assert(phi[a2 - nf] < ng); } else { assert(al[a2] < nf); }
    }
    let s1 = glue_left(f); let t1 = glue_right(f, g); let s2 = glue_left(f2); let t2 = glue_right(f2, g2);
    assert forall|j: int| 0 <= j < s1.len() implies 0 <= #[trigger] s1[j] < nn && 0 <= t1[j] < nn && s2[j] == rho[s1[j] as int] && t2[j] == rho[t1[j] as int] by {
        assert(f.t.table@[j] < f.t.target && g.s.table@[j] < g.s.target);
        assert(g2.s.table@[j] == phi[g.s.table@[j] as int]);
        assert(f2.t.table@[j] == al[f.t.table@[j] as int]);
    }
    lemma_coeq_transport(q2, k2, s2, t2, nn, rho, s1, t1);
    let hh = Seq::new(nn as nat, |a: int| q2[rho[a] as int]);
    lemma_coeq_unique(q, k, hh, k2, s1, t1, nn);
    if nn == 0 && k > 0 { assert(hit(q, 0, 0)); }
    if nn == 0 && k2 > 0 { assert(hit(q2, 0, 0)); }
    let psi = lemma_factor_iso(q, k, s1, t1, nn, hh, k2);
    assert forall|c: int| 0 <= c < k implies r2.h.w@[(#[trigger] psi[c]) as int] == r.h.w@[c] by {
        assert(hit(q, c, nn));
        let a = choose|a: int| 0 <= a < nn && #[trigger] q[a] == c;
        assert(psi[q[a] as int] == hh[a]);
        assert(r.h.w@[q[a] as int] == jux_label(f, g, a));
        assert(r2.h.w@[q2[rho[a] as int] as int] == jux_label(f2, g2, rho[a] as int));
        if a >= nf { assert(phi[a - nf] < ng); } else { assert(al[a] < nf); }
    }
    assert(r.h.x@ =~= r2.h.x@);
    assert(r.h.s.sources.table@ =~= r2.h.s.sources.table@ && r.h.t.sources.table@ =~= r2.h.t.sources.table@);
    assert forall|i: int| 0 <= i < r.h.s.values.table@.len() implies (#[trigger] r2.h.s.values.table@[i]) == psi[r.h.s.values.table@[i] as int] by {
        if i < f.h.s.values.table@.len() { let v = f.h.s.values.table@[i] as int; assert(v < f.h.s.values.target); assert(f2.h.s.values.table@[i] == al[v]); assert(psi[q[v] as int] == hh[v]); }
        else { let i2 = i - f.h.s.values.table@.len(); let v = g.h.s.values.table@[i2] as int; assert(v < g.h.s.values.target); assert(g2.h.s.values.table@[i2] == phi[v]); assert(psi[q[nf + v] as int] == hh[nf + v]); }
    }
    assert forall|i: int| 0 <= i < r.h.t.values.table@.len() implies (#[trigger] r2.h.t.values.table@[i]) == psi[r.h.t.values.table@[i] as int] by {
        if i < f.h.t.values.table@.len() { let v = f.h.t.values.table@[i] as int; assert(v < f.h.t.values.target); assert(f2.h.t.values.table@[i] == al[v]); assert(psi[q[v] as int] == hh[v]); }
        else { let i2 = i - f.h.t.values.table@.len(); let v = g.h.t.values.table@[i2] as int; assert(v < g.h.t.values.target); assert(g2.h.t.values.table@[i2] == phi[v]); assert(psi[q[nf + v] as int] == hh[nf + v]); }
    }
    assert forall|i: int| 0 <= i < r.s.table@.len() implies (#[trigger] r2.s.table@[i]) == psi[r.s.table@[i] as int] by {
        let v = f.s.table@[i] as int; assert(v < f.s.target); assert(f2.s.table@[i] == al[v]); assert(psi[q[v] as int] == hh[v]);
    }
    assert forall|i: int| 0 <= i < r.t.table@.len() implies (#[trigger] r2.t.table@[i]) == psi[r.t.table@[i] as int] by {
        let v = g.t.table@[i] as int; assert(v < g.t.target); assert(g2.t.table@[i] == phi[v]); assert(psi[q[nf + v] as int] == hh[nf + v]);
    }
    psi
}

/// the tensor of isomorphic copies is isomorphic to the tensor (by the sum of the two node bijections)
pub proof fn lemma_tensor_iso<O, A>(f: OpenHypergraph<O, A>, f2: OpenHypergraph<O, A>, g: OpenHypergraph<O, A>, g2: OpenHypergraph<O, A>,
                                    r: OpenHypergraph<O, A>, r2: OpenHypergraph<O, A>, phi: Seq<usize>, chi: Seq<usize>) -> (psi: Seq<usize>)
    requires f.wf(), g.wf(), f2.wf(), g2.wf(), node_iso(f, f2, phi), node_iso(g, g2, chi), is_tensor(r, f, g), is_tensor(r2, f2, g2),
        f.h.w@.len() + g.h.w@.len() <= usize::MAX,
    ensures node_iso(r, r2, psi)
{
    let nf = f.h.w@.len() as int; let ng = g.h.w@.len() as int; let nn = nf + ng;
    let psi = Seq::new(nn as nat, |a: int| if a < nf { phi[a] } else { (nf + chi[a - nf]) as usize });
    assert forall|a: int| 0 <= a < nn implies (#[trigger] psi[a]) < nn by { if a < nf { assert(phi[a] < nf); } else { assert(chi[a - nf] < ng); } }
    assert forall|a1: int, a2: int| 0 <= a1 < nn && 0 <= a2 < nn && a1 != a2 implies psi[a1] != psi[a2] by {
        if a1 < nf { assert(phi[a1] < nf); } else { assert(chi[a1 - nf] < ng); }
        if a2 < nf { assert(phi[a2] < nf); } else { assert(chi[a2 - nf] < ng); }
    }
    assert forall|v: int| 0 <= v < nn implies r2.h.w@[(#[trigger] psi[v]) as int] == r.h.w@[v] by {
        if v < nf { assert(phi[v] < nf); assert(f2.h.w@[phi[v] as int] == f.h.w@[v]); } else { assert(chi[v - nf] < ng); assert(g2.h.w@[chi[v - nf] as int] == g.h.w@[v - nf]); }
    }
    assert(r.h.x@ =~= r2.h.x@);
    assert(r.h.s.sources.table@ =~= r2.h.s.sources.table@ && r.h.t.sources.table@ =~= r2.h.t.sources.table@);
    let lf = f.h.s.values.table@.len() as int; let mf = f.h.t.values.table@.len() as int;
    assert(f.h.s.values.target == nf && f2.h.s.values.target == nf && f.h.t.values.target == nf && f2.h.t.values.target == nf);
    assert forall|i: int| 0 <= i < r.h.s.values.table@.len() implies (#[trigger] r2.h.s.values.table@[i]) == psi[r.h.s.values.table@[i] as int] by {
        if i < lf { let v = f.h.s.values.table@[i] as int; assert(v < f.h.s.values.target); assert(f2.h.s.values.table@[i] == phi[v]); }
        else { let v = g.h.s.values.table@[i - lf] as int; assert(v < g.h.s.values.target); assert(g2.h.s.values.table@[i - lf] == chi[v]); }
    }
    assert forall|i: int| 0 <= i < r.h.t.values.table@.len() implies (#[trigger] r2.h.t.values.table@[i]) == psi[r.h.t.values.table@[i] as int] by {
        if i < mf { let v = f.h.t.values.table@[i] as int; assert(v < f.h.t.values.target); assert(f2.h.t.values.table@[i] == phi[v]); }
        else { let v = g.h.t.values.table@[i - mf] as int; assert(v < g.h.t.values.target); assert(g2.h.t.values.table@[i - mf] == chi[v]); }
    }
    assert forall|i: int| 0 <= i < r.s.table@.len() implies (#[trigger] r2.s.table@[i]) == psi[r.s.table@[i] as int] by {
        if i < f.s.table@.len() { let v = f.s.table@[i] as int; assert(v < f.s.target); assert(f2.s.table@[i] == phi[v]); }
        else { let v = g.s.table@[i - f.s.table@.len()] as int; assert(v < g.s.target); assert(g2.s.table@[i - f.s.table@.len()] == chi[v]); }
    }
    assert forall|i: int| 0 <= i < r.t.table@.len() implies (#[trigger] r2.t.table@[i]) == psi[r.t.table@[i] as int] by {
        if i < f.t.table@.len() { let v = f.t.table@[i] as int; assert(v < f.t.target); assert(f2.t.table@[i] == phi[v]); }
        else { let v = g.t.table@[i - f.t.table@.len()] as int; assert(v < g.t.target); assert(g2.t.table@[i - f.t.table@.len()] == chi[v]); }
    }
    psi
}

/// the dagger of an isomorphic copy is isomorphic to the dagger (same bijection)
pub proof fn lemma_dagger_iso<O, A>(f: OpenHypergraph<O, A>, f2: OpenHypergraph<O, A>, d: OpenHypergraph<O, A>, d2: OpenHypergraph<O, A>, phi: Seq<usize>)
    requires node_iso(f, f2, phi), is_dagger(d, f), is_dagger(d2, f2)
    ensures node_iso(d, d2, phi)
{
}
''')
