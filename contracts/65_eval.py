# strict/eval.rs: the refusal clause of C16 (eval returns None iff the dependency relation has a cycle).
# eval_order (the interpreter loop over a user-supplied closure) and layer_function_to_layers (iterator collect) stay outside
# Verus: external bodies without postconditions (nothing is assumed about them), checked by the bounded module C16.
EV = 'src/strict/eval.rs'

module('eval')

raw(r'''
// ---------------------------------------------------------------------------------------------
// ghost model of evaluation: the memory solves the circuit equations
// ---------------------------------------------------------------------------------------------
/// the node list (sources or targets) of operation e
pub open spec fn op_nodes(c: IndexedCoproduct<FiniteFunction>, e: int) -> Seq<usize> {
    c.values.table@.subrange(psum(c.sources.table@, e), psum(c.sources.table@, e + 1))
}

/// the values stored at the listed nodes
pub open spec fn read<T>(mem: Seq<T>, nodes: Seq<usize>) -> Seq<T> { Seq::new(nodes.len(), |i: int| mem[nodes[i] as int]) }

/// the interpretation of every operation of f returns as many values as the operation has targets
pub open spec fn typed_interp<O, A, T>(f: OpenHypergraph<O, A>, interp: spec_fn(A, Seq<T>) -> Seq<T>) -> bool {
    forall|e: int, ins: Seq<T>| 0 <= e < f.h.x@.len() && ins.len() == f.h.s.sources.table@[e] ==> (#[trigger] interp(f.h.x@[e], ins)).len() == f.h.t.sources.table@[e]
}

/// the values at the targets of operation e are its interpretation on the values at its sources
pub open spec fn op_solved<O, A, T>(f: OpenHypergraph<O, A>, interp: spec_fn(A, Seq<T>) -> Seq<T>, mem: Seq<T>, e: int) -> bool {
    read(mem, op_nodes(f.h.t, e)) == interp(f.h.x@[e], read(mem, op_nodes(f.h.s, e)))
}

/// C16: mem assigns a value to every node such that the input nodes carry the inputs and every hyperedge is
/// interpreted (once) on the values of its source nodes.  For an acyclic single-writer diagram these equations
/// determine the values at all written nodes (lemma_solution_unique), so any evaluation order gives this result.
pub open spec fn solves<O, A, T>(f: OpenHypergraph<O, A>, interp: spec_fn(A, Seq<T>) -> Seq<T>, s: Seq<T>, mem: Seq<T>) -> bool {
    &&& mem.len() == f.h.w@.len()
    &&& forall|i: int| 0 <= i < f.s.table@.len() ==> mem[(#[trigger] f.s.table@[i]) as int] == s[i]
    &&& forall|e: int| 0 <= e < f.h.x@.len() ==> #[trigger] op_solved(f, interp, mem, e)
}

/// every node is written at most once: by one input position or by one hyperedge target position
pub open spec fn single_writer<O, A>(f: OpenHypergraph<O, A>) -> bool { injective(f.s.table@ + f.h.t.values.table@) }

/// lay assigns a layer to every operation, E lists exactly the operations of layer l, and
/// an operation lies in a later layer than every operation it depends on
pub open spec fn layer_list<O, A>(f: OpenHypergraph<O, A>, lay: Seq<usize>, ee: Seq<usize>, l: int) -> bool {
    &&& in_bounds(ee, f.h.x@.len() as int) && injective(ee)
    &&& forall|i: int| 0 <= i < ee.len() ==> lay[(#[trigger] ee[i]) as int] == l
    &&& forall|e: int| 0 <= e < f.h.x@.len() && (#[trigger] lay[e]) == l ==> hit(ee, e, ee.len() as int)
}
pub open spec fn respects<O, A>(f: OpenHypergraph<O, A>, lay: Seq<usize>) -> bool {
    &&& lay.len() == f.h.x@.len()
    &&& forall|e2: int, e1: int| 0 <= e2 < f.h.x@.len() && 0 <= e1 < f.h.x@.len() && #[trigger] depends(f.h.t, f.h.s, e2, e1) ==> lay[e2] < lay[e1]
}

/// loop invariant: inputs stored, every operation of a layer below l solved
pub open spec fn eval_inv<O, A, T>(f: OpenHypergraph<O, A>, interp: spec_fn(A, Seq<T>) -> Seq<T>, s: Seq<T>, lay: Seq<usize>, mem: Seq<T>, l: int) -> bool {
    &&& mem.len() == f.h.w@.len()
    &&& forall|i: int| 0 <= i < f.s.table@.len() ==> mem[(#[trigger] f.s.table@[i]) as int] == s[i]
    &&& forall|e: int| 0 <= e < f.h.x@.len() && lay[e] < l ==> #[trigger] op_solved(f, interp, mem, e)
}

/// position j of operation e in an incidence array
pub proof fn lemma_op_nodes(c: IndexedCoproduct<FiniteFunction>, e: int)
    requires c.wf(), 0 <= e < c.sources.table@.len()
    ensures op_nodes(c, e).len() == c.sources.table@[e],
        forall|j: int| 0 <= j < c.sources.table@[e] ==> #[trigger] op_nodes(c, e)[j] == c.values.table@[seg_at(c.sources.table@, e, j)]
            && op_nodes(c, e)[j] < c.values.target && 0 <= seg_at(c.sources.table@, e, j) < c.values.table@.len(),
{
    let sz = c.sources.table@;
    lemma_psum_mono(sz, 0, e); lemma_psum_mono(sz, e + 1, sz.len() as int);
    assert(psum(sz, e + 1) == psum(sz, e) + sz[e]);
}

pub proof fn lemma_pos(c: IndexedCoproduct<FiniteFunction>, e: int, j: int)
    requires c.wf(), 0 <= e < c.sources.table@.len(), 0 <= j < c.sources.table@[e]
    ensures 0 <= seg_at(c.sources.table@, e, j) < c.values.table@.len(), c.values.table@[seg_at(c.sources.table@, e, j)] < c.values.target,
        op_nodes(c, e).len() == c.sources.table@[e], op_nodes(c, e)[j] == c.values.table@[seg_at(c.sources.table@, e, j)],
{
    let sz = c.sources.table@;
    lemma_psum_mono(sz, 0, e); lemma_psum_mono(sz, e + 1, sz.len() as int);
    assert(psum(sz, e + 1) == psum(sz, e) + sz[e]);
    assert(c.values.wf());
}

/// one layer: reading the sources of the listed operations, interpreting them and scattering the results to their
/// targets solves those operations and disturbs nothing solved before
pub proof fn lemma_eval_step<O, A, T>(f: OpenHypergraph<O, A>, interp: spec_fn(A, Seq<T>) -> Seq<T>, s: Seq<T>, lay: Seq<usize>, ee: Seq<usize>, l: int,
                                      mem0: Seq<T>, widx: Seq<usize>, vals: Seq<T>, mem1: Seq<T>)
    requires f.wf(), single_writer(f), typed_interp(f, interp), respects(f, lay), layer_list(f, lay, ee, l), eval_inv(f, interp, s, lay, mem0, l),
        ({ let kt = kseq(f.h.t.sources.table@, ee);
           widx.len() == total(kt) && vals.len() == total(kt)
           && (forall|i: int, j: int| 0 <= i < ee.len() && 0 <= j < kt[i] ==> widx[#[trigger] seg_at(kt, i, j)] == f.h.t.values.table@[psum(f.h.t.sources.table@, ee[i] as int) + j])
           && (forall|i: int, j: int| 0 <= i < ee.len() && 0 <= j < kt[i] ==> vals[#[trigger] seg_at(kt, i, j)] == interp(f.h.x@[ee[i] as int], read(mem0, op_nodes(f.h.s, ee[i] as int)))[j]) }),
        mem1.len() == mem0.len(),
        forall|w: int| 0 <= w < mem0.len() ==> #[trigger] mem1[w] == (if last_write(widx, w, widx.len() as int) >= 0 { vals[last_write(widx, w, widx.len() as int)] } else { mem0[w] }),
    ensures eval_inv(f, interp, s, lay, mem1, l + 1)
{
    let n = f.h.w@.len() as int; let m = f.h.x@.len() as int;
    let tsz = f.h.t.sources.table@; let tv = f.h.t.values.table@; let ssz = f.h.s.sources.table@; let sv = f.h.s.values.table@;
    let kt = kseq(tsz, ee); let np = f.s.table@.len() as int;
    let wr = f.s.table@ + tv;
    // every written cell is a target position of an operation of this layer
    assert forall|p: int| 0 <= p < widx.len() implies exists|i: int, j: int| 0 <= i < ee.len() && 0 <= j < tsz[ee[i] as int] && p == seg_at(kt, i, j)
            && (#[trigger] widx[p]) == tv[seg_at(tsz, ee[i] as int, j)] by {
        let (i, j) = lemma_seg_find(kt, p);
        assert(widx[seg_at(kt, i, j)] == tv[psum(tsz, ee[i] as int) + j]);
    }
    // a node that is a target of operation e (position j) is written in this round iff e is in the layer, and then with the right value
    assert forall|e: int, j: int| 0 <= e < m && 0 <= j < tsz[e] implies
            (lay[e] != l ==> #[trigger] mem1[tv[seg_at(tsz, e, j)] as int] == mem0[tv[seg_at(tsz, e, j)] as int])
            && (lay[e] == l ==> mem1[tv[seg_at(tsz, e, j)] as int] == interp(f.h.x@[e], read(mem0, op_nodes(f.h.s, e)))[j]) by {
        lemma_pos(f.h.t, e, j);
        let w = tv[seg_at(tsz, e, j)] as int;
        let lw = last_write(widx, w, widx.len() as int);
        lemma_last_write(widx, w, widx.len() as int);
        if lw >= 0 {
            let (i, j2) = choose|i: int, j2: int| 0 <= i < ee.len() && 0 <= j2 < tsz[ee[i] as int] && lw == seg_at(kt, i, j2) && widx[lw] == tv[seg_at(tsz, ee[i] as int, j2)];
            lemma_pos(f.h.t, ee[i] as int, j2);
            // same node, two target positions: single writer makes them the same position
            assert(wr[np + seg_at(tsz, e, j)] == wr[np + seg_at(tsz, ee[i] as int, j2)]);
            lemma_seg_unique(tsz, e, j, ee[i] as int, j2);
            assert(vals[seg_at(kt, i, j2)] == interp(f.h.x@[ee[i] as int], read(mem0, op_nodes(f.h.s, ee[i] as int)))[j2]);
        } else if lay[e] == l {
            let i = choose|i: int| 0 <= i < ee.len() && #[trigger] ee[i] == e;
            lemma_seg_range(kt, i, j);
            assert(widx[seg_at(kt, i, j)] == tv[psum(tsz, ee[i] as int) + j]);
        }
    }
    // a source node of an operation of layer <= l is not written in this round
    assert forall|e: int, i: int| 0 <= e < m && lay[e] <= l && 0 <= i < ssz[e] implies #[trigger] mem1[sv[seg_at(ssz, e, i)] as int] == mem0[sv[seg_at(ssz, e, i)] as int] by {
        lemma_pos(f.h.s, e, i);
        let w = sv[seg_at(ssz, e, i)] as int;
        let lw = last_write(widx, w, widx.len() as int);
        lemma_last_write(widx, w, widx.len() as int);
        if lw >= 0 {
            let (i2, j2) = choose|i2: int, j2: int| 0 <= i2 < ee.len() && 0 <= j2 < tsz[ee[i2] as int] && lw == seg_at(kt, i2, j2) && widx[lw] == tv[seg_at(tsz, ee[i2] as int, j2)];
            let e2 = ee[i2] as int;
            lemma_pos(f.h.t, e2, j2);
            assert(adj_edge(f.h.t, e2, w)) by { assert(tv[seg_at(tsz, e2, j2)] == w); }
            assert(adj_edge(f.h.s, e, w)) by { assert(sv[seg_at(ssz, e, i)] == w); }
            assert(depends(f.h.t, f.h.s, e2, e));
        }
    }
    // inputs are not overwritten
    assert forall|i: int| 0 <= i < np implies mem1[(#[trigger] f.s.table@[i]) as int] == s[i] by {
        let w = f.s.table@[i] as int;
        let lw = last_write(widx, w, widx.len() as int);
        lemma_last_write(widx, w, widx.len() as int);
        if lw >= 0 {
            let (i2, j2) = choose|i2: int, j2: int| 0 <= i2 < ee.len() && 0 <= j2 < tsz[ee[i2] as int] && lw == seg_at(kt, i2, j2) && widx[lw] == tv[seg_at(tsz, ee[i2] as int, j2)];
            lemma_pos(f.h.t, ee[i2] as int, j2);
            assert(wr[i] == wr[np + seg_at(tsz, ee[i2] as int, j2)]);
        }
    }
    assert forall|e: int| 0 <= e < m && lay[e] < l + 1 implies #[trigger] op_solved(f, interp, mem1, e) by {
        lemma_op_nodes(f.h.t, e); lemma_op_nodes(f.h.s, e);
        let ins0 = read(mem0, op_nodes(f.h.s, e)); let ins1 = read(mem1, op_nodes(f.h.s, e));
        assert(ins1 =~= ins0) by {
            assert forall|i: int| 0 <= i < ssz[e] implies ins1[i] == ins0[i] by { lemma_pos(f.h.s, e, i); assert(mem1[sv[seg_at(ssz, e, i)] as int] == mem0[sv[seg_at(ssz, e, i)] as int]); }
        }
        let out = interp(f.h.x@[e], ins0);
        assert(out.len() == tsz[e]);
        if lay[e] < l { assert(op_solved(f, interp, mem0, e)); }
        assert(read(mem1, op_nodes(f.h.t, e)) =~= out) by {
            assert forall|j: int| 0 <= j < tsz[e] implies read(mem1, op_nodes(f.h.t, e))[j] == out[j] by {
                lemma_pos(f.h.t, e, j);
                assert(mem1[tv[seg_at(tsz, e, j)] as int] == mem0[tv[seg_at(tsz, e, j)] as int] || lay[e] == l);
                if lay[e] < l { assert(read(mem0, op_nodes(f.h.t, e))[j] == out[j]); }
            }
        }
    }
}
''')

raw(r'''
/// segment i of a segmented value array
pub open spec fn segment<T>(c: IndexedCoproduct<SemifiniteFunction<T>>, i: int) -> Seq<T> {
    c.values@.subrange(psum(c.sources.table@, i), psum(c.sources.table@, i + 1))
}

/// `out` is the batch interpretation of the listed operations on the segmented inputs
pub open spec fn batch_ok<A, T>(interp: spec_fn(A, Seq<T>) -> Seq<T>, labels: Seq<A>, inp: IndexedCoproduct<SemifiniteFunction<T>>, out: IndexedCoproduct<SemifiniteFunction<T>>) -> bool {
    &&& out.wf() && out.sources.table@.len() == labels.len()
    &&& forall|i: int| 0 <= i < labels.len() ==> #[trigger] segment(out, i) == interp(labels[i], segment(inp, i))
}

/// the user's batch interpreter `apply` computes the per-operation function `interp`, and accepts every well-formed batch
pub open spec fn apply_interprets<A, T, F: Fn(SemifiniteFunction<A>, IndexedCoproduct<SemifiniteFunction<T>>) -> IndexedCoproduct<SemifiniteFunction<T>>>(
    apply: F, interp: spec_fn(A, Seq<T>) -> Seq<T>) -> bool {
    forall|l: SemifiniteFunction<A>, inp: IndexedCoproduct<SemifiniteFunction<T>>, out: IndexedCoproduct<SemifiniteFunction<T>>|
        #[trigger] apply.ensures((l, inp), out) ==> batch_ok(interp, l@, inp, out)
}
pub open spec fn apply_total<A, T, F: Fn(SemifiniteFunction<A>, IndexedCoproduct<SemifiniteFunction<T>>) -> IndexedCoproduct<SemifiniteFunction<T>>>(apply: F) -> bool {
    forall|l: SemifiniteFunction<A>, inp: IndexedCoproduct<SemifiniteFunction<T>>| inp.wf() && inp.sources.table@.len() == l@.len() ==> #[trigger] apply.requires((l, inp))
}

/// the layers handed to eval_order: layer k lists exactly the operations with lay == k, every operation has a layer,
/// and the layering respects dependencies
pub open spec fn eval_pre<O, A, T>(f: OpenHypergraph<O, A>, order: Seq<FiniteFunction>, interp: spec_fn(A, Seq<T>) -> Seq<T>, lay: Seq<usize>) -> bool {
    &&& typed_interp(f, interp) && respects(f, lay)
    &&& forall|k: int| 0 <= k < order.len() ==> layer_list(f, lay, (#[trigger] order[k]).table@, k)
    &&& forall|e: int| 0 <= e < f.h.x@.len() ==> (#[trigger] lay[e]) < order.len()
}

/// from the batch result to the per-position description used by lemma_eval_step
pub proof fn lemma_eval_batch<O, A, T>(f: OpenHypergraph<O, A>, interp: spec_fn(A, Seq<T>) -> Seq<T>, ee: Seq<usize>, mem0: Seq<T>,
                                       labels: Seq<A>, inp: IndexedCoproduct<SemifiniteFunction<T>>, out: IndexedCoproduct<SemifiniteFunction<T>>)
    requires f.wf(), typed_interp(f, interp), in_bounds(ee, f.h.x@.len() as int), mem0.len() == f.h.w@.len(),
        labels.len() == ee.len(), forall|i: int| 0 <= i < ee.len() ==> labels[i] == f.h.x@[ee[i] as int],
        inp.wf(), inp.sources.table@ == kseq(f.h.s.sources.table@, ee),
        forall|i: int, j: int| 0 <= i < ee.len() && 0 <= j < kseq(f.h.s.sources.table@, ee)[i] ==>
            inp.values@[#[trigger] seg_at(kseq(f.h.s.sources.table@, ee), i, j)] == mem0[f.h.s.values.table@[psum(f.h.s.sources.table@, ee[i] as int) + j] as int],
        batch_ok(interp, labels, inp, out),
    ensures ({ let kt = kseq(f.h.t.sources.table@, ee);
        out.sources.table@ =~= kt && out.values@.len() == total(kt)
        && (forall|i: int, j: int| 0 <= i < ee.len() && 0 <= j < kt[i] ==> out.values@[#[trigger] seg_at(kt, i, j)] == interp(f.h.x@[ee[i] as int], read(mem0, op_nodes(f.h.s, ee[i] as int)))[j]) })
{
    let ssz = f.h.s.sources.table@; let tsz = f.h.t.sources.table@; let ks = kseq(ssz, ee); let kt = kseq(tsz, ee); let os = out.sources.table@;
    assert forall|i: int| 0 <= i < ee.len() implies segment(inp, i) =~= read(mem0, op_nodes(f.h.s, ee[i] as int)) && os[i] == kt[i]
            && segment(out, i) == interp(f.h.x@[ee[i] as int], read(mem0, op_nodes(f.h.s, ee[i] as int))) by {
        let e = ee[i] as int;
        lemma_op_nodes(f.h.s, e);
        lemma_psum_mono(ks, 0, i); lemma_psum_mono(ks, i + 1, ks.len() as int);
        assert(psum(ks, i + 1) == psum(ks, i) + ks[i]);
        assert forall|j: int| 0 <= j < ks[i] implies segment(inp, i)[j] == read(mem0, op_nodes(f.h.s, e))[j] by {
            lemma_pos(f.h.s, e, j);
            assert(inp.values@[seg_at(ks, i, j)] == mem0[f.h.s.values.table@[psum(ssz, e) + j] as int]);
        }
        assert(segment(inp, i).len() == ks[i]);
        assert(read(mem0, op_nodes(f.h.s, e)).len() == ssz[e]);
        assert(segment(inp, i) =~= read(mem0, op_nodes(f.h.s, e)));
        assert(segment(out, i) == interp(labels[i], segment(inp, i)));
        lemma_psum_mono(os, 0, i); lemma_psum_mono(os, i + 1, os.len() as int);
        assert(psum(os, i + 1) == psum(os, i) + os[i]);
        assert(segment(out, i).len() == os[i]);
        assert(interp(f.h.x@[e], read(mem0, op_nodes(f.h.s, e))).len() == tsz[e]);
    }
    assert(os =~= kt);
    assert forall|i: int, j: int| 0 <= i < ee.len() && 0 <= j < kt[i] implies out.values@[#[trigger] seg_at(kt, i, j)] == interp(f.h.x@[ee[i] as int], read(mem0, op_nodes(f.h.s, ee[i] as int)))[j] by {
        lemma_psum_mono(os, 0, i); lemma_psum_mono(os, i + 1, os.len() as int);
        assert(psum(os, i + 1) == psum(os, i) + os[i]);
        assert(segment(out, i)[j] == out.values@[psum(os, i) + j]);
    }
}

/// storing the inputs: after `scatter_assign(f.s, s)` on a fresh memory every input node carries its input
pub proof fn lemma_eval_init<O, A, T>(f: OpenHypergraph<O, A>, interp: spec_fn(A, Seq<T>) -> Seq<T>, s: Seq<T>, lay: Seq<usize>, mem0: Seq<T>, mem1: Seq<T>)
    requires f.wf(), single_writer(f), s.len() == f.s.table@.len(), mem0.len() == f.h.w@.len(), mem1.len() == mem0.len(),
        forall|w: int| 0 <= w < mem0.len() ==> #[trigger] mem1[w] == (if last_write(f.s.table@, w, f.s.table@.len() as int) >= 0 { s[last_write(f.s.table@, w, f.s.table@.len() as int)] } else { mem0[w] }),
    ensures eval_inv(f, interp, s, lay, mem1, 0)
{
    let ix = f.s.table@; let wr = ix + f.h.t.values.table@;
    assert forall|i: int| 0 <= i < ix.len() implies mem1[(#[trigger] ix[i]) as int] == s[i] by {
        let lw = last_write(ix, ix[i] as int, ix.len() as int);
        lemma_last_write(ix, ix[i] as int, ix.len() as int);
        assert(lw >= i);
        if lw != i { assert(wr[lw] == wr[i]); }
    }
}
''')

raw(r'''
/// the layers: entry k lists exactly the operations x with f[x] == k, each once
pub open spec fn layers_of(f: Seq<usize>, nl: int, r: Seq<FiniteFunction>) -> bool {
    &&& r.len() == nl
    &&& forall|k: int| 0 <= k < nl ==> (#[trigger] r[k]).wf() && r[k].target == f.len() && injective(r[k].table@)
    &&& forall|k: int, i: int| 0 <= k < nl && 0 <= i < r[k].table@.len() ==> f[(#[trigger] r[k].table@[i]) as int] == k
    &&& forall|x: int| 0 <= x < f.len() ==> hit(r[(#[trigger] f[x]) as int].table@, x, r[f[x] as int].table@.len() as int)
}

/// c is the converse of `elements(f)`: one segment per layer, listing the x with f[x] == k, all values distinct
pub open spec fn conv_layers(f: FiniteFunction, c: IndexedCoproduct<FiniteFunction>) -> bool {
    &&& c.wf() && c.sources.table@.len() == f.target && c.values.target == f.table@.len() && c.values.table@.len() == f.table@.len()
    &&& injective(c.values.table@)
    &&& forall|k: int, j: int| 0 <= k < f.target && 0 <= j < c.sources.table@[k] ==> f.table@[(#[trigger] c.values.table@[seg_at(c.sources.table@, k, j)]) as int] == k
    &&& forall|x: int| 0 <= x < f.table@.len() ==> adj_edge(c, (#[trigger] f.table@[x]) as int, x)
}

/// the segments of such a c, collected in order, are the layers
pub proof fn lemma_layers_collect(f: FiniteFunction, c: IndexedCoproduct<FiniteFunction>, r: Seq<FiniteFunction>)
    requires f.wf(), conv_layers(f, c), r.len() == f.target,
        forall|k: int| 0 <= k < r.len() ==> (#[trigger] r[k]).target == c.values.target && r[k].table@ =~= op_nodes(c, k),
    ensures layers_of(f.table@, f.target as int, r)
{
    let sz = c.sources.table@; let cv = c.values.table@;
    assert forall|k: int| 0 <= k < f.target implies (#[trigger] r[k]).wf() && r[k].target == f.table@.len() && injective(r[k].table@) by {
        lemma_op_nodes(c, k);
        assert forall|i: int| 0 <= i < r[k].table@.len() implies (#[trigger] r[k].table@[i]) < r[k].target by { lemma_pos(c, k, i); }
        assert forall|i1: int, i2: int| 0 <= i1 < r[k].table@.len() && 0 <= i2 < r[k].table@.len() && i1 != i2 implies r[k].table@[i1] != r[k].table@[i2] by {
            lemma_pos(c, k, i1); lemma_pos(c, k, i2);
        }
    }
    assert forall|k: int, i: int| 0 <= k < f.target && 0 <= i < r[k].table@.len() implies f.table@[(#[trigger] r[k].table@[i]) as int] == k by {
        lemma_op_nodes(c, k); lemma_pos(c, k, i);
    }
    assert forall|x: int| 0 <= x < f.table@.len() implies hit(r[(#[trigger] f.table@[x]) as int].table@, x, r[f.table@[x] as int].table@.len() as int) by {
        let k = f.table@[x] as int;
        assert(adj_edge(c, k, x));
        let j = choose|j: int| 0 <= j < sz[k] && #[trigger] cv[seg_at(sz, k, j)] == x;
        lemma_op_nodes(c, k); lemma_pos(c, k, j);
        assert(r[k].table@[j] == x);
    }
}

/// what the converse of `elements(f)` looks like: segment k lists the x with f[x] == k, all values distinct
pub proof fn lemma_layers_from_converse(f: FiniteFunction, c0: IndexedCoproduct<FiniteFunction>, c: IndexedCoproduct<FiniteFunction>, p: Seq<usize>)
    requires f.wf(), c0.wf(), c.wf(), f.table@.len() <= usize::MAX,
        c0.sources.table@.len() == f.table@.len(), forall|i: int| 0 <= i < f.table@.len() ==> c0.sources.table@[i] == 1, c0.values == f,
        c.sources.table@.len() == f.target, c.values.target == f.table@.len(), c.values.table@.len() == f.table@.len(),
        forall|q: int, x: int| #![trigger adj_edge(c, q, x)] #![trigger adj_edge(c0, x, q)] 0 <= q < f.target && 0 <= x < f.table@.len() ==> (adj_edge(c, q, x) <==> adj_edge(c0, x, q)),
        is_perm(p, f.table@.len() as int), forall|i: int| 0 <= i < f.table@.len() ==> c.values.table@[i] == seg_index_seq(c0.sources.table@)[p[i] as int],
    ensures conv_layers(f, c)
{
    let n = f.table@.len() as int; let sz0 = c0.sources.table@;
    assert forall|m: int| 0 <= m <= n implies #[trigger] psum(sz0, m) == m by { lemma_psum_const(sz0, 1usize, m); }
    assert forall|m: int| 0 <= m < n implies #[trigger] seg_index_seq(sz0)[m] == m by { lemma_seg_of(sz0, n, m, 0); }
    assert forall|i1: int, i2: int| 0 <= i1 < n && 0 <= i2 < n && i1 != i2 implies c.values.table@[i1] != c.values.table@[i2] by {
        assert(p[i1] != p[i2]);
    }
    assert forall|x: int, q: int| 0 <= x < n && 0 <= q < f.target implies (#[trigger] adj_edge(c0, x, q) <==> f.table@[x] == q) by {
        assert(c0.values.table@[seg_at(sz0, x, 0)] == f.table@[x]);
    }
    assert forall|k: int, j: int| 0 <= k < f.target && 0 <= j < c.sources.table@[k] implies f.table@[(#[trigger] c.values.table@[seg_at(c.sources.table@, k, j)]) as int] == k by {
        lemma_pos(c, k, j);
        let x = c.values.table@[seg_at(c.sources.table@, k, j)] as int;
        assert(adj_edge(c, k, x));
    }
    assert forall|x: int| 0 <= x < n implies adj_edge(c, (#[trigger] f.table@[x]) as int, x) by {
        assert(adj_edge(c0, x, f.table@[x] as int));
    }
}
''')

fn(EV, 'layer_function_to_layers', kind='free', status='P', props=['C16'], rules={'t13': True},
   requires=['f.wf()', 'f.table@.len() < usize::MAX', 'f.target < usize::MAX'],
   ensures=[('C16.layers', 'layers_of(f.table@, f.target as int, r@)')],
   loops={1: {'elem_ty': 'FiniteFunction', 'invariant_except_break': ['vx_it1.index < vx_it1.pointers@.len()'],
              'invariant': ['fv.wf()', 'conv_layers(fv, cg)',
                            'ptr_wf(vx_it1.pointers@, vx_it1.values.table@.len() as int, vx_it1.index as int)', 'vx_it1.values == cg.values', 'vx_it1.values.wf()',
                            'vx_it1.pointers@.len() == cg.sources.table@.len() + 1',
                            'forall|i: int| 0 <= i <= cg.sources.table@.len() ==> vx_it1.pointers@[i] == psum(cg.sources.table@, i)',
                            'vx_v1@.len() == vx_it1.index',
                            'forall|k: int| 0 <= k < vx_v1@.len() ==> (#[trigger] vx_v1@[k]).target == cg.values.target && vx_v1@[k].table@ =~= op_nodes(cg, k)'],
              'ensures': ['layers_of(fv.table@, fv.target as int, vx_v1@)'],
              'decreases': 'vx_it1.pointers@.len() - vx_it1.index',
              'break_pre': 'proof { lemma_layers_collect(fv, cg, vx_v1@); }'}},
   proofs=[G('start', 'let ghost fv = f; proof { assert(lawful_clone::<usize>()); }'),
           G('end', '''let ghost cg = c;
        proof {
            lemma_seg_wf_sources(c.sources, c.values.table@.len());
            assert forall|c0: IndexedCoproduct<FiniteFunction>| #[trigger] is_converse_of(c, c0) && c0.wf() && c0.values == fv && c0.sources.table@.len() == fv.table@.len()
                    && (forall|i: int| 0 <= i < fv.table@.len() ==> c0.sources.table@[i] == 1)
                implies conv_layers(fv, c) by {
                let p = choose|p: Seq<usize>| #[trigger] is_perm(p, c0.values.table@.len() as int) && (forall|i: int| 0 <= i < c0.values.table@.len() ==> c.values.table@[i] == seg_index_seq(c0.sources.table@)[p[i] as int]);
                lemma_layers_from_converse(fv, c0, c, p);
            }
            assert(conv_layers(fv, c));
        }''')])
raw(r'''
/// node w is written by an input position or by a hyperedge target position
pub open spec fn written_node<O, A>(f: OpenHypergraph<O, A>, w: int) -> bool {
    hit(f.s.table@, w, f.s.table@.len() as int) || hit(f.h.t.values.table@, w, f.h.t.values.table@.len() as int)
}

/// Determinism: for a diagram with a dependency-respecting layering, two assignments that solve the circuit
/// equations for the same inputs and agree on the nodes nobody writes agree on the targets of every operation
/// (induction over the layers) ...
pub proof fn lemma_solution_unique_targets<O, A, T>(f: OpenHypergraph<O, A>, interp: spec_fn(A, Seq<T>) -> Seq<T>, s: Seq<T>, lay: Seq<usize>, m1: Seq<T>, m2: Seq<T>, l: int)
    requires f.wf(), typed_interp(f, interp), respects(f, lay), solves(f, interp, s, m1), solves(f, interp, s, m2), 0 <= l,
        forall|w: int| 0 <= w < f.h.w@.len() && !written_node(f, w) ==> #[trigger] m1[w] == m2[w],
    ensures forall|e: int| 0 <= e < f.h.x@.len() && lay[e] < l ==> #[trigger] read(m1, op_nodes(f.h.t, e)) == read(m2, op_nodes(f.h.t, e))
    decreases l
{
    if l > 0 {
        lemma_solution_unique_targets(f, interp, s, lay, m1, m2, l - 1);
        let tsz = f.h.t.sources.table@; let tv = f.h.t.values.table@; let ssz = f.h.s.sources.table@; let sv = f.h.s.values.table@;
        assert(total(tsz) == tv.len());
        assert forall|e: int| 0 <= e < f.h.x@.len() && lay[e] < l implies #[trigger] read(m1, op_nodes(f.h.t, e)) == read(m2, op_nodes(f.h.t, e)) by {
            if lay[e] == l - 1 {
                lemma_op_nodes(f.h.s, e); lemma_op_nodes(f.h.t, e);
                let i1 = read(m1, op_nodes(f.h.s, e)); let i2 = read(m2, op_nodes(f.h.s, e));
                assert(i1 =~= i2) by {
                    assert forall|i: int| 0 <= i < ssz[e] implies i1[i] == i2[i] by {
                        lemma_pos(f.h.s, e, i);
                        let w = sv[seg_at(ssz, e, i)] as int;
                        if hit(f.s.table@, w, f.s.table@.len() as int) {
                            let p = choose|p: int| 0 <= p < f.s.table@.len() && #[trigger] f.s.table@[p] == w;
                            assert(m1[f.s.table@[p] as int] == s[p] && m2[f.s.table@[p] as int] == s[p]);
                        } else if hit(tv, w, tv.len() as int) {
                            let p = choose|p: int| 0 <= p < tv.len() && #[trigger] tv[p] == w;
                            let (e2, j2) = lemma_seg_find(tsz, p);
                            lemma_pos(f.h.t, e2, j2);
                            assert(adj_edge(f.h.t, e2, w)) by { assert(tv[seg_at(tsz, e2, j2)] == w); }
                            assert(adj_edge(f.h.s, e, w)) by { assert(sv[seg_at(ssz, e, i)] == w); }
                            assert(depends(f.h.t, f.h.s, e2, e));
                            assert(read(m1, op_nodes(f.h.t, e2)) == read(m2, op_nodes(f.h.t, e2)));
                            lemma_op_nodes(f.h.t, e2);
                            assert(read(m1, op_nodes(f.h.t, e2))[j2] == m1[w] && read(m2, op_nodes(f.h.t, e2))[j2] == m2[w]);
                        } else {
                            assert(!written_node(f, w));
                        }
                    }
                }
                assert(op_solved(f, interp, m1, e) && op_solved(f, interp, m2, e));
            }
        }
    }
}

/// ... hence on every node: the solution is unique, whatever order the hyperedges are interpreted in
pub proof fn lemma_solution_unique<O, A, T>(f: OpenHypergraph<O, A>, interp: spec_fn(A, Seq<T>) -> Seq<T>, s: Seq<T>, lay: Seq<usize>, m1: Seq<T>, m2: Seq<T>)
    requires f.wf(), typed_interp(f, interp), respects(f, lay), solves(f, interp, s, m1), solves(f, interp, s, m2),
        forall|w: int| 0 <= w < f.h.w@.len() && !written_node(f, w) ==> #[trigger] m1[w] == m2[w],
    ensures m1 =~= m2
{
    let tsz = f.h.t.sources.table@; let tv = f.h.t.values.table@;
    assert(total(tsz) == tv.len());
    assert forall|w: int| 0 <= w < f.h.w@.len() implies m1[w] == m2[w] by {
        if hit(f.s.table@, w, f.s.table@.len() as int) {
            let p = choose|p: int| 0 <= p < f.s.table@.len() && #[trigger] f.s.table@[p] == w;
            assert(m1[f.s.table@[p] as int] == s[p] && m2[f.s.table@[p] as int] == s[p]);
        } else if hit(tv, w, tv.len() as int) {
            let p = choose|p: int| 0 <= p < tv.len() && #[trigger] tv[p] == w;
            let (e2, j2) = lemma_seg_find(tsz, p);
            lemma_pos(f.h.t, e2, j2);
            lemma_solution_unique_targets(f, interp, s, lay, m1, m2, lay[e2] + 1);
            assert(read(m1, op_nodes(f.h.t, e2)) == read(m2, op_nodes(f.h.t, e2)));
            lemma_op_nodes(f.h.t, e2);
            assert(read(m1, op_nodes(f.h.t, e2))[j2] == m1[w] && read(m2, op_nodes(f.h.t, e2))[j2] == m2[w]);
        } else {
            assert(!written_node(f, w));
        }
    }
}
''')

fn(EV, 'eval_order', kind='free', status='P', props=['C16'], where_add='O: Clone, A: Clone, T: Clone', rules={'ops': ['shr']},
   requires=['f.wf()', 'single_writer(*f)', 's@.len() == f.s.table@.len()', 'lawful_clone::<T>()', 'lawful_clone::<A>()', 'apply_total(apply)',
             'forall|k: int| 0 <= k < order@.len() ==> (#[trigger] order@[k]).wf() && order@[k].target == f.h.x@.len() && injective(order@[k].table@)',
             'f.h.x@.len() < usize::MAX', 'f.h.s.values.table@.len() + 1 < usize::MAX', 'f.h.t.values.table@.len() + 1 < usize::MAX'],
   ensures=[('C16.eval_order-mem', '''forall|interp: spec_fn(A, Seq<T>) -> Seq<T>, lay: Seq<usize>| #[trigger] eval_pre(*f, order@, interp, lay) && apply_interprets(apply, interp)
                ==> solves(*f, interp, s@, r.0@)'''),
            ('C16.eval_order-out', 'r.1@ =~= read(r.0@, f.t.table@)')],
   loops={1: {'iter': 'it', 'invariant': [
       'f.wf()', 'single_writer(*f)', 'lawful_clone::<T>()', 'lawful_clone::<A>()', 'apply_total(apply)', 'it.seq() == ord',
       'forall|k: int| 0 <= k < ord.len() ==> (#[trigger] ord[k]).wf() && ord[k].target == f.h.x@.len() && injective(ord[k].table@)',
       'f.h.x@.len() < usize::MAX', 'f.h.s.values.table@.len() + 1 < usize::MAX', 'f.h.t.values.table@.len() + 1 < usize::MAX',
       'mem@.len() == f.h.w@.len()',
       '''forall|interp: spec_fn(A, Seq<T>) -> Seq<T>, lay: Seq<usize>| #[trigger] eval_pre(*f, ord, interp, lay) && apply_interprets(apply, interp)
                ==> eval_inv(*f, interp, s0, lay, mem@, it.index@ as int)''']}},
   proofs=[G('start', 'let ghost ord = order@; let ghost s0 = s@;'),
           G('before:mem.0.scatter_assign(&f.s.table, s);', 'let ghost mem_a = mem@;'),
           ('before:for op_ix in order', '''assert forall|w: int| 0 <= w < mem_a.len() implies #[trigger] mem@[w] == (if last_write(f.s.table@, w, f.s.table@.len() as int) >= 0 { s0[last_write(f.s.table@, w, f.s.table@.len() as int)] } else { mem_a[w] }) by {
            }
            assert forall|interp: spec_fn(A, Seq<T>) -> Seq<T>, lay: Seq<usize>| #[trigger] eval_pre(*f, ord, interp, lay) && apply_interprets(apply, interp)
                implies eval_inv(*f, interp, s0, lay, mem@, 0) by { lemma_eval_init(*f, interp, s0, lay, mem_a, mem@); }'''),
           G('before:let op_labels = ', '''let ghost ee = op_ix.table@; let ghost mem0 = mem@; let ghost kk = it.index@ as int;
        proof {
            assert(op_ix == ord[kk]);
            lemma_seg_wf_sources(f.h.s.sources, f.h.s.values.table@.len()); lemma_seg_wf_sources(f.h.t.sources, f.h.t.values.table@.len());
            lemma_injective_selection(f.h.s.sources.table@, ee); lemma_injective_selection(f.h.t.sources.table@, ee);
            lemma_injective_small(ee, f.h.x@.len() as int);
        }'''),
           G('before:let outputs = apply(op_labels, input_values);', 'let ghost op_labels_v = op_labels@; let ghost op_labels_g = op_labels; let ghost input_values_g = input_values;'),
           G('after:let outputs = apply(op_labels, input_values);', 'let ghost outputs_g = outputs; proof { assert(apply.ensures((op_labels_g, input_values_g), outputs_g)); }'),
           G('after:let output_indexes = f.h.t.map_indexes(&op_ix).unwrap();', 'let ghost widx = output_indexes.values.table@; let ghost vals = outputs.values@;'),
           ('after:.scatter_assign(&output_indexes.values.table, outputs.values.0);', '''let ks = kseq(f.h.s.sources.table@, ee); let kt = kseq(f.h.t.sources.table@, ee);
            assert forall|i: int, j: int| 0 <= i < ee.len() && 0 <= j < ks[i] implies input_values_g.values@[#[trigger] seg_at(ks, i, j)] == mem0[f.h.s.values.table@[psum(f.h.s.sources.table@, ee[i] as int) + j] as int] by {
                lemma_seg_range(ks, i, j);
                assert(input_indexes.values.table@[seg_at(ks, i, j)] == f.h.s.values.table@[psum(f.h.s.sources.table@, ee[i] as int) + j]);
            }
            assert(widx.len() == total(kt));
            assert forall|interp: spec_fn(A, Seq<T>) -> Seq<T>, lay: Seq<usize>| #[trigger] eval_pre(*f, ord, interp, lay) && apply_interprets(apply, interp)
                implies eval_inv(*f, interp, s0, lay, mem@, kk + 1) by {
                assert(layer_list(*f, lay, ord[kk].table@, kk));
                assert(batch_ok(interp, op_labels_v, input_values_g, outputs_g));
                lemma_eval_batch(*f, interp, ee, mem0, op_labels_v, input_values_g, outputs_g);
                assert(vals.len() == widx.len());
                assert forall|w: int| 0 <= w < mem0.len() implies #[trigger] mem@[w] == (if last_write(widx, w, widx.len() as int) >= 0 { vals[last_write(widx, w, widx.len() as int)] } else { mem0[w] }) by {
                }
                lemma_eval_step(*f, interp, s0, lay, ee, kk, mem0, widx, vals, mem@);
            }'''),
           ('end', '''assert forall|interp: spec_fn(A, Seq<T>) -> Seq<T>, lay: Seq<usize>| #[trigger] eval_pre(*f, ord, interp, lay) && apply_interprets(apply, interp)
                implies solves(*f, interp, s0, mem@) by {
                assert(eval_inv(*f, interp, s0, lay, mem@, ord.len() as int));
            }''')])
fn(EV, 'eval', kind='free', status='P', props=['C16'], where_add='O: Clone, A: Clone, T: Clone',
   requires=['f.wf()', 'adjacency_fits(f.h.t, f.h.s)', 'single_writer(*f)', 's@.len() == f.s.table@.len()', 'lawful_clone::<T>()', 'lawful_clone::<A>()', 'apply_total(apply)',
             'f.h.x@.len() < usize::MAX', 'f.h.s.values.table@.len() + 1 < usize::MAX', 'f.h.t.values.table@.len() + 1 < usize::MAX'],
   ensures=[('C16.refuses-iff-cycle', 'r.is_none() <==> exists|y: int| 0 <= y < f.h.x@.len() && #[trigger] on_or_after_cycle(f.h.t, f.h.s, f.h.x@.len() as int, y)'),
            ('C16.eval-values', '''r.is_some() ==> forall|interp: spec_fn(A, Seq<T>) -> Seq<T>| #[trigger] typed_interp(*f, interp) && apply_interprets(apply, interp)
                ==> exists|mem: Seq<T>| #[trigger] solves(*f, interp, s@, mem) && r.unwrap()@ =~= read(mem, f.t.table@)''')],
   proofs=[G('after:let (order, unvisited) = layer(f);', '''let ghost ord = order.table@; let ghost unv = unvisited@; let ghost n = f.h.x@.len() as int; let ghost s0 = s@;
        proof {
            assert forall|y: int| #![trigger unv[y]] #![trigger on_or_after_cycle(f.h.t, f.h.s, n, y)] 0 <= y < n implies (unv[y] == 1 <==> on_or_after_cycle(f.h.t, f.h.s, n, y)) by {
                lemma_unvisited_iff_cycle(f.h.t, f.h.s, n, ord, unv, y);
            }
            assert forall|y: int| 0 <= y < n implies (#[trigger] unv[y]) <= 1 by {}
        }'''),
           G('after:let layering = layer_function_to_layers(order);', 'let ghost lay_g = layering@;'),
           ('after:let (_, outputs) = eval_order(f, s, layering, apply);', '''assert forall|interp: spec_fn(A, Seq<T>) -> Seq<T>| #[trigger] typed_interp(*f, interp) && apply_interprets(apply, interp)
                implies exists|mem: Seq<T>| #[trigger] solves(*f, interp, s0, mem) && outputs@ =~= read(mem, f.t.table@) by {
                assert(respects(*f, ord)) by {
                    assert forall|e2: int, e1: int| 0 <= e2 < n && 0 <= e1 < n && #[trigger] depends(f.h.t, f.h.s, e2, e1) implies ord[e2] < ord[e1] by { assert(unv[e1] == 0); }
                }
                assert forall|k: int| 0 <= k < lay_g.len() implies layer_list(*f, ord, (#[trigger] lay_g[k]).table@, k) by {
                    assert forall|e: int| 0 <= e < n && (#[trigger] ord[e]) == k implies hit(lay_g[k].table@, e, lay_g[k].table@.len() as int) by {}
                }
                assert(eval_pre(*f, lay_g, interp, ord));
            }''')])
