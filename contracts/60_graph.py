# strict/graph.rs, strict/layer.rs, strict/hypergraph/acyclic.rs: helper routines of layering.
# Proved here: well-formedness and panic-freedom of every helper given its callees (C15 "the call returns",
# C17 "returns an answer", C05); the level-synchronous counting loop `kahn` keeps its contract as an
# assumption in Verus and is checked by the bounded modules C15/C16/C17 (status B).
GR = 'src/strict/graph.rs'
LY = 'src/strict/layer.rs'
AC = 'src/strict/hypergraph/acyclic.rs'

module('graph')

raw(r'''
/// machine-arithmetic side condition of a.flatmap(converse(b)) / converse(a).flatmap(b): the adjacency list fits
pub open spec fn adjacency_fits(a: IndexedCoproduct<FiniteFunction>, b: IndexedCoproduct<FiniteFunction>) -> bool {
    &&& a.values.table@.len() * b.values.table@.len() + 1 < usize::MAX
    &&& a.values.table@.len() < usize::MAX && b.values.table@.len() < usize::MAX
    &&& a.sources.table@.len() < usize::MAX && b.sources.table@.len() < usize::MAX
    &&& a.values.target < usize::MAX && b.values.target < usize::MAX
}

pub proof fn lemma_kseq_bound(sz: Seq<usize>, v: Seq<usize>, m: int, n: int)
    requires 0 <= n <= v.len(), m >= 0, forall|i: int| 0 <= i < v.len() ==> (#[trigger] v[i]) < sz.len(),
        forall|i: int| 0 <= i < sz.len() ==> (#[trigger] sz[i]) <= m,
    ensures 0 <= psum(kseq(sz, v), n) <= n * m
    decreases n
{
    if n > 0 {
        lemma_kseq_bound(sz, v, m, n - 1);
        assert(kseq(sz, v)[n - 1] == sz[v[n - 1] as int]);
        assert(n * m == (n - 1) * m + m) by (nonlinear_arith);
    }
}

/// adjacency over a node set: one segment per node, entries are nodes
pub open spec fn adj_wf(a: IndexedCoproduct<FiniteFunction>) -> bool {
    a.wf() && a.values.target == a.sources.table@.len()
}

pub proof fn lemma_psum_update_zero(s: Seq<usize>, i: int, n: int)
    requires 0 <= i < s.len(), 0 <= n <= s.len()
    ensures psum(s.update(i, 0usize), n) == psum(s, n) - (if i < n { s[i] as int } else { 0int })
    decreases n
{
    if n > 0 { lemma_psum_update_zero(s, i, n - 1); }
}

/// selecting distinct segments cannot select more than everything
pub proof fn lemma_injective_selection(s: Seq<usize>, f: Seq<usize>)
    requires injective(f), forall|i: int| 0 <= i < f.len() ==> (#[trigger] f[i]) < s.len()
    ensures total(kseq(s, f)) <= total(s)
    decreases f.len()
{
    let n = f.len() as int;
    if n > 0 {
        let last = f[n - 1] as int;
        let f1 = f.drop_last();
        let s1 = s.update(last, 0usize);
        assert(injective(f1)) by {
            assert forall|i: int, j: int| 0 <= i < f1.len() && 0 <= j < f1.len() && i != j implies f1[i] != f1[j] by {
                assert(f1[i] == f[i] && f1[j] == f[j]);
            }
        }
        assert forall|i: int| 0 <= i < f1.len() implies (#[trigger] f1[i]) < s1.len() by { assert(f1[i] == f[i]); }
        lemma_injective_selection(s1, f1);
        lemma_psum_update_zero(s, last, s.len() as int);
        let k = kseq(s, f); let k1 = kseq(s1, f1);
        assert(k.len() == n && k1.len() == n - 1);
        assert forall|j: int| 0 <= j < n - 1 implies k[j] == k1[j] by {
            assert(f1[j] == f[j]); assert(f[j] != f[n - 1]);
            assert(s1[f[j] as int] == s[f[j] as int]);
        }
        lemma_psum_prefix(k, k1, n - 1);
        assert(psum(k, n) == psum(k, n - 1) + k[n - 1]);
        assert(k[n - 1] == s[last]);
        assert(total(s1) == total(s) - s[last]);
        assert(total(k1) == psum(k1, n - 1));
    } else {
        lemma_psum_mono(s, 0, s.len() as int);
    }
}

/// the counts of a table whose entries lie below `size` add up to its length
pub proof fn lemma_counts_total(tv: Seq<usize>, counts: Seq<usize>, size: int, n: int)
    requires 0 <= n <= tv.len(), tv.len() <= usize::MAX, counts.len() == size, forall|i: int| 0 <= i < tv.len() ==> (#[trigger] tv[i]) < size,
        forall|v: int| 0 <= v < size ==> counts[v] == count(tv, v, n),
    ensures total(counts) == n
    decreases n
{
    if n == 0 {
        lemma_psum_const(counts, 0usize, size);
    } else {
        let c1 = Seq::new(size as nat, |v: int| count(tv, v, n - 1) as usize);
        assert forall|v: int| 0 <= v < size implies 0 <= #[trigger] count(tv, v, n - 1) <= n - 1 by { lemma_count_bounds(tv, v, n - 1); }
        assert forall|v: int| 0 <= v < size implies c1[v] == count(tv, v, n - 1) by { lemma_count_bounds(tv, v, n - 1); assert(tv.len() <= usize::MAX ==> true); }
        lemma_counts_total(tv, c1, size, n - 1);
        let x = tv[n - 1] as int;
        lemma_psum_bump(c1, counts, x, size);
    }
}

/// b equals a except at position x where it is one larger
pub proof fn lemma_psum_bump(a: Seq<usize>, b: Seq<usize>, x: int, n: int)
    requires 0 <= x < a.len(), a.len() == b.len(), 0 <= n <= a.len(),
        forall|v: int| 0 <= v < a.len() ==> b[v] == a[v] + (if v == x { 1int } else { 0int }),
    ensures psum(b, n) == psum(a, n) + (if x < n { 1int } else { 0int })
    decreases n
{
    if n > 0 { lemma_psum_bump(a, b, x, n - 1); }
}
''')

raw(r'''
// ---------------------------------------------------------------------------------------------
// edge multiplicities of an adjacency relation (ghost model for kahn and the relative indegrees)
// ---------------------------------------------------------------------------------------------
pub proof fn lemma_count_mono(s: Seq<usize>, v: int, lo: int, hi: int)
    requires 0 <= lo <= hi <= s.len()
    ensures 0 <= count(s, v, lo) <= count(s, v, hi)
    decreases hi - lo
{
    if lo < hi { lemma_count_mono(s, v, lo, hi - 1); } else { lemma_count_bounds(s, v, lo); }
}

pub proof fn lemma_count_range_witness(s: Seq<usize>, v: int, lo: int, hi: int) -> (p: int)
    requires 0 <= lo <= hi <= s.len(), count(s, v, hi) > count(s, v, lo)
    ensures lo <= p < hi, s[p] == v
    decreases hi - lo
{
    if s[hi - 1] == v { hi - 1 } else { lemma_count_range_witness(s, v, lo, hi - 1) }
}

pub proof fn lemma_count_range_pos(s: Seq<usize>, v: int, lo: int, hi: int, p: int)
    requires 0 <= lo <= p < hi <= s.len(), s[p] == v
    ensures count(s, v, hi) > count(s, v, lo)
{
    lemma_count_mono(s, v, lo, p);
    lemma_count_mono(s, v, p + 1, hi);
    assert(count(s, v, p + 1) == count(s, v, p) + 1);
}

/// equal windows contain equally many copies of v
pub proof fn lemma_count_window(s1: Seq<usize>, lo1: int, s2: Seq<usize>, lo2: int, len: int, v: int)
    requires 0 <= lo1, 0 <= lo2, 0 <= len, lo1 + len <= s1.len(), lo2 + len <= s2.len(),
        s1.subrange(lo1, lo1 + len) == s2.subrange(lo2, lo2 + len),
    ensures count(s1, v, lo1 + len) - count(s1, v, lo1) == count(s2, v, lo2 + len) - count(s2, v, lo2)
    decreases len
{
    if len > 0 {
        let a = s1.subrange(lo1, lo1 + len); let b = s2.subrange(lo2, lo2 + len);
        assert(a[len - 1] == b[len - 1]);
        assert(s1.subrange(lo1, lo1 + len - 1) =~= a.subrange(0, len - 1));
        assert(s2.subrange(lo2, lo2 + len - 1) =~= b.subrange(0, len - 1));
        lemma_count_window(s1, lo1, s2, lo2, len - 1, v);
    }
}

/// multiplicity of the edge x -> y: the number of entries of segment x equal to y
pub open spec fn seg_count(a: IndexedCoproduct<FiniteFunction>, x: int, y: int) -> int {
    count(a.values.table@, y, psum(a.sources.table@, x + 1)) - count(a.values.table@, y, psum(a.sources.table@, x))
}

/// y is listed in segment x of the adjacency (x -> y)
pub open spec fn edge_raw(sizes: Seq<usize>, vals: Seq<usize>, x: int, y: int) -> bool {
    exists|j: int| 0 <= j < sizes[x] && #[trigger] vals[seg_at(sizes, x, j)] == y
}
pub open spec fn adj_edge(a: IndexedCoproduct<FiniteFunction>, x: int, y: int) -> bool {
    edge_raw(a.sources.table@, a.values.table@, x, y)
}

pub proof fn lemma_seg_count_edge(a: IndexedCoproduct<FiniteFunction>, x: int, y: int)
    requires adj_wf(a), 0 <= x < a.sources.table@.len()
    ensures seg_count(a, x, y) >= 0, seg_count(a, x, y) > 0 <==> adj_edge(a, x, y)
{
    let s = a.sources.table@; let vals = a.values.table@;
    lemma_psum_mono(s, 0, x); lemma_psum_mono(s, x + 1, s.len() as int);
    assert(psum(s, x + 1) == psum(s, x) + s[x]);
    lemma_count_mono(vals, y, psum(s, x), psum(s, x + 1));
    if seg_count(a, x, y) > 0 {
        let p = lemma_count_range_witness(vals, y, psum(s, x), psum(s, x + 1));
        let j = p - psum(s, x);
        assert(vals[seg_at(s, x, j)] == y);
    }
    if adj_edge(a, x, y) {
        let j = choose|j: int| 0 <= j < s[x] && #[trigger] vals[seg_at(s, x, j)] == y;
        lemma_count_range_pos(vals, y, psum(s, x), psum(s, x + 1), seg_at(s, x, j));
    }
}

/// number of adjacency entries leading from the listed nodes f[0..m] to y
pub open spec fn rel(a: IndexedCoproduct<FiniteFunction>, f: Seq<usize>, y: int, m: int) -> int
    decreases m
{
    if m <= 0 { 0 } else { rel(a, f, y, m - 1) + seg_count(a, f[m - 1] as int, y) }
}

pub proof fn lemma_rel_nonneg(a: IndexedCoproduct<FiniteFunction>, f: Seq<usize>, y: int, m: int)
    requires adj_wf(a), 0 <= m <= f.len(), in_bounds(f, a.sources.table@.len() as int)
    ensures rel(a, f, y, m) >= 0
    decreases m
{
    if m > 0 { lemma_rel_nonneg(a, f, y, m - 1); lemma_seg_count_edge(a, f[m - 1] as int, y); }
}

pub proof fn lemma_rel_witness(a: IndexedCoproduct<FiniteFunction>, f: Seq<usize>, y: int, m: int) -> (k: int)
    requires adj_wf(a), 0 <= m <= f.len(), in_bounds(f, a.sources.table@.len() as int), rel(a, f, y, m) > 0
    ensures 0 <= k < m, adj_edge(a, f[k] as int, y)
    decreases m
{
    lemma_seg_count_edge(a, f[m - 1] as int, y);
    if seg_count(a, f[m - 1] as int, y) > 0 { m - 1 } else { lemma_rel_witness(a, f, y, m - 1) }
}

pub proof fn lemma_rel_edge(a: IndexedCoproduct<FiniteFunction>, f: Seq<usize>, y: int, m: int, k: int)
    requires adj_wf(a), 0 <= k < m <= f.len(), in_bounds(f, a.sources.table@.len() as int), adj_edge(a, f[k] as int, y)
    ensures rel(a, f, y, m) > 0
    decreases m
{
    lemma_seg_count_edge(a, f[m - 1] as int, y);
    lemma_rel_nonneg(a, f, y, m - 1);
    if k < m - 1 { lemma_rel_edge(a, f, y, m - 1, k); }
}

/// the values reached from f (as laid out by `indexed_values`) contain y exactly rel(a, f, y) times
pub proof fn lemma_rel_count(a: IndexedCoproduct<FiniteFunction>, f: Seq<usize>, g: Seq<usize>, y: int, m: int)
    requires adj_wf(a), 0 <= m <= f.len(), in_bounds(f, a.sources.table@.len() as int),
        g.len() == total(kseq(a.sources.table@, f)),
        forall|i: int, j: int| 0 <= i < f.len() && 0 <= j < kseq(a.sources.table@, f)[i] ==>
            g[#[trigger] seg_at(kseq(a.sources.table@, f), i, j)] == a.values.table@[psum(a.sources.table@, f[i] as int) + j],
    ensures count(g, y, psum(kseq(a.sources.table@, f), m)) == rel(a, f, y, m),
        0 <= psum(kseq(a.sources.table@, f), m) <= g.len(),
    decreases m
{
    let s = a.sources.table@; let vals = a.values.table@; let k = kseq(s, f);
    lemma_psum_mono(k, 0, m); lemma_psum_mono(k, m, k.len() as int);
    if m > 0 {
        lemma_rel_count(a, f, g, y, m - 1);
        let x = f[m - 1] as int;
        let lo1 = psum(k, m - 1); let lo2 = psum(s, x); let len = s[x] as int;
        assert(k[m - 1] == s[x]);
        assert(psum(k, m) == lo1 + len);
        assert(psum(s, x + 1) == lo2 + len);
        lemma_psum_mono(s, 0, x); lemma_psum_mono(s, x + 1, s.len() as int);
        let w1 = g.subrange(lo1, lo1 + len); let w2 = vals.subrange(lo2, lo2 + len);
        assert forall|j: int| 0 <= j < len implies #[trigger] w1[j] == w2[j] by {
            assert(g[seg_at(k, m - 1, j)] == vals[psum(s, f[m - 1] as int) + j]);
        }
        assert(w1 =~= w2);
        lemma_count_window(g, lo1, vals, lo2, len, y);
    }
}

/// relative to all nodes 0..n, in order, the count is the plain number of occurrences
pub proof fn lemma_rel_identity(a: IndexedCoproduct<FiniteFunction>, f: Seq<usize>, y: int, m: int)
    requires adj_wf(a), 0 <= m <= f.len(), f.len() == a.sources.table@.len(), forall|i: int| 0 <= i < f.len() ==> f[i] == i
    ensures rel(a, f, y, m) == count(a.values.table@, y, psum(a.sources.table@, m))
    decreases m
{
    if m > 0 { lemma_rel_identity(a, f, y, m - 1); }
}
''')

fn(GR, 'filter', kind='free', status='P', props=['C15'],
   requires=['values@.len() == predicate@.len()', 'total(predicate@) <= usize::MAX'],
   ensures=[('C15.filter', 'r@.len() == total(predicate@) && (forall|i: int, j: int| 0 <= i < predicate@.len() && 0 <= j < predicate@[i] ==> r@[#[trigger] seg_at(predicate@, i, j)] == values@[i])')])
fn(GR, 'zero', kind='free', status='P', props=['C15'], rules={'asref': True},
   ensures=[('C15.zero', 'r@ == zeros_upto(f.table@, f.table@.len() as int)')])
fn(GR, 'dense_relative_indegree', kind='free', status='P', props=['C15', 'C17', 'C18'], rules={'asref': True},
   requires=['adj_wf(*adjacency)', 'f.wf()', 'injective(f.table@)', 'f.target == adjacency.sources.table@.len()',
             'adjacency.values.table@.len() < usize::MAX', 'adjacency.sources.table@.len() < usize::MAX', 'f.table@.len() < usize::MAX'],
   ensures=[('C15.dense-indegree', 'r.table@.len() == adjacency.sources.table@.len() && r.target == adjacency.values.table@.len() + 1'),
            ('C15.dense-indegree-wf', 'r.wf()'),
            ('C15.dense-indegree-counts', 'forall|y: int| 0 <= y < r.table@.len() ==> (#[trigger] r.table@[y]) == rel(*adjacency, f.table@, y, f.table@.len() as int)')],
   proofs=[('start', '''lemma_seg_wf_sources(adjacency.sources, adjacency.values.table@.len());
            lemma_injective_selection(adjacency.sources.table@, f.table@);'''),
           ('before:FiniteFunction::new(table, target).unwrap()', '''assert forall|v: int| 0 <= v < table@.len() implies (#[trigger] table@[v]) < target && table@[v] == rel(*adjacency, f.table@, v, f.table@.len() as int) by {
                lemma_count_bounds(reached.table@, v, reached.table@.len() as int);
                lemma_rel_count(*adjacency, f.table@, reached.table@, v, f.table@.len() as int);
            }''')])
fn(GR, 'sparse_relative_indegree', kind='free', status='P', props=['C15', 'C17', 'C18', 'C20'],
   requires=['adj_wf(*a)', 'f.wf()', 'injective(f.table@)', 'f.target == a.sources.table@.len()',
             'a.values.table@.len() < usize::MAX', 'a.sources.table@.len() < usize::MAX', 'f.table@.len() < usize::MAX'],
   ensures=[('C15.sparse-indegree', 'r.0.table@.len() == r.1.table@.len() && r.0.target == a.sources.table@.len() && r.1.target == a.values.table@.len() + 1 && injective(r.0.table@)'),
            ('C15.sparse-indegree-wf', 'r.0.wf() && r.1.wf()'),
            ('C15.sparse-indegree-counts', 'forall|k: int| 0 <= k < r.0.table@.len() ==> (#[trigger] r.1.table@[k]) == rel(*a, f.table@, r.0.table@[k] as int, f.table@.len() as int) && r.1.table@[k] > 0'),
            ('C15.sparse-indegree-sound', 'forall|k: int| 0 <= k < r.0.table@.len() ==> rel(*a, f.table@, (#[trigger] r.0.table@[k]) as int, f.table@.len() as int) > 0'),
            ('C15.sparse-indegree-complete', 'forall|y: int| 0 <= y < a.sources.table@.len() && #[trigger] rel(*a, f.table@, y, f.table@.len() as int) > 0 ==> hit(r.0.table@, y, r.0.table@.len() as int)')],
   proofs=[('start', '''lemma_seg_wf_sources(a.sources, a.values.table@.len());
            lemma_injective_selection(a.sources.table@, f.table@);'''),
           ('after:let (i, c) = g.table.sparse_bincount();', '''assert forall|y: int| #[trigger] rel(*a, f.table@, y, f.table@.len() as int) == count(g.table@, y, g.table@.len() as int) by {
                lemma_rel_count(*a, f.table@, g.table@, y, f.table@.len() as int);
            }
            assert forall|y: int| 0 <= y < a.sources.table@.len() && #[trigger] rel(*a, f.table@, y, f.table@.len() as int) > 0 implies hit(i@, y, i@.len() as int) by {
                let w = lemma_count_witness(g.table@, y, g.table@.len() as int);
                assert(hit(i@, g.table@[w] as int, i@.len() as int));
            }
            assert forall|k: int| 0 <= k < i@.len() implies rel(*a, f.table@, (#[trigger] i@[k]) as int, f.table@.len() as int) > 0 by {
                assert(c@[k] == count(g.table@, i@[k] as int, g.table@.len() as int) && c@[k] > 0);
            }
            assert forall|k: int| 0 <= k < i@.len() implies (#[trigger] i@[k]) < a.sources.table@.len() by {
                lemma_count_bounds(g.table@, i@[k] as int, g.table@.len() as int);
                assert(c@[k] == count(g.table@, i@[k] as int, g.table@.len() as int) && c@[k] > 0);
                let w = lemma_count_witness(g.table@, i@[k] as int, g.table@.len() as int);
            }
            assert forall|k: int| 0 <= k < c@.len() implies (#[trigger] c@[k]) < a.values.table@.len() + 1 by {
                lemma_count_bounds(g.table@, i@[k] as int, g.table@.len() as int);
            }''')])
fn(GR, 'indegree', kind='free', status='P', props=['C15', 'C17'],
   requires=['adj_wf(*adjacency)', 'adjacency.values.table@.len() < usize::MAX', 'adjacency.sources.table@.len() < usize::MAX'],
   ensures=[('C15.indegree', 'r.table@.len() == adjacency.sources.table@.len() && r.wf()'),
            ('C15.indegree-counts', 'forall|y: int| 0 <= y < r.table@.len() ==> (#[trigger] r.table@[y]) == count(adjacency.values.table@, y, adjacency.values.table@.len() as int)')],
   proofs=[('start', '''assert forall|f: Seq<usize>, y: int| f.len() == adjacency.sources.table@.len() && (forall|i: int| 0 <= i < f.len() ==> f[i] == i)
                implies #[trigger] rel(*adjacency, f, y, f.len() as int) == count(adjacency.values.table@, y, adjacency.values.table@.len() as int) by {
                lemma_rel_identity(*adjacency, f, y, f.len() as int);
            }''')])


raw(r'''
// ---------------------------------------------------------------------------------------------
// permutations, sorted arrays and the block structure of `converse`
// ---------------------------------------------------------------------------------------------
pub proof fn lemma_psum_pointwise_le(a: Seq<usize>, b: Seq<usize>, n: int)
    requires 0 <= n <= a.len(), n <= b.len(), forall|i: int| 0 <= i < n ==> a[i] <= b[i]
    ensures psum(a, n) <= psum(b, n)
    decreases n
{
    if n > 0 { lemma_psum_pointwise_le(a, b, n - 1); }
}

/// pointwise <= with equal sums means equal
pub proof fn lemma_psum_squeeze(a: Seq<usize>, b: Seq<usize>, n: int)
    requires 0 <= n <= a.len(), n <= b.len(), forall|i: int| 0 <= i < n ==> a[i] <= b[i], psum(a, n) == psum(b, n)
    ensures forall|i: int| 0 <= i < n ==> a[i] == b[i]
    decreases n
{
    if n > 0 {
        lemma_psum_pointwise_le(a, b, n - 1);
        lemma_psum_squeeze(a, b, n - 1);
    }
}

/// indicator of the positions holding v
pub open spec fn ind(key: Seq<usize>, v: int) -> Seq<usize> { Seq::new(key.len(), |pos: int| if key[pos] == v { 1usize } else { 0usize }) }

pub proof fn lemma_ind_total(key: Seq<usize>, v: int, n: int)
    requires 0 <= n <= key.len()
    ensures psum(ind(key, v), n) == count(key, v, n)
    decreases n
{
    if n > 0 { lemma_ind_total(key, v, n - 1); }
}

/// re-indexing by an injection cannot create occurrences
pub proof fn lemma_perm_count_le(key: Seq<usize>, p: Seq<usize>, v: int)
    requires is_perm(p, key.len() as int)
    ensures count(kseq(key, p), v, key.len() as int) <= count(key, v, key.len() as int)
{
    let n = key.len() as int;
    lemma_injective_selection(ind(key, v), p);
    assert(kseq(ind(key, v), p) =~= ind(kseq(key, p), v));
    lemma_ind_total(key, v, n);
    lemma_ind_total(kseq(key, p), v, n);
}

/// a permutation keeps the number of occurrences of every value
pub proof fn lemma_perm_count(key: Seq<usize>, p: Seq<usize>, t: int, v: int)
    requires is_perm(p, key.len() as int), in_bounds(key, t), key.len() <= usize::MAX, 0 <= v < t
    ensures count(kseq(key, p), v, key.len() as int) == count(key, v, key.len() as int)
{
    let n = key.len() as int; let k2 = kseq(key, p);
    assert forall|u: int| 0 <= u < t implies 0 <= #[trigger] count(k2, u, n) <= count(key, u, n) <= n by {
        lemma_perm_count_le(key, p, u); lemma_count_bounds(key, u, n); lemma_count_bounds(k2, u, n);
    }
    let c1 = Seq::new(t as nat, |u: int| count(k2, u, n) as usize);
    let c2 = Seq::new(t as nat, |u: int| count(key, u, n) as usize);
    assert forall|i: int| 0 <= i < k2.len() implies (#[trigger] k2[i]) < t by { assert(key[p[i] as int] < t); }
    assert forall|u: int| 0 <= u < t implies c2[u] == count(key, u, n) && c1[u] == count(k2, u, n) && c1[u] <= c2[u] by {
        lemma_perm_count_le(key, p, u); lemma_count_bounds(key, u, n); lemma_count_bounds(k2, u, n);
    }
    lemma_counts_total(k2, c1, t, n);
    lemma_counts_total(key, c2, t, n);
    lemma_psum_squeeze(c1, c2, t);
    assert(c1[v] == c2[v]);
}

pub proof fn lemma_count_identity(n: int, pos: int, m: int)
    requires 0 <= pos < n, 0 <= m <= n, n <= usize::MAX
    ensures count(Seq::new(n as nat, |i: int| i as usize), pos, m) == (if pos < m { 1int } else { 0int })
    decreases m
{
    if m > 0 { lemma_count_identity(n, pos, m - 1); }
}

/// an injection of 0..n into itself hits everything
pub proof fn lemma_perm_surjective(p: Seq<usize>, pos: int) -> (i: int)
    requires is_perm(p, p.len() as int), p.len() <= usize::MAX, 0 <= pos < p.len()
    ensures 0 <= i < p.len(), p[i] == pos
{
    let n = p.len() as int;
    let id = Seq::new(n as nat, |i: int| i as usize);
    lemma_perm_count(id, p, n, pos);
    lemma_count_identity(n, pos, n);
    assert(kseq(id, p) =~= p);
    lemma_count_witness(p, pos, n)
}

/// number of positions i < n with k[i] < q
pub open spec fn count_lt(k: Seq<usize>, q: int, n: int) -> int
    decreases n
{
    if n <= 0 { 0 } else { count_lt(k, q, n - 1) + (if k[n - 1] < q { 1int } else { 0int }) }
}

/// ... is the sum of the counts of the values below q
pub proof fn lemma_count_lt_sum(k: Seq<usize>, c: Seq<usize>, q: int, n: int)
    requires 0 <= n <= k.len(), k.len() <= usize::MAX, 0 <= q <= c.len(), in_bounds(k, c.len() as int),
        forall|v: int| 0 <= v < c.len() ==> c[v] == count(k, v, n),
    ensures count_lt(k, q, n) == psum(c, q)
    decreases n
{
    if n == 0 {
        lemma_psum_const(c, 0usize, q);
    } else {
        let t = c.len() as int;
        let c1 = Seq::new(t as nat, |v: int| count(k, v, n - 1) as usize);
        assert forall|v: int| 0 <= v < t implies c1[v] == count(k, v, n - 1) by { lemma_count_bounds(k, v, n - 1); }
        lemma_count_lt_sum(k, c1, q, n - 1);
        lemma_psum_bump(c1, c, k[n - 1] as int, q);
    }
}

/// in a sorted array the positions holding values below q form a prefix
pub proof fn lemma_sorted_prefix(k: Seq<usize>, q: int, n: int)
    requires 0 <= n <= k.len(), forall|i: int, j: int| 0 <= i < j < k.len() ==> k[i] <= k[j]
    ensures 0 <= count_lt(k, q, n) <= n, forall|i: int| 0 <= i < n ==> ((#[trigger] k[i]) < q <==> i < count_lt(k, q, n))
    decreases n
{
    if n > 0 {
        lemma_sorted_prefix(k, q, n - 1);
        if k[n - 1] < q {
            if n - 1 > 0 { assert(k[n - 2] <= k[n - 1]); }
        }
    }
}

/// segment index of flat position m (searching the first n segments)
pub open spec fn seg_of(s: Seq<usize>, m: int, n: int) -> int
    decreases n
{
    if n <= 0 { 0 } else if psum(s, n - 1) <= m { n - 1 } else { seg_of(s, m, n - 1) }
}

pub proof fn lemma_seg_of(s: Seq<usize>, n: int, a: int, b: int)
    requires 0 <= a < n <= s.len(), 0 <= b < s[a]
    ensures seg_of(s, seg_at(s, a, b), n) == a
    decreases n
{
    if a < n - 1 {
        lemma_psum_mono(s, a + 1, n - 1);
        lemma_seg_of(s, n - 1, a, b);
    }
}

/// the array "segment index of every position" (what `sizes.repeat(arange)` builds)
pub open spec fn seg_index_seq(s: Seq<usize>) -> Seq<usize> {
    Seq::new(total(s) as nat, |m: int| seg_of(s, m, s.len() as int) as usize)
}

/// the postcondition of `converse` as one predicate
pub open spec fn is_converse_of(out: IndexedCoproduct<FiniteFunction>, r: IndexedCoproduct<FiniteFunction>) -> bool {
    &&& out.wf()
    &&& out.sources.table@.len() == r.values.target && out.values.target == r.sources.table@.len() && out.values.table@.len() == r.values.table@.len()
    &&& forall|q: int, x: int| #![trigger adj_edge(out, q, x)] #![trigger adj_edge(r, x, q)] 0 <= q < r.values.target && 0 <= x < r.sources.table@.len() ==> (adj_edge(out, q, x) <==> adj_edge(r, x, q))
    &&& exists|p: Seq<usize>| #[trigger] is_perm(p, r.values.table@.len() as int)
            && (forall|i: int| 0 <= i < r.values.table@.len() ==> out.values.table@[i] == seg_index_seq(r.sources.table@)[p[i] as int])
}

/// `converse`: q is listed under x in r  <==>  x is listed under q in the converse
pub proof fn lemma_converse_edges(r: IndexedCoproduct<FiniteFunction>, out: IndexedCoproduct<FiniteFunction>, p: Seq<usize>)
    requires r.wf(), out.wf(), r.values.table@.len() <= usize::MAX, r.sources.table@.len() <= usize::MAX,
        out.sources.table@.len() == r.values.target, out.values.table@.len() == r.values.table@.len(),
        forall|v: int| 0 <= v < r.values.target ==> out.sources.table@[v] == count(r.values.table@, v, r.values.table@.len() as int),
        sorts(p, r.values.table@),
        forall|i: int| 0 <= i < r.values.table@.len() ==> out.values.table@[i] == seg_index_seq(r.sources.table@)[p[i] as int],
    ensures forall|q: int, x: int| 0 <= q < r.values.target && 0 <= x < r.sources.table@.len() ==> (#[trigger] adj_edge(out, q, x) <==> adj_edge(r, x, q))
{
    let sizes = r.sources.table@; let key = r.values.table@; let len = key.len() as int; let t = r.values.target as int;
    let c = out.sources.table@; let k2 = kseq(key, p); let u = seg_index_seq(sizes);
    assert(total(sizes) == len);
    assert forall|i: int| 0 <= i < len implies (#[trigger] k2[i]) < t by { assert(key[p[i] as int] < t); }
    assert forall|v: int| 0 <= v < t implies c[v] == count(k2, v, len) by { lemma_perm_count(key, p, t, v); }
    assert forall|i: int, j: int| 0 <= i < j < k2.len() implies k2[i] <= k2[j] by {}
    // position i of the sorted array lies in block q exactly when its key is q
    assert forall|q: int, i: int| 0 <= q < t && 0 <= i < len implies ((#[trigger] k2[i]) == q <==> #[trigger] psum(c, q) <= i < psum(c, q + 1)) by {
        lemma_count_lt_sum(k2, c, q, len); lemma_count_lt_sum(k2, c, q + 1, len);
        lemma_sorted_prefix(k2, q, len); lemma_sorted_prefix(k2, q + 1, len);
    }
    assert forall|q: int, x: int| 0 <= q < t && 0 <= x < sizes.len() implies (#[trigger] adj_edge(out, q, x) <==> adj_edge(r, x, q)) by {
        lemma_psum_mono(c, 0, q); lemma_psum_mono(c, q + 1, t);
        assert(psum(c, q + 1) == psum(c, q) + c[q]);
        assert(total(c) == len);
        if adj_edge(out, q, x) {
            let j = choose|j: int| 0 <= j < c[q] && #[trigger] out.values.table@[seg_at(c, q, j)] == x;
            let i = seg_at(c, q, j);
            assert(k2[i] == q);
            let pos = p[i] as int;
            assert(u[pos] == x);
            let (a, b) = lemma_seg_find(sizes, pos);
            lemma_seg_of(sizes, sizes.len() as int, a, b);
            assert(key[seg_at(sizes, x, b)] == q);
        }
        if adj_edge(r, x, q) {
            let b = choose|b: int| 0 <= b < sizes[x] && #[trigger] key[seg_at(sizes, x, b)] == q;
            let pos = seg_at(sizes, x, b);
            lemma_seg_range(sizes, x, b);
            lemma_seg_of(sizes, sizes.len() as int, x, b);
            let i = lemma_perm_surjective(p, pos);
            assert(k2[i] == q);
            let j = i - psum(c, q);
            assert(out.values.table@[seg_at(c, q, j)] == x);
        }
    }
}
''')

fn(GR, 'converse', kind='free', status='P', props=['C15', 'C16', 'C17', 'C18'], rules={'asref': True},
   requires=['r.wf()', 'r.values.table@.len() < usize::MAX', 'r.sources.table@.len() < usize::MAX', 'r.values.target < usize::MAX'],
   ensures=[('C15.converse-shape', '''out.sources.table@.len() == r.values.target && out.values.target == r.sources.table@.len()
                && out.values.table@.len() == r.values.table@.len()
                && (forall|v: int| 0 <= v < r.values.target ==> out.sources.table@[v] == count(r.values.table@, v, r.values.table@.len() as int))'''),
            ('C15.converse-wf', 'out.wf()'),
            ('C15.converse-perm', '''exists|p: Seq<usize>| #[trigger] is_perm(p, r.values.table@.len() as int)
                && (forall|i: int| 0 <= i < r.values.table@.len() ==> out.values.table@[i] == seg_index_seq(r.sources.table@)[p[i] as int])'''),
            ('C15.converse', 'is_converse_of(out, *r)'),
            ('C15.converse-edges', 'forall|q: int, x: int| #![trigger adj_edge(out, q, x)] #![trigger adj_edge(*r, x, q)] 0 <= q < r.values.target && 0 <= x < r.sources.table@.len() ==> (adj_edge(out, q, x) <==> adj_edge(*r, x, q))')],
   ret='out',
   proofs=[('start', 'assert(lawful_clone::<usize>()); lemma_seg_wf_sources(r.sources, r.values.table@.len());'),
           # inside the block that builds values_table: every entry of the repeated segment indices is a segment index
           ('before:unsorted_values.sort_by(&r.values.table)', '''assert forall|m: int| 0 <= m < unsorted_values@.len() implies (#[trigger] unsorted_values@[m]) < r.sources.table@.len() by {
                let (a, b) = lemma_seg_find(r.sources.table@, m);
                assert(unsorted_values@[seg_at(r.sources.table@, a, b)] == arange@[a]);
            }
            assert(unsorted_values@ =~= seg_index_seq(r.sources.table@)) by {
                assert forall|m: int| 0 <= m < unsorted_values@.len() implies unsorted_values@[m] == seg_index_seq(r.sources.table@)[m] by {
                    let (a, b) = lemma_seg_find(r.sources.table@, m);
                    assert(unsorted_values@[seg_at(r.sources.table@, a, b)] == arange@[a]);
                    lemma_seg_of(r.sources.table@, r.sources.table@.len() as int, a, b);
                }
            }'''),
           ('before:let sources = FiniteFunction::new(sources_table', '''assert forall|v: int| 0 <= v < sources_table@.len() implies (#[trigger] sources_table@[v]) < r.values.table@.len() + 1 by {
                lemma_count_bounds(r.values.table@, v, r.values.table@.len() as int);
            }'''),
           ('before:IndexedCoproduct::new(sources, values).unwrap()', '''lemma_counts_total(r.values.table@, sources.table@, r.values.target as int, r.values.table@.len() as int);
            let key = r.values.table@; let u = seg_index_seq(r.sources.table@);
            let p = choose|p: Seq<usize>| sorts(p, key) && (forall|i: int| 0 <= i < key.len() ==> values.table@[i] == u[p[i] as int]);
            let o = IndexedCoproduct::<FiniteFunction> { sources: sources, values: values };
            lemma_converse_edges(*r, o, p);''')])
raw(r'''
/// operation y depends on operation x: some target node of x is a source node of y
pub open spec fn depends(t: IndexedCoproduct<FiniteFunction>, s: IndexedCoproduct<FiniteFunction>, x: int, y: int) -> bool {
    exists|w: int| 0 <= w < t.values.target && #[trigger] adj_edge(t, x, w) && adj_edge(s, y, w)
}

/// node v is one step after node w: some hyperedge has w among its sources and v among its targets
pub open spec fn node_step(s: IndexedCoproduct<FiniteFunction>, t: IndexedCoproduct<FiniteFunction>, w: int, v: int) -> bool {
    exists|e: int| 0 <= e < s.sources.table@.len() && #[trigger] adj_edge(s, e, w) && adj_edge(t, e, v)
}

/// x -> w in a and w -> y in b, for some w
pub open spec fn two_step(a: IndexedCoproduct<FiniteFunction>, b: IndexedCoproduct<FiniteFunction>, x: int, y: int) -> bool {
    exists|w: int| 0 <= w < b.sources.table@.len() && #[trigger] adj_edge(a, x, w) && adj_edge(b, w, y)
}

pub proof fn lemma_flatmap_offsets(s: Seq<usize>, k: Seq<usize>, rs: Seq<usize>, i: int)
    requires 0 <= i <= s.len(), rs.len() == s.len(), total(s) == k.len(),
        forall|x: int| 0 <= x < s.len() ==> rs[x] == psum(k, psum(s, x + 1)) - psum(k, psum(s, x)),
    ensures psum(rs, i) == psum(k, psum(s, i)), 0 <= psum(s, i) <= k.len()
    decreases i
{
    lemma_psum_mono(s, 0, i); lemma_psum_mono(s, i, s.len() as int);
    if i > 0 { lemma_flatmap_offsets(s, k, rs, i - 1); }
}

/// `flatmap` composes the two relations
pub proof fn lemma_flatmap_edges(a: IndexedCoproduct<FiniteFunction>, b: IndexedCoproduct<FiniteFunction>, rs: Seq<usize>, rv: Seq<usize>)
    requires a.wf(), b.wf(), a.values.target == b.sources.table@.len(),
        rs.len() == a.sources.table@.len(),
        forall|i: int| 0 <= i < a.sources.table@.len() ==> rs[i] ==
            psum(kseq(b.sources.table@, a.values.table@), psum(a.sources.table@, i + 1)) - psum(kseq(b.sources.table@, a.values.table@), psum(a.sources.table@, i)),
        rv.len() == total(kseq(b.sources.table@, a.values.table@)),
        forall|p: int, j: int| 0 <= p < a.values.table@.len() && 0 <= j < kseq(b.sources.table@, a.values.table@)[p] ==>
            rv[#[trigger] seg_at(kseq(b.sources.table@, a.values.table@), p, j)] == b.values.table@[psum(b.sources.table@, a.values.table@[p] as int) + j],
    ensures forall|x: int, y: int| 0 <= x < a.sources.table@.len() ==> (#[trigger] edge_raw(rs, rv, x, y) <==> two_step(a, b, x, y))
{
    let s = a.sources.table@; let av = a.values.table@; let bs = b.sources.table@; let bv = b.values.table@;
    let k = kseq(bs, av);
    assert(total(s) == av.len());
    assert forall|x: int, y: int| 0 <= x < s.len() implies (#[trigger] edge_raw(rs, rv, x, y) <==> two_step(a, b, x, y)) by {
        lemma_flatmap_offsets(s, k, rs, x); lemma_flatmap_offsets(s, k, rs, x + 1);
        let lo = psum(s, x); let hi = psum(s, x + 1);
        assert(hi == lo + s[x]);
        lemma_psum_mono(k, lo, hi); lemma_psum_mono(k, hi, k.len() as int); lemma_psum_mono(k, 0, lo);
        if edge_raw(rs, rv, x, y) {
            let j1 = choose|j1: int| 0 <= j1 < rs[x] && #[trigger] rv[seg_at(rs, x, j1)] == y;
            let m = seg_at(rs, x, j1);
            let (p, j) = lemma_seg_find(k, m);
            if p < lo { lemma_psum_mono(k, p + 1, lo); }
            if p >= hi { lemma_psum_mono(k, hi, p); }
            assert(lo <= p < hi);
            let w = av[p] as int;
            assert(av[seg_at(s, x, p - lo)] == w);
            assert(adj_edge(a, x, w));
            assert(rv[seg_at(k, p, j)] == bv[psum(bs, av[p] as int) + j]);
            assert(bv[seg_at(bs, w, j)] == y);
            assert(adj_edge(b, w, y));
        }
        if two_step(a, b, x, y) {
            let w = choose|w: int| 0 <= w < bs.len() && #[trigger] adj_edge(a, x, w) && adj_edge(b, w, y);
            let i1 = choose|i1: int| 0 <= i1 < s[x] && #[trigger] av[seg_at(s, x, i1)] == w;
            let j = choose|j: int| 0 <= j < bs[w] && #[trigger] bv[seg_at(bs, w, j)] == y;
            let p = seg_at(s, x, i1);
            assert(k[p] == bs[w]);
            let m = seg_at(k, p, j);
            assert(rv[m] == bv[psum(bs, av[p] as int) + j]);
            lemma_psum_mono(k, lo, p); lemma_psum_mono(k, p + 1, hi);
            assert(psum(k, p + 1) == psum(k, p) + k[p]);
            let j1 = m - psum(rs, x);
            assert(rv[seg_at(rs, x, j1)] == y);
        }
    }
}
''')

fn(GR, 'operation_adjacency', kind='free', status='P', props=['C15', 'C16'], where_add='O: Clone, A: Clone',
   requires=['h.wf()', 'adjacency_fits(h.t, h.s)'],
   ensures=[('C15.operation_adjacency-wf', 'adj_wf(r) && r.sources.table@.len() == h.x@.len()'),
            ('C15.operation_adjacency-edges', 'forall|x: int, y: int| 0 <= x < h.x@.len() && 0 <= y < h.x@.len() ==> (#[trigger] adj_edge(r, x, y) <==> depends(h.t, h.s, x, y))')],
   proofs=[('start', '''let ls = h.s.values.table@.len() as int; let lt = h.t.values.table@.len() as int;
            assert forall|v: int| #[trigger] count(h.s.values.table@, v, ls) <= ls by { lemma_count_bounds(h.s.values.table@, v, ls); }
            assert forall|sz: Seq<usize>, v: Seq<usize>| (forall|i: int| 0 <= i < v.len() ==> (#[trigger] v[i]) < sz.len()) && (forall|i: int| 0 <= i < sz.len() ==> (#[trigger] sz[i]) <= ls)
                implies #[trigger] total(kseq(sz, v)) <= v.len() * ls by { lemma_kseq_bound(sz, v, ls, v.len() as int); }
            assert(lt * ls == ls * lt) by (nonlinear_arith);''')])
fn(GR, 'node_adjacency', kind='free', status='P', props=['C17', 'C18'], where_add='O: Clone, A: Clone',
   requires=['h.wf()', 'adjacency_fits(h.s, h.t)', 'h.s.sources.table@.len() == h.t.sources.table@.len()'],
   ensures=[('C17.node_adjacency-wf', 'adj_wf(r) && r.sources.table@.len() == h.w@.len()'),
            ('C17.node_adjacency-edges', 'forall|w: int, v: int| 0 <= w < h.w@.len() && 0 <= v < h.w@.len() ==> (#[trigger] adj_edge(r, w, v) <==> node_step(h.s, h.t, w, v))')])
fn(GR, 'node_adjacency_from_incidence', kind='free', status='P', props=['C17', 'C18'],
   requires=['s.wf()', 't.wf()', 's.sources.table@.len() == t.sources.table@.len()', 's.values.target == t.values.target', 'adjacency_fits(*s, *t)'],
   ensures=[('C17.node_adjacency_from_incidence-wf', 'adj_wf(r) && r.sources.table@.len() == s.values.target'),
            ('C17.node_adjacency_from_incidence-edges', 'forall|w: int, v: int| 0 <= w < s.values.target && 0 <= v < s.values.target ==> (#[trigger] adj_edge(r, w, v) <==> node_step(*s, *t, w, v))')],
   proofs=[('start', '''let ls = s.values.table@.len() as int; let lt = t.values.table@.len() as int;
            lemma_seg_wf_sources(t.sources, t.values.table@.len());
            assert forall|sz: Seq<usize>, v: Seq<usize>| (forall|i: int| 0 <= i < v.len() ==> (#[trigger] v[i]) < sz.len()) && (forall|i: int| 0 <= i < sz.len() ==> (#[trigger] sz[i]) <= lt)
                implies #[trigger] total(kseq(sz, v)) <= v.len() * lt by { lemma_kseq_bound(sz, v, lt, v.len() as int); }''')])

raw(r'''

/// the layering contract of `kahn` in local form (no paths needed):
/// (1) a visited node has all predecessors visited with strictly smaller order,
/// (2) a visited node has order 0 or a predecessor of order exactly one less,
/// (3) an unvisited node has an unvisited predecessor.
/// (1)+(2): order = length of the longest chain below; (1)+(3): unvisited = on or downstream of a cycle.
pub open spec fn kahn_ok(a: IndexedCoproduct<FiniteFunction>, order: Seq<usize>, unvisited: Seq<usize>) -> bool {
    let n = a.sources.table@.len() as int;
    &&& order.len() == n && unvisited.len() == n
    &&& forall|y: int| 0 <= y < n ==> (#[trigger] unvisited[y]) <= 1
    &&& forall|y: int| 0 <= y < n ==> (#[trigger] order[y]) < n
    &&& forall|x: int, y: int| 0 <= x < n && 0 <= y < n && unvisited[y] == 0 && #[trigger] adj_edge(a, x, y) ==> unvisited[x] == 0 && order[x] < order[y]
    &&& forall|y: int| 0 <= y < n && unvisited[y] == 0 && order[y] > 0 ==> #[trigger] has_pred_at(a, order, unvisited, y, order[y] as int)
    &&& forall|y: int| 0 <= y < n && unvisited[y] == 1 ==> #[trigger] has_unvisited_pred(a, unvisited, y)
}

/// y has an unvisited predecessor
pub open spec fn has_unvisited_pred(a: IndexedCoproduct<FiniteFunction>, unv: Seq<usize>, y: int) -> bool {
    exists|x: int| 0 <= x < a.sources.table@.len() && #[trigger] adj_edge(a, x, y) && unv[x] == 1
}

pub proof fn lemma_psum_le(s: Seq<usize>, m: int, n: int)
    requires 0 <= n <= s.len(), m >= 0, forall|i: int| 0 <= i < s.len() ==> (#[trigger] s[i]) <= m
    ensures 0 <= psum(s, n) <= n * m
    decreases n
{
    if n > 0 {
        lemma_psum_le(s, m, n - 1);
        assert(n * m == (n - 1) * m + m) by (nonlinear_arith);
    }
}
''')

raw(r'''
// ---------------------------------------------------------------------------------------------
// ghost model of the level-synchronous Kahn loop
// ---------------------------------------------------------------------------------------------
/// number of adjacency entries x -> y whose source x is still marked (w[x] != 0), over x < n
pub open spec fn indeg_w(a: IndexedCoproduct<FiniteFunction>, w: Seq<usize>, y: int, n: int) -> int
    decreases n
{
    if n <= 0 { 0 } else { indeg_w(a, w, y, n - 1) + (if w[n - 1] != 0 { seg_count(a, n - 1, y) } else { 0int }) }
}

pub proof fn lemma_indeg_nonneg(a: IndexedCoproduct<FiniteFunction>, w: Seq<usize>, y: int, n: int)
    requires adj_wf(a), 0 <= n <= a.sources.table@.len()
    ensures indeg_w(a, w, y, n) >= 0
    decreases n
{
    if n > 0 { lemma_indeg_nonneg(a, w, y, n - 1); lemma_seg_count_edge(a, n - 1, y); }
}

pub proof fn lemma_indeg_all(a: IndexedCoproduct<FiniteFunction>, w: Seq<usize>, y: int, n: int)
    requires adj_wf(a), 0 <= n <= a.sources.table@.len(), forall|x: int| 0 <= x < n ==> w[x] != 0
    ensures indeg_w(a, w, y, n) == count(a.values.table@, y, psum(a.sources.table@, n))
    decreases n
{
    if n > 0 { lemma_indeg_all(a, w, y, n - 1); }
}

pub proof fn lemma_indeg_witness(a: IndexedCoproduct<FiniteFunction>, w: Seq<usize>, y: int, n: int) -> (x: int)
    requires adj_wf(a), 0 <= n <= a.sources.table@.len(), indeg_w(a, w, y, n) > 0
    ensures 0 <= x < n, w[x] != 0, adj_edge(a, x, y)
    decreases n
{
    lemma_seg_count_edge(a, n - 1, y);
    if w[n - 1] != 0 && seg_count(a, n - 1, y) > 0 { n - 1 } else { lemma_indeg_witness(a, w, y, n - 1) }
}

pub proof fn lemma_indeg_term(a: IndexedCoproduct<FiniteFunction>, w: Seq<usize>, y: int, n: int, x: int)
    requires adj_wf(a), 0 <= x < n <= a.sources.table@.len(), w[x] != 0
    ensures indeg_w(a, w, y, n) >= seg_count(a, x, y)
    decreases n
{
    lemma_seg_count_edge(a, n - 1, y);
    if x < n - 1 { lemma_indeg_term(a, w, y, n - 1, x); } else { lemma_indeg_nonneg(a, w, y, n - 1); }
}

pub proof fn lemma_indeg_update(a: IndexedCoproduct<FiniteFunction>, w: Seq<usize>, x0: int, y: int, n: int)
    requires adj_wf(a), 0 <= n <= a.sources.table@.len(), 0 <= x0 < w.len(), w[x0] != 0
    ensures indeg_w(a, w.update(x0, 0usize), y, n) == indeg_w(a, w, y, n) - (if x0 < n { seg_count(a, x0, y) } else { 0int })
    decreases n
{
    if n > 0 { lemma_indeg_update(a, w, x0, y, n - 1); }
}

/// w with the cells f[0..m] set to zero
pub open spec fn zeroed(w: Seq<usize>, f: Seq<usize>, m: int) -> Seq<usize>
    decreases m
{
    if m <= 0 { w } else { zeroed(w, f, m - 1).update(f[m - 1] as int, 0usize) }
}

pub proof fn lemma_zeroed_at(w: Seq<usize>, f: Seq<usize>, m: int)
    requires 0 <= m <= f.len(), in_bounds(f, w.len() as int)
    ensures zeroed(w, f, m).len() == w.len(),
        forall|j: int| 0 <= j < w.len() ==> #[trigger] zeroed(w, f, m)[j] == (if last_write(f, j, m) >= 0 { 0usize } else { w[j] })
    decreases m
{
    if m > 0 { lemma_zeroed_at(w, f, m - 1); }
}

pub proof fn lemma_fresh_cell(w: Seq<usize>, f: Seq<usize>, m: int)
    requires 0 < m <= f.len(), in_bounds(f, w.len() as int), injective(f)
    ensures zeroed(w, f, m - 1)[f[m - 1] as int] == w[f[m - 1] as int], zeroed(w, f, m - 1).len() == w.len()
{
    lemma_zeroed_at(w, f, m - 1);
    lemma_last_write(f, f[m - 1] as int, m - 1);
}

pub proof fn lemma_indeg_zeroed(a: IndexedCoproduct<FiniteFunction>, w: Seq<usize>, f: Seq<usize>, y: int, m: int)
    requires adj_wf(a), w.len() == a.sources.table@.len(), in_bounds(f, w.len() as int), injective(f),
        forall|k: int| 0 <= k < f.len() ==> w[#[trigger] f[k] as int] != 0, 0 <= m <= f.len(),
    ensures indeg_w(a, zeroed(w, f, m), y, w.len() as int) == indeg_w(a, w, y, w.len() as int) - rel(a, f, y, m)
    decreases m
{
    if m > 0 {
        lemma_indeg_zeroed(a, w, f, y, m - 1);
        lemma_fresh_cell(w, f, m);
        assert(w[f[m - 1] as int] != 0);
        lemma_indeg_update(a, zeroed(w, f, m - 1), f[m - 1] as int, y, w.len() as int);
    }
}

pub proof fn lemma_total_zeroed(w: Seq<usize>, f: Seq<usize>, m: int)
    requires in_bounds(f, w.len() as int), injective(f), forall|k: int| 0 <= k < f.len() ==> w[#[trigger] f[k] as int] == 1, 0 <= m <= f.len(),
    ensures total(zeroed(w, f, m)) == total(w) - m, total(zeroed(w, f, m)) >= 0
    decreases m
{
    if m > 0 {
        lemma_total_zeroed(w, f, m - 1);
        lemma_fresh_cell(w, f, m);
        assert(w[f[m - 1] as int] == 1);
        lemma_psum_update_zero(zeroed(w, f, m - 1), f[m - 1] as int, w.len() as int);
    }
    lemma_zeroed_at(w, f, m);
    lemma_psum_mono(zeroed(w, f, m), 0, w.len() as int);
}

pub proof fn lemma_sub_total_miss(ixs: Seq<usize>, rhs: Seq<usize>, j: int, n: int)
    requires 0 <= n <= ixs.len(), forall|k: int| 0 <= k < n ==> ixs[k] != j
    ensures sub_total(ixs, rhs, j, n) == 0
    decreases n
{
    if n > 0 { lemma_sub_total_miss(ixs, rhs, j, n - 1); }
}

pub proof fn lemma_sub_total_hit(ixs: Seq<usize>, rhs: Seq<usize>, j: int, n: int, k: int)
    requires 0 <= k < n <= ixs.len(), injective(ixs), ixs[k] == j
    ensures sub_total(ixs, rhs, j, n) == rhs[k]
    decreases n
{
    if k == n - 1 { lemma_sub_total_miss(ixs, rhs, j, n - 1); } else { lemma_sub_total_hit(ixs, rhs, j, n - 1, k); }
}

pub proof fn lemma_zeros_props(s: Seq<usize>, n: int)
    requires 0 <= n <= s.len(), n <= usize::MAX
    ensures zeros_upto(s, n).len() <= n,
        forall|t: int| 0 <= t < zeros_upto(s, n).len() ==> (#[trigger] zeros_upto(s, n)[t]) < n && s[zeros_upto(s, n)[t] as int] == 0,
        forall|t1: int, t2: int| 0 <= t1 < t2 < zeros_upto(s, n).len() ==> zeros_upto(s, n)[t1] < zeros_upto(s, n)[t2],
        forall|i: int| 0 <= i < n && s[i] == 0 ==> hit(zeros_upto(s, n), i, zeros_upto(s, n).len() as int),
    decreases n
{
    if n > 0 {
        lemma_zeros_props(s, n - 1);
        let z0 = zeros_upto(s, n - 1); let z = zeros_upto(s, n);
        if s[n - 1] == 0 {
            assert(z == z0.push((n - 1) as usize));
            assert forall|i: int| 0 <= i < n && s[i] == 0 implies hit(z, i, z.len() as int) by {
                if i == n - 1 { assert(z[z0.len() as int] == i); }
                else {
                    let t = choose|t: int| 0 <= t < z0.len() && #[trigger] z0[t] == i;
                    assert(z[t] == i);
                }
            }
        } else {
            assert(z == z0);
        }
    }
}

/// y has a visited predecessor in layer d - 1
pub open spec fn has_pred_at(a: IndexedCoproduct<FiniteFunction>, order: Seq<usize>, unv: Seq<usize>, y: int, d: int) -> bool {
    exists|x: int| 0 <= x < a.sources.table@.len() && #[trigger] adj_edge(a, x, y) && unv[x] == 0 && order[x] + 1 == d
}

/// the loop invariant of `kahn` (fr = current frontier, depth = its layer number)
pub open spec fn kahn_inv(a: IndexedCoproduct<FiniteFunction>, order: Seq<usize>, unv: Seq<usize>, ind: Seq<usize>, fr: Seq<usize>, depth: int) -> bool {
    let n = a.sources.table@.len() as int;
    &&& order.len() == n && unv.len() == n && ind.len() == n
    &&& forall|y: int| 0 <= y < n ==> (#[trigger] unv[y]) <= 1
    &&& forall|y: int| 0 <= y < n ==> (#[trigger] order[y]) < n
    &&& forall|y: int| 0 <= y < n ==> (#[trigger] ind[y]) == indeg_w(a, unv, y, n)
    &&& in_bounds(fr, n) && injective(fr)
    &&& forall|k: int| 0 <= k < fr.len() ==> unv[#[trigger] fr[k] as int] == 1 && ind[fr[k] as int] == 0
    &&& forall|y: int| 0 <= y < n && (#[trigger] unv[y]) == 1 && ind[y] == 0 ==> hit(fr, y, fr.len() as int)
    &&& 0 <= depth && depth + total(unv) <= n
    &&& forall|y: int| 0 <= y < n && (#[trigger] unv[y]) == 0 ==> order[y] < depth
    &&& forall|x: int, y: int| 0 <= x < n && 0 <= y < n && unv[y] == 0 && #[trigger] adj_edge(a, x, y) ==> unv[x] == 0 && order[x] < order[y]
    &&& forall|y: int| 0 <= y < n && unv[y] == 0 && order[y] > 0 ==> #[trigger] has_pred_at(a, order, unv, y, order[y] as int)
    &&& depth > 0 ==> forall|k: int| 0 <= k < fr.len() ==> has_pred_at(a, order, unv, (#[trigger] fr[k]) as int, depth)
}

pub proof fn lemma_kahn_init(a: IndexedCoproduct<FiniteFunction>, order: Seq<usize>, unv: Seq<usize>, ind: Seq<usize>, fr: Seq<usize>)
    requires adj_wf(a), a.sources.table@.len() <= usize::MAX,
        order.len() == a.sources.table@.len(), unv.len() == a.sources.table@.len(), ind.len() == a.sources.table@.len(),
        forall|y: int| 0 <= y < order.len() ==> order[y] == 0,
        forall|y: int| 0 <= y < unv.len() ==> unv[y] == 1,
        forall|y: int| 0 <= y < ind.len() ==> ind[y] == count(a.values.table@, y, a.values.table@.len() as int),
        fr == zeros_upto(ind, ind.len() as int),
    ensures kahn_inv(a, order, unv, ind, fr, 0)
{
    let n = a.sources.table@.len() as int;
    lemma_zeros_props(ind, n);
    assert forall|y: int| 0 <= y < n implies (#[trigger] ind[y]) == indeg_w(a, unv, y, n) by { lemma_indeg_all(a, unv, y, n); }
    lemma_psum_const(unv, 1usize, n);
    assert(injective(fr));
    assert(in_bounds(fr, n));
}

/// the frontier is small: it consists of distinct unvisited nodes
pub proof fn lemma_kahn_frontier_small(a: IndexedCoproduct<FiniteFunction>, order: Seq<usize>, unv: Seq<usize>, ind: Seq<usize>, fr: Seq<usize>, depth: int)
    requires adj_wf(a), kahn_inv(a, order, unv, ind, fr, depth)
    ensures fr.len() <= total(unv), depth + fr.len() <= a.sources.table@.len()
{
    lemma_total_zeroed(unv, fr, fr.len() as int);
}

/// what `scatter_sub_assign(reachable_ix, reachable_count)` subtracts from cell j
pub proof fn lemma_kahn_sub_at(a: IndexedCoproduct<FiniteFunction>, unv: Seq<usize>, ind: Seq<usize>, fr: Seq<usize>, rix: Seq<usize>, rcnt: Seq<usize>, j: int)
    requires adj_wf(a), unv.len() == a.sources.table@.len(), ind.len() == unv.len(), 0 <= j < unv.len(),
        in_bounds(fr, unv.len() as int), injective(fr), forall|k: int| 0 <= k < fr.len() ==> unv[#[trigger] fr[k] as int] == 1,
        ind[j] == indeg_w(a, unv, j, unv.len() as int),
        rix.len() == rcnt.len(), injective(rix),
        forall|k: int| 0 <= k < rix.len() ==> (#[trigger] rcnt[k]) == rel(a, fr, rix[k] as int, fr.len() as int),
        rel(a, fr, j, fr.len() as int) > 0 ==> hit(rix, j, rix.len() as int),
    ensures sub_total(rix, rcnt, j, rix.len() as int) == rel(a, fr, j, fr.len() as int), ind[j] >= rel(a, fr, j, fr.len() as int),
{
    let n = unv.len() as int; let m = fr.len() as int;
    lemma_indeg_zeroed(a, unv, fr, j, m);
    lemma_zeroed_at(unv, fr, m);
    lemma_indeg_nonneg(a, zeroed(unv, fr, m), j, n);
    lemma_rel_nonneg(a, fr, j, m);
    if hit(rix, j, rix.len() as int) {
        let k = choose|k: int| 0 <= k < rix.len() && #[trigger] rix[k] == j;
        lemma_sub_total_hit(rix, rcnt, j, rix.len() as int, k);
        assert(rcnt[k] == rel(a, fr, rix[k] as int, m));
    } else {
        assert forall|k: int| 0 <= k < rix.len() implies rix[k] != j by {
            if rix[k] == j { assert(hit(rix, j, rix.len() as int)); }
        }
        lemma_sub_total_miss(rix, rcnt, j, rix.len() as int);
    }
}

pub proof fn lemma_kahn_sub(a: IndexedCoproduct<FiniteFunction>, unv: Seq<usize>, ind: Seq<usize>, fr: Seq<usize>, rix: Seq<usize>, rcnt: Seq<usize>)
    requires adj_wf(a), unv.len() == a.sources.table@.len(), ind.len() == unv.len(),
        in_bounds(fr, unv.len() as int), injective(fr), forall|k: int| 0 <= k < fr.len() ==> unv[#[trigger] fr[k] as int] == 1,
        forall|y: int| 0 <= y < unv.len() ==> (#[trigger] ind[y]) == indeg_w(a, unv, y, unv.len() as int),
        rix.len() == rcnt.len(), injective(rix),
        forall|k: int| 0 <= k < rix.len() ==> (#[trigger] rcnt[k]) == rel(a, fr, rix[k] as int, fr.len() as int),
        forall|y: int| 0 <= y < unv.len() && #[trigger] rel(a, fr, y, fr.len() as int) > 0 ==> hit(rix, y, rix.len() as int),
    ensures forall|j: int| 0 <= j < unv.len() ==> (#[trigger] sub_total(rix, rcnt, j, rix.len() as int)) == rel(a, fr, j, fr.len() as int),
        forall|j: int| 0 <= j < unv.len() ==> (#[trigger] ind[j]) >= rel(a, fr, j, fr.len() as int),
{
    assert forall|j: int| 0 <= j < unv.len() implies (#[trigger] sub_total(rix, rcnt, j, rix.len() as int)) == rel(a, fr, j, fr.len() as int) by {
        assert(ind[j] == indeg_w(a, unv, j, unv.len() as int));
        lemma_kahn_sub_at(a, unv, ind, fr, rix, rcnt, j);
    }
    assert forall|j: int| 0 <= j < unv.len() implies (#[trigger] ind[j]) >= rel(a, fr, j, fr.len() as int) by {
        lemma_kahn_sub_at(a, unv, ind, fr, rix, rcnt, j);
    }
}
''')

raw(r'''
pub open spec fn selected(pred: Seq<usize>, vals: Seq<usize>, v: usize) -> bool {
    exists|i: int| 0 <= i < vals.len() && (#[trigger] pred[i]) == 1 && vals[i] == v
}

/// `filter` with a 0/1 predicate selects the marked values, in order
pub proof fn lemma_select(pred: Seq<usize>, vals: Seq<usize>, out: Seq<usize>)
    requires pred.len() == vals.len(), forall|i: int| 0 <= i < pred.len() ==> (#[trigger] pred[i]) <= 1,
        out.len() == total(pred),
        forall|i: int, j: int| 0 <= i < pred.len() && 0 <= j < pred[i] ==> out[#[trigger] seg_at(pred, i, j)] == vals[i],
    ensures
        forall|p: int| 0 <= p < out.len() ==> selected(pred, vals, #[trigger] out[p]),
        forall|i: int| 0 <= i < pred.len() && (#[trigger] pred[i]) == 1 ==> hit(out, vals[i] as int, out.len() as int),
        injective(vals) ==> injective(out),
{
    assert forall|p: int| 0 <= p < out.len() implies selected(pred, vals, #[trigger] out[p]) by {
        let (i, j) = lemma_seg_find(pred, p);
        assert(out[seg_at(pred, i, j)] == vals[i]);
        assert(pred[i] == 1);
    }
    assert forall|i: int| 0 <= i < pred.len() && (#[trigger] pred[i]) == 1 implies hit(out, vals[i] as int, out.len() as int) by {
        lemma_seg_range(pred, i, 0);
        assert(out[seg_at(pred, i, 0)] == vals[i]);
    }
    if injective(vals) {
        assert forall|p1: int, p2: int| 0 <= p1 < out.len() && 0 <= p2 < out.len() && p1 != p2 implies out[p1] != out[p2] by {
            let (i1, j1) = lemma_seg_find(pred, p1);
            let (i2, j2) = lemma_seg_find(pred, p2);
            assert(out[seg_at(pred, i1, j1)] == vals[i1]);
            assert(out[seg_at(pred, i2, j2)] == vals[i2]);
            assert(pred[i1] <= 1 && pred[i2] <= 1);
            assert(i1 != i2);
        }
    }
}

/// cell j was written by the scatter  <==>  j is listed in the frontier
pub proof fn lemma_written_iff_hit(f: Seq<usize>, j: int)
    ensures last_write(f, j, f.len() as int) >= 0 <==> hit(f, j, f.len() as int)
{
    lemma_last_write(f, j, f.len() as int);
    if hit(f, j, f.len() as int) {
        let k = choose|k: int| 0 <= k < f.len() && #[trigger] f[k] == j;
        assert(last_write(f, j, f.len() as int) >= k);
    }
}

/// marking the frontier and subtracting its out-edges keeps the counting part of the invariant
pub proof fn lemma_kahn_step_counts(a: IndexedCoproduct<FiniteFunction>, unv: Seq<usize>, ind: Seq<usize>, fr: Seq<usize>,
                                    unv2: Seq<usize>, rix: Seq<usize>, rcnt: Seq<usize>, ind2: Seq<usize>)
    requires adj_wf(a), unv.len() == a.sources.table@.len(), ind.len() == unv.len(),
        forall|y: int| 0 <= y < unv.len() ==> (#[trigger] unv[y]) <= 1,
        in_bounds(fr, unv.len() as int), injective(fr), forall|k: int| 0 <= k < fr.len() ==> unv[#[trigger] fr[k] as int] == 1,
        forall|y: int| 0 <= y < unv.len() ==> (#[trigger] ind[y]) == indeg_w(a, unv, y, unv.len() as int),
        unv2.len() == unv.len(),
        forall|j: int| 0 <= j < unv.len() ==> #[trigger] unv2[j] == (if last_write(fr, j, fr.len() as int) >= 0 { 0usize } else { unv[j] }),
        rix.len() == rcnt.len(), injective(rix),
        forall|k: int| 0 <= k < rix.len() ==> (#[trigger] rcnt[k]) == rel(a, fr, rix[k] as int, fr.len() as int),
        forall|y: int| 0 <= y < unv.len() && #[trigger] rel(a, fr, y, fr.len() as int) > 0 ==> hit(rix, y, rix.len() as int),
        ind2.len() == ind.len(),
        forall|j: int| 0 <= j < ind.len() ==> #[trigger] ind2[j] == ind[j] - sub_total(rix, rcnt, j, rix.len() as int),
    ensures
        total(unv2) == total(unv) - fr.len(),
        forall|y: int| 0 <= y < unv.len() ==> (#[trigger] unv2[y]) <= 1,
        forall|y: int| 0 <= y < unv.len() ==> (#[trigger] ind2[y]) == indeg_w(a, unv2, y, unv.len() as int),
        forall|y: int| 0 <= y < unv.len() ==> (#[trigger] ind2[y]) == ind[y] - rel(a, fr, y, fr.len() as int),
{
    let n = unv.len() as int; let m = fr.len() as int;
    lemma_zeroed_at(unv, fr, m);
    assert(unv2 =~= zeroed(unv, fr, m));
    lemma_total_zeroed(unv, fr, m);
    lemma_kahn_sub(a, unv, ind, fr, rix, rcnt);
    assert forall|y: int| 0 <= y < n implies (#[trigger] ind2[y]) == indeg_w(a, unv2, y, n) && ind2[y] == ind[y] - rel(a, fr, y, m) by {
        lemma_indeg_zeroed(a, unv, fr, y, m);
        assert(sub_total(rix, rcnt, y, rix.len() as int) == rel(a, fr, y, m));
    }
}

/// the next frontier: exactly the unvisited nodes whose indegree just dropped to zero
pub proof fn lemma_kahn_step_frontier(n: int, unv2: Seq<usize>, ind2: Seq<usize>, rix: Seq<usize>, f1: Seq<usize>, fr2: Seq<usize>)
    requires unv2.len() == n, ind2.len() == n, in_bounds(rix, n), injective(rix), rix.len() <= usize::MAX,
        forall|y: int| 0 <= y < n ==> (#[trigger] unv2[y]) <= 1,
        f1.len() == zeros_upto(kseq(ind2, rix), rix.len() as int).len(),
        forall|t: int| 0 <= t < f1.len() ==> #[trigger] f1[t] == rix[zeros_upto(kseq(ind2, rix), rix.len() as int)[t] as int],
        fr2.len() == total(kseq(unv2, f1)),
        forall|i: int, j: int| 0 <= i < f1.len() && 0 <= j < kseq(unv2, f1)[i] ==> fr2[#[trigger] seg_at(kseq(unv2, f1), i, j)] == f1[i],
    ensures in_bounds(fr2, n), injective(fr2),
        forall|p: int| 0 <= p < fr2.len() ==> unv2[#[trigger] fr2[p] as int] == 1 && ind2[fr2[p] as int] == 0 && hit(rix, fr2[p] as int, rix.len() as int),
        forall|k: int| 0 <= k < rix.len() && unv2[#[trigger] rix[k] as int] == 1 && ind2[rix[k] as int] == 0 ==> hit(fr2, rix[k] as int, fr2.len() as int),
{
    let g = kseq(ind2, rix); let z = zeros_upto(g, rix.len() as int); let pred = kseq(unv2, f1);
    lemma_zeros_props(g, rix.len() as int);
    assert forall|t: int| 0 <= t < f1.len() implies (#[trigger] f1[t]) < n && ind2[f1[t] as int] == 0 by {
        assert(z[t] < rix.len() && g[z[t] as int] == 0);
        assert(rix[z[t] as int] < n);
    }
    assert(injective(f1)) by {
        assert forall|t1: int, t2: int| 0 <= t1 < f1.len() && 0 <= t2 < f1.len() && t1 != t2 implies f1[t1] != f1[t2] by {
            assert(z[t1] < rix.len() && z[t2] < rix.len());
            if t1 < t2 { assert(z[t1] < z[t2]); } else { assert(z[t2] < z[t1]); }
        }
    }
    assert forall|i: int| 0 <= i < pred.len() implies (#[trigger] pred[i]) <= 1 by { assert(f1[i] < n); }
    lemma_select(pred, f1, fr2);
    assert forall|p: int| 0 <= p < fr2.len() implies (#[trigger] fr2[p]) < n && unv2[fr2[p] as int] == 1 && ind2[fr2[p] as int] == 0 && hit(rix, fr2[p] as int, rix.len() as int) by {
        assert(selected(pred, f1, fr2[p]));
        let i = choose|i: int| 0 <= i < f1.len() && (#[trigger] pred[i]) == 1 && f1[i] == fr2[p];
        assert(f1[i] < n);
        assert(z[i] < rix.len());
        assert(rix[z[i] as int] == fr2[p]);
    }
    assert forall|k: int| 0 <= k < rix.len() && unv2[#[trigger] rix[k] as int] == 1 && ind2[rix[k] as int] == 0 implies hit(fr2, rix[k] as int, fr2.len() as int) by {
        assert(g[k] == 0);
        let t = choose|t: int| 0 <= t < z.len() && #[trigger] z[t] == k;
        assert(f1[t] == rix[k]);
        assert(pred[t] == 1);
    }
}

/// the cells written by the two scatters: written(fr, j) <==> j is in the frontier
pub open spec fn written(fr: Seq<usize>, j: int) -> bool { last_write(fr, j, fr.len() as int) >= 0 }

/// the order/visited part of one round: orders of old nodes are kept, the old frontier gets `depth`
pub proof fn lemma_kahn_step_order(a: IndexedCoproduct<FiniteFunction>, order: Seq<usize>, unv: Seq<usize>, ind: Seq<usize>, fr: Seq<usize>, depth: int,
                                   order2: Seq<usize>, unv2: Seq<usize>)
    requires adj_wf(a), kahn_inv(a, order, unv, ind, fr, depth), depth < a.sources.table@.len(),
        unv2.len() == unv.len(),
        forall|j: int| 0 <= j < unv.len() ==> #[trigger] unv2[j] == (if written(fr, j) { 0usize } else { unv[j] }),
        order2.len() == order.len(),
        forall|j: int| 0 <= j < order.len() ==> (#[trigger] order2[j]) as int == (if written(fr, j) { depth } else { order[j] as int }),
    ensures
        forall|y: int| 0 <= y < unv.len() ==> (#[trigger] order2[y]) < unv.len(),
        forall|y: int| 0 <= y < unv.len() && (#[trigger] unv2[y]) == 0 ==> order2[y] < depth + 1,
        forall|x: int, y: int| 0 <= x < unv.len() && 0 <= y < unv.len() && unv2[y] == 0 && #[trigger] adj_edge(a, x, y) ==> unv2[x] == 0 && order2[x] < order2[y],
        forall|y: int| 0 <= y < unv.len() && unv2[y] == 0 && order2[y] > 0 ==> #[trigger] has_pred_at(a, order2, unv2, y, order2[y] as int),
        forall|k: int| 0 <= k < fr.len() ==> unv2[(#[trigger] fr[k]) as int] == 0 && order2[fr[k] as int] == depth,
{
    let n = a.sources.table@.len() as int; let m = fr.len() as int;
    // a cell is written iff it is in the old frontier; old-frontier cells were unvisited with indegree 0
    assert forall|j: int| 0 <= j < n && #[trigger] written(fr, j) implies unv[j] == 1 && ind[j] == 0 by {
        lemma_last_write(fr, j, m);
        assert(unv[fr[last_write(fr, j, m)] as int] == 1);
    }
    assert forall|k: int| 0 <= k < fr.len() implies unv2[(#[trigger] fr[k]) as int] == 0 && order2[fr[k] as int] == depth by {
        lemma_written_iff_hit(fr, fr[k] as int);
        assert(hit(fr, fr[k] as int, m));
    }
    assert forall|y: int| 0 <= y < n implies (#[trigger] order2[y]) < n by { assert(order[y] < n); }
    assert forall|y: int| 0 <= y < n && (#[trigger] unv2[y]) == 0 implies order2[y] < depth + 1 by {
        if !written(fr, y) { assert(unv[y] == 0); }
    }
    assert forall|x: int, y: int| 0 <= x < n && 0 <= y < n && unv2[y] == 0 && #[trigger] adj_edge(a, x, y) implies unv2[x] == 0 && order2[x] < order2[y] by {
        if written(fr, y) {
            assert(ind[y] == indeg_w(a, unv, y, n));
            lemma_seg_count_edge(a, x, y);
            if unv[x] != 0 { lemma_indeg_term(a, unv, y, n, x); }
            assert(unv[x] == 0);
            assert(!written(fr, x));
            assert(order[x] < depth);
        } else {
            assert(unv[y] == 0);
            assert(unv[x] == 0 && order[x] < order[y]);
            assert(!written(fr, x));
        }
    }
    assert forall|y: int| 0 <= y < n && unv2[y] == 0 && order2[y] > 0 implies #[trigger] has_pred_at(a, order2, unv2, y, order2[y] as int) by {
        if written(fr, y) {
            lemma_written_iff_hit(fr, y);
            let k = choose|k: int| 0 <= k < m && #[trigger] fr[k] == y;
            assert(depth > 0);
            assert(has_pred_at(a, order, unv, fr[k] as int, depth));
            let x = choose|x: int| 0 <= x < n && #[trigger] adj_edge(a, x, fr[k] as int) && unv[x] == 0 && order[x] + 1 == depth;
            assert(!written(fr, x));
            assert(adj_edge(a, x, y) && unv2[x] == 0 && order2[x] + 1 == order2[y]);
        } else {
            assert(unv[y] == 0 && order[y] > 0);
            assert(has_pred_at(a, order, unv, y, order[y] as int));
            let x = choose|x: int| 0 <= x < n && #[trigger] adj_edge(a, x, y) && unv[x] == 0 && order[x] + 1 == order[y];
            assert(!written(fr, x));
            assert(adj_edge(a, x, y) && unv2[x] == 0 && order2[x] + 1 == order2[y]);
        }
    }
}

pub open spec fn edge_from(a: IndexedCoproduct<FiniteFunction>, fr: Seq<usize>, y: int) -> bool {
    exists|k: int| 0 <= k < fr.len() && adj_edge(a, (#[trigger] fr[k]) as int, y)
}

/// the new frontier is complete, and each of its nodes has a predecessor in the old frontier
pub proof fn lemma_kahn_step_next(a: IndexedCoproduct<FiniteFunction>, unv: Seq<usize>, ind: Seq<usize>, fr: Seq<usize>,
                                  unv2: Seq<usize>, ind2: Seq<usize>, rix: Seq<usize>, rcnt: Seq<usize>, fr2: Seq<usize>)
    requires adj_wf(a), unv.len() == a.sources.table@.len(), ind.len() == unv.len(), unv2.len() == unv.len(), ind2.len() == unv.len(),
        in_bounds(fr, unv.len() as int),
        forall|y: int| 0 <= y < unv.len() && (#[trigger] unv[y]) == 1 && ind[y] == 0 ==> hit(fr, y, fr.len() as int),
        forall|j: int| 0 <= j < unv.len() ==> #[trigger] unv2[j] == (if written(fr, j) { 0usize } else { unv[j] }),
        forall|y: int| 0 <= y < unv.len() ==> (#[trigger] ind2[y]) == ind[y] - rel(a, fr, y, fr.len() as int),
        rix.len() == rcnt.len(),
        forall|k: int| 0 <= k < rix.len() ==> (#[trigger] rcnt[k]) == rel(a, fr, rix[k] as int, fr.len() as int) && rcnt[k] > 0,
        forall|y: int| 0 <= y < unv.len() && #[trigger] rel(a, fr, y, fr.len() as int) > 0 ==> hit(rix, y, rix.len() as int),
        forall|p: int| 0 <= p < fr2.len() ==> hit(rix, (#[trigger] fr2[p]) as int, rix.len() as int),
        forall|k: int| 0 <= k < rix.len() && unv2[#[trigger] rix[k] as int] == 1 && ind2[rix[k] as int] == 0 ==> hit(fr2, rix[k] as int, fr2.len() as int),
    ensures
        forall|y: int| 0 <= y < unv.len() && (#[trigger] unv2[y]) == 1 && ind2[y] == 0 ==> hit(fr2, y, fr2.len() as int),
        forall|p: int| 0 <= p < fr2.len() ==> edge_from(a, fr, (#[trigger] fr2[p]) as int),
{
    let n = unv.len() as int; let m = fr.len() as int;
    assert forall|y: int| 0 <= y < n && (#[trigger] unv2[y]) == 1 && ind2[y] == 0 implies hit(fr2, y, fr2.len() as int) by {
        lemma_written_iff_hit(fr, y);
        assert(!written(fr, y));
        assert(unv[y] == 1);
        lemma_rel_nonneg(a, fr, y, m);
        assert(ind2[y] == ind[y] - rel(a, fr, y, m));
        if ind[y] == 0 { assert(hit(fr, y, m)); }
        assert(rel(a, fr, y, m) > 0);
        let k = choose|k: int| 0 <= k < rix.len() && #[trigger] rix[k] == y;
        assert(unv2[rix[k] as int] == 1 && ind2[rix[k] as int] == 0);
    }
    assert forall|p: int| 0 <= p < fr2.len() implies edge_from(a, fr, (#[trigger] fr2[p]) as int) by {
        let y = fr2[p] as int;
        assert(hit(rix, y, rix.len() as int));
        let k1 = choose|k: int| 0 <= k < rix.len() && #[trigger] rix[k] == y;
        assert(rcnt[k1] > 0);
        let k = lemma_rel_witness(a, fr, y, m);
        assert(adj_edge(a, fr[k] as int, fr2[p] as int));
    }
}

/// one round of the loop re-establishes the invariant one layer deeper
pub proof fn lemma_kahn_step(a: IndexedCoproduct<FiniteFunction>, order: Seq<usize>, unv: Seq<usize>, ind: Seq<usize>, fr: Seq<usize>, depth: int,
                             order2: Seq<usize>, unv2: Seq<usize>, rix: Seq<usize>, rcnt: Seq<usize>, ind2: Seq<usize>, f1: Seq<usize>, fr2: Seq<usize>)
    requires adj_wf(a), kahn_inv(a, order, unv, ind, fr, depth), fr.len() > 0,
        unv2.len() == unv.len(),
        forall|j: int| 0 <= j < unv.len() ==> #[trigger] unv2[j] == (if last_write(fr, j, fr.len() as int) >= 0 { 0usize } else { unv[j] }),
        order2.len() == order.len(),
        forall|j: int| 0 <= j < order.len() ==> (#[trigger] order2[j]) as int == (if last_write(fr, j, fr.len() as int) >= 0 { depth } else { order[j] as int }),
        rix.len() == rcnt.len(), injective(rix), in_bounds(rix, unv.len() as int), rix.len() <= usize::MAX,
        forall|k: int| 0 <= k < rix.len() ==> (#[trigger] rcnt[k]) == rel(a, fr, rix[k] as int, fr.len() as int) && rcnt[k] > 0,
        forall|y: int| 0 <= y < unv.len() && #[trigger] rel(a, fr, y, fr.len() as int) > 0 ==> hit(rix, y, rix.len() as int),
        ind2.len() == ind.len(),
        forall|j: int| 0 <= j < ind.len() ==> #[trigger] ind2[j] == ind[j] - sub_total(rix, rcnt, j, rix.len() as int),
        f1.len() == zeros_upto(kseq(ind2, rix), rix.len() as int).len(),
        forall|t: int| 0 <= t < f1.len() ==> #[trigger] f1[t] == rix[zeros_upto(kseq(ind2, rix), rix.len() as int)[t] as int],
        fr2.len() == total(kseq(unv2, f1)),
        forall|i: int, j: int| 0 <= i < f1.len() && 0 <= j < kseq(unv2, f1)[i] ==> fr2[#[trigger] seg_at(kseq(unv2, f1), i, j)] == f1[i],
    ensures kahn_inv(a, order2, unv2, ind2, fr2, depth + 1)
{
    let n = a.sources.table@.len() as int; let m = fr.len() as int;
    lemma_kahn_frontier_small(a, order, unv, ind, fr, depth);
    lemma_kahn_step_counts(a, unv, ind, fr, unv2, rix, rcnt, ind2);
    lemma_kahn_step_frontier(n, unv2, ind2, rix, f1, fr2);
    lemma_kahn_step_order(a, order, unv, ind, fr, depth, order2, unv2);
    lemma_kahn_step_next(a, unv, ind, fr, unv2, ind2, rix, rcnt, fr2);
    assert forall|p: int| 0 <= p < fr2.len() implies has_pred_at(a, order2, unv2, (#[trigger] fr2[p]) as int, depth + 1) by {
        assert(edge_from(a, fr, fr2[p] as int));
        let k = choose|k: int| 0 <= k < fr.len() && adj_edge(a, (#[trigger] fr[k]) as int, fr2[p] as int);
        assert(unv2[fr[k] as int] == 0 && order2[fr[k] as int] == depth);
    }
}

pub proof fn lemma_kahn_exit(a: IndexedCoproduct<FiniteFunction>, order: Seq<usize>, unv: Seq<usize>, ind: Seq<usize>, fr: Seq<usize>, depth: int)
    requires adj_wf(a), kahn_inv(a, order, unv, ind, fr, depth), fr.len() == 0
    ensures kahn_ok(a, order, unv)
{
    let n = a.sources.table@.len() as int;
    assert forall|y: int| 0 <= y < n && unv[y] == 1 implies #[trigger] has_unvisited_pred(a, unv, y) by {
        assert(ind[y] == indeg_w(a, unv, y, n));
        if ind[y] == 0 { assert(hit(fr, y, fr.len() as int)); }
        let x = lemma_indeg_witness(a, unv, y, n);
        assert(unv[x] <= 1);
    }
}
''')

fn(GR, 'kahn', kind='free', status='P', props=['C15', 'C16', 'C17'], rules={'asref': True, 'drop_into': True},
   requires=['adj_wf(*adjacency)', 'adjacency.values.table@.len() < usize::MAX', 'adjacency.sources.table@.len() < usize::MAX'],
   ensures=[('C15.kahn', 'kahn_ok(*adjacency, r.0@, r.1@)')],
   loops={1: {'invariant': [
       'adj_wf(*adjacency)', 'adjacency.values.table@.len() < usize::MAX', 'adjacency.sources.table@.len() < usize::MAX',
       'kahn_inv(*adjacency, order@, unvisited@, indegree.table@, frontier@, depth as int)'],
       'decreases': 'adjacency.sources.table@.len() + 1 - depth'}},
   proofs=[('start', 'assert(lawful_clone::<usize>());'),
           ('before:while !frontier.is_empty()', 'lemma_kahn_init(*adjacency, order@, unvisited@, indegree.table@, frontier@);'),
           G('before:unvisited.scatter_assign_constant(', '''let ghost fr0 = frontier@; let ghost unv0 = unvisited@; let ghost ord0 = order@; let ghost ind0 = indegree.table@;
        proof { assert(lawful_clone::<usize>()); lemma_kahn_frontier_small(*adjacency, ord0, unv0, ind0, fr0, depth as int); }'''),
           ('before:.scatter_sub_assign(', 'lemma_kahn_sub(*adjacency, unv0, ind0, fr0, reachable_ix.table@, reachable_count.table@);'),
           G('before:frontier = {', '''let ghost ind1 = indegree.table@;
        proof {
            assert(reachable_ix.table@.len() <= usize::MAX) by { vstd::std_specs::vec::axiom_spec_len(&reachable_ix.table.0); }
            lemma_ext_all(kseq(ind1, reachable_ix.table@)); lemma_zeros_props(kseq(ind1, reachable_ix.table@), reachable_ix.table@.len() as int);
        }'''),
           G('before:frontier = filter::<K>(', '''let ghost f1 = frontier@;
        proof {
            lemma_ext_all(kseq(unvisited@, f1));
            assert forall|i: int| 0 <= i < f1.len() implies (#[trigger] kseq(unvisited@, f1)[i]) <= 1 by {
                assert(f1[i] < adjacency.sources.table@.len());
                assert(unv0[f1[i] as int] <= 1);
                assert(last_write(fr0, f1[i] as int, fr0.len() as int) >= 0 || unvisited@[f1[i] as int] == unv0[f1[i] as int]);
            }
            lemma_psum_le(kseq(unvisited@, f1), 1, f1.len() as int);
        }'''),
           ('after:frontier = filter::<K>(', 'lemma_kahn_step(*adjacency, ord0, unv0, ind0, fr0, depth as int, order@, unvisited@, reachable_ix.table@, reachable_count.table@, ind1, f1, frontier@);'),
           ('end', 'lemma_psum_mono(unvisited@, 0, unvisited@.len() as int); lemma_kahn_exit(*adjacency, order@, unvisited@, indegree.table@, frontier@, depth as int);')])