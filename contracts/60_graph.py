# strict/graph.rs, strict/layer.rs, strict/hypergraph/acyclic.rs: helper routines of layering.
# Proved here: well-formedness and panic-freedom of every helper given its callees (C15 "the call returns",
# C17 "returns an answer", C05); the level-synchronous counting loop `kahn` keeps its contract as an
# assumption in Verus and is checked by the bounded modules C15/C16/C17 (status B).
GR = 'src/strict/graph.rs'
LY = 'src/strict/layer.rs'
AC = 'src/strict/hypergraph/acyclic.rs'

module('graph')

raw(r'''
/// machine-arithmetic side condition of a.flatmap(converse(b)) / converse(a).flatmap(b): the adjacency list fits
pub open spec fn adjacency_fits(a: IndexedCoproduct<FiniteFunction>, b: IndexedCoproduct<FiniteFunction>) -> bool {
    &&& a.values.table@.len() * b.values.table@.len() + 1 < usize::MAX
    &&& a.values.table@.len() < usize::MAX && b.values.table@.len() < usize::MAX
    &&& a.sources.table@.len() < usize::MAX && b.sources.table@.len() < usize::MAX
    &&& a.values.target < usize::MAX && b.values.target < usize::MAX
}

pub proof fn lemma_kseq_bound(sz: Seq<usize>, v: Seq<usize>, m: int, n: int)
    requires 0 <= n <= v.len(), m >= 0, forall|i: int| 0 <= i < v.len() ==> (#[trigger] v[i]) < sz.len(),
        forall|i: int| 0 <= i < sz.len() ==> (#[trigger] sz[i]) <= m,
    ensures 0 <= psum(kseq(sz, v), n) <= n * m
    decreases n
{
    if n > 0 {
        lemma_kseq_bound(sz, v, m, n - 1);
        assert(kseq(sz, v)[n - 1] == sz[v[n - 1] as int]);
        assert(n * m == (n - 1) * m + m) by (nonlinear_arith);
    }
}

/// adjacency over a node set: one segment per node, entries are nodes
pub open spec fn adj_wf(a: IndexedCoproduct<FiniteFunction>) -> bool {
    a.wf() && a.values.target == a.sources.table@.len()
}

pub proof fn lemma_psum_update_zero(s: Seq<usize>, i: int, n: int)
    requires 0 <= i < s.len(), 0 <= n <= s.len()
    ensures psum(s.update(i, 0usize), n) == psum(s, n) - (if i < n { s[i] as int } else { 0int })
    decreases n
{
    if n > 0 { lemma_psum_update_zero(s, i, n - 1); }
}

/// selecting distinct segments cannot select more than everything
pub proof fn lemma_injective_selection(s: Seq<usize>, f: Seq<usize>)
    requires injective(f), forall|i: int| 0 <= i < f.len() ==> (#[trigger] f[i]) < s.len()
    ensures total(kseq(s, f)) <= total(s)
    decreases f.len()
{
    let n = f.len() as int;
    if n > 0 {
        let last = f[n - 1] as int;
        let f1 = f.drop_last();
        let s1 = s.update(last, 0usize);
        assert(injective(f1)) by {
            assert forall|i: int, j: int| 0 <= i < f1.len() && 0 <= j < f1.len() && i != j implies f1[i] != f1[j] by {
                assert(f1[i] == f[i] && f1[j] == f[j]);
            }
        }
        assert forall|i: int| 0 <= i < f1.len() implies (#[trigger] f1[i]) < s1.len() by { assert(f1[i] == f[i]); }
        lemma_injective_selection(s1, f1);
        lemma_psum_update_zero(s, last, s.len() as int);
        let k = kseq(s, f); let k1 = kseq(s1, f1);
        assert(k.len() == n && k1.len() == n - 1);
        assert forall|j: int| 0 <= j < n - 1 implies k[j] == k1[j] by {
            assert(f1[j] == f[j]); assert(f[j] != f[n - 1]);
            assert(s1[f[j] as int] == s[f[j] as int]);
        }
        lemma_psum_prefix(k, k1, n - 1);
        assert(psum(k, n) == psum(k, n - 1) + k[n - 1]);
        assert(k[n - 1] == s[last]);
        assert(total(s1) == total(s) - s[last]);
        assert(total(k1) == psum(k1, n - 1));
    } else {
        lemma_psum_mono(s, 0, s.len() as int);
    }
}

/// the counts of a table whose entries lie below `size` add up to its length
pub proof fn lemma_counts_total(tv: Seq<usize>, counts: Seq<usize>, size: int, n: int)
    requires 0 <= n <= tv.len(), tv.len() <= usize::MAX, counts.len() == size, forall|i: int| 0 <= i < tv.len() ==> (#[trigger] tv[i]) < size,
        forall|v: int| 0 <= v < size ==> counts[v] == count(tv, v, n),
    ensures total(counts) == n
    decreases n
{
    if n == 0 {
        lemma_psum_const(counts, 0usize, size);
    } else {
        let c1 = Seq::new(size as nat, |v: int| count(tv, v, n - 1) as usize);
        assert forall|v: int| 0 <= v < size implies 0 <= #[trigger] count(tv, v, n - 1) <= n - 1 by { lemma_count_bounds(tv, v, n - 1); }
        assert forall|v: int| 0 <= v < size implies c1[v] == count(tv, v, n - 1) by { lemma_count_bounds(tv, v, n - 1); assert(tv.len() <= usize::MAX ==> true); }
        lemma_counts_total(tv, c1, size, n - 1);
        let x = tv[n - 1] as int;
        lemma_psum_bump(c1, counts, x, size);
    }
}

/// b equals a except at position x where it is one larger
pub proof fn lemma_psum_bump(a: Seq<usize>, b: Seq<usize>, x: int, n: int)
    requires 0 <= x < a.len(), a.len() == b.len(), 0 <= n <= a.len(),
        forall|v: int| 0 <= v < a.len() ==> b[v] == a[v] + (if v == x { 1int } else { 0int }),
    ensures psum(b, n) == psum(a, n) + (if x < n { 1int } else { 0int })
    decreases n
{
    if n > 0 { lemma_psum_bump(a, b, x, n - 1); }
}
''')

fn(GR, 'filter', kind='free', status='P', props=['C15'],
   requires=['values@.len() == predicate@.len()', 'total(predicate@) <= usize::MAX'],
   ensures=[('C15.filter', 'r@.len() == total(predicate@) && (forall|i: int, j: int| 0 <= i < predicate@.len() && 0 <= j < predicate@[i] ==> r@[#[trigger] seg_at(predicate@, i, j)] == values@[i])')])
fn(GR, 'zero', kind='free', status='P', props=['C15'], rules={'asref': True},
   ensures=[('C15.zero', 'r@ == zeros_upto(f.table@, f.table@.len() as int)')])
fn(GR, 'dense_relative_indegree', kind='free', status='P', props=['C15', 'C17', 'C18'], rules={'asref': True},
   requires=['adj_wf(*adjacency)', 'f.wf()', 'injective(f.table@)', 'f.target == adjacency.sources.table@.len()',
             'adjacency.values.table@.len() < usize::MAX', 'adjacency.sources.table@.len() < usize::MAX', 'f.table@.len() < usize::MAX'],
   ensures=[('C15.dense-indegree', 'r.table@.len() == adjacency.sources.table@.len() && r.target == adjacency.values.table@.len() + 1'),
            ('C15.dense-indegree-wf', 'r.wf()')],
   proofs=[('start', '''lemma_seg_wf_sources(adjacency.sources, adjacency.values.table@.len());
            lemma_injective_selection(adjacency.sources.table@, f.table@);'''),
           ('before:FiniteFunction::new(table, target).unwrap()', '''assert forall|v: int| 0 <= v < table@.len() implies (#[trigger] table@[v]) < target by {
                lemma_count_bounds(reached.table@, v, reached.table@.len() as int);
            }''')])
fn(GR, 'sparse_relative_indegree', kind='free', status='P', props=['C15', 'C17', 'C18', 'C20'],
   requires=['adj_wf(*a)', 'f.wf()', 'injective(f.table@)', 'f.target == a.sources.table@.len()',
             'a.values.table@.len() < usize::MAX', 'a.sources.table@.len() < usize::MAX', 'f.table@.len() < usize::MAX'],
   ensures=[('C15.sparse-indegree', 'r.0.table@.len() == r.1.table@.len() && r.0.target == a.sources.table@.len() && r.1.target == a.values.table@.len() + 1 && injective(r.0.table@)'),
            ('C15.sparse-indegree-wf', 'r.0.wf() && r.1.wf()')],
   proofs=[('start', '''lemma_seg_wf_sources(a.sources, a.values.table@.len());
            lemma_injective_selection(a.sources.table@, f.table@);'''),
           ('after:let (i, c) = g.table.sparse_bincount();', '''assert forall|k: int| 0 <= k < i@.len() implies (#[trigger] i@[k]) < a.sources.table@.len() by {
                lemma_count_bounds(g.table@, i@[k] as int, g.table@.len() as int);
                assert(c@[k] == count(g.table@, i@[k] as int, g.table@.len() as int) && c@[k] > 0);
                let w = lemma_count_witness(g.table@, i@[k] as int, g.table@.len() as int);
            }
            assert forall|k: int| 0 <= k < c@.len() implies (#[trigger] c@[k]) < a.values.table@.len() + 1 by {
                lemma_count_bounds(g.table@, i@[k] as int, g.table@.len() as int);
            }''')])
fn(GR, 'indegree', kind='free', status='P', props=['C15', 'C17'],
   requires=['adj_wf(*adjacency)', 'adjacency.values.table@.len() < usize::MAX', 'adjacency.sources.table@.len() < usize::MAX'],
   ensures=[('C15.indegree', 'r.table@.len() == adjacency.sources.table@.len() && r.wf()')])


fn(GR, 'converse', kind='free', status='P', props=['C15', 'C16', 'C17', 'C18'], rules={'asref': True},
   requires=['r.wf()', 'r.values.table@.len() < usize::MAX', 'r.sources.table@.len() < usize::MAX', 'r.values.target < usize::MAX'],
   ensures=[('C15.converse-shape', '''out.sources.table@.len() == r.values.target && out.values.target == r.sources.table@.len()
                && out.values.table@.len() == r.values.table@.len()
                && (forall|v: int| 0 <= v < r.values.target ==> out.sources.table@[v] == count(r.values.table@, v, r.values.table@.len() as int))'''),
            ('C15.converse-wf', 'out.wf()')],
   ret='out',
   proofs=[('start', 'assert(lawful_clone::<usize>()); lemma_seg_wf_sources(r.sources, r.values.table@.len());'),
           # inside the block that builds values_table: every entry of the repeated segment indices is a segment index
           ('before:unsorted_values.sort_by(&r.values.table)', '''assert forall|m: int| 0 <= m < unsorted_values@.len() implies (#[trigger] unsorted_values@[m]) < r.sources.table@.len() by {
                let (a, b) = lemma_seg_find(r.sources.table@, m);
                assert(unsorted_values@[seg_at(r.sources.table@, a, b)] == arange@[a]);
            }'''),
           ('before:let sources = FiniteFunction::new(sources_table', '''assert forall|v: int| 0 <= v < sources_table@.len() implies (#[trigger] sources_table@[v]) < r.values.table@.len() + 1 by {
                lemma_count_bounds(r.values.table@, v, r.values.table@.len() as int);
            }'''),
           ('before:IndexedCoproduct::new(sources, values).unwrap()', '''lemma_counts_total(r.values.table@, sources.table@, r.values.target as int, r.values.table@.len() as int);''')])
fn(GR, 'operation_adjacency', kind='free', status='P', props=['C15', 'C16'], where_add='O: Clone, A: Clone',
   requires=['h.wf()', 'adjacency_fits(h.t, h.s)'],
   ensures=[('C15.operation_adjacency-wf', 'adj_wf(r) && r.sources.table@.len() == h.x@.len()')],
   proofs=[('start', '''let ls = h.s.values.table@.len() as int; let lt = h.t.values.table@.len() as int;
            assert forall|v: int| #[trigger] count(h.s.values.table@, v, ls) <= ls by { lemma_count_bounds(h.s.values.table@, v, ls); }
            assert forall|sz: Seq<usize>, v: Seq<usize>| (forall|i: int| 0 <= i < v.len() ==> (#[trigger] v[i]) < sz.len()) && (forall|i: int| 0 <= i < sz.len() ==> (#[trigger] sz[i]) <= ls)
                implies #[trigger] total(kseq(sz, v)) <= v.len() * ls by { lemma_kseq_bound(sz, v, ls, v.len() as int); }
            assert(lt * ls == ls * lt) by (nonlinear_arith);''')])
fn(GR, 'node_adjacency', kind='free', status='P', props=['C17', 'C18'], where_add='O: Clone, A: Clone',
   requires=['h.wf()', 'adjacency_fits(h.s, h.t)', 'h.s.sources.table@.len() == h.t.sources.table@.len()'],
   ensures=[('C17.node_adjacency-wf', 'adj_wf(r) && r.sources.table@.len() == h.w@.len()')])
fn(GR, 'node_adjacency_from_incidence', kind='free', status='P', props=['C17', 'C18'],
   requires=['s.wf()', 't.wf()', 's.sources.table@.len() == t.sources.table@.len()', 's.values.target == t.values.target', 'adjacency_fits(*s, *t)'],
   ensures=[('C17.node_adjacency_from_incidence-wf', 'adj_wf(r) && r.sources.table@.len() == s.values.target')],
   proofs=[('start', '''let ls = s.values.table@.len() as int; let lt = t.values.table@.len() as int;
            lemma_seg_wf_sources(t.sources, t.values.table@.len());
            assert forall|sz: Seq<usize>, v: Seq<usize>| (forall|i: int| 0 <= i < v.len() ==> (#[trigger] v[i]) < sz.len()) && (forall|i: int| 0 <= i < sz.len() ==> (#[trigger] sz[i]) <= lt)
                implies #[trigger] total(kseq(sz, v)) <= v.len() * lt by { lemma_kseq_bound(sz, v, lt, v.len() as int); }''')])

raw(r'''
/// y is listed in segment x of the adjacency (x -> y)
pub open spec fn adj_edge(a: IndexedCoproduct<FiniteFunction>, x: int, y: int) -> bool {
    exists|j: int| 0 <= j < a.sources.table@[x] && #[trigger] a.values.table@[seg_at(a.sources.table@, x, j)] == y
}

/// the layering contract of `kahn` in local form (no paths needed):
/// (1) a visited node has all predecessors visited with strictly smaller order,
/// (2) a visited node has order 0 or a predecessor of order exactly one less,
/// (3) an unvisited node has an unvisited predecessor.
/// (1)+(2): order = length of the longest chain below; (1)+(3): unvisited = on or downstream of a cycle.
pub open spec fn kahn_ok(a: IndexedCoproduct<FiniteFunction>, order: Seq<usize>, unvisited: Seq<usize>) -> bool {
    let n = a.sources.table@.len() as int;
    &&& order.len() == n && unvisited.len() == n
    &&& forall|y: int| 0 <= y < n ==> (#[trigger] unvisited[y]) <= 1
    &&& forall|y: int| 0 <= y < n ==> (#[trigger] order[y]) < n
    &&& forall|x: int, y: int| 0 <= x < n && 0 <= y < n && unvisited[y] == 0 && #[trigger] adj_edge(a, x, y) ==> unvisited[x] == 0 && order[x] < order[y]
    &&& forall|y: int| 0 <= y < n && unvisited[y] == 0 && order[y] > 0 ==> exists|x: int| 0 <= x < n && #[trigger] adj_edge(a, x, y) && unvisited[x] == 0 && order[x] + 1 == order[y]
    &&& forall|y: int| 0 <= y < n && unvisited[y] == 1 ==> exists|x: int| 0 <= x < n && #[trigger] adj_edge(a, x, y) && unvisited[x] == 1
}

pub proof fn lemma_psum_le(s: Seq<usize>, m: int, n: int)
    requires 0 <= n <= s.len(), m >= 0, forall|i: int| 0 <= i < s.len() ==> (#[trigger] s[i]) <= m
    ensures 0 <= psum(s, n) <= n * m
    decreases n
{
    if n > 0 {
        lemma_psum_le(s, m, n - 1);
        assert(n * m == (n - 1) * m + m) by (nonlinear_arith);
    }
}
''')

fn(GR, 'kahn', kind='free', status='B', props=['C15', 'C16', 'C17'], rules={'asref': True, 'drop_into': True},
   requires=['adj_wf(*adjacency)', 'adjacency.values.table@.len() < usize::MAX', 'adjacency.sources.table@.len() < usize::MAX'],
   ensures=[('C15.kahn', 'kahn_ok(*adjacency, r.0@, r.1@)')],
   mirror='c15::kahn', note='level-synchronous Kahn loop: counting invariant not proved; contract checked by bounded modules C15/C16/C17')
