# strict/functor/traits.rs: functor application by spiders.  Proved here, for EVERY functor that meets the
# trait contract below: the result of define_map_arrow / spider_map_arrow is the substitution instance (C12 headline,
# clause C12.*-subst; lemmas in 53_subst.py), is well-formed and has type F(A) -> F(B), and none of the unwrap()s can
# fail (C05, C12 typing).  The trait contract lets the implementor state its own preconditions (obj_pre, ops_pre), the
# type of its operation map (ops_src, ops_tgt; `strict_typed` = F(sources) -> F(targets) is what define_map_arrow
# requires) and its own postcondition (ops_post).  Identity is proved to meet the contract and its image to be
# isomorphic to the argument; the optic (64_optic.py) is a second implementor.
FT = 'src/strict/functor/traits.rs'
FI = 'src/strict/functor/identity.rs'

module('functor', uses=['vstd::std_specs::cmp::*'])

raw(r'''
/// segment i of a segmented label array is the list `l`
pub open spec fn seg_is<T>(c: IndexedCoproduct<SemifiniteFunction<T>>, i: int, l: Seq<T>) -> bool {
    &&& c.sources.table@[i] == l.len()
    &&& forall|j: int| 0 <= j < l.len() ==> c.values@[#[trigger] seg_at(c.sources.table@, i, j)] == l[j]
}

/// `ty` is the concatenation of the lists obj(a[0]), obj(a[1]), ...   (stated per block, no flatten needed)
pub open spec fn flat_sizes<O1, O2>(a: Seq<O1>, obj: spec_fn(O1) -> Seq<O2>) -> Seq<usize> {
    Seq::new(a.len(), |p: int| obj(a[p]).len() as usize)
}

pub open spec fn is_flat_image<O1, O2>(ty: Seq<O2>, a: Seq<O1>, obj: spec_fn(O1) -> Seq<O2>) -> bool {
    let k = flat_sizes(a, obj);
    &&& forall|p: int| 0 <= p < a.len() ==> obj(a[p]).len() <= usize::MAX
    &&& ty.len() == total(k)
    &&& forall|p: int, j: int| 0 <= p < a.len() && 0 <= j < k[p] ==> ty[#[trigger] seg_at(k, p, j)] == obj(a[p])[j]
}

/// position m of a concatenation of blocks of sizes k: (block, offset)
pub open spec fn seg_pos(k: Seq<usize>, m: int) -> (int, int) {
    choose|p: int, j: int| 0 <= p < k.len() && 0 <= j < k[p] && m == #[trigger] seg_at(k, p, j)
}
/// THE flat image: the concatenation obj(a[0]) ++ obj(a[1]) ++ ...
pub open spec fn flat<O1, O2>(a: Seq<O1>, obj: spec_fn(O1) -> Seq<O2>) -> Seq<O2> {
    let k = flat_sizes(a, obj);
    Seq::new(total(k) as nat, |m: int| obj(a[seg_pos(k, m).0])[seg_pos(k, m).1])
}
pub proof fn lemma_flat_is_flat<O1, O2>(a: Seq<O1>, obj: spec_fn(O1) -> Seq<O2>)
    requires forall|p: int| 0 <= p < a.len() ==> obj(#[trigger] a[p]).len() <= usize::MAX
    ensures is_flat_image(flat(a, obj), a, obj)
{
    let k = flat_sizes(a, obj); let t = flat(a, obj);
    lemma_psum_mono(k, 0, k.len() as int);
    assert forall|p: int, j: int| 0 <= p < a.len() && 0 <= j < k[p] implies t[#[trigger] seg_at(k, p, j)] == obj(a[p])[j] by {
        lemma_seg_range(k, p, j);
        let m = seg_at(k, p, j);
        let (p2, j2) = seg_pos(k, m);
        assert(0 <= p2 < k.len() && 0 <= j2 < k[p2] && m == seg_at(k, p2, j2));
        lemma_seg_unique(k, p, j, p2, j2);
    }
}

/// The contract of the trait Functor of /repo: the action on objects is a per-generator list, the action
/// on a tensoring of operations returns a well-formed diagram of the corresponding type.
pub trait Functor<O1: Clone, A1: Clone, O2, A2> {
    /// F on one generating object
    spec fn obj(&self, o: O1) -> Seq<O2>;

    /// an upper bound for every size of F applied to a tensoring of operations (nodes, hyperedges, incidence and
    /// interface lengths): lets callers state machine-arithmetic preconditions about the image the functor really returns
    spec fn ops_bound(&self, ops: Operations<O1, A1>) -> nat;

    /// the functor's own description of its action on a tensoring of operations (what `r` may be for `ops`)
    spec fn ops_post(&self, ops: Operations<O1, A1>, r: OpenHypergraph<O2, A2>) -> bool;

    /// the type of the image of a tensoring of operations.  For a functor proper it is F(sources) -> F(targets)
    /// (`strict_typed` below, required by define_map_arrow); the forward and reverse halves of an optic carry residuals
    /// in addition, which is why the type is the implementor's to state
    spec fn ops_src(&self, ops: Operations<O1, A1>) -> Seq<O2>;
    spec fn ops_tgt(&self, ops: Operations<O1, A1>) -> Seq<O2>;

    /// implementor-specific preconditions of the two methods (beyond the common size conditions): callers must establish them
    spec fn obj_pre(&self, a: Seq<O1>) -> bool;
    spec fn ops_pre(&self, ops: Operations<O1, A1>) -> bool;

    fn map_object(&self, a: &SemifiniteFunction<O1>) -> (r: IndexedCoproduct<SemifiniteFunction<O2>>)
        requires a@.len() < usize::MAX, total(flat_sizes(a@, |o: O1| self.obj(o))) < usize::MAX, lawful_clone::<O1>(), self.obj_pre(a@),
        ensures r.wf(), r.sources.table@.len() == a@.len(),
            forall|i: int| 0 <= i < a@.len() ==> #[trigger] seg_is(r, i, self.obj(a@[i]));

    fn map_operations(&self, ops: Operations<O1, A1>) -> (r: OpenHypergraph<O2, A2>)
        requires ops.wf(), ops.a.values@.len() + ops.b.values@.len() < usize::MAX, ops.x@.len() < usize::MAX, small(self.ops_bound(ops)),
            lawful_clone::<O1>(), lawful_clone::<A1>(), self.ops_pre(ops),
        ensures r.wf(),
            r.src_type() =~= self.ops_src(ops),
            r.tgt_type() =~= self.ops_tgt(ops),
            oh_sizes_le(r, self.ops_bound(ops)),
            self.ops_post(ops, r);
}

/// every size of the diagram is at most b
pub open spec fn oh_sizes_le<O, A>(r: OpenHypergraph<O, A>, b: nat) -> bool {
    &&& r.h.w@.len() <= b && r.h.x@.len() <= b && r.h.s.values.table@.len() <= b && r.h.t.values.table@.len() <= b
    &&& r.s.table@.len() <= b && r.t.table@.len() <= b
}

pub open spec fn small(n: nat) -> bool { n < 0x1000_0000 }
pub open spec fn tiny(n: nat) -> bool { n < 0x100_0000 }

/// the functor maps the tensoring `ops` to a diagram of type F(sources) -> F(targets)
pub open spec fn strict_typed<O1: Clone, A1: Clone, O2, A2, F: Functor<O1, A1, O2, A2>>(functor: F, ops: Operations<O1, A1>) -> bool {
    &&& is_flat_image(functor.ops_src(ops), ops.a.values@, |o: O1| functor.obj(o))
    &&& is_flat_image(functor.ops_tgt(ops), ops.b.values@, |o: O1| functor.obj(o))
}
''')

raw(r'''
/// `ops` is the tensoring of the operations of f (what to_operations returns)
pub open spec fn is_ops_of<O: Clone, A: Clone>(f: OpenHypergraph<O, A>, r: Operations<O, A>) -> bool {
    r.wf() && r.x@.len() == f.h.x@.len() && (lawful_clone::<A>() ==> r.x@ == f.h.x@)
    && r.a.sources.table@ == f.h.s.sources.table@ && r.b.sources.table@ == f.h.t.sources.table@
    && r.a.values@.len() == f.h.s.values.table@.len() && r.b.values@.len() == f.h.t.values.table@.len()
    && (lawful_clone::<O>() ==> (forall|p: int| 0 <= p < f.h.s.values.table@.len() ==> r.a.values@[p] == f.h.w@[f.h.s.values.table@[p] as int])
                              && (forall|p: int| 0 <= p < f.h.t.values.table@.len() ==> r.b.values@[p] == f.h.w@[f.h.t.values.table@[p] as int]))
}
''')

fn(FT, 'to_operations', kind='free', status='P', props=['C12', 'C05'], where_add='O: Clone, A: Clone',
   requires=['f.wf()'],
   ensures=[('C12.to_operations', 'is_ops_of(*f, r)')])
fn(FT, 'map_half_spider', kind='free', status='P', props=['C12', 'C05'], where_add='O: Clone',
   requires=['w.wf()', 'f.wf()', 'f.target == w.sources.table@.len()', 'w.values@.len() < usize::MAX', 'w.sources.table@.len() < usize::MAX',
             'f.table@.len() < usize::MAX', 'total(kseq(w.sources.table@, f.table@)) <= usize::MAX'],
   ensures=[('C12.map_half_spider', '''({ let s = w.sources.table@; let k = kseq(s, f.table@);
                r.target == w.values@.len() && r.table@.len() == total(k) && r.wf()
                && (forall|i: int, j: int| 0 <= i < k.len() && 0 <= j < k[i] ==> r.table@[#[trigger] seg_at(k, i, j)] == psum(s, f.table@[i] as int) + j) })''')],
   proofs=[('start', 'lemma_seg_wf_sources(w.sources, w.values@.len());')])

raw(r'''
/// what spider_map_arrow needs to know about its three arguments
pub open spec fn sma_pre<O1, A1, O2, A2>(f: OpenHypergraph<O1, A1>, fw: IndexedCoproduct<SemifiniteFunction<O2>>, fx: OpenHypergraph<O2, A2>, obj: spec_fn(O1) -> Seq<O2>) -> bool {
    &&& f.wf() && fw.wf() && fx.wf()
    &&& fw.sources.table@.len() == f.h.w@.len()
    &&& forall|i: int| 0 <= i < f.h.w@.len() ==> #[trigger] seg_is(fw, i, obj(f.h.w@[i]))
    &&& is_flat_image(fx.src_type(), Seq::new(f.h.s.values.table@.len(), |p: int| f.h.w@[f.h.s.values.table@[p] as int]), obj)
    &&& is_flat_image(fx.tgt_type(), Seq::new(f.h.t.values.table@.len(), |p: int| f.h.w@[f.h.t.values.table@[p] as int]), obj)
    &&& sma_sizes(f, fw, fx)
}

/// machine arithmetic: everything involved is small enough for sums of a few of them to fit usize
pub open spec fn sma_sizes<O1, A1, O2, A2>(f: OpenHypergraph<O1, A1>, fw: IndexedCoproduct<SemifiniteFunction<O2>>, fx: OpenHypergraph<O2, A2>) -> bool {
    &&& small(fw.values@.len()) && small(fw.sources.table@.len())
    &&& small(fx.h.w@.len()) && small(fx.h.x@.len()) && small(fx.h.s.values.table@.len()) && small(fx.h.t.values.table@.len())
    &&& small(fx.s.table@.len()) && small(fx.t.table@.len())
    &&& small(f.s.table@.len()) && small(f.t.table@.len()) && small(f.h.s.values.table@.len()) && small(f.h.t.values.table@.len())
    &&& small(total(kseq(fw.sources.table@, f.s.table@)) as nat) && small(total(kseq(fw.sources.table@, f.t.table@)) as nat)
    &&& small(total(kseq(fw.sources.table@, f.h.s.values.table@)) as nat) && small(total(kseq(fw.sources.table@, f.h.t.values.table@)) as nat)
}
''')

raw(r'''
/// `ty` consists of the blocks of `fw` selected by the node list `nodes`, in order:  F(A) for A = labels of nodes
pub open spec fn is_block_image<O2>(ty: Seq<O2>, fw: IndexedCoproduct<SemifiniteFunction<O2>>, nodes: Seq<usize>) -> bool {
    let sz = fw.sources.table@;
    let k = kseq(sz, nodes);
    &&& ty.len() == total(k)
    &&& forall|p: int, j: int| 0 <= p < k.len() && 0 <= j < k[p] ==> ty[#[trigger] seg_at(k, p, j)] == fw.values@[seg_at(sz, nodes[p] as int, j)]
}
''')

raw(r'''
/// `tab` is the block-wise injection of the node list g into the expanded node list: block p of tab enumerates block g[p] of fw
pub open spec fn is_half<O2>(tab: Seq<usize>, fw: IndexedCoproduct<SemifiniteFunction<O2>>, g: Seq<usize>) -> bool {
    let sz = fw.sources.table@; let k = kseq(sz, g);
    &&& tab.len() == total(k)
    &&& forall|p: int, j: int| 0 <= p < k.len() && 0 <= j < k[p] ==> tab[#[trigger] seg_at(k, p, j)] == psum(sz, g[p] as int) + j
}

/// C12 headline: r is f with every node replaced by its block of fw, every hyperedge by its part of fx, glued along the
/// expanded source and target lists, and with both interfaces expanded
pub open spec fn is_substitution<O1, A1, O2, A2>(r: OpenHypergraph<O2, A2>, f: OpenHypergraph<O1, A1>, fw: IndexedCoproduct<SemifiniteFunction<O2>>, fx: OpenHypergraph<O2, A2>) -> bool {
    exists|fs: Seq<usize>, ees: Seq<usize>, eet: Seq<usize>, ft: Seq<usize>|
        is_half(fs, fw, f.s.table@) && is_half(ees, fw, f.h.s.values.table@) && is_half(eet, fw, f.h.t.values.table@) && is_half(ft, fw, f.t.table@)
        && #[trigger] is_subst_of(r, fw.values@, fx, fs, ees, eet, ft)
}
''')

fn(FT, 'spider_map_arrow', kind='free', status='P', props=['C12', 'C05'], where_add='O1: Clone + PartialEq, A1: Clone, O2: Clone + PartialEq, A2: Clone',
   requires=['exists|obj: spec_fn(O1) -> Seq<O2>| sma_pre(*f, fw, fx, obj)', 'lawful_clone::<O2>()', 'lawful_eq::<O2>()', 'lawful_clone::<A2>()'],
   ensures=[('C12.spider_map_arrow-wf', 'r.wf()'),
            ('C12.spider_map_arrow-type', 'is_block_image(r.src_type(), fw, f.s.table@) && is_block_image(r.tgt_type(), fw, f.t.table@)'),
            ('C12.spider_map_arrow-subst', 'is_substitution(r, *f, fw, fx)')],
   proofs=[('start', '''lemma_seg_wf_sources(fw.sources, fw.values@.len());'''),
           ('before:sx.compose(', '''let obj = choose|obj: spec_fn(O1) -> Seq<O2>| sma_pre(*f, fw, fx, obj);
            let sz = fw.sources.table@; let fv = fw.values@; let n2 = fv.len() as int;
            let es = f.h.s.values.table@; let et = f.h.t.values.table@;
            let ks = kseq(sz, es); let kt = kseq(sz, et);
            let a_s = Seq::new(es.len(), |p: int| f.h.w@[es[p] as int]);
            let a_t = Seq::new(et.len(), |p: int| f.h.w@[et[p] as int]);
            let kxs = flat_sizes(a_s, obj);
            let kxt = flat_sizes(a_t, obj);
            assert(kxs =~= ks) by {
                assert forall|p: int| 0 <= p < es.len() implies kxs[p] == ks[p] by { assert(seg_is(fw, es[p] as int, obj(f.h.w@[es[p] as int]))); }
            }
            assert(kxt =~= kt) by {
                assert forall|p: int| 0 <= p < et.len() implies kxt[p] == kt[p] by { assert(seg_is(fw, et[p] as int, obj(f.h.w@[et[p] as int]))); }
            }
            assert(i.h.w@ == fv);
            // (1) target type of sx == source type of i (x) fx
            assert(sx.t.table@.len() == n2 + total(ks));
            assert forall|m: int| 0 <= m < n2 implies sx.tgt_type()[m] == fv[m] by { }
            assert forall|m: int| 0 <= m < total(ks) implies sx.tgt_type()[n2 + m] == fx.src_type()[m] by {
                let (p, j) = lemma_seg_find(ks, m);
                lemma_seg_range(ks, p, j);
                let v = es[p] as int;
                assert(seg_is(fw, v, obj(f.h.w@[v])));
                lemma_seg_range(sz, v, j);
                assert(sx.t.table@[n2 + seg_at(ks, p, j)] == psum(sz, v) + j);
                assert(fv[seg_at(sz, v, j)] == obj(f.h.w@[v])[j]);
                assert(fx.src_type()[seg_at(kxs, p, j)] == obj(a_s[p])[j]);
            }
            assert(fx.src_type().len() == total(ks));
            assert(sx.tgt_type() =~= i.src_type() + fx.src_type());
            // (2) target type of i (x) fx == source type of yt
            assert(yt.s.table@.len() == n2 + total(kt));
            assert forall|m: int| 0 <= m < n2 implies yt.src_type()[m] == fv[m] by { }
            assert forall|m: int| 0 <= m < total(kt) implies yt.src_type()[n2 + m] == fx.tgt_type()[m] by {
                let (p, j) = lemma_seg_find(kt, m);
                lemma_seg_range(kt, p, j);
                let v = et[p] as int;
                assert(seg_is(fw, v, obj(f.h.w@[v])));
                lemma_seg_range(sz, v, j);
                assert(yt.s.table@[n2 + seg_at(kt, p, j)] == psum(sz, v) + j);
                assert(fv[seg_at(sz, v, j)] == obj(f.h.w@[v])[j]);
                assert(fx.tgt_type()[seg_at(kxt, p, j)] == obj(a_t[p])[j]);
            }
            assert(fx.tgt_type().len() == total(kt));
            assert(yt.src_type() =~= i.tgt_type() + fx.tgt_type());
            // (3) the outer types are the blocks of fw selected by the interfaces of f
            let kfs = kseq(sz, f.s.table@); let kft = kseq(sz, f.t.table@);
            assert forall|p: int, j: int| 0 <= p < kfs.len() && 0 <= j < kfs[p] implies 0 <= #[trigger] seg_at(kfs, p, j) < total(kfs)
                && sx.src_type()[seg_at(kfs, p, j)] == fv[seg_at(sz, f.s.table@[p] as int, j)] by {
                lemma_seg_range(kfs, p, j); lemma_seg_range(sz, f.s.table@[p] as int, j);
            }
            assert forall|p: int, j: int| 0 <= p < kft.len() && 0 <= j < kft[p] implies 0 <= #[trigger] seg_at(kft, p, j) < total(kft)
                && yt.tgt_type()[seg_at(kft, p, j)] == fv[seg_at(sz, f.t.table@[p] as int, j)] by {
                lemma_seg_range(kft, p, j); lemma_seg_range(sz, f.t.table@[p] as int, j);
            }
            assert(is_block_image(sx.src_type(), fw, f.s.table@));
            assert(is_block_image(yt.tgt_type(), fw, f.t.table@));
            // (4) the composite is the substitution instance
            let g_fs = sx.s.table@; let g_ft = yt.t.table@;
            let g_es = sx.t.table@.subrange(n2, sx.t.table@.len() as int);
            let g_et = yt.s.table@.subrange(n2, yt.s.table@.len() as int);
            assert(sx.t.table@ =~= id_seq(n2) + g_es);
            assert(yt.s.table@ =~= id_seq(n2) + g_et);
            assert(is_half(g_fs, fw, f.s.table@) && is_half(g_ft, fw, f.t.table@));
            assert(is_half(g_es, fw, es)) by {
                assert forall|p: int, j: int| 0 <= p < ks.len() && 0 <= j < ks[p] implies g_es[#[trigger] seg_at(ks, p, j)] == psum(sz, es[p] as int) + j by {
                    lemma_seg_range(ks, p, j);
                }
            }
            assert(is_half(g_et, fw, et)) by {
                assert forall|p: int, j: int| 0 <= p < kt.len() && 0 <= j < kt[p] implies g_et[#[trigger] seg_at(kt, p, j)] == psum(sz, et[p] as int) + j by {
                    lemma_seg_range(kt, p, j);
                }
            }
            assert forall|j: int| 0 <= j < g_es.len() implies (#[trigger] g_es[j]) < n2 by { assert(sx.t.table@[n2 + j] < sx.t.target); }
            assert forall|j: int| 0 <= j < g_et.len() implies (#[trigger] g_et[j]) < n2 by { assert(yt.s.table@[n2 + j] < yt.s.target); }
            assert forall|m: OpenHypergraph<O2, A2>, c1: OpenHypergraph<O2, A2>, rr: OpenHypergraph<O2, A2>|
                    #[trigger] is_tensor(m, i, fx) && #[trigger] is_pushout(sx, m, c1) && #[trigger] is_pushout(c1, yt, rr)
                    implies is_subst_of(rr, fv, fx, g_fs, g_es, g_et, g_ft) by {
                lemma_subst_instance(sx, i, fx, m, yt, c1, rr, fv, g_fs, g_es, g_et, g_ft);
            }''')])

raw(r'''
pub proof fn lemma_block_to_flat<O1, O2>(ty: Seq<O2>, fw: IndexedCoproduct<SemifiniteFunction<O2>>, nodes: Seq<usize>, w: Seq<O1>, obj: spec_fn(O1) -> Seq<O2>)
    requires is_block_image(ty, fw, nodes), fw.sources.table@.len() == w.len(),
        forall|p: int| 0 <= p < nodes.len() ==> (#[trigger] nodes[p]) < w.len(),
        forall|i: int| 0 <= i < w.len() ==> #[trigger] seg_is(fw, i, obj(w[i])),
    ensures is_flat_image(ty, Seq::new(nodes.len(), |p: int| w[nodes[p] as int]), obj)
{
    let sz = fw.sources.table@; let fv = fw.values@;
    let a = Seq::new(nodes.len(), |p: int| w[nodes[p] as int]);
    let k = kseq(sz, nodes);
    let kx = Seq::new(a.len(), |p: int| obj(a[p]).len() as usize);
    assert forall|p: int| 0 <= p < nodes.len() implies kx[p] == k[p] && obj(a[p]).len() <= usize::MAX by {
        assert(seg_is(fw, nodes[p] as int, obj(w[nodes[p] as int])));
    }
    assert(kx =~= k);
    assert forall|p: int, j: int| 0 <= p < a.len() && 0 <= j < kx[p] implies ty[#[trigger] seg_at(kx, p, j)] == obj(a[p])[j] by {
        assert(seg_is(fw, nodes[p] as int, obj(w[nodes[p] as int])));
        assert(ty[seg_at(k, p, j)] == fv[seg_at(sz, nodes[p] as int, j)]);
    }
    assert(ty.len() == total(kx));
    let k3 = flat_sizes(a, obj);
    assert(k3 =~= kx);
    assert forall|p: int| 0 <= p < a.len() implies obj(a[p]).len() <= usize::MAX by {
        assert(seg_is(fw, nodes[p] as int, obj(w[nodes[p] as int])));
    }
    assert(ty.len() == total(k3));
    assert(forall|p: int, j: int| 0 <= p < a.len() && 0 <= j < k3[p] ==> ty[#[trigger] seg_at(k3, p, j)] == obj(a[p])[j]);
    assert(is_flat_image(ty, a, obj));
}
''')

raw(r'''
/// machine arithmetic for define_map_arrow, over f and the object map only
pub open spec fn dma_sizes<O1, A1, O2>(f: OpenHypergraph<O1, A1>, obj: spec_fn(O1) -> Seq<O2>) -> bool {
    let ops_a = Seq::new(f.h.s.values.table@.len(), |p: int| f.h.w@[f.h.s.values.table@[p] as int]);
    let ops_b = Seq::new(f.h.t.values.table@.len(), |p: int| f.h.w@[f.h.t.values.table@[p] as int]);
    &&& small(f.h.w@.len()) && small(f.h.x@.len()) && small(total(flat_sizes(f.h.w@, obj)) as nat)
    &&& small(f.s.table@.len()) && small(f.t.table@.len()) && small(f.h.s.values.table@.len()) && small(f.h.t.values.table@.len())
    &&& small(total(flat_sizes(f.src_type(), obj)) as nat) && small(total(flat_sizes(f.tgt_type(), obj)) as nat)
    &&& small(total(flat_sizes(ops_a, obj)) as nat) && small(total(flat_sizes(ops_b, obj)) as nat)
}

/// the sizes of the blocks of fw are the lengths of the object images
pub proof fn lemma_fw_sizes<O1, O2>(fw: IndexedCoproduct<SemifiniteFunction<O2>>, w: Seq<O1>, obj: spec_fn(O1) -> Seq<O2>, idx: Seq<usize>)
    requires fw.sources.table@.len() == w.len(), forall|i: int| 0 <= i < w.len() ==> #[trigger] seg_is(fw, i, obj(w[i])),
        forall|p: int| 0 <= p < idx.len() ==> (#[trigger] idx[p]) < w.len(),
    ensures kseq(fw.sources.table@, idx) =~= flat_sizes(Seq::new(idx.len(), |p: int| w[idx[p] as int]), obj),
        fw.sources.table@ =~= flat_sizes(w, obj),
{
    let a = Seq::new(idx.len(), |p: int| w[idx[p] as int]);
    assert forall|p: int| 0 <= p < idx.len() implies kseq(fw.sources.table@, idx)[p] == flat_sizes(a, obj)[p] by {
        assert(seg_is(fw, idx[p] as int, obj(w[idx[p] as int])));
    }
    assert forall|i: int| 0 <= i < w.len() implies fw.sources.table@[i] == flat_sizes(w, obj)[i] by {
        assert(seg_is(fw, i, obj(w[i])));
    }
}
''')

raw(r'''
/// fw is the expanded node list of w: block i is obj(w[i])
pub open spec fn is_object_image<O1, O2>(fw: IndexedCoproduct<SemifiniteFunction<O2>>, w: Seq<O1>, obj: spec_fn(O1) -> Seq<O2>) -> bool {
    &&& fw.wf() && fw.sources.table@.len() == w.len()
    &&& forall|i: int| 0 <= i < w.len() ==> #[trigger] seg_is(fw, i, obj(w[i]))
}
/// fx is an image of the operations of f side by side: what the functor's map_operations may return for the
/// operations of f (ops_post is the functor's own postcondition), a well-formed diagram whose inputs / outputs are the
/// expanded source / target lists of all hyperedges of f
pub open spec fn is_ops_image<O1: Clone, A1: Clone, O2, A2, F: Functor<O1, A1, O2, A2>>(functor: F, fx: OpenHypergraph<O2, A2>, f: OpenHypergraph<O1, A1>) -> bool {
    &&& fx.wf()
    &&& is_flat_image(fx.src_type(), Seq::new(f.h.s.values.table@.len(), |p: int| f.h.w@[f.h.s.values.table@[p] as int]), |o: O1| functor.obj(o))
    &&& is_flat_image(fx.tgt_type(), Seq::new(f.h.t.values.table@.len(), |p: int| f.h.w@[f.h.t.values.table@[p] as int]), |o: O1| functor.obj(o))
    &&& exists|ops: Operations<O1, A1>| #[trigger] is_ops_of(f, ops) && functor.ops_post(ops, fx)
}
''')

fn(FT, 'define_map_arrow', kind='free', status='P', props=['C12', 'C05'],
   where_add='O1: Clone + PartialEq, A1: Clone, O2: Clone + PartialEq, A2: Clone, F: Functor<O1, A1, O2, A2>',
   requires=['f.wf()', 'lawful_clone::<O1>()', 'lawful_clone::<A1>()', 'lawful_clone::<O2>()', 'lawful_eq::<O2>()', 'lawful_clone::<A2>()',
             # machine arithmetic: every size that occurs stays small (each F-image is bounded by `small`)
             # machine arithmetic, stated over what the functor really returns: the image of f's operations is small
             # (ops_bound is the functor's own size bound) and so are the F-images of f's node, interface and incidence lists
             'forall|ops: Operations<O1, A1>| #[trigger] is_ops_of(*f, ops) ==> small(functor.ops_bound(ops)) && strict_typed(*functor, ops) && functor.ops_pre(ops)',
             'functor.obj_pre(f.h.w@)',
             'dma_sizes(*f, |o: O1| functor.obj(o))'],
   ensures=[('C12.define_map_arrow-wf', 'r.wf()'),
            ('C12.define_map_arrow-type', '''is_flat_image(r.src_type(), f.src_type(), |o: O1| functor.obj(o)) && is_flat_image(r.tgt_type(), f.tgt_type(), |o: O1| functor.obj(o))'''),
            ('C12.define_map_arrow-subst', '''exists|fw: IndexedCoproduct<SemifiniteFunction<O2>>, fx: OpenHypergraph<O2, A2>|
                is_object_image(fw, f.h.w@, |o: O1| functor.obj(o)) && is_ops_image(*functor, fx, *f) && #[trigger] is_substitution(r, *f, fw, fx)''')],
   proofs=[('start', '''let ops_a0 = Seq::new(f.h.s.values.table@.len(), |p: int| f.h.w@[f.h.s.values.table@[p] as int]);
            let ops_b0 = Seq::new(f.h.t.values.table@.len(), |p: int| f.h.w@[f.h.t.values.table@[p] as int]);
            assert forall|t: Seq<O1>| #![trigger t.len()] t.len() == ops_a0.len() && (forall|p: int| 0 <= p < ops_a0.len() ==> t[p] == ops_a0[p]) implies t == ops_a0 by { assert(t =~= ops_a0); }
            assert forall|t: Seq<O1>| #![trigger t.len()] t.len() == ops_b0.len() && (forall|p: int| 0 <= p < ops_b0.len() ==> t[p] == ops_b0[p]) implies t == ops_b0 by { assert(t =~= ops_b0); }'''),
           ('end', '''let obj = |o: O1| functor.obj(o);
            let ops_a = Seq::new(f.h.s.values.table@.len(), |p: int| f.h.w@[f.h.s.values.table@[p] as int]);
            let ops_b = Seq::new(f.h.t.values.table@.len(), |p: int| f.h.w@[f.h.t.values.table@[p] as int]);
            lemma_fw_sizes(fw, f.h.w@, obj, f.s.table@); lemma_fw_sizes(fw, f.h.w@, obj, f.t.table@);
            lemma_fw_sizes(fw, f.h.w@, obj, f.h.s.values.table@); lemma_fw_sizes(fw, f.h.w@, obj, f.h.t.values.table@);
            assert(f.src_type() =~= Seq::new(f.s.table@.len(), |p: int| f.h.w@[f.s.table@[p] as int]));
            assert(f.tgt_type() =~= Seq::new(f.t.table@.len(), |p: int| f.h.w@[f.t.table@[p] as int]));
            assert(sma_sizes(*f, fw, fx));
            assert(is_flat_image(fx.src_type(), ops_a, obj) && is_flat_image(fx.tgt_type(), ops_b, obj));
            assert(sma_pre(*f, fw, fx, obj)) by {
                assert forall|i: int| 0 <= i < f.h.w@.len() implies #[trigger] seg_is(fw, i, obj(f.h.w@[i])) by { assert(seg_is(fw, i, functor.obj(f.h.w@[i]))); }
            }
            assert(is_object_image(fw, f.h.w@, obj) && is_ops_image(*functor, fx, *f));
            let sz = fw.sources.table@; let fv = fw.values@;
            // block form -> per-generator form (lemma_block_to_flat), applied to the result below
            assert(f.src_type() =~= Seq::new(f.s.table@.len(), |p: int| f.h.w@[f.s.table@[p] as int]));
            assert(f.tgt_type() =~= Seq::new(f.t.table@.len(), |p: int| f.h.w@[f.t.table@[p] as int]));
            assert forall|ty: Seq<O2>| #[trigger] is_block_image(ty, fw, f.s.table@) implies is_flat_image(ty, f.src_type(), obj) by {
                lemma_block_to_flat(ty, fw, f.s.table@, f.h.w@, obj);
            }
            assert forall|ty: Seq<O2>| #[trigger] is_block_image(ty, fw, f.t.table@) implies is_flat_image(ty, f.tgt_type(), obj) by {
                lemma_block_to_flat(ty, fw, f.t.table@, f.h.w@, obj);
            }''')])

# The implementors of the trait in /repo (Identity, DynFunctor, Optic) are NOT proved to establish the trait
# contract (it has no size preconditions, their bodies need them; DynFunctor/Optic are outside Verus): for them
# the contract is an assumption, and their images are checked by the bounded modules C12/C13/C14.

# ---------------------------------------------------------------------------------------------
# strict/functor/identity.rs: the Identity functor meets the trait contract.  The two method bodies are extracted
# as free functions (receiver renamed, rule T11) and verified against the trait contract with obj(o) = [o];
# the trait impl itself is one-line external_body glue (same reason as for operator impls).
# ---------------------------------------------------------------------------------------------
raw(r'''
pub struct Identity;

/// r is the diagram with exactly the operations of `ops` side by side and nothing else: one fresh node per input and per output
/// position, inputs then outputs, each hyperedge attached to its own nodes in order (the postcondition of tensor_operations)
pub open spec fn is_tensor_ops<O, A>(r: OpenHypergraph<O, A>, ops: Operations<O, A>) -> bool {
    let na = ops.a.values@.len() as int; let nb = ops.b.values@.len() as int;
    &&& r.wf() && r.h.x@ == ops.x@ && r.h.w@ == ops.a.values@ + ops.b.values@
    &&& r.h.s.sources.table@ == ops.a.sources.table@ && r.h.t.sources.table@ == ops.b.sources.table@
    &&& r.s.table@ == r.h.s.values.table@ && r.t.table@ == r.h.t.values.table@
    &&& r.s.table@.len() == na && (forall|i: int| 0 <= i < na ==> r.s.table@[i] == i)
    &&& r.t.table@.len() == nb && (forall|i: int| 0 <= i < nb ==> r.t.table@[i] == na + i)
}
''')
fn(FI, 'map_object', trait='Functor', self_ty='Identity', status='P', props=['C12'], rename='identity_map_object',
   rules={'self_rename': ['this', '&Identity']}, generics_add=['O: Clone + PartialEq'],
   requires=['a@.len() < usize::MAX', 'total(flat_sizes(a@, |o: O| seq![o])) < usize::MAX', 'lawful_clone::<O>()'],
   proofs=[('start', '''assert forall|s: Seq<usize>, i: int| (forall|k: int| 0 <= k < s.len() ==> s[k] == 1) && 0 <= i <= s.len() implies #[trigger] psum(s, i) == i by { lemma_psum_const(s, 1usize, i); }''')],
   ensures=[('C12.identity-map_object', 'r.wf() && r.sources.table@.len() == a@.len() && (forall|i: int| 0 <= i < a@.len() ==> #[trigger] seg_is(r, i, seq![a@[i]]))')])
fn(FI, 'map_operations', trait='Functor', self_ty='Identity', status='P', props=['C12'], rename='identity_map_operations',
   rules={'self_rename': ['this', '&Identity']}, generics_add=['O: Clone + PartialEq, A: Clone'],
   requires=['ops.wf()', 'ops.a.values@.len() + ops.b.values@.len() < usize::MAX', 'ops.x@.len() < usize::MAX',
             'small(ops.a.values@.len() + ops.b.values@.len() + ops.x@.len())', 'lawful_clone::<O>()', 'lawful_clone::<A>()'],
   proofs=[('start', '''assert forall|s: Seq<usize>, i: int| (forall|k: int| 0 <= k < s.len() ==> s[k] == 1) && 0 <= i <= s.len() implies #[trigger] psum(s, i) == i by { lemma_psum_const(s, 1usize, i); }''')],
   ensures=[('C12.identity-map_operations', '''r.wf() && is_flat_image(r.src_type(), ops.a.values@, |o: O| seq![o]) && is_flat_image(r.tgt_type(), ops.b.values@, |o: O| seq![o])
                && oh_sizes_le(r, ops.a.values@.len() + ops.b.values@.len() + ops.x@.len())'''),
            ('C12.identity-map_operations-exact', 'is_tensor_ops(r, ops)'),
            ('C12.identity-map_operations-typed', 'r.src_type() =~= ops.a.values@ && r.tgt_type() =~= ops.b.values@')])

raw(r'''
// trait impl of /repo: `impl Functor<K, O, A, O, A> for Identity`; the method bodies are the free functions above (glue: trusted)
impl<O: Clone + PartialEq, A: Clone> Functor<O, A, O, A> for Identity {
    open spec fn obj(&self, o: O) -> Seq<O> { seq![o] }
    open spec fn ops_bound(&self, ops: Operations<O, A>) -> nat { ops.a.values@.len() + ops.b.values@.len() + ops.x@.len() }
    open spec fn ops_post(&self, ops: Operations<O, A>, r: OpenHypergraph<O, A>) -> bool { is_tensor_ops(r, ops) }
    open spec fn ops_src(&self, ops: Operations<O, A>) -> Seq<O> { ops.a.values@ }
    open spec fn ops_tgt(&self, ops: Operations<O, A>) -> Seq<O> { ops.b.values@ }
    open spec fn obj_pre(&self, a: Seq<O>) -> bool { true }
    open spec fn ops_pre(&self, ops: Operations<O, A>) -> bool { true }
    #[verifier::external_body]
    fn map_object(&self, a: &SemifiniteFunction<O>) -> (r: IndexedCoproduct<SemifiniteFunction<O>>) { identity_map_object(self, a) }
    #[verifier::external_body]
    fn map_operations(&self, ops: Operations<O, A>) -> (r: OpenHypergraph<O, A>) { identity_map_operations(self, ops) }
}

/// a list is its own image under the object map o |-> [o]
pub proof fn lemma_flat_identity_rev<O>(a: Seq<O>)
    ensures is_flat_image(a, a, |o: O| seq![o])
{
    let obj1 = |o: O| seq![o];
    let k = flat_sizes(a, obj1);
    assert forall|i: int| 0 <= i <= a.len() implies #[trigger] psum(k, i) == i by { lemma_psum_const(k, 1usize, i); }
    assert forall|p: int, j: int| 0 <= p < a.len() && 0 <= j < k[p] implies a[#[trigger] seg_at(k, p, j)] == obj1(a[p])[j] by { }
}

/// an image under the object map o |-> [o] is the list itself
pub proof fn lemma_flat_identity<O>(ty: Seq<O>, a: Seq<O>)
    requires is_flat_image(ty, a, |o: O| seq![o])
    ensures ty =~= a
{
    let k = flat_sizes(a, |o: O| seq![o]);
    assert forall|i: int| 0 <= i <= a.len() implies #[trigger] psum(k, i) == i by { lemma_psum_const(k, 1usize, i); }
    assert forall|p: int| 0 <= p < a.len() implies ty[p] == a[p] by {
        assert(ty[seg_at(k, p, 0)] == (|o: O| seq![o])(a[p])[0]);
    }
}
''', tag='T2-glue:Identity')

raw(r'''
/// with one-element blocks the block-wise injection of a node list is the node list
pub proof fn lemma_half_singleton<O2>(tab: Seq<usize>, fw: IndexedCoproduct<SemifiniteFunction<O2>>, g: Seq<usize>)
    requires is_half(tab, fw, g), forall|i: int| 0 <= i < fw.sources.table@.len() ==> fw.sources.table@[i] == 1, in_bounds(g, fw.sources.table@.len() as int),
    ensures tab =~= g
{
    let sz = fw.sources.table@; let k = kseq(sz, g);
    assert forall|p: int| 0 <= p <= g.len() implies #[trigger] psum(k, p) == p by { lemma_psum_const(k, 1usize, p); }
    assert forall|p: int| 0 <= p < g.len() implies tab[p] == g[p] by {
        lemma_psum_const(sz, 1usize, g[p] as int);
        assert(tab[seg_at(k, p, 0)] == psum(sz, g[p] as int) + 0);
    }
}

/// C12, last sentence: the substitution instance for the identity functor (object map o |-> [o], operations side by side) is
/// isomorphic to the argument -- every fresh node of an operation is glued to exactly one node of f
pub proof fn lemma_identity_subst_iso<O: Clone, A: Clone>(f: OpenHypergraph<O, A>, fw: IndexedCoproduct<SemifiniteFunction<O>>, fx: OpenHypergraph<O, A>, ops: Operations<O, A>, r: OpenHypergraph<O, A>) -> (phi: Seq<usize>)
    requires f.wf(), is_object_image(fw, f.h.w@, |o: O| seq![o]), is_ops_of(f, ops), lawful_clone::<O>(), lawful_clone::<A>(), is_tensor_ops(fx, ops),
        is_substitution(r, f, fw, fx), f.h.w@.len() + f.h.s.values.table@.len() + f.h.t.values.table@.len() <= usize::MAX,
    ensures node_iso(r, f, phi)
{
    let n = f.h.w@.len() as int; let es = f.h.s.values.table@; let et = f.h.t.values.table@;
    let ne = es.len() as int; let nt = et.len() as int; let nn = n + ne + nt;
    let sz = fw.sources.table@;
    let obj1 = |o: O| seq![o];
    assert forall|i: int| 0 <= i < n implies sz[i] == 1 by { assert(seg_is(fw, i, obj1(f.h.w@[i]))); }
    lemma_psum_const(sz, 1usize, n);
    assert(fw.values@.len() == n);
    assert forall|i: int| 0 <= i < n implies fw.values@[i] == f.h.w@[i] by {
        assert(seg_is(fw, i, obj1(f.h.w@[i])));
        lemma_psum_const(sz, 1usize, i);
        assert(fw.values@[seg_at(sz, i, 0)] == obj1(f.h.w@[i])[0]);
    }
    assert(fw.values@ =~= f.h.w@);
    let (fs, ees, eet, ft) = choose|fs: Seq<usize>, ees: Seq<usize>, eet: Seq<usize>, ft: Seq<usize>|
        is_half(fs, fw, f.s.table@) && is_half(ees, fw, f.h.s.values.table@) && is_half(eet, fw, f.h.t.values.table@) && is_half(ft, fw, f.t.table@)
        && #[trigger] is_subst_of(r, fw.values@, fx, fs, ees, eet, ft);
    assert(in_bounds(f.s.table@, n) && in_bounds(f.t.table@, n) && in_bounds(es, n) && in_bounds(et, n)) by {
        assert forall|i: int| 0 <= i < f.s.table@.len() implies (#[trigger] f.s.table@[i]) < n by { assert(f.s.table@[i] < f.s.target); }
        assert forall|i: int| 0 <= i < f.t.table@.len() implies (#[trigger] f.t.table@[i]) < n by { assert(f.t.table@[i] < f.t.target); }
        assert forall|i: int| 0 <= i < es.len() implies (#[trigger] es[i]) < n by { assert(f.h.s.values.table@[i] < f.h.s.values.target); }
        assert forall|i: int| 0 <= i < et.len() implies (#[trigger] et[i]) < n by { assert(f.h.t.values.table@[i] < f.h.t.values.target); }
    }
    lemma_half_singleton(fs, fw, f.s.table@); lemma_half_singleton(ft, fw, f.t.table@);
    lemma_half_singleton(ees, fw, es); lemma_half_singleton(eet, fw, et);
    assert(fx.h.w@.len() == ne + nt);
    let pp = ees + eet; let qq = shifted(fx.s.table@, n) + shifted(fx.t.table@, n);
    let (q, k) = choose|q: Seq<usize>, k: int| is_coeq(q, k, pp, qq, n + (ne + nt)) && #[trigger] is_subst_quotient(r, fw.values@, fx, fs, ft, q, k);
    let h = Seq::new(nn as nat, |a: int| if a < n { a as usize } else if a < n + ne { es[a - n] } else { et[a - n - ne] });
    assert forall|j: int| 0 <= j < pp.len() implies 0 <= #[trigger] pp[j] < nn && 0 <= qq[j] < nn && qq[j] == n + j && pp[j] == h[n + j] by {
        if j < ne { assert(pp[j] == es[j]); assert(qq[j] == shifted(fx.s.table@, n)[j]); }
        else { assert(pp[j] == et[j - ne]); assert(qq[j] == shifted(fx.t.table@, n)[j - ne]); }
    }
    assert forall|c: int| 0 <= c < n implies #[trigger] hit(h, c, nn) by { assert(h[c] == c); }
    assert forall|a: int| 0 <= a < nn implies (#[trigger] h[a]) < n && q[a] == q[h[a] as int] by {
        if a >= n { let j = a - n; assert(qq[j] == n + j && pp[j] == h[n + j]); assert(q[pp[j] as int] == q[qq[j] as int]); }
    }
    assert forall|j: int| 0 <= j < pp.len() implies h[#[trigger] pp[j] as int] == h[qq[j] as int] by { assert(qq[j] == n + j && pp[j] == h[n + j]); }
    let phi = lemma_factor_iso(q, k, pp, qq, nn, h, n);
    assert forall|v: int| 0 <= v < k implies f.h.w@[(#[trigger] phi[v]) as int] == r.h.w@[v] by {
        assert(hit(q, v, nn));
        let a = choose|a: int| 0 <= a < nn && #[trigger] q[a] == v;
        assert(phi[q[a] as int] == h[a]);
        assert(r.h.w@[q[a] as int] == (fw.values@ + fx.h.w@)[a]);
        if a >= n { if a < n + ne { assert(ops.a.values@[a - n] == f.h.w@[es[a - n] as int]); } else { assert(ops.b.values@[a - n - ne] == f.h.w@[et[a - n - ne] as int]); } }
    }
    assert(f.h.x@ =~= r.h.x@);
    assert forall|i: int| 0 <= i < ne implies (#[trigger] f.h.s.values.table@[i]) == phi[r.h.s.values.table@[i] as int] by {
        assert(fx.h.s.values.table@[i] == fx.s.table@[i]);
        assert(r.h.s.values.table@[i] == q[n + fx.h.s.values.table@[i]]);
        assert(phi[q[n + i] as int] == h[n + i]);
    }
    assert forall|i: int| 0 <= i < nt implies (#[trigger] f.h.t.values.table@[i]) == phi[r.h.t.values.table@[i] as int] by {
        assert(fx.h.t.values.table@[i] == fx.t.table@[i]);
        assert(r.h.t.values.table@[i] == q[n + fx.h.t.values.table@[i]]);
        assert(phi[q[n + ne + i] as int] == h[n + ne + i]);
    }
    assert forall|i: int| 0 <= i < f.s.table@.len() implies (#[trigger] f.s.table@[i]) == phi[r.s.table@[i] as int] by {
        assert(r.s.table@[i] == q[fs[i] as int]);
        assert(phi[q[fs[i] as int] as int] == h[fs[i] as int]);
    }
    assert forall|i: int| 0 <= i < f.t.table@.len() implies (#[trigger] f.t.table@[i]) == phi[r.t.table@[i] as int] by {
        assert(r.t.table@[i] == q[ft[i] as int]);
        assert(phi[q[ft[i] as int] as int] == h[ft[i] as int]);
    }
    phi
}
''')

fn(FI, 'map_arrow', trait='Functor', self_ty='Identity', status='P', props=['C12'], rename='identity_map_arrow',
   rules={'self_rename': ['this', '&Identity']}, generics_add=['O: Clone + PartialEq, A: Clone'],
   requires=['f.wf()', 'lawful_clone::<O>()', 'lawful_clone::<A>()', 'lawful_eq::<O>()',
             'small(f.h.s.values.table@.len() + f.h.t.values.table@.len() + f.h.x@.len())', 'dma_sizes(*f, |o: O| seq![o])'],
   ensures=[('C12.identity-map_arrow-wf', 'r.wf()'),
            ('C12.identity-map_arrow-type', 'r.src_type() =~= f.src_type() && r.tgt_type() =~= f.tgt_type()'),
            ('C12.identity-map_arrow-iso', 'exists|phi: Seq<usize>| #[trigger] node_iso(r, *f, phi)')],
   proofs=[('start', '''let obj = |o: O| <Identity as Functor<O, A, O, A>>::obj(this, o);
            assert(obj =~= (|o: O| seq![o]));
            assert forall|ty: Seq<O>, a: Seq<O>| #[trigger] is_flat_image(ty, a, obj) implies ty =~= a by { lemma_flat_identity(ty, a); }
            assert(dma_sizes(*f, obj));
            assert forall|ops: Operations<O, A>| #[trigger] is_ops_of(*f, ops) implies strict_typed(*this, ops) by {
                lemma_flat_identity_rev(ops.a.values@); lemma_flat_identity_rev(ops.b.values@);
            }
            assert forall|fw: IndexedCoproduct<SemifiniteFunction<O>>, fx: OpenHypergraph<O, A>, ops: Operations<O, A>, rr: OpenHypergraph<O, A>|
                    is_object_image(fw, f.h.w@, obj) && #[trigger] is_ops_of(*f, ops) && is_tensor_ops(fx, ops) && #[trigger] is_substitution(rr, *f, fw, fx)
                    implies exists|phi: Seq<usize>| #[trigger] node_iso(rr, *f, phi) by {
                let obj1 = |o: O| seq![o];
                assert(is_object_image(fw, f.h.w@, obj1)) by {
                    assert forall|i: int| 0 <= i < f.h.w@.len() implies #[trigger] seg_is(fw, i, obj1(f.h.w@[i])) by { assert(seg_is(fw, i, obj(f.h.w@[i]))); }
                }
                let phi = lemma_identity_subst_iso(*f, fw, fx, ops, rr);
            }''')])
