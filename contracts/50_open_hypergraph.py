# Layer 3b: strict open hypergraphs (src/strict/open_hypergraph/arrow.rs, src/category/spider.rs).
# Properties C01, C02, C04, C05, C17.
OH = 'src/strict/open_hypergraph/arrow.rs'
SP = 'src/category/spider.rs'

module('open_hypergraph', uses=['vstd::std_specs::cmp::*'])

typedef(OH, 'InvalidOpenHypergraph', extra_attrs=['#[derive(Debug)]'])
typedef(OH, 'OpenHypergraph')

raw(r'''
impl<O, A> OpenHypergraph<O, A> {
    /// deep well-formedness of a cospan of hypergraphs
    pub open spec fn wf(&self) -> bool {
        &&& self.h.wf()
        &&& self.s.wf() && self.t.wf()
        &&& self.s.target == self.h.w@.len()
        &&& self.t.target == self.h.w@.len()
    }
    /// source / target type: the labels of the interface nodes, in order
    pub open spec fn src_type(&self) -> Seq<O> { Seq::new(self.s.table@.len(), |i: int| self.h.w@[self.s.table@[i] as int]) }
    pub open spec fn tgt_type(&self) -> Seq<O> { Seq::new(self.t.table@.len(), |i: int| self.h.w@[self.t.table@[i] as int]) }
}

/// the boundary pairs of a composition f ; g inside the juxtaposition of f and g:
/// the i-th output node of f  ~  the i-th input node of g (shifted by f's node count)
pub open spec fn glue_left<O, A>(f: OpenHypergraph<O, A>) -> Seq<usize> { f.t.table@ }
pub open spec fn glue_right<O, A>(f: OpenHypergraph<O, A>, g: OpenHypergraph<O, A>) -> Seq<usize> {
    Seq::new(g.s.table@.len(), |i: int| (f.h.w@.len() + g.s.table@[i]) as usize)
}

/// node v of the juxtaposition f + g  (v < nf: node of f, else node v - nf of g)
pub open spec fn jux_label<O, A>(f: OpenHypergraph<O, A>, g: OpenHypergraph<O, A>, v: int) -> O {
    if v < f.h.w@.len() { f.h.w@[v] } else { g.h.w@[v - f.h.w@.len()] }
}

/// r is the quotient of the juxtaposition of f and g by q:
/// every hyperedge keeps its label and its ordered source and target lists (read through q),
/// every new node carries the label of its class, interfaces are f's inputs and g's outputs.
pub open spec fn is_quotient_of_jux<O, A>(f: OpenHypergraph<O, A>, g: OpenHypergraph<O, A>, r: OpenHypergraph<O, A>, q: Seq<usize>, k: int) -> bool {
    let nf = f.h.w@.len() as int;
    let ng = g.h.w@.len() as int;
    &&& q.len() == nf + ng
    &&& r.h.w@.len() == k
    &&& (forall|v: int| 0 <= v < nf + ng ==> r.h.w@[q[v] as int] == jux_label(f, g, v))
    &&& r.h.x@ == f.h.x@ + g.h.x@
    // ordered source lists
    &&& r.h.s.sources.table@ == f.h.s.sources.table@ + g.h.s.sources.table@
    &&& r.h.s.values.table@.len() == f.h.s.values.table@.len() + g.h.s.values.table@.len()
    &&& (forall|i: int| 0 <= i < f.h.s.values.table@.len() ==> r.h.s.values.table@[i] == q[f.h.s.values.table@[i] as int])
    &&& (forall|i: int| f.h.s.values.table@.len() <= i < f.h.s.values.table@.len() + g.h.s.values.table@.len()
            ==> r.h.s.values.table@[i] == q[nf + g.h.s.values.table@[i - f.h.s.values.table@.len()]])
    // ordered target lists
    &&& r.h.t.sources.table@ == f.h.t.sources.table@ + g.h.t.sources.table@
    &&& r.h.t.values.table@.len() == f.h.t.values.table@.len() + g.h.t.values.table@.len()
    &&& (forall|i: int| 0 <= i < f.h.t.values.table@.len() ==> r.h.t.values.table@[i] == q[f.h.t.values.table@[i] as int])
    &&& (forall|i: int| f.h.t.values.table@.len() <= i < f.h.t.values.table@.len() + g.h.t.values.table@.len()
            ==> r.h.t.values.table@[i] == q[nf + g.h.t.values.table@[i - f.h.t.values.table@.len()]])
    // interfaces
    &&& r.s.table@.len() == f.s.table@.len() && (forall|i: int| 0 <= i < f.s.table@.len() ==> r.s.table@[i] == q[f.s.table@[i] as int])
    &&& r.t.table@.len() == g.t.table@.len() && (forall|i: int| 0 <= i < g.t.table@.len() ==> r.t.table@[i] == q[nf + g.t.table@[i]])
}

/// C01: r is a pushout of f and g along their shared boundary
pub open spec fn is_pushout<O, A>(f: OpenHypergraph<O, A>, g: OpenHypergraph<O, A>, r: OpenHypergraph<O, A>) -> bool {
    exists|q: Seq<usize>, k: int|
        is_coeq(q, k, glue_left(f), glue_right(f, g), (f.h.w@.len() + g.h.w@.len()) as int)
        && #[trigger] is_quotient_of_jux(f, g, r, q, k)
}

pub open spec fn fits_open<O, A>(f: OpenHypergraph<O, A>, g: OpenHypergraph<O, A>) -> bool {
    &&& fits(f.h, g.h)
    &&& f.s.table@.len() + g.s.table@.len() <= usize::MAX
    &&& f.t.table@.len() + g.t.table@.len() <= usize::MAX
}
''')

group('impl<O: Clone, A: Clone> Clone for OpenHypergraph<O, A>')
fn(OH, 'clone', trait='Clone', self_ty='OpenHypergraph', status='P', props=['C04', 'C05'],
   ensures=[('C05.oh-clone', '''r.s.table@ == self.s.table@ && r.s.target == self.s.target && r.t.table@ == self.t.table@ && r.t.target == self.t.target
                && r.h.s.sources.table@ == self.h.s.sources.table@ && r.h.s.sources.target == self.h.s.sources.target
                && r.h.s.values.table@ == self.h.s.values.table@ && r.h.s.values.target == self.h.s.values.target
                && r.h.t.sources.table@ == self.h.t.sources.table@ && r.h.t.sources.target == self.h.t.sources.target
                && r.h.t.values.table@ == self.h.t.values.table@ && r.h.t.values.target == self.h.t.values.target
                && r.h.w@.len() == self.h.w@.len() && r.h.x@.len() == self.h.x@.len()
                && (lawful_clone::<O>() ==> r.h.w@ == self.h.w@) && (lawful_clone::<A>() ==> r.h.x@ == self.h.x@)''')])
endgroup()

group('impl<O: Clone, A: Clone> OpenHypergraph<O, A>')
fn(OH, 'new', self_ty='OpenHypergraph', status='P', props=['C05'],
   ensures=[('C05.oh-new-iff', '''r.is_ok() <==> (h.s.sources.table@.len() == h.x@.len() && h.t.sources.table@.len() == h.x@.len()
                && h.s.values.target == h.w@.len() && h.t.values.target == h.w@.len() && s.target == h.w@.len() && t.target == h.w@.len())'''),
            ('C05.oh-new-same', 'match r { Ok(f) => f.s == s && f.t == t && f.h == h, Err(_) => true }')])
fn(OH, 'validate', self_ty='OpenHypergraph', status='P', props=['C05'],
   ensures=[('C05.oh-validate-iff', '''r.is_ok() <==> (self.h.s.sources.table@.len() == self.h.x@.len() && self.h.t.sources.table@.len() == self.h.x@.len()
                && self.h.s.values.target == self.h.w@.len() && self.h.t.values.target == self.h.w@.len()
                && self.s.target == self.h.w@.len() && self.t.target == self.h.w@.len())'''),
            ('C05.oh-validate-same', 'match r { Ok(f) => f.s == self.s && f.t == self.t && f.h == self.h, Err(_) => true }'),
            # the variant produced by `?` (From<InvalidHypergraph>) is opaque to Verus: that exit is covered by the disjunct
            ('C05.oh-validate-err', '''({ let hg_ok = self.h.s.sources.table@.len() == self.h.x@.len() && self.h.t.sources.table@.len() == self.h.x@.len()
                        && self.h.s.values.target == self.h.w@.len() && self.h.t.values.target == self.h.w@.len();
                  match r { Ok(_) => true, Err(e) => !hg_ok || match e {
                    InvalidOpenHypergraph::CospanSourceType(a, b) => a == self.s.target && b == self.h.w@.len() && a != b,
                    InvalidOpenHypergraph::CospanTargetType(a, b) => a == self.t.target && b == self.h.w@.len() && a != b,
                    InvalidOpenHypergraph::InvalidHypergraph(_) => false,
                } } })''')],
   rules={'try_from': True})
fn(OH, 'singleton', self_ty='OpenHypergraph', status='P', props=['C05'],
   requires=['a@.len() + b@.len() < usize::MAX'],
   ensures=[('C05.singleton', '''r.h.x@.len() == 1 && (lawful_clone::<A>() ==> r.h.x@[0] == x)
                && r.h.w@.len() == a@.len() + b@.len() && (lawful_clone::<O>() ==> r.h.w@ == a@ + b@)
                && r.h.s.sources.table@ =~= seq![a@.len() as usize] && r.h.t.sources.table@ =~= seq![b@.len() as usize]
                && r.s.table@.len() == a@.len() && (forall|i: int| 0 <= i < a@.len() ==> r.s.table@[i] == i && r.h.s.values.table@[i] == i)
                && r.t.table@.len() == b@.len() && (forall|i: int| 0 <= i < b@.len() ==> r.t.table@[i] == a@.len() + i && r.h.t.values.table@[i] == a@.len() + i)
                && r.h.s.values.table@.len() == a@.len() && r.h.t.values.table@.len() == b@.len()'''),
            ('C05.singleton-wf', 'r.wf()')])
fn(OH, 'tensor_operations', self_ty='OpenHypergraph', status='P', props=['C05'],
   requires=['operations.wf()', 'operations.a.values@.len() + operations.b.values@.len() < usize::MAX', 'operations.x@.len() < usize::MAX'],
   ensures=[('C05.oh-tensor_operations', '''r.h.x == operations.x && r.h.s.sources == operations.a.sources && r.h.t.sources == operations.b.sources
                && r.s.table@ == r.h.s.values.table@ && r.t.table@ == r.h.t.values.table@
                && r.s.table@.len() == operations.a.values@.len() && (forall|i: int| 0 <= i < operations.a.values@.len() ==> r.s.table@[i] == i)
                && r.t.table@.len() == operations.b.values@.len() && (forall|i: int| 0 <= i < operations.b.values@.len() ==> r.t.table@[i] == operations.a.values@.len() + i)
                && r.h.w@.len() == operations.a.values@.len() + operations.b.values@.len()
                && (lawful_clone::<O>() ==> r.h.w@ == operations.a.values@ + operations.b.values@)'''),
            ('C05.oh-tensor_operations-wf', 'r.wf()')])
fn(OH, 'source', self_ty='OpenHypergraph', nth=0, status='P', props=['C05', 'C01'], rules={'ops': ['shr']},
   requires=['self.wf()'],
   ensures=[('C05.source', 'r@.len() == self.s.table@.len() && (lawful_clone::<O>() ==> r@ =~= self.src_type())')])
fn(OH, 'target', self_ty='OpenHypergraph', nth=0, status='P', props=['C05', 'C01'], rules={'ops': ['shr']},
   requires=['self.wf()'],
   ensures=[('C05.target', 'r@.len() == self.t.table@.len() && (lawful_clone::<O>() ==> r@ =~= self.tgt_type())')])
fn(OH, 'identity', self_ty='OpenHypergraph', nth=0, status='P', props=['C05', 'C04'],
   ensures=[('C05.identity', '''r.h.w == w && r.h.x@.len() == 0 && r.h.s.sources.table@.len() == 0 && r.h.t.sources.table@.len() == 0
                && r.s.table@.len() == w@.len() && r.t.table@.len() == w@.len()
                && (forall|i: int| 0 <= i < w@.len() ==> r.s.table@[i] == i && r.t.table@[i] == i)'''),
            ('C05.identity-wf', 'r.wf()'),
            ('C03.identity-pred', 'is_identity_on(r, w@)')])
fn(OH, 'spider', self_ty='OpenHypergraph', nth=0, status='P', props=['C04', 'C05'],
   requires=['s.wf()', 't.wf()'],
   ensures=[('C04.spider-iff', 'r.is_some() <==> (s.target == w@.len() && t.target == w@.len())'),
            ('C04.spider', 'r.is_some() ==> r.unwrap().s == s && r.unwrap().t == t && r.unwrap().h.w == w && r.unwrap().h.x@.len() == 0 && r.unwrap().h.s.sources.table@.len() == 0 && r.unwrap().h.t.sources.table@.len() == 0'),
            ('C05.spider-wf', 'r.is_some() ==> r.unwrap().wf()')])
endgroup()

group('impl<O: Clone + PartialEq, A: Clone> OpenHypergraph<O, A>')
fn(OH, 'compose', self_ty='OpenHypergraph', nth=0, status='P', props=['C01', 'C05', 'C03', 'C04', 'C20'],
   requires=['self.wf()', 'other.wf()', 'fits_open(*self, *other)', 'lawful_clone::<O>()', 'lawful_clone::<A>()', 'lawful_eq::<O>()'],
   ensures=[('C01.defined', 'r.is_some() <==> self.tgt_type() =~= other.src_type()'),
            ('C01.pushout', 'r.is_some() ==> is_pushout(*self, *other, r.unwrap())'),
            ('C05.compose-wf', 'r.is_some() ==> r.unwrap().wf()'),
            ('C05.compose-type', 'r.is_some() ==> r.unwrap().src_type() =~= self.src_type() && r.unwrap().tgt_type() =~= other.tgt_type()'),
            ('C05.compose-sizes', '''r.is_some() ==> ({ let o = r.unwrap();
                o.h.w@.len() <= self.h.w@.len() + other.h.w@.len() && o.h.x@.len() == self.h.x@.len() + other.h.x@.len()
                && o.h.s.values.table@.len() == self.h.s.values.table@.len() + other.h.s.values.table@.len()
                && o.h.t.values.table@.len() == self.h.t.values.table@.len() + other.h.t.values.table@.len()
                && o.s.table@.len() == self.s.table@.len() && o.t.table@.len() == other.t.table@.len() })''')],
   proofs=[('after:let q = q_lhs.coequalizer(&q_rhs)', '''let nf = self.h.w@.len() as int; let ng = other.h.w@.len() as int;
            assert(q_lhs.table@ =~= glue_left(*self));
            assert(q_rhs.table@ =~= glue_right(*self, *other));
            // labels agree on every glued pair, hence are constant on the classes of q
            let wj = Seq::new((nf + ng) as nat, |v: int| jux_label(*self, *other, v));
            assert forall|j: int| 0 <= j < q_lhs.table@.len() implies 0 <= #[trigger] q_lhs.table@[j] < nf + ng && 0 <= q_rhs.table@[j] < nf + ng
                    && wj[q_lhs.table@[j] as int] == wj[q_rhs.table@[j] as int] by {
                assert(self.tgt_type()[j] == other.src_type()[j]);
            }
            lemma_labels_constant(q.table@, q.target as int, q_lhs.table@, q_rhs.table@, nf + ng, wj);
            if nf + ng == 0 && q.target > 0 { assert(hit(q.table@, 0, 0)); }'''),
           ('before:Some(OpenHypergraph { s, t, h })', '''let nf = self.h.w@.len() as int; let ng = other.h.w@.len() as int;
            let out = OpenHypergraph { s, t, h };
            let qq = q.table@; let kk = q.target as int;
            assert(qq.len() == nf + ng);
            assert(out.h.w@.len() == kk);
            assert forall|v: int| 0 <= v < nf + ng implies out.h.w@[#[trigger] qq[v] as int] == jux_label(*self, *other, v) by {
                assert((self.h.w@ + other.h.w@)[v] == jux_label(*self, *other, v));
            }
            assert(out.h.x@ == self.h.x@ + other.h.x@);
            assert(out.h.s.sources.table@ == self.h.s.sources.table@ + other.h.s.sources.table@);
            assert(forall|i: int| 0 <= i < self.h.s.values.table@.len() ==> out.h.s.values.table@[i] == qq[self.h.s.values.table@[i] as int]);
            assert(forall|i: int| self.h.s.values.table@.len() <= i < self.h.s.values.table@.len() + other.h.s.values.table@.len()
                ==> out.h.s.values.table@[i] == qq[nf + other.h.s.values.table@[i - self.h.s.values.table@.len()]]);
            assert(forall|i: int| 0 <= i < self.s.table@.len() ==> out.s.table@[i] == qq[self.s.table@[i] as int]);
            assert(forall|i: int| 0 <= i < other.t.table@.len() ==> out.t.table@[i] == qq[nf + other.t.table@[i]]);
            assert(is_quotient_of_jux(*self, *other, out, q.table@, q.target as int));
            assert(is_coeq(q.table@, q.target as int, glue_left(*self), glue_right(*self, *other), nf + ng));
            assert forall|i: int| 0 <= i < self.s.table@.len() implies out.src_type()[i] == self.src_type()[i] by {
                assert(out.h.w@[qq[self.s.table@[i] as int] as int] == jux_label(*self, *other, self.s.table@[i] as int));
            }
            assert forall|i: int| 0 <= i < other.t.table@.len() implies out.tgt_type()[i] == other.tgt_type()[i] by {
                assert(out.h.w@[qq[nf + other.t.table@[i]] as int] == jux_label(*self, *other, nf + other.t.table@[i]));
            }''')])
endgroup()

raw(r'''
impl vstd::std_specs::convert::FromSpecImpl<InvalidHypergraph> for InvalidOpenHypergraph {
    open spec fn obeys_from_spec() -> bool { true }
    open spec fn from_spec(v: InvalidHypergraph) -> Self { InvalidOpenHypergraph::InvalidHypergraph(v) }
}
''')
group('impl From<InvalidHypergraph> for InvalidOpenHypergraph')
fn(OH, 'from', trait='From', self_ty='InvalidOpenHypergraph', status='P', props=['C05'])
endgroup()

raw(r'''
// ---------------------------------------------------------------------------------------------
// C02, "consequently" clause: juxtaposition is associative and unital on the nose (lemmas over the contract of tensor)
// ---------------------------------------------------------------------------------------------
/// r is f followed by g (the postcondition of `tensor`, as one predicate)
pub open spec fn is_tensor<O, A>(r: OpenHypergraph<O, A>, f: OpenHypergraph<O, A>, g: OpenHypergraph<O, A>) -> bool {
    &&& r.wf()
    &&& juxtaposed(r.h.s, f.h.s, g.h.s) && juxtaposed(r.h.t, f.h.t, g.h.t)
    &&& r.h.w@ == f.h.w@ + g.h.w@ && r.h.x@ == f.h.x@ + g.h.x@
    &&& r.s.table@.len() == f.s.table@.len() + g.s.table@.len()
    &&& (forall|i: int| 0 <= i < f.s.table@.len() ==> r.s.table@[i] == f.s.table@[i])
    &&& (forall|i: int| f.s.table@.len() <= i < f.s.table@.len() + g.s.table@.len() ==> r.s.table@[i] == f.h.w@.len() + g.s.table@[i - f.s.table@.len()])
    &&& r.t.table@.len() == f.t.table@.len() + g.t.table@.len()
    &&& (forall|i: int| 0 <= i < f.t.table@.len() ==> r.t.table@[i] == f.t.table@[i])
    &&& (forall|i: int| f.t.table@.len() <= i < f.t.table@.len() + g.t.table@.len() ==> r.t.table@[i] == f.h.w@.len() + g.t.table@[i - f.t.table@.len()])
    &&& r.s.target == f.h.w@.len() + g.h.w@.len() && r.t.target == f.h.w@.len() + g.h.w@.len()
}

/// equal data: every array and every codomain agree
pub open spec fn same_data<O, A>(a: OpenHypergraph<O, A>, b: OpenHypergraph<O, A>) -> bool {
    &&& a.s.table@ == b.s.table@ && a.s.target == b.s.target && a.t.table@ == b.t.table@ && a.t.target == b.t.target
    &&& a.h.w@ == b.h.w@ && a.h.x@ == b.h.x@
    &&& a.h.s.sources.table@ == b.h.s.sources.table@ && a.h.s.sources.target == b.h.s.sources.target
    &&& a.h.s.values.table@ == b.h.s.values.table@ && a.h.s.values.target == b.h.s.values.target
    &&& a.h.t.sources.table@ == b.h.t.sources.table@ && a.h.t.sources.target == b.h.t.sources.target
    &&& a.h.t.values.table@ == b.h.t.values.table@ && a.h.t.values.target == b.h.t.values.target
}

pub proof fn lemma_juxtaposed_assoc(r1: IndexedCoproduct<FiniteFunction>, ab: IndexedCoproduct<FiniteFunction>, r2: IndexedCoproduct<FiniteFunction>, bc: IndexedCoproduct<FiniteFunction>,
                                    a: IndexedCoproduct<FiniteFunction>, b: IndexedCoproduct<FiniteFunction>, c: IndexedCoproduct<FiniteFunction>)
    requires juxtaposed(ab, a, b), juxtaposed(r1, ab, c), juxtaposed(bc, b, c), juxtaposed(r2, a, bc)
    ensures r1.sources.table@ =~= r2.sources.table@, r1.values.table@ =~= r2.values.table@, r1.values.target == r2.values.target
{
    let la = a.values.table@.len() as int; let lb = b.values.table@.len() as int;
    assert forall|i: int| 0 <= i < r1.values.table@.len() implies r1.values.table@[i] == r2.values.table@[i] by {
        if i < la { assert(ab.values.table@[i] == a.values.table@[i]); }
        else if i < la + lb { assert(ab.values.table@[i] == a.values.target + b.values.table@[i - la]); assert(bc.values.table@[i - la] == b.values.table@[i - la]); }
        else { assert(bc.values.table@[i - la] == b.values.target + c.values.table@[i - la - lb]); }
    }
}

/// (f | g) | h and f | (g | h) are the same data
pub proof fn lemma_tensor_assoc<O, A>(r1: OpenHypergraph<O, A>, fg: OpenHypergraph<O, A>, r2: OpenHypergraph<O, A>, gh: OpenHypergraph<O, A>,
                                      f: OpenHypergraph<O, A>, g: OpenHypergraph<O, A>, h: OpenHypergraph<O, A>)
    requires is_tensor(fg, f, g), is_tensor(r1, fg, h), is_tensor(gh, g, h), is_tensor(r2, f, gh)
    ensures same_data(r1, r2)
{
    lemma_juxtaposed_assoc(r1.h.s, fg.h.s, r2.h.s, gh.h.s, f.h.s, g.h.s, h.h.s);
    lemma_juxtaposed_assoc(r1.h.t, fg.h.t, r2.h.t, gh.h.t, f.h.t, g.h.t, h.h.t);
    assert(r1.h.w@ =~= r2.h.w@); assert(r1.h.x@ =~= r2.h.x@);
    let a = f.s.table@.len() as int; let b = g.s.table@.len() as int;
    assert(r1.s.table@ =~= r2.s.table@) by {
        assert forall|i: int| 0 <= i < r1.s.table@.len() implies r1.s.table@[i] == r2.s.table@[i] by {
            if i < a { assert(fg.s.table@[i] == f.s.table@[i]); }
            else if i < a + b { assert(fg.s.table@[i] == f.h.w@.len() + g.s.table@[i - a]); assert(gh.s.table@[i - a] == g.s.table@[i - a]); }
            else { assert(gh.s.table@[i - a] == g.h.w@.len() + h.s.table@[i - a - b]); }
        }
    }
    let a2 = f.t.table@.len() as int; let b2 = g.t.table@.len() as int;
    assert(r1.t.table@ =~= r2.t.table@) by {
        assert forall|i: int| 0 <= i < r1.t.table@.len() implies r1.t.table@[i] == r2.t.table@[i] by {
            if i < a2 { assert(fg.t.table@[i] == f.t.table@[i]); }
            else if i < a2 + b2 { assert(fg.t.table@[i] == f.h.w@.len() + g.t.table@[i - a2]); assert(gh.t.table@[i - a2] == g.t.table@[i - a2]); }
            else { assert(gh.t.table@[i - a2] == g.h.w@.len() + h.t.table@[i - a2 - b2]); }
        }
    }
}

/// the empty diagram is a two-sided unit: f | e and e | f are the same data as f
pub proof fn lemma_tensor_unit<O, A>(r: OpenHypergraph<O, A>, l: OpenHypergraph<O, A>, f: OpenHypergraph<O, A>, e: OpenHypergraph<O, A>)
    requires f.wf(), e.wf(), e.h.w@.len() == 0, e.h.x@.len() == 0, e.s.table@.len() == 0, e.t.table@.len() == 0,
        is_tensor(r, f, e), is_tensor(l, e, f)
    ensures same_data(r, f), same_data(l, f)
{
    assert(e.h.s.values.table@.len() == 0 && e.h.t.values.table@.len() == 0) by {
        lemma_psum_const(e.h.s.sources.table@, 0usize, 0); lemma_psum_const(e.h.t.sources.table@, 0usize, 0);
    }
    assert(r.h.s.values.table@ =~= f.h.s.values.table@ && r.h.t.values.table@ =~= f.h.t.values.table@);
    assert(l.h.s.values.table@ =~= f.h.s.values.table@ && l.h.t.values.table@ =~= f.h.t.values.table@);
    assert(r.h.s.sources.table@ =~= f.h.s.sources.table@ && r.h.t.sources.table@ =~= f.h.t.sources.table@);
    assert(l.h.s.sources.table@ =~= f.h.s.sources.table@ && l.h.t.sources.table@ =~= f.h.t.sources.table@);
    assert(r.s.table@ =~= f.s.table@ && r.t.table@ =~= f.t.table@ && l.s.table@ =~= f.s.table@ && l.t.table@ =~= f.t.table@);
    assert(r.h.w@ =~= f.h.w@ && l.h.w@ =~= f.h.w@ && r.h.x@ =~= f.h.x@ && l.h.x@ =~= f.h.x@);
}
''')

raw(r'''
// ---------------------------------------------------------------------------------------------
// C04: dagger is an involution and distributes over tensor, on the nose (lemmas over the contracts of dagger and tensor)
// ---------------------------------------------------------------------------------------------
/// r is f with the two interfaces swapped (the postcondition of `dagger`, as one predicate)
pub open spec fn is_dagger<O, A>(r: OpenHypergraph<O, A>, f: OpenHypergraph<O, A>) -> bool {
    &&& r.s.table@ == f.t.table@ && r.s.target == f.t.target && r.t.table@ == f.s.table@ && r.t.target == f.s.target
    &&& r.h.s.sources.table@ == f.h.s.sources.table@ && r.h.s.sources.target == f.h.s.sources.target
    &&& r.h.s.values.table@ == f.h.s.values.table@ && r.h.s.values.target == f.h.s.values.target
    &&& r.h.t.sources.table@ == f.h.t.sources.table@ && r.h.t.sources.target == f.h.t.sources.target
    &&& r.h.t.values.table@ == f.h.t.values.table@ && r.h.t.values.target == f.h.t.values.target
    &&& r.h.w@ == f.h.w@ && r.h.x@ == f.h.x@
}

pub proof fn lemma_dagger_involution<O, A>(r: OpenHypergraph<O, A>, d: OpenHypergraph<O, A>, f: OpenHypergraph<O, A>)
    requires is_dagger(d, f), is_dagger(r, d)
    ensures same_data(r, f)
{
}

/// (f | g)† and f† | g† are the same data
pub proof fn lemma_dagger_tensor<O, A>(r1: OpenHypergraph<O, A>, fg: OpenHypergraph<O, A>, r2: OpenHypergraph<O, A>, df: OpenHypergraph<O, A>, dg: OpenHypergraph<O, A>,
                                       f: OpenHypergraph<O, A>, g: OpenHypergraph<O, A>)
    requires is_tensor(fg, f, g), is_dagger(r1, fg), is_dagger(df, f), is_dagger(dg, g), is_tensor(r2, df, dg)
    ensures same_data(r1, r2)
{
    assert(r1.s.table@ =~= r2.s.table@);
    assert(r1.t.table@ =~= r2.t.table@);
    assert(r1.h.s.values.table@ =~= r2.h.s.values.table@);
    assert(r1.h.t.values.table@ =~= r2.h.t.values.table@);
    assert(r1.h.s.sources.table@ =~= r2.h.s.sources.table@);
    assert(r1.h.t.sources.table@ =~= r2.h.t.sources.table@);
    assert(r1.h.s.sources.target == r2.h.s.sources.target && r1.h.t.sources.target == r2.h.t.sources.target) by {
        assert(r2.wf() && fg.wf());
    }
}
''')

group('impl<O: Clone + PartialEq, A: Clone> OpenHypergraph<O, A>')
# impl Monoidal
fn(OH, 'unit', trait='Monoidal', self_ty='OpenHypergraph', status='P', props=['C02'], rules={'subst': {'Self::Object': 'SemifiniteFunction<O>'}},
   ensures=[('C02.unit', 'r@.len() == 0')])
fn(OH, 'tensor', trait='Monoidal', self_ty='OpenHypergraph', status='P', props=['C02', 'C05', 'C01'], rules={'ops': ['bitor', 'add']},
   requires=['self.wf()', 'other.wf()', 'fits_open(*self, *other)'],
   ensures=[('C02.tensor-hypergraph', '''juxtaposed(r.h.s, self.h.s, other.h.s) && juxtaposed(r.h.t, self.h.t, other.h.t)
                && r.h.w@.len() == self.h.w@.len() + other.h.w@.len() && r.h.x@.len() == self.h.x@.len() + other.h.x@.len()
                && (lawful_clone::<O>() ==> r.h.w@ == self.h.w@ + other.h.w@) && (lawful_clone::<A>() ==> r.h.x@ == self.h.x@ + other.h.x@)'''),
            ('C02.tensor-interfaces', '''r.s.table@.len() == self.s.table@.len() + other.s.table@.len()
                && (forall|i: int| 0 <= i < self.s.table@.len() ==> r.s.table@[i] == self.s.table@[i])
                && (forall|i: int| self.s.table@.len() <= i < self.s.table@.len() + other.s.table@.len() ==> r.s.table@[i] == self.h.w@.len() + other.s.table@[i - self.s.table@.len()])
                && r.t.table@.len() == self.t.table@.len() + other.t.table@.len()
                && (forall|i: int| 0 <= i < self.t.table@.len() ==> r.t.table@[i] == self.t.table@[i])
                && (forall|i: int| self.t.table@.len() <= i < self.t.table@.len() + other.t.table@.len() ==> r.t.table@[i] == self.h.w@.len() + other.t.table@[i - self.t.table@.len()])
                && r.s.target == self.h.w@.len() + other.h.w@.len() && r.t.target == self.h.w@.len() + other.h.w@.len()'''),
            ('C05.tensor-wf', 'r.wf()'),
            ('C05.tensor-type', 'lawful_clone::<O>() ==> r.src_type() =~= self.src_type() + other.src_type() && r.tgt_type() =~= self.tgt_type() + other.tgt_type()'),
            ('C02.tensor', 'lawful_clone::<O>() && lawful_clone::<A>() ==> is_tensor(r, *self, *other)')])
# impl SymmetricMonoidal
fn(OH, 'twist', trait='SymmetricMonoidal', self_ty='OpenHypergraph', status='P', props=['C04', 'C05', 'C03'],
   rules={'ops': ['add'], 'subst': {'Self::Object': 'SemifiniteFunction<O>'}},
   requires=['a@.len() + b@.len() <= usize::MAX'],
   ensures=[('C05.twist', '''r.h.x@.len() == 0 && r.h.s.sources.table@.len() == 0 && r.h.t.sources.table@.len() == 0
                && r.h.w@.len() == a@.len() + b@.len() && (lawful_clone::<O>() ==> r.h.w@ == b@ + a@)
                && r.s.table@.len() == a@.len() + b@.len() && r.t.table@.len() == a@.len() + b@.len()
                && (forall|i: int| 0 <= i < a@.len() ==> r.s.table@[i] == b@.len() + i)
                && (forall|i: int| a@.len() <= i < a@.len() + b@.len() ==> r.s.table@[i] == i - a@.len())
                && (forall|i: int| 0 <= i < a@.len() + b@.len() ==> r.t.table@[i] == i)'''),
            ('C05.twist-wf', 'r.wf()'),
            ('C03.twist-pred', 'lawful_clone::<O>() ==> is_twist(r, a@, b@)')])
# impl Spider
fn(OH, 'dagger', trait='Spider', self_ty='OpenHypergraph', status='P', props=['C04', 'C05'],
   requires=['self.wf()'],
   ensures=[('C04.dagger-swap', 'r.s.table@ == self.t.table@ && r.s.target == self.t.target && r.t.table@ == self.s.table@ && r.t.target == self.s.target'),
            ('C04.dagger-untouched', '''r.h.s.sources.table@ == self.h.s.sources.table@ && r.h.s.sources.target == self.h.s.sources.target
                && r.h.s.values.table@ == self.h.s.values.table@ && r.h.s.values.target == self.h.s.values.target
                && r.h.t.sources.table@ == self.h.t.sources.table@ && r.h.t.sources.target == self.h.t.sources.target
                && r.h.t.values.table@ == self.h.t.values.table@ && r.h.t.values.target == self.h.t.values.target
                && r.h.w@.len() == self.h.w@.len() && r.h.x@.len() == self.h.x@.len()
                && (lawful_clone::<O>() ==> r.h.w@ == self.h.w@) && (lawful_clone::<A>() ==> r.h.x@ == self.h.x@)'''),
            ('C04.dagger', 'lawful_clone::<O>() && lawful_clone::<A>() ==> is_dagger(r, *self)'),
            ('C05.dagger-wf', 'r.wf()')])
fn(OH, 'spider', trait='Spider', self_ty='OpenHypergraph', status='P', props=['C04', 'C05'], rename='spider_trait',
   rules={'subst': {'Self::Object': 'SemifiniteFunction<O>'}},
   requires=['s.wf()', 't.wf()'],
   ensures=[('C04.spider-trait-iff', 'r.is_some() <==> (s.target == w@.len() && t.target == w@.len())'),
            ('C04.spider-trait', 'r.is_some() ==> r.unwrap().s == s && r.unwrap().t == t && r.unwrap().h.w == w && r.unwrap().h.x@.len() == 0 && r.unwrap().wf()')])
fn(SP, 'half_spider', kind='trait', trait='Spider', status='P', props=['C04', 'C05'],
   rules={'subst': {'Self::Object': 'SemifiniteFunction<O>'}, 'rename_calls': {'Self::spider': 'Self::spider_trait'}},
   requires=['s.wf()'],
   ensures=[('C04.half_spider-iff', 'r.is_some() <==> s.target == w@.len()'),
            ('C04.half_spider', '''r.is_some() ==> r.unwrap().s == s && r.unwrap().h.w == w && r.unwrap().h.x@.len() == 0 && r.unwrap().wf()
                && r.unwrap().t.table@.len() == s.target && (forall|i: int| 0 <= i < s.target ==> r.unwrap().t.table@[i] == i)''')])
# impl Arrow: one-line delegations to the inherent functions (renamed: same names would clash after T2)
fn(OH, 'source', trait='Arrow', self_ty='OpenHypergraph', status='P', props=['C05'], rename='arrow_source',
   rules={'subst': {'Self::Object': 'SemifiniteFunction<O>'}}, requires=['self.wf()'],
   ensures=[('C05.arrow-source', 'r@.len() == self.s.table@.len() && (lawful_clone::<O>() ==> r@ =~= self.src_type())')])
fn(OH, 'target', trait='Arrow', self_ty='OpenHypergraph', status='P', props=['C05'], rename='arrow_target',
   rules={'subst': {'Self::Object': 'SemifiniteFunction<O>'}}, requires=['self.wf()'],
   ensures=[('C05.arrow-target', 'r@.len() == self.t.table@.len() && (lawful_clone::<O>() ==> r@ =~= self.tgt_type())')])
fn(OH, 'identity', trait='Arrow', self_ty='OpenHypergraph', status='P', props=['C05'], rename='arrow_identity',
   rules={'subst': {'Self::Object': 'SemifiniteFunction<O>'}},
   ensures=[('C05.arrow-identity', 'r.h.w == w && r.h.x@.len() == 0 && r.s.table@.len() == w@.len() && r.t.table@.len() == w@.len() && r.wf()')])
fn(OH, 'compose', trait='Arrow', self_ty='OpenHypergraph', status='P', props=['C01', 'C05'], rename='arrow_compose',
   requires=['self.wf()', 'other.wf()', 'fits_open(*self, *other)', 'lawful_clone::<O>()', 'lawful_clone::<A>()', 'lawful_eq::<O>()'],
   ensures=[('C01.arrow-defined', 'r.is_some() <==> self.tgt_type() =~= other.src_type()'),
            ('C01.arrow-pushout', 'r.is_some() ==> is_pushout(*self, *other, r.unwrap()) && r.unwrap().wf()'),
            ('C05.arrow-compose-type', 'r.is_some() ==> r.unwrap().src_type() =~= self.src_type() && r.unwrap().tgt_type() =~= other.tgt_type()'),
            ('C05.arrow-compose-sizes', '''r.is_some() ==> ({ let o = r.unwrap();
                o.h.w@.len() <= self.h.w@.len() + other.h.w@.len() && o.h.x@.len() == self.h.x@.len() + other.h.x@.len()
                && o.h.s.values.table@.len() == self.h.s.values.table@.len() + other.h.s.values.table@.len()
                && o.h.t.values.table@.len() == self.h.t.values.table@.len() + other.h.t.values.table@.len()
                && o.s.table@.len() == self.s.table@.len() && o.t.table@.len() == other.t.table@.len() })''')])
endgroup()

opimpl(OH, 'Shr', 'OpenHypergraph', 'oh_shr', 'f', "&'a OpenHypergraph<O, A>", "&'b OpenHypergraph<O, A>", 'Option<OpenHypergraph<O, A>>',
       req=['f.wf()', 'rhs.wf()', 'fits_open(*f, *rhs)', 'lawful_clone::<O>()', 'lawful_clone::<A>()', 'lawful_eq::<O>()'],
       ens=['r.is_some() <==> f.tgt_type() =~= rhs.src_type()', 'r.is_some() ==> is_pushout(*f, *rhs, r.unwrap()) && r.unwrap().wf()',
            'r.is_some() ==> r.unwrap().src_type() =~= f.src_type() && r.unwrap().tgt_type() =~= rhs.tgt_type()'],
       labels=['C01.shr-defined', 'C01.shr-pushout', 'C05.shr-type'],
       impl_generics="<'a, 'b, O: Clone + PartialEq, A: Clone>", fn_generics='O: Clone + PartialEq, A: Clone', props=['C01'])
opimpl(OH, 'BitOr', 'OpenHypergraph', 'oh_bitor', 'f', "&'a OpenHypergraph<O, A>", "&'b OpenHypergraph<O, A>", 'OpenHypergraph<O, A>',
       req=['f.wf()', 'rhs.wf()', 'fits_open(*f, *rhs)'],
       ens=['juxtaposed(r.h.s, f.h.s, rhs.h.s) && juxtaposed(r.h.t, f.h.t, rhs.h.t) && r.h.w@.len() == f.h.w@.len() + rhs.h.w@.len() && r.h.x@.len() == f.h.x@.len() + rhs.h.x@.len()',
            'r.wf()'],
       labels=['C02.bitor', 'C05.bitor-wf'],
       impl_generics="<'a, 'b, O: Clone + PartialEq, A: Clone>", fn_generics='O: Clone + PartialEq, A: Clone', props=['C02'])

raw(r'''
/// C17: monogamy by definition: both interface maps injective, and every node is written exactly once
/// (by one hyperedge target position or one input position) and read exactly once (by one hyperedge
/// source position or one output position)
pub open spec fn monogamous<O, A>(f: OpenHypergraph<O, A>) -> bool {
    let n = f.h.w@.len() as int;
    &&& injective(f.s.table@)
    &&& injective(f.t.table@)
    &&& forall|v: int| 0 <= v < n ==> #[trigger] count(f.h.t.values.table@, v, f.h.t.values.table@.len() as int) + count(f.s.table@, v, f.s.table@.len() as int) == 1
    &&& forall|v: int| 0 <= v < n ==> #[trigger] count(f.h.s.values.table@, v, f.h.s.values.table@.len() as int) + count(f.t.table@, v, f.t.table@.len() as int) == 1
}
''')

group('impl<O: Clone, A: Clone> OpenHypergraph<O, A>')
fn(OH, 'is_monogamous', self_ty='OpenHypergraph', status='P', props=['C17'], rules={'asref': True, 'ops': ['add']},
   requires=['self.wf()', 'self.h.t.values.table@.len() < usize::MAX', 'self.h.s.values.table@.len() < usize::MAX'],
   ensures=[('C17.is_monogamous', 'r <==> monogamous(*self)')],
   proofs=[('start', 'assert(lawful_clone::<usize>()); assert(lawful_eq::<usize>());'),
           ('before:if in_counts.max()', 'lemma_counts_injective(self.s.table@, in_counts@, node_count as int);'),
           ('after:if in_counts.max()', '''assert forall|v: int| 0 <= v < node_count implies (#[trigger] in_counts@[v]) <= 1 by { }
            assert(injective(self.s.table@));'''),
           ('before:if out_counts.max()', 'lemma_counts_injective(self.t.table@, out_counts@, node_count as int);'),
           ('after:if out_counts.max()', '''assert forall|v: int| 0 <= v < node_count implies (#[trigger] out_counts@[v]) <= 1 by { }
            assert(injective(self.t.table@));'''),
           ('end', '''lemma_vecarray_usize_eq();
            assert forall|v: int| 0 <= v < node_count implies (#[trigger] in_degrees@[v]) + in_counts@[v] <= usize::MAX by {
                lemma_count_bounds(self.h.t.values.table@, v, self.h.t.values.table@.len() as int);
            }
            assert forall|v: int| 0 <= v < node_count implies (#[trigger] out_degrees@[v]) + out_counts@[v] <= usize::MAX by {
                lemma_count_bounds(self.h.s.values.table@, v, self.h.s.values.table@.len() as int);
            }
            assert forall|v: int| 0 <= v < node_count implies #[trigger] count(self.h.t.values.table@, v, self.h.t.values.table@.len() as int) == in_degrees@[v] by { }
            assert forall|v: int| 0 <= v < node_count implies #[trigger] count(self.h.s.values.table@, v, self.h.s.values.table@.len() as int) == out_degrees@[v] by { }
            assert forall|v: int| 0 <= v < node_count implies #[trigger] count(self.s.table@, v, self.s.table@.len() as int) == in_counts@[v] by { }
            assert forall|v: int| 0 <= v < node_count implies #[trigger] count(self.t.table@, v, self.t.table@.len() as int) == out_counts@[v] by { }
            assert(monogamous(*self) <==> ((forall|v: int| 0 <= v < node_count ==> (#[trigger] in_degrees@[v]) + in_counts@[v] == 1)
                && (forall|v: int| 0 <= v < node_count ==> (#[trigger] out_degrees@[v]) + out_counts@[v] == 1)));''')],
   closures={1: {'header': '|m: usize| -> (b: bool)', 'spec': 'ensures b == (m > 1usize),'},
             2: {'header': '|m: usize| -> (b: bool)', 'spec': 'ensures b == (m > 1usize),'}})
endgroup()
