import re,sys
def t1(src):
    s=src
    # drop doc comments / attrs we list as dropped
    s=re.sub(r'^\s*///.*\n','',s,flags=re.M)
    s=re.sub(r'^\s*#\[(must_use|allow|derive|deprecated|non_exhaustive)[^\n]*\]\s*\n','',s,flags=re.M)
    # where clauses (up to opening brace)
    s=re.sub(r'\n\s*where\b[^{]*?\{', ' {', s, flags=re.S)
    s=re.sub(r'\bwhere\b[^{;]*?\{', ' {', s, flags=re.S)
    # generics
    s=re.sub(r'<K: ArrayKind(?: \+ Debug)?,\s*','<',s)
    s=re.sub(r'<K: ArrayKind(?: \+ Debug)?>','',s)
    s=s.replace('::<K>','')
    s=re.sub(r'::<K,\s*','::<',s)
    s=re.sub(r'\b(FiniteFunction|SemifiniteFunction|IndexedCoproduct|Hypergraph|OpenHypergraph|Operations|HypergraphArrow|InvalidHypergraph|InvalidOpenHypergraph)<K,\s*','\\1<',s)
    s=re.sub(r'\b(FiniteFunction|InvalidHypergraph|InvalidOpenHypergraph)<K>','\\1',s)
    s=s.replace('K::I::zero()','0usize').replace('K::I::one()','1usize')
    s=re.sub(r'K::Type::<([^>]+)>','VecArray::<\\1>',s)
    s=re.sub(r'K::Type<K::I>','VecArray<usize>',s)
    s=re.sub(r'K::Type<([A-Za-z0-9_]+)>','VecArray<\\1>',s)
    s=s.replace('K::Index','VecArray::<usize>').replace('K::I','usize')
    s=re.sub(r"K::Slice<'_, ([A-Za-z0-9_:]+)>",'&[\\1]',s)
    s=re.sub(r'\((\w+(?:\.\w+)*)\.as_ref\(\) as &VecArray<usize>\)','\\1',s)
    s=s.replace('.is_zero()',' == 0usize')
    # range forms
    s=s.replace('.get_range(..)','.get_range_full()')
    s=re.sub(r'\.get_range\(\.\.([^.)][^)]*)\)','.get_range_to(\\1)',s)
    s=re.sub(r'\.get_range\(([^.)][^)]*?)\.\.\)','.get_range_from(\\1)',s)
    # asserts
    s=re.sub(r'assert_eq!\(([^,]+),\s*([^;]+)\);','rt_assert(\\1 == \\2);',s)
    return s
if __name__=='__main__':
    print(t1(open(sys.argv[1]).read()))
