use vstd::prelude::*;
use vstd::std_specs::cmp::*;
verus! {
pub struct VecArray<T>(pub Vec<T>);
impl<T> View for VecArray<T> { type V = Seq<T>; open spec fn view(&self) -> Seq<T> { self.0@ } }
#[verifier::external_body] pub fn rt_assert(c: bool) requires c { assert!(c) }
impl<T: Clone> Clone for VecArray<T> {
    #[verifier::external_body] fn clone(&self) -> (r: Self) { VecArray(self.0.clone()) }
}
impl<T: PartialEq> PartialEqSpecImpl for VecArray<T> {
    open spec fn obeys_eq_spec() -> bool { <Vec<T> as PartialEqSpec>::obeys_eq_spec() }
    open spec fn eq_spec(&self, other: &Self) -> bool { PartialEqSpec::eq_spec(&self.0, &other.0) }
}
impl<T: PartialEq> PartialEq for VecArray<T> { fn eq(&self, other: &Self) -> (r: bool) { self.0 == other.0 } }
impl<T: Clone> VecArray<T> {
    #[verifier::external_body] pub fn empty() -> Self { unimplemented!() }
    #[verifier::external_body] pub fn len(&self) -> usize { unimplemented!() }
    #[verifier::external_body] pub fn is_empty(&self) -> bool { unimplemented!() }
    #[verifier::external_body] pub fn concatenate(&self, other: &Self) -> Self { unimplemented!() }
    #[verifier::external_body] pub fn fill(x: T, n: usize) -> Self { unimplemented!() }
    #[verifier::external_body] pub fn get(&self, i: usize) -> T { unimplemented!() }
    #[verifier::external_body] pub fn get_range_full(&self) -> &[T] { unimplemented!() }
    #[verifier::external_body] pub fn get_range_from(&self, a: usize) -> &[T] { unimplemented!() }
    #[verifier::external_body] pub fn get_range_to(&self, b: usize) -> &[T] { unimplemented!() }
    #[verifier::external_body] pub fn get_range(&self, a: usize, b: usize) -> &[T] { unimplemented!() }
    #[verifier::external_body] pub fn gather(&self, idx: &[usize]) -> Self { unimplemented!() }
    #[verifier::external_body] pub fn scatter(&self, idx: &[usize], n: usize) -> Self { unimplemented!() }
    #[verifier::external_body] pub fn from_slice(s: &[T]) -> Self { unimplemented!() }
    #[verifier::external_body] pub fn scatter_assign(&mut self, ixs: &VecArray<usize>, values: Self) { unimplemented!() }
    #[verifier::external_body] pub fn scatter_assign_constant(&mut self, ixs: &VecArray<usize>, arg: T) { unimplemented!() }
}
impl VecArray<usize> {
    #[verifier::external_body] pub fn max(&self) -> Option<usize> { unimplemented!() }
    #[verifier::external_body] pub fn cumulative_sum(&self) -> Self { unimplemented!() }
    #[verifier::external_body] pub fn sum(&self) -> usize { unimplemented!() }
    #[verifier::external_body] pub fn arange(start: &usize, stop: &usize) -> Self { unimplemented!() }
    #[verifier::external_body] pub fn repeat(&self, x: &[usize]) -> Self { unimplemented!() }
    #[verifier::external_body] pub fn quot_rem(&self, d: usize) -> (Self, Self) { unimplemented!() }
    #[verifier::external_body] pub fn mul_constant_add(&self, c: usize, x: &Self) -> Self { unimplemented!() }
    #[verifier::external_body] pub fn connected_components(s: &Self, t: &Self, n: usize) -> (Self, usize) { unimplemented!() }
    #[verifier::external_body] pub fn segmented_sum(&self, x: &Self) -> Self { unimplemented!() }
    #[verifier::external_body] pub fn segmented_arange(&self) -> Self { unimplemented!() }
    #[verifier::external_body] pub fn bincount(&self, size: usize) -> Self { unimplemented!() }
    #[verifier::external_body] pub fn sparse_bincount(&self) -> (Self, Self) { unimplemented!() }
    #[verifier::external_body] pub fn zero(&self) -> Self { unimplemented!() }
    #[verifier::external_body] pub fn scatter_sub_assign(&mut self, ixs: &Self, rhs: &Self) { unimplemented!() }
    #[verifier::external_body] pub fn sort_by(&self, key: &Self) -> Self { unimplemented!() }
    #[verifier::external_body] pub fn argsort(&self) -> Self { unimplemented!() }
    #[verifier::external_body] pub fn add(self, rhs: Self) -> Self { unimplemented!() }
    #[verifier::external_body] pub fn sub(self, rhs: Self) -> Self { unimplemented!() }
    #[verifier::external_body] pub fn add_scalar(n: usize, rhs: &Self) -> Self { unimplemented!() }
}


pub assume_specification<T, U, F: FnOnce(T) -> U>[ Option::<T>::map_or ](o: Option<T>, default: U, f: F) -> (r: U)
    requires o.is_some() ==> f.requires((o.unwrap(),)),
    ensures o.is_none() ==> r == default, o.is_some() ==> f.ensures((o.unwrap(),), r);
pub struct SemifiniteFunction<T>(pub VecArray<T>);
#[verifier::external_body]
pub fn compose_semifinite<T: Clone>(lhs: &FiniteFunction, rhs: &SemifiniteFunction<T>) -> Option<SemifiniteFunction<T>> { unimplemented!() }
impl Clone for FiniteFunction { #[verifier::external_body] fn clone(&self) -> Self { unimplemented!() } }

pub struct FiniteFunction {
    pub table: VecArray::<usize>,
    pub target: usize,
}

// Can't use derived PartialEq because it introduces unwanted bound `K: PartialEq`.


// Ad-hoc methods for finite functions
impl FiniteFunction {
    pub fn new(table: VecArray::<usize>, target: usize) -> Option<FiniteFunction> {
        // If table was nonempty and had a value larger or equal to codomain, this is invalid.
        // TODO: should check that table min is greater than zero!
        if let Some(true) = table.max().map(|m| m >= target) {
            return None;
        }
        Some(FiniteFunction { table, target })
    }
    pub fn terminal(a: usize) -> Self {
        let table = VecArray::<usize>::fill(0usize, a);
        let target = 1usize;
        FiniteFunction { table, target }
    }
    pub fn constant(a: usize, x: usize, b: usize) -> Self {
        let table = VecArray::<usize>::fill(x.clone(), a);
        let target = x + b + 1usize; // We need the +1 to ensure entries in range.
        FiniteFunction { table, target }
    }
    pub fn inject0(&self, b: usize) -> FiniteFunction {
        FiniteFunction {
            table: self.table.clone(),
            target: b + self.target(),
        }
    }
    pub fn inject1(&self, a: usize) -> FiniteFunction {
        FiniteFunction {
            table: VecArray::<usize>::add_scalar(a.clone(), &self.table),
            target: a + self.target.clone(),
        }
    }
    pub fn to_initial(&self) -> FiniteFunction {
        Self::initial(self.target.clone())
    }

    pub fn coequalizer(&self, other: &Self) -> Option<FiniteFunction> {
        // if self is parallel to other
        if self.source() != other.source() || self.target() != other.target() {
            return None;
        }

        let (table, target) =
            VecArray::<usize>::connected_components(&self.table, &other.table, self.target());
        Some(FiniteFunction { table, target })
    }

    pub fn coequalizer_universal(&self, f: &Self) -> Option<Self> {
        let table = coequalizer_universal(self, &f.table)?;
        let target = f.target();
        Some(FiniteFunction { table, target })
    }
    pub fn transpose(a: usize, b: usize) -> FiniteFunction {
        if a == 0usize {
            return Self::initial(a);
        }

        let n = b.clone() * a.clone();
        let i = VecArray::<usize>::arange(&0usize, &n);
        let (q, r) = i.quot_rem(a);
        FiniteFunction {
            target: n,
            // r * b + q
            table: r.mul_constant_add(b, &q),
        }
    }
    pub fn injections(&self, a: &FiniteFunction) -> Option<Self> {
        let s = self;
        let p = self.table.cumulative_sum();

        // TODO: better errors!
        let k = a.compose(s)?;
        let r = k.table.segmented_arange();

        let repeats = k.table;
        let values = p.gather(a.table.get_range_full());
        let z = repeats.repeat(values.get_range_full());

        Some(FiniteFunction {
            table: r.add(z),
            target: p.get(p.len() - 1usize),
        })
    }
    pub fn cumulative_sum(&self) -> Self {
        let extended_table = self.table.cumulative_sum();
        let target = extended_table.get(self.source());
        let table = VecArray::<usize>::from_slice(extended_table.get_range_to(self.source()));
        FiniteFunction { table, target }
    }
}

impl FiniteFunction {
    pub fn is_injective(&self) -> bool {
        if self.source() == 0usize {
            return true;
        }

        let counts = self.table.bincount(self.target.clone());
        counts.max().map_or(true, |m| m <= 1usize)
    }
}
pub fn coequalizer_universal<T: Clone + PartialEq>(
    q: &FiniteFunction,
    f: &VecArray<T>,
) -> Option<VecArray<T>> {
    if q.source() != f.len() {
        return None;
    }

    // Compute table by scattering
    let table = f.scatter(q.table.get_range_full(), q.target());

    // TODO: FIXME: we only need SemifiniteFunction to check this is a coequalizer;
    // we use the >> implementation to check, which is implemented for SemifiniteFunction
    
    let u = SemifiniteFunction(table);

    // NOTE: we expect() here because composition is *defined* for self and u by construction;
    // if it panics, there is a library bug.
    let f_prime = compose_semifinite(q, &u).expect("by construction");
    if f_prime.0 == *f {
        Some(u.0)
    } else {
        None
    }
}

impl FiniteFunction {
    

    fn source(&self) -> usize {
        self.table.len()
    }

    fn target(&self) -> usize {
        self.target.clone()
    }

    fn identity(a: usize) -> Self {
        let table = VecArray::<usize>::arange(&0usize, &a);
        let target = a.clone();
        FiniteFunction { table, target }
    }

    fn compose(&self, other: &Self) -> Option<Self> {
        if self.target == other.source() {
            let table = other.table.gather(self.table.get_range_full());
            let target = other.target.clone();
            Some(FiniteFunction { table, target })
        } else {
            None
        }
    }
}

impl FiniteFunction {
    fn initial_object() -> usize {
        0usize
    }

    fn initial(a: usize) -> Self {
        Self {
            table: VecArray::<usize>::empty(),
            target: a.clone(),
        }
    }

    fn coproduct(&self, other: &Self) -> Option<Self> {
        if self.target != other.target {
            return None;
        }

        Some(Self {
            table: self.table.concatenate(&other.table),
            target: self.target.clone(),
        })
    }
    fn inj0(a: usize, b: usize) -> Self {
        let table = VecArray::<usize>::arange(&0usize, &a);
        let target = a.clone() + b.clone();
        Self { table, target }
    }
    fn inj1(a: usize, b: usize) -> Self {
        let target = a.clone() + b.clone();
        let table = VecArray::<usize>::arange(&a, &target);
        Self { table, target }
    }
}

impl FiniteFunction {
    // the unit object
    fn unit() -> usize {
        0usize
    }

    fn tensor(&self, other: &Self) -> Self {
        // NOTE: this uses the `Add<&VecArray::<usize>>` bound on `usize` to compute offset piece without
        // unnecessary cloning.
        let table = self
            .table
            .concatenate(&(VecArray::<usize>::add_scalar(self.target.clone(), &other.table)));
        let target = self.target.clone() + other.target.clone();
        Self { table, target }
    }
}

impl FiniteFunction {
    fn twist(a: usize, b: usize) -> Self {
        // This is more efficiently expressed as arange + b `mod` target,
        // but this would require adding an operation add_mod(a, b, n) to the array trait.
        let target = a.clone() + b.clone();
        let lhs = VecArray::<usize>::arange(&b, &target);
        let rhs = VecArray::<usize>::arange(&0usize, &b);
        let table = lhs.concatenate(&rhs);
        Self { table, target }
    }
}

// Syntactic sugar for finite function composition


// Sugar for coproduct


// Tensor product (parallel composition)







}
fn main(){}
