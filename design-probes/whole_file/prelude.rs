use vstd::prelude::*;
use vstd::std_specs::cmp::*;
verus! {
pub struct VecArray<T>(pub Vec<T>);
impl<T> View for VecArray<T> { type V = Seq<T>; open spec fn view(&self) -> Seq<T> { self.0@ } }
#[verifier::external_body] pub fn rt_assert(c: bool) requires c { assert!(c) }
impl<T: Clone> Clone for VecArray<T> {
    #[verifier::external_body] fn clone(&self) -> (r: Self) { VecArray(self.0.clone()) }
}
impl<T: PartialEq> PartialEqSpecImpl for VecArray<T> {
    open spec fn obeys_eq_spec() -> bool { <Vec<T> as PartialEqSpec>::obeys_eq_spec() }
    open spec fn eq_spec(&self, other: &Self) -> bool { PartialEqSpec::eq_spec(&self.0, &other.0) }
}
impl<T: PartialEq> PartialEq for VecArray<T> { fn eq(&self, other: &Self) -> (r: bool) { self.0 == other.0 } }
impl<T: Clone> VecArray<T> {
    #[verifier::external_body] pub fn empty() -> Self { unimplemented!() }
    #[verifier::external_body] pub fn len(&self) -> usize { unimplemented!() }
    #[verifier::external_body] pub fn is_empty(&self) -> bool { unimplemented!() }
    #[verifier::external_body] pub fn concatenate(&self, other: &Self) -> Self { unimplemented!() }
    #[verifier::external_body] pub fn fill(x: T, n: usize) -> Self { unimplemented!() }
    #[verifier::external_body] pub fn get(&self, i: usize) -> T { unimplemented!() }
    #[verifier::external_body] pub fn get_range_full(&self) -> &[T] { unimplemented!() }
    #[verifier::external_body] pub fn get_range_from(&self, a: usize) -> &[T] { unimplemented!() }
    #[verifier::external_body] pub fn get_range_to(&self, b: usize) -> &[T] { unimplemented!() }
    #[verifier::external_body] pub fn get_range(&self, a: usize, b: usize) -> &[T] { unimplemented!() }
    #[verifier::external_body] pub fn gather(&self, idx: &[usize]) -> Self { unimplemented!() }
    #[verifier::external_body] pub fn scatter(&self, idx: &[usize], n: usize) -> Self { unimplemented!() }
    #[verifier::external_body] pub fn from_slice(s: &[T]) -> Self { unimplemented!() }
    #[verifier::external_body] pub fn scatter_assign(&mut self, ixs: &VecArray<usize>, values: Self) { unimplemented!() }
    #[verifier::external_body] pub fn scatter_assign_constant(&mut self, ixs: &VecArray<usize>, arg: T) { unimplemented!() }
}
impl VecArray<usize> {
    #[verifier::external_body] pub fn max(&self) -> Option<usize> { unimplemented!() }
    #[verifier::external_body] pub fn cumulative_sum(&self) -> Self { unimplemented!() }
    #[verifier::external_body] pub fn sum(&self) -> usize { unimplemented!() }
    #[verifier::external_body] pub fn arange(start: &usize, stop: &usize) -> Self { unimplemented!() }
    #[verifier::external_body] pub fn repeat(&self, x: &[usize]) -> Self { unimplemented!() }
    #[verifier::external_body] pub fn quot_rem(&self, d: usize) -> (Self, Self) { unimplemented!() }
    #[verifier::external_body] pub fn mul_constant_add(&self, c: usize, x: &Self) -> Self { unimplemented!() }
    #[verifier::external_body] pub fn connected_components(s: &Self, t: &Self, n: usize) -> (Self, usize) { unimplemented!() }
    #[verifier::external_body] pub fn segmented_sum(&self, x: &Self) -> Self { unimplemented!() }
    #[verifier::external_body] pub fn segmented_arange(&self) -> Self { unimplemented!() }
    #[verifier::external_body] pub fn bincount(&self, size: usize) -> Self { unimplemented!() }
    #[verifier::external_body] pub fn sparse_bincount(&self) -> (Self, Self) { unimplemented!() }
    #[verifier::external_body] pub fn zero(&self) -> Self { unimplemented!() }
    #[verifier::external_body] pub fn scatter_sub_assign(&mut self, ixs: &Self, rhs: &Self) { unimplemented!() }
    #[verifier::external_body] pub fn sort_by(&self, key: &Self) -> Self { unimplemented!() }
    #[verifier::external_body] pub fn argsort(&self) -> Self { unimplemented!() }
    #[verifier::external_body] pub fn add(self, rhs: Self) -> Self { unimplemented!() }
    #[verifier::external_body] pub fn sub(self, rhs: Self) -> Self { unimplemented!() }
    #[verifier::external_body] pub fn add_scalar(n: usize, rhs: &Self) -> Self { unimplemented!() }
}
