use open_hypergraphs::array::vec::*;
use open_hypergraphs::finite_function::FiniteFunction;
use open_hypergraphs::indexed_coproduct::IndexedCoproduct;
use open_hypergraphs::semifinite::SemifiniteFunction;
use open_hypergraphs::strict::hypergraph::Hypergraph;
use open_hypergraphs::strict::open_hypergraph::OpenHypergraph;
use open_hypergraphs::strict::layer::layer;
use open_hypergraphs::lax;
use std::panic::catch_unwind;

fn ic(sizes: Vec<usize>, vals: Vec<usize>, n: usize) -> IndexedCoproduct<VecKind, FiniteFunction<VecKind>> {
    IndexedCoproduct::from_semifinite(SemifiniteFunction(VecArray(sizes)), FiniteFunction::new(VecArray(vals), n).unwrap()).unwrap()
}

fn main() {
    // D1: parallel dependency of multiplicity 4 between two operations (2 ops)
    let r = catch_unwind(|| {
        // nodes 0,1 ; op0: [] -> [0,0] ; op1: [0,0] -> []
        let h: Hypergraph<VecKind, u8, u8> = Hypergraph::new(
            ic(vec![0, 2], vec![0, 0], 1), ic(vec![2, 0], vec![0, 0], 1),
            SemifiniteFunction(VecArray(vec![7u8])), SemifiniteFunction(VecArray(vec![1u8, 2u8]))).unwrap();
        let f = OpenHypergraph::new(FiniteFunction::new(VecArray(vec![]), 1).unwrap(), FiniteFunction::new(VecArray(vec![]), 1).unwrap(), h).unwrap();
        let (l, u) = layer(&f);
        println!("D1 layer ok: {:?} {:?}", l.table, u);
    });
    println!("D1 layer() on multiplicity-4 dependency panicked: {}", r.is_err());

    let r = catch_unwind(|| {
        let h: Hypergraph<VecKind, u8, u8> = Hypergraph::new(
            ic(vec![2], vec![0, 0], 1), ic(vec![2], vec![0, 0], 1),
            SemifiniteFunction(VecArray(vec![7u8])), SemifiniteFunction(VecArray(vec![1u8]))).unwrap();
        println!("D1b is_acyclic = {}", h.is_acyclic());
    });
    println!("D1b is_acyclic() on self-loop multiplicity 4 panicked: {}", r.is_err());

    // D2: isolated node, is_monogamous in debug
    let r = catch_unwind(|| {
        let h: Hypergraph<VecKind, u8, u8> = Hypergraph::discrete(SemifiniteFunction(VecArray(vec![7u8])));
        let f = OpenHypergraph::new(FiniteFunction::new(VecArray(vec![]), 1).unwrap(), FiniteFunction::new(VecArray(vec![]), 1).unwrap(), h).unwrap();
        println!("D2 is_monogamous = {}", f.is_monogamous());
    });
    println!("D2 is_monogamous() on isolated node panicked: {}", r.is_err());

    // D3: failed quotient
    let mut g: lax::OpenHypergraph<u8, u8> = lax::OpenHypergraph::empty();
    let a = g.new_node(1); let b = g.new_node(2);
    g.unify(a, b);
    let before = g.clone();
    let res = g.quotient();
    println!("D3 quotient failed: {}, unchanged: {}, nodes after: {:?}", res.is_err(), g == before, g.hypergraph.nodes);

    // D4: ExactSizeIterator len after next
    let c = ic(vec![1, 1, 1], vec![0, 0, 0], 1);
    let mut it = c.into_iter();
    let l0 = it.len(); it.next(); let l1 = it.len();
    println!("D4 len before {} after one next {}", l0, l1);

    // D5: forget on var edge with no sources and differently labelled targets
    #[derive(Clone, PartialEq, Debug)] enum Op { Var, F }
    impl lax::var::HasVar for Op { fn var() -> Self { Op::Var } }
    let r = catch_unwind(|| {
        let mut t: lax::OpenHypergraph<u8, Op> = lax::OpenHypergraph::empty();
        let (_, (_, tg)) = t.new_operation(Op::Var, vec![], vec![1u8, 2u8]);
        t.targets = tg;
        let o = lax::var::forget::forget(&t);
        println!("D5 forget ok {:?}", o);
    });
    println!("D5 forget() panicked: {}", r.is_err());
}
