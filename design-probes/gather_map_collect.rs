use vstd::prelude::*;
verus! {
pub struct VecArray<T>(pub Vec<T>);

fn gather(a: &VecArray<usize>, idx: &[usize]) -> (r: VecArray<usize>)
    requires forall|i: int| 0 <= i < idx@.len() ==> idx@[i] < a.0@.len(),
    ensures r.0@.len() == idx@.len(),
        forall|i: int| 0 <= i < idx@.len() ==> r.0@[i] == a.0@[idx@[i] as int],
{
    VecArray(idx.iter().map(|i: &usize| -> (y: usize) requires *i < a.0@.len(), ensures y == a.0@[*i as int], { a.0[*i].clone() }).collect())
}
}
fn main() {}
