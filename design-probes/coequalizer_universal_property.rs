use vstd::prelude::*;
verus! {

/// r is an equivalence relation on 0..n containing every pair (s[j], t[j])
pub open spec fn compat(r: spec_fn(int, int) -> bool, s: Seq<usize>, t: Seq<usize>, n: int) -> bool {
    &&& forall|a: int| 0 <= a < n ==> #[trigger] r(a, a)
    &&& forall|a: int, b: int| 0 <= a < n && 0 <= b < n && #[trigger] r(a, b) ==> r(b, a)
    &&& forall|a: int, b: int, c: int| 0 <= a < n && 0 <= b < n && 0 <= c < n && #[trigger] r(a, b) && #[trigger] r(b, c) ==> r(a, c)
    &&& forall|j: int| 0 <= j < s.len() ==> #[trigger] r(s[j] as int, t[j] as int)
}

pub open spec fn hit(q: Seq<usize>, c: int, n: int) -> bool { exists|i: int| 0 <= i < n && #[trigger] q[i] == c }

/// q : n -> k is a coequalizer of the parallel pair (s, t) : m -> n
pub open spec fn is_coeq(q: Seq<usize>, k: int, s: Seq<usize>, t: Seq<usize>, n: int) -> bool {
    &&& q.len() == n
    &&& forall|i: int| 0 <= i < n ==> (#[trigger] q[i]) < k
    &&& forall|c: int| 0 <= c < k ==> #[trigger] hit(q, c, n)
    &&& forall|j: int| 0 <= j < s.len() ==> q[#[trigger] s[j] as int] == q[t[j] as int]
    &&& forall|r: spec_fn(int, int) -> bool| #[trigger] compat(r, s, t, n) ==>
            forall|a: int, b: int| 0 <= a < n && 0 <= b < n && q[a] == q[b] ==> #[trigger] r(a, b)
}

/// use by a caller: labels that agree on every glued pair are constant on every class
pub proof fn lemma_labels_constant<O>(q: Seq<usize>, k: int, s: Seq<usize>, t: Seq<usize>, n: int, w: Seq<O>)
    requires is_coeq(q, k, s, t, n), w.len() == n, s.len() == t.len(),
        forall|j: int| 0 <= j < s.len() ==> s[j] < n && t[j] < n,
        forall|j: int| 0 <= j < s.len() ==> w[s[j] as int] == w[t[j] as int],
    ensures forall|a: int, b: int| 0 <= a < n && 0 <= b < n && q[a] == q[b] ==> w[a] == w[b]
{
    let r = |a: int, b: int| w[a] == w[b];
    assert(compat(r, s, t, n));
    assert forall|a: int, b: int| 0 <= a < n && 0 <= b < n && q[a] == q[b] implies w[a] == w[b] by {
        assert(r(a, b));
    }
}

/// two coequalizers of the same pair differ by a bijection of class numbers
pub proof fn lemma_coeq_unique(q1: Seq<usize>, k1: int, q2: Seq<usize>, k2: int, s: Seq<usize>, t: Seq<usize>, n: int)
    requires is_coeq(q1, k1, s, t, n), is_coeq(q2, k2, s, t, n), s.len() == t.len(),
        forall|j: int| 0 <= j < s.len() ==> s[j] < n && t[j] < n,
    ensures forall|a: int, b: int| 0 <= a < n && 0 <= b < n ==> (q1[a] == q1[b] <==> q2[a] == q2[b])
{
    let r1 = |a: int, b: int| q1[a] == q1[b];
    let r2 = |a: int, b: int| q2[a] == q2[b];
    assert(compat(r1, s, t, n));
    assert(compat(r2, s, t, n));
    assert forall|a: int, b: int| 0 <= a < n && 0 <= b < n implies (q1[a] == q1[b] <==> q2[a] == q2[b]) by {
        if q1[a] == q1[b] { assert(r2(a, b)); }
        if q2[a] == q2[b] { assert(r1(a, b)); }
    }
}
}
fn main() {}
