use vstd::prelude::*;
use vstd::std_specs::cmp::*;
verus! {
pub struct VecArray<T>(pub Vec<T>);
impl<T> View for VecArray<T> { type V = Seq<T>; open spec fn view(&self) -> Seq<T> { self.0@ } }

impl<T: PartialEq> PartialEqSpecImpl for VecArray<T> {
    open spec fn obeys_eq_spec() -> bool { <Vec<T> as PartialEqSpec>::obeys_eq_spec() }
    open spec fn eq_spec(&self, other: &Self) -> bool { PartialEqSpec::eq_spec(&self.0, &other.0) }
}
impl<T: PartialEq> PartialEq for VecArray<T> {
    fn eq(&self, other: &Self) -> (r: bool)
    {
        self.0 == other.0
    }
}
fn user(a: &VecArray<usize>, b: &VecArray<usize>) -> (r: bool)
    ensures r <==> a@ =~= b@
{
    a == b
}
fn user_generic<T: PartialEq>(a: &VecArray<T>, b: &VecArray<T>) -> (r: bool)
    requires T::obeys_eq_spec(), forall|x: T, y: T| x.eq_spec(&y) <==> x == y,
    ensures r <==> a@ =~= b@
{
    a == b
}
}
fn main() {}
