use vstd::prelude::*;
use core::ops::{Deref, DerefMut};
verus! {
pub struct VecArray<T>(pub Vec<T>);
impl<T> View for VecArray<T> { type V = Seq<T>; open spec fn view(&self) -> Seq<T> { self.0@ } }
impl<T> Deref for VecArray<T> {
    type Target = Vec<T>;
    fn deref(&self) -> (r: &Self::Target) ensures r@ == self@ { &self.0 }
}
impl<T> DerefMut for VecArray<T> {
    fn deref_mut(&mut self) -> (r: &mut Self::Target)
        ensures r@ == old(self)@, final(self)@ == final(r)@
    { &mut self.0 }
}

fn scatter_assign_constant(a: &mut VecArray<usize>, ixs: &VecArray<usize>, arg: usize)
    requires forall|i:int| 0 <= i < ixs@.len() ==> ixs@[i] < old(a)@.len(),
    ensures final(a)@.len() == old(a)@.len(),
        forall|j:int| 0 <= j < old(a)@.len() ==> final(a)@[j] == (if exists|i:int| 0 <= i < ixs@.len() && ixs@[i] == j { arg } else { old(a)@[j] }),
{
    for idx in it: ixs.iter()
        invariant
            it.seq().len() == ixs@.len(),
            forall|i:int| 0 <= i < ixs@.len() ==> *it.seq()[i] == ixs@[i],
            forall|i:int| 0 <= i < ixs@.len() ==> ixs@[i] < a@.len(),
            a@.len() == old(a)@.len(),
            forall|j:int| 0 <= j < a@.len() ==> a@[j] == (if exists|i:int| 0 <= i < it.index@ && ixs@[i] == j { arg } else { old(a)@[j] }),
    {
        a[*idx] = arg.clone();
    }
}
}
fn main() {}
