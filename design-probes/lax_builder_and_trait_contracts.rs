use vstd::prelude::*;
verus! {
#[derive(Clone, Copy, PartialEq, Eq)]
pub struct NodeId(pub usize);
#[derive(Clone, Copy, PartialEq, Eq)]
pub struct EdgeId(pub usize);
pub struct Hyperedge { pub sources: Vec<NodeId>, pub targets: Vec<NodeId> }
pub struct Hypergraph<O, A> {
    pub nodes: Vec<O>,
    pub edges: Vec<A>,
    pub adjacency: Vec<Hyperedge>,
    pub quotient: (Vec<NodeId>, Vec<NodeId>),
}
impl<O, A> Hypergraph<O, A> {
    pub fn new_node(&mut self, w: O) -> (r: NodeId)
        ensures r.0 == old(self).nodes@.len(), final(self).nodes@ == old(self).nodes@.push(w),
            final(self).edges@ == old(self).edges@, final(self).adjacency@ == old(self).adjacency@,
            final(self).quotient == old(self).quotient,
    {
        let index = self.nodes.len();
        self.nodes.push(w);
        NodeId(index)
    }
    pub fn unify(&mut self, v: NodeId, w: NodeId)
        ensures final(self).quotient.0@ == old(self).quotient.0@.push(v), final(self).quotient.1@ == old(self).quotient.1@.push(w),
            final(self).nodes@ == old(self).nodes@,
    {
        // add nodes to the quotient graph
        self.quotient.0.push(v);
        self.quotient.1.push(w);
    }
    pub fn add_edge_source(&mut self, edge_id: EdgeId, w: O) -> (r: NodeId)
        requires edge_id.0 < old(self).adjacency@.len(),
        ensures r.0 == old(self).nodes@.len(),
            final(self).adjacency@.len() == old(self).adjacency@.len(),
            final(self).adjacency@[edge_id.0 as int].sources@ == old(self).adjacency@[edge_id.0 as int].sources@.push(r),
    {
        let node_id = self.new_node(w);
        self.adjacency[edge_id.0].sources.push(node_id);
        node_id
    }
    pub fn with_nodes<T, F: FnOnce(Vec<O>) -> Vec<T>>(self, f: F) -> (r: Option<Hypergraph<T, A>>)
        requires f.requires((self.nodes,)),
    {
        let n = self.nodes.len();
        let nodes = f(self.nodes);
        if nodes.len() != n {
            return None;
        }
        Some(Hypergraph { nodes, edges: self.edges, adjacency: self.adjacency, quotient: self.quotient })
    }
}

// trait-method contracts, and a generic client proved against them
pub trait Functor<O1, O2> {
    spec fn img_len(&self, o: O1) -> nat;
    fn map_object(&self, a: &Vec<O1>) -> (r: (Vec<usize>, Vec<O2>))
        ensures r.0@.len() == a@.len(),
            forall|i: int| 0 <= i < a@.len() ==> r.0@[i] == self.img_len(a@[i]);
}
fn client<O1, O2, F: Functor<O1, O2>>(f: &F, a: &Vec<O1>) -> (n: usize)
    ensures n == a@.len()
{
    let r = f.map_object(a);
    r.0.len()
}
}
fn main() {}
