#[cfg(kani)]
mod h {
    use open_hypergraphs::array::vec::*;
    use open_hypergraphs::array::*;
    use open_hypergraphs::finite_function::*;
    use open_hypergraphs::category::*;

    #[kani::proof]
    fn to_range_all_forms() {
        let v = VecArray(vec![0u8; 4]);
        let a: usize = kani::any();
        let b: usize = kani::any();
        kani::assume(b < usize::MAX);
        let r = v.to_range(a..b); assert!(r.start == a && r.end == b);
        let r = v.to_range(a..); assert!(r.start == a && r.end == 4);
        let r = v.to_range(..b); assert!(r.start == 0 && r.end == b);
        let r = v.to_range(..); assert!(r.start == 0 && r.end == 4);
        let r = v.to_range(..=b); assert!(r.start == 0 && r.end == b + 1);
        let r = v.to_range(a..=b); assert!(r.start == a && r.end == b + 1);
    }

    #[kani::proof]
    #[kani::unwind(4)]
    fn compose_small() {
        let t0: usize = kani::any(); let t1: usize = kani::any();
        kani::assume(t0 < 2 && t1 < 2);
        let u0: usize = kani::any(); let u1: usize = kani::any();
        kani::assume(u0 < 3 && u1 < 3);
        let f = FiniteFunction::<VecKind>::new(VecArray(vec![t0, t1]), 2).unwrap();
        let g = FiniteFunction::<VecKind>::new(VecArray(vec![u0, u1]), 3).unwrap();
        let h = f.compose(&g).unwrap();
        assert!(h.table.0[0] == [u0,u1][t0]);
        assert!(h.table.0[1] == [u0,u1][t1]);
        assert!(h.target == 3);
    }
}
