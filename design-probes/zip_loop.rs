use vstd::prelude::*;
verus! {
pub struct VecArray<T>(pub Vec<T>);
fn mca(a: &VecArray<usize>, c: usize, x: &VecArray<usize>) -> (r: VecArray<usize>)
    requires a.0@.len() == x.0@.len(),
       forall|i:int| 0 <= i < a.0@.len() ==> a.0@[i] * c + x.0@[i] <= usize::MAX,
    ensures r.0@.len() == a.0@.len(),
       forall|i:int| 0 <= i < a.0@.len() ==> r.0@[i] == a.0@[i] * c + x.0@[i],
{
    let mut r = Vec::with_capacity(a.0.len());
    for (s, x1) in it: a.0.iter().zip(x.0.iter())
      invariant
       a.0@.len() == x.0@.len(),
       forall|i:int| 0 <= i < a.0@.len() ==> a.0@[i] * c + x.0@[i] <= usize::MAX,
       it.seq().len() == a.0@.len(),
       forall|i:int| 0 <= i < a.0@.len() ==> *it.seq()[i].0 == a.0@[i] && *it.seq()[i].1 == x.0@[i],
       r@.len() == it.index@,
       forall|i:int| 0 <= i < it.index@ ==> r@[i] == a.0@[i] * c + x.0@[i],
    {
        assert(*s == a.0@[it.index@]);
        assert(s * c >= 0) by (nonlinear_arith) requires s >= 0, c >= 0;
        r.push(s * c + x1)
    }
    VecArray(r)
}
}
fn main() {}
