use vstd::prelude::*;
verus! {

pub struct VecArray<T>(pub Vec<T>);

impl<T> View for VecArray<T> { type V = Seq<T>; open spec fn view(&self) -> Seq<T> { self.0@ } }

impl<T: Clone> VecArray<T> {
    #[verifier::external_body]
    pub fn empty() -> (r: Self) ensures r@.len() == 0 { VecArray(Vec::new()) }
    #[verifier::external_body]
    pub fn len(&self) -> (r: usize) ensures r == self@.len() { self.0.len() }
    #[verifier::external_body]
    pub fn concatenate(&self, other: &Self) -> (r: Self) ensures r@ == self@ + other@ { unimplemented!() }
    #[verifier::external_body]
    pub fn get_range_full(&self) -> (r: &[T]) ensures r@ == self@ { unimplemented!() }
    #[verifier::external_body]
    pub fn clone(&self) -> (r: Self) ensures r@ == self@ { unimplemented!() }
}
impl VecArray<usize> {
    #[verifier::external_body]
    pub fn fill(x: usize, n: usize) -> (r: Self) ensures r@.len() == n, forall|i:int| 0<=i<n ==> r@[i]==x { unimplemented!() }
    #[verifier::external_body]
    pub fn arange(start: &usize, stop: &usize) -> (r: Self) requires *start <= *stop, ensures r@.len() == *stop - *start, forall|i:int| 0<=i<r@.len() ==> r@[i]== *start+i { unimplemented!() }
    #[verifier::external_body]
    pub fn gather(&self, idx: &[usize]) -> (r: Self)
        requires forall|i:int| 0<=i<idx@.len() ==> idx@[i] < self@.len(),
        ensures r@.len() == idx@.len(), forall|i:int| 0<=i<idx@.len() ==> r@[i]==self@[idx@[i] as int] { unimplemented!() }
    #[verifier::external_body]
    pub fn max(&self) -> (r: Option<usize>)
        ensures self@.len()==0 ==> r.is_none(),
          self@.len()>0 ==> r.is_some() && (forall|i:int| 0<=i<self@.len() ==> self@[i] <= r.unwrap()) && (exists|i:int| 0<=i<self@.len() && self@[i]==r.unwrap()) { unimplemented!() }
}

pub struct FiniteFunction {
    pub table: VecArray<usize>,
    pub target: usize,
}

impl FiniteFunction {
    pub open spec fn wf(&self) -> bool { forall|i:int| 0 <= i < self.table@.len() ==> self.table@[i] < self.target }

    pub fn new(table: VecArray<usize>, target: usize) -> (r: Option<FiniteFunction>)
        ensures r.is_some() <==> (forall|i:int| 0 <= i < table@.len() ==> table@[i] < target),
            r.is_some() ==> r.unwrap().table@ == table@ && r.unwrap().target == target,
    {
        // If table was nonempty and had a value larger or equal to codomain, this is invalid.
        // TODO: should check that table min is greater than zero!
        if let Some(true) = table.max().map(|m: usize| -> (b: bool) ensures b == (m >= target) { m >= target }) {
            return None;
        }
        Some(FiniteFunction { table, target })
    }

    pub fn source(&self) -> (r: usize) ensures r == self.table@.len() {
        self.table.len()
    }

    pub fn target(&self) -> (r: usize) ensures r == self.target {
        self.target.clone()
    }

    pub fn identity(a: usize) -> (r: Self) ensures r.wf(), r.target == a, r.table@.len() == a, forall|i:int| 0<=i<a ==> r.table@[i]==i {
        let table = VecArray::<usize>::arange(&0usize, &a);
        let target = a.clone();
        FiniteFunction { table, target }
    }

    pub fn compose(&self, other: &Self) -> (r: Option<Self>)
        requires self.wf(), other.wf(),
        ensures r.is_some() <==> self.target == other.table@.len(),
           r.is_some() ==> r.unwrap().wf() && r.unwrap().target == other.target && r.unwrap().table@.len() == self.table@.len()
              && forall|i:int| 0<=i<self.table@.len() ==> r.unwrap().table@[i] == other.table@[self.table@[i] as int],
    {
        if self.target == other.source() {
            let table = other.table.gather(self.table.get_range_full());
            let target = other.target.clone();
            Some(FiniteFunction { table, target })
        } else {
            None
        }
    }
}
}
fn main() {}
