use vstd::prelude::*;
verus! {
pub open spec fn count(s: Seq<usize>, v: int) -> nat
    decreases s.len()
{ if s.len() == 0 { 0 } else { count(s.drop_last(), v) + if s.last() == v { 1nat } else { 0nat } } }

pub struct VecArray<T>(pub Vec<T>);
impl<T> View for VecArray<T> { type V = Seq<T>; open spec fn view(&self) -> Seq<T> { self.0@ } }
impl VecArray<usize> {
    #[verifier::external_body]
    pub fn len(&self) -> (r: usize) ensures r == self@.len() { self.0.len() }
    #[verifier::external_body]
    pub fn clone(&self) -> (r: Self) ensures r@ == self@ { unimplemented!() }
    #[verifier::external_body]
    pub fn fill(x: usize, n: usize) -> (r: Self) ensures r@.len() == n, forall|i:int| 0<=i<n ==> r@[i]==x { unimplemented!() }
    #[verifier::external_body]
    pub fn bincount(&self, size: usize) -> (r: Self)
        requires forall|i:int| 0<=i<self@.len() ==> self@[i] < size,
        ensures r@.len() == size, forall|v:int| 0<=v<size ==> r@[v] == count(self@, v) { unimplemented!() }
    #[verifier::external_body]
    pub fn max(&self) -> (r: Option<usize>)
        ensures self@.len()==0 ==> r.is_none(),
          self@.len()>0 ==> r.is_some() && (forall|i:int| 0<=i<self@.len() ==> self@[i] <= r.unwrap()) && (exists|i:int| 0<=i<self@.len() && self@[i]==r.unwrap()) { unimplemented!() }
    #[verifier::external_body]
    pub fn zero(&self) -> (r: Self)
        ensures r@.len() <= self@.len(),
            (r@.len() == self@.len()) <==> (forall|i:int| 0<=i<self@.len() ==> self@[i] == 0) { unimplemented!() }
    #[verifier::external_body]
    pub fn sub(self, rhs: Self) -> (r: Self)
        requires self@.len() == rhs@.len(), forall|i:int| 0<=i<self@.len() ==> self@[i] >= rhs@[i],
        ensures r@.len() == self@.len(), forall|i:int| 0<=i<self@.len() ==> r@[i] == self@[i] - rhs@[i] { unimplemented!() }
    #[verifier::external_body]
    pub fn add(self, rhs: Self) -> (r: Self)
        requires self@.len() == rhs@.len(), forall|i:int| 0<=i<self@.len() ==> self@[i] + rhs@[i] <= usize::MAX,
        ensures r@.len() == self@.len(), forall|i:int| 0<=i<self@.len() ==> r@[i] == self@[i] + rhs@[i] { unimplemented!() }
}

/// the monogamy definition of C17, over the plain model
pub open spec fn monogamous(n: int, s: Seq<usize>, t: Seq<usize>, esrc: Seq<usize>, etgt: Seq<usize>) -> bool {
    &&& forall|v: int| 0 <= v < n ==> count(s, v) <= 1
    &&& forall|v: int| 0 <= v < n ==> count(t, v) <= 1
    &&& forall|v: int| 0 <= v < n ==> count(etgt, v) + count(s, v) == 1
    &&& forall|v: int| 0 <= v < n ==> count(esrc, v) + count(t, v) == 1
}

// real body of strict::OpenHypergraph::is_monogamous, K := VecKind, fields passed as parameters
fn is_monogamous(node_count: usize, s_table: &VecArray<usize>, t_table: &VecArray<usize>, hs: &VecArray<usize>, ht: &VecArray<usize>) -> (r: bool)
    requires
        forall|i:int| 0<=i<s_table@.len() ==> s_table@[i] < node_count,
        forall|i:int| 0<=i<t_table@.len() ==> t_table@[i] < node_count,
        forall|i:int| 0<=i<hs@.len() ==> hs@[i] < node_count,
        forall|i:int| 0<=i<ht@.len() ==> ht@[i] < node_count,
    ensures r <==> monogamous(node_count as int, s_table@, t_table@, hs@, ht@)
{
        // Check injectivity of the source interface map (no node appears twice).
        let in_counts = s_table.bincount(node_count.clone());
        if in_counts.max().map(|m: usize| -> (b: bool) ensures b == (m > 1usize) { m > 1usize }).unwrap_or(false) {
            return false;
        }

        // Check injectivity of the target interface map (no node appears twice).
        let out_counts = t_table.bincount(node_count.clone());
        if out_counts.max().map(|m: usize| -> (b: bool) ensures b == (m > 1usize) { m > 1usize }).unwrap_or(false) {
            return false;
        }

        // Compute degrees of each node from hyperedges (multiplicity counted).
        let in_degrees = ht.bincount(node_count.clone());
        let out_degrees = hs.bincount(node_count.clone());
        let ones = VecArray::<usize>::fill(1usize, node_count);

        // Monogamy condition: for each node, degree is 0 iff on the interface, else 1.
        // Equivalent to elementwise: degree + interface_count == 1.
        (in_degrees.add(in_counts).sub(ones.clone())).zero().len() == ones.len()
            && (out_degrees.add(out_counts).sub(ones)).zero().len() == node_count
}
}
fn main() {}
