use open_hypergraphs::array::vec::{VecArray, VecKind};
use open_hypergraphs::array::*;
use open_hypergraphs::category::*;
use open_hypergraphs::finite_function::FiniteFunction;
use open_hypergraphs::semifinite::SemifiniteFunction;
use open_hypergraphs::strict::open_hypergraph::OpenHypergraph;
use core::ops::{Add, RangeBounds, Sub};

#[derive(PartialEq, Eq, Clone, Debug)]
pub struct AdvKind {}
#[derive(Clone, Debug, PartialEq)]
pub struct AdvArray<T>(pub VecArray<T>);

impl ArrayKind for AdvKind {
    type Type<T> = AdvArray<T>;
    type I = usize;
    type Index = AdvArray<usize>;
    type Slice<'a, T: 'a> = &'a [T];
}
impl AsRef<AdvArray<usize>> for AdvArray<usize> { fn as_ref(&self) -> &Self { self } }
impl AsMut<AdvArray<usize>> for AdvArray<usize> { fn as_mut(&mut self) -> &mut Self { self } }
impl Add<&AdvArray<usize>> for usize { type Output = AdvArray<usize>; fn add(self, r: &AdvArray<usize>) -> AdvArray<usize> { AdvArray(self + &r.0) } }
impl Add for AdvArray<usize> { type Output = Self; fn add(self, r: Self) -> Self { AdvArray(self.0 + r.0) } }
impl Sub for AdvArray<usize> { type Output = Self; fn sub(self, r: Self) -> Self { AdvArray(self.0 - r.0) } }

impl<T: Clone> Array<AdvKind, T> for AdvArray<T> {
    fn empty() -> Self { AdvArray(VecArray::empty()) }
    fn len(&self) -> usize { self.0.len() }
    fn from_slice(s: &[T]) -> Self { AdvArray(VecArray::from_slice(s)) }
    fn concatenate(&self, o: &Self) -> Self { AdvArray(self.0.concatenate(&o.0)) }
    fn fill(x: T, n: usize) -> Self { AdvArray(VecArray::fill(x, n)) }
    fn get(&self, i: usize) -> T { self.0.get(i) }
    fn get_range<R: RangeBounds<usize>>(&self, rb: R) -> &[T] { self.0.get_range(rb) }
    fn set_range<R: RangeBounds<usize>>(&mut self, rb: R, v: &AdvArray<T>) { self.0.set_range(rb, &v.0) }
    fn gather(&self, idx: &[usize]) -> Self { AdvArray(self.0.gather(idx)) }
    // open choice resolved differently: filler = LAST element instead of first
    fn scatter(&self, idx: &[usize], n: usize) -> Self {
        if self.0.is_empty() { return AdvArray(VecArray(vec![])); }
        let mut y = vec![self.0[self.0.len() - 1].clone(); n];
        for (i, x) in self.0.iter().enumerate() { y[idx[i]] = x.clone(); }
        AdvArray(VecArray(y))
    }
    fn scatter_assign(&mut self, ixs: &AdvArray<usize>, v: Self) { self.0.scatter_assign(&ixs.0, v.0) }
    fn scatter_assign_constant(&mut self, ixs: &AdvArray<usize>, a: T) { self.0.scatter_assign_constant(&ixs.0, a) }
}
impl<T: Ord + Clone> OrdArray<AdvKind, T> for AdvArray<T> {
    // ties in reverse index order
    fn argsort(&self) -> AdvArray<usize> {
        let mut ix: Vec<usize> = (0..self.0.len()).rev().collect();
        ix.sort_by_key(|&i| &self.0[i]);
        AdvArray(VecArray(ix))
    }
}
impl NaturalArray<AdvKind> for AdvArray<usize> {
    fn max(&self) -> Option<usize> { self.0.max() }
    fn cumulative_sum(&self) -> Self { AdvArray(self.0.cumulative_sum()) }
    fn arange(a: &usize, b: &usize) -> Self { AdvArray(VecArray::arange(a, b)) }
    fn repeat(&self, x: &[usize]) -> Self { AdvArray(self.0.repeat(x)) }
    fn quot_rem(&self, d: usize) -> (Self, Self) { let (q, r) = self.0.quot_rem(d); (AdvArray(q), AdvArray(r)) }
    fn mul_constant_add(&self, c: usize, x: &Self) -> Self { AdvArray(self.0.mul_constant_add(c, &x.0)) }
    // component numbers reversed
    fn connected_components(s: &Self, t: &Self, n: usize) -> (Self, usize) {
        let (cc, k) = VecArray::connected_components(&s.0, &t.0, n);
        (AdvArray(VecArray(cc.iter().map(|c| k - 1 - c).collect())), k)
    }
    fn bincount(&self, size: usize) -> AdvArray<usize> { AdvArray(self.0.bincount(size)) }
    // keys in descending order
    fn sparse_bincount(&self) -> (AdvArray<usize>, AdvArray<usize>) {
        let (mut k, mut c) = self.0.sparse_bincount(); k.0.reverse(); c.0.reverse(); (AdvArray(k), AdvArray(c))
    }
    fn zero(&self) -> AdvArray<usize> { AdvArray(self.0.zero()) }
    fn scatter_sub_assign(&mut self, ixs: &AdvArray<usize>, rhs: &AdvArray<usize>) { self.0.scatter_sub_assign(&ixs.0, &rhs.0) }
}

fn main() {
    let f: OpenHypergraph<AdvKind, u8, u8> = OpenHypergraph::spider(
        FiniteFunction::new(AdvArray(VecArray(vec![0, 1])), 3).unwrap(), FiniteFunction::new(AdvArray(VecArray(vec![2, 1, 0])), 3).unwrap(),
        SemifiniteFunction(AdvArray(VecArray(vec![7u8, 7, 7])))).unwrap();
    let h = f.compose(&f.dagger()).unwrap();
    let fv: OpenHypergraph<VecKind, u8, u8> = OpenHypergraph::spider(
        FiniteFunction::new(VecArray(vec![0, 1]), 3).unwrap(), FiniteFunction::new(VecArray(vec![2, 1, 0]), 3).unwrap(),
        SemifiniteFunction(VecArray(vec![7u8, 7, 7]))).unwrap();
    let hv = fv.compose(&fv.dagger()).unwrap();
    println!("AdvKind: nodes {} s {:?} t {:?}", h.h.w.len(), h.s.table.0 .0, h.t.table.0 .0);
    println!("VecKind: nodes {} s {:?} t {:?}", hv.h.w.len(), hv.s.table.0, hv.t.table.0);
    let (l, u) = open_hypergraphs::strict::layer::layer(&h);
    println!("layer on AdvKind ok: {:?} {:?}", l.table.0 .0, u.0 .0);
}
