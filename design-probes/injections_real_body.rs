use vstd::prelude::*;
verus! {

pub open spec fn psum(s: Seq<usize>, i: int) -> int
    decreases i
{
    if i <= 0 { 0 } else { psum(s, i - 1) + s[i - 1] }
}

/// flat position of element j of segment i
pub open spec fn seg_at(s: Seq<usize>, i: int, j: int) -> int { psum(s, i) + j }

pub proof fn lemma_psum_mono(s: Seq<usize>, i: int, j: int)
    requires 0 <= i <= j <= s.len()
    ensures psum(s, i) <= psum(s, j)
    decreases j - i
{
    if i < j { lemma_psum_mono(s, i, j - 1); }
}

/// every position of a segmented array lies in exactly one segment
pub proof fn lemma_seg_find(k: Seq<usize>, m: int) -> (r: (int, int))
    requires 0 <= m < psum(k, k.len() as int)
    ensures 0 <= r.0 < k.len(), 0 <= r.1 < k[r.0], m == psum(k, r.0) + r.1
    decreases k.len()
{
    let n = k.len() as int;
    if m >= psum(k, n - 1) {
        (n - 1, m - psum(k, n - 1))
    } else {
        lemma_psum_drop_last(k, n - 1);
        assert(psum(k.drop_last(), k.drop_last().len() as int) == psum(k, n - 1));
        let r = lemma_seg_find(k.drop_last(), m);
        lemma_psum_drop_last(k, r.0);
        r
    }
}

pub proof fn lemma_psum_drop_last(k: Seq<usize>, i: int)
    requires 0 <= i < k.len()
    ensures psum(k.drop_last(), i) == psum(k, i)
    decreases i
{
    if i > 0 { lemma_psum_drop_last(k, i - 1); }
}

pub struct VecArray<T>(pub Vec<T>);
impl<T> View for VecArray<T> { type V = Seq<T>; open spec fn view(&self) -> Seq<T> { self.0@ } }

impl VecArray<usize> {
    #[verifier::external_body]
    pub fn len(&self) -> (r: usize) ensures r == self@.len() { self.0.len() }
    #[verifier::external_body]
    pub fn get(&self, i: usize) -> (r: usize) requires i < self@.len(), ensures r == self@[i as int] { self.0[i] }
    #[verifier::external_body]
    pub fn get_range_to(&self, b: usize) -> (r: &[usize]) requires b <= self@.len(), ensures r@ == self@.subrange(0, b as int) { &self.0[..b] }
    #[verifier::external_body]
    pub fn get_range_full(&self) -> (r: &[usize]) ensures r@ == self@ { &self.0[..] }
    #[verifier::external_body]
    pub fn cumulative_sum(&self) -> (r: Self)
        requires psum(self@, self@.len() as int) <= usize::MAX,
        ensures r@.len() == self@.len() + 1, forall|i: int| 0 <= i <= self@.len() ==> r@[i] == psum(self@, i)
    { unimplemented!() }
    #[verifier::external_body]
    pub fn arange(start: &usize, stop: &usize) -> (r: Self) requires *start <= *stop,
        ensures r@.len() == *stop - *start, forall|i:int| 0<=i<r@.len() ==> r@[i]== *start+i { unimplemented!() }
    #[verifier::external_body]
    pub fn repeat(&self, x: &[usize]) -> (r: Self)
        requires self@.len() == x@.len(), psum(self@, self@.len() as int) <= usize::MAX,
        ensures r@.len() == psum(self@, self@.len() as int),
            forall|i: int, j: int| 0 <= i < self@.len() && 0 <= j < self@[i] ==> r@[#[trigger] seg_at(self@, i, j)] == x@[i]
    { unimplemented!() }
    #[verifier::external_body]
    pub fn gather(&self, idx: &[usize]) -> (r: Self)
        requires forall|i:int| 0<=i<idx@.len() ==> idx@[i] < self@.len(),
        ensures r@.len() == idx@.len(), forall|i:int| 0<=i<idx@.len() ==> r@[i]==self@[idx@[i] as int] { unimplemented!() }
    #[verifier::external_body]
    pub fn sub(self, rhs: Self) -> (r: Self)
        requires self@.len() == rhs@.len(), forall|i:int| 0<=i<self@.len() ==> self@[i] >= rhs@[i],
        ensures r@.len() == self@.len(), forall|i:int| 0<=i<self@.len() ==> r@[i] == self@[i] - rhs@[i] { unimplemented!() }
    #[verifier::external_body]
    pub fn add(self, rhs: Self) -> (r: Self)
        requires self@.len() == rhs@.len(), forall|i:int| 0<=i<self@.len() ==> self@[i] + rhs@[i] <= usize::MAX,
        ensures r@.len() == self@.len(), forall|i:int| 0<=i<self@.len() ==> r@[i] == self@[i] + rhs@[i] { unimplemented!() }

    // ---- real body (src/array/traits.rs: NaturalArray::segmented_arange), K := VecKind
    pub fn segmented_arange(&self) -> (out: Self)
        requires psum(self@, self@.len() as int) <= usize::MAX,
        ensures out@.len() == psum(self@, self@.len() as int),
            forall|i: int, j: int| 0 <= i < self@.len() && 0 <= j < self@[i] ==> out@[#[trigger] seg_at(self@, i, j)] == j,
    {
        let p = self.cumulative_sum();
        let last_idx = p.len() - 1usize;
        let sum = p.get(last_idx.clone());

        let r = self.repeat(p.get_range_to(last_idx));
        let i = Self::arange(&0usize, &sum);
        proof {
            assert forall|m: int| 0 <= m < i@.len() implies i@[m] >= r@[m] by {
                let (a, b) = lemma_seg_find(self@, m);
                assert(r@[seg_at(self@, a, b)] == p@[a]);
            }
        }
        let out = i.sub(r);
        proof {
            assert forall|a: int, b: int| 0 <= a < self@.len() && 0 <= b < self@[a] implies out@[#[trigger] seg_at(self@, a, b)] == b by {
                lemma_psum_mono(self@, a + 1, self@.len() as int);
                assert(r@[seg_at(self@, a, b)] == p@[a]);
            }
        }
        out
    }
}

pub struct FiniteFunction { pub table: VecArray<usize>, pub target: usize }

/// k = a ; s  as a sequence of segment sizes
pub open spec fn kseq(s: Seq<usize>, a: Seq<usize>) -> Seq<usize> { Seq::new(a.len(), |i: int| s[a[i] as int]) }

impl FiniteFunction {
    pub open spec fn wf(&self) -> bool { forall|i: int| 0 <= i < self.table@.len() ==> (#[trigger] self.table@[i]) < self.target }

    #[verifier::external_body]
    pub fn compose(&self, other: &Self) -> (r: Option<Self>)
        requires self.wf(), other.wf(),
        ensures r.is_some() <==> self.target == other.table@.len(),
           r.is_some() ==> r.unwrap().wf() && r.unwrap().target == other.target && r.unwrap().table@.len() == self.table@.len()
              && forall|i:int| 0<=i<self.table@.len() ==> r.unwrap().table@[i] == other.table@[self.table@[i] as int],
    { unimplemented!() }

    // ---- real body of FiniteFunction::injections (src/finite_function/arrow.rs), T1 + T3 + T6
    pub fn injections(&self, a: &FiniteFunction) -> (out: Option<Self>)
        requires self.wf(), a.wf(),
            psum(self.table@, self.table@.len() as int) <= usize::MAX,
            a.target == self.table@.len() ==> psum(kseq(self.table@, a.table@), a.table@.len() as int) <= usize::MAX,
        ensures out.is_some() <==> a.target == self.table@.len(),
            out.is_some() ==> ({
                let s = self.table@; let k = kseq(s, a.table@); let r = out.unwrap();
                &&& r.target == psum(s, s.len() as int)
                &&& r.table@.len() == psum(k, k.len() as int)
                &&& forall|i: int, j: int| 0 <= i < k.len() && 0 <= j < k[i] ==> r.table@[#[trigger] seg_at(k, i, j)] == psum(s, a.table@[i] as int) + j
                &&& r.wf()
            }),
    {
        let s = self;
        let p = self.table.cumulative_sum();

        // TODO: better errors!
        let k = a.compose(s)?;
        proof { assert(k.table@ =~= kseq(self.table@, a.table@)); }
        let r = k.table.segmented_arange();

        let repeats = k.table;
        let values = p.gather(a.table.get_range_full());
        let z = repeats.repeat(values.get_range_full());

        proof {
            let sv = self.table@; let kv = repeats@;
            assert forall|m: int| 0 <= m < r@.len() implies r@[m] + z@[m] <= usize::MAX by {
                let (i, j) = lemma_seg_find(kv, m);
                assert(r@[seg_at(kv, i, j)] == j);
                assert(z@[seg_at(kv, i, j)] == values@[i]);
                lemma_psum_mono(sv, a.table@[i] as int + 1, sv.len() as int);
            }
        }
        let ghost rv = r@; let ghost zv = z@; let ghost kv = repeats@;
        let out = FiniteFunction {
            table: r.add(z),
            target: p.get(p.len() - 1usize),
        };
        proof {
            let sv = self.table@;
            assert forall|i: int, j: int| 0 <= i < kv.len() && 0 <= j < kv[i] implies out.table@[#[trigger] seg_at(kv, i, j)] == psum(sv, a.table@[i] as int) + j by {
                lemma_psum_mono(kv, i + 1, kv.len() as int);
                assert(psum(kv, i + 1) == psum(kv, i) + kv[i]);
                lemma_psum_mono(kv, 0, i);
                let m = seg_at(kv, i, j);
                assert(0 <= m < rv.len());
                assert(rv[seg_at(kv, i, j)] == j);
                assert(zv[seg_at(kv, i, j)] == values@[i]);
                assert(out.table@[m] == rv[m] + zv[m]);
                assert(values@[i] == p@[a.table@[i] as int]);
            }
            assert forall|m: int| 0 <= m < out.table@.len() implies (#[trigger] out.table@[m]) < out.target by {
                let (i, j) = lemma_seg_find(kv, m);
                assert(out.table@[seg_at(kv, i, j)] == psum(sv, a.table@[i] as int) + j);
                lemma_psum_mono(sv, a.table@[i] as int + 1, sv.len() as int);
            }
        }
        Some(out)
    }
}
}
fn main() {}
