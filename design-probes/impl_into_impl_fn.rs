use vstd::prelude::*;
verus! {
#[derive(Clone, Copy, PartialEq, Eq)]
pub struct NodeId(pub usize);
pub struct Hyperedge { pub sources: Vec<NodeId>, pub targets: Vec<NodeId> }
pub struct H<A> { pub edges: Vec<A>, pub adjacency: Vec<Hyperedge> }
impl<A> H<A> {
    pub fn new_edge(&mut self, x: A, interface: impl Into<Hyperedge>) -> (r: usize)
        ensures r == old(self).edges@.len(), final(self).edges@ == old(self).edges@.push(x),
            final(self).adjacency@.len() == old(self).adjacency@.len() + 1,
    {
        let edge_idx = self.edges.len();
        self.edges.push(x);
        self.adjacency.push(interface.into());
        edge_idx
    }
}
fn ev(apply: impl Fn(usize) -> usize, x: usize) -> (r: usize)
    requires apply.requires((x,)),
    ensures apply.ensures((x,), r)
{ apply(x) }
}
fn main() {}
