use vstd::prelude::*;
verus! {
pub open spec fn psum(s: Seq<usize>, i: int) -> int decreases i
{ if i <= 0 { 0 } else { psum(s, i - 1) + s[i - 1] } }

pub proof fn lemma_psum_concat(a: Seq<usize>, b: Seq<usize>, i: int)
    requires 0 <= i <= b.len()
    ensures psum(a + b, a.len() + i) == psum(a, a.len() as int) + psum(b, i)
    decreases i
{
    if i == 0 { lemma_psum_prefix(a, b, a.len() as int); }
    else { lemma_psum_concat(a, b, i - 1); assert((a + b)[a.len() + i - 1] == b[i - 1]); }
}
pub proof fn lemma_psum_prefix(a: Seq<usize>, b: Seq<usize>, i: int)
    requires 0 <= i <= a.len()
    ensures psum(a + b, i) == psum(a, i)
    decreases i
{ if i > 0 { lemma_psum_prefix(a, b, i - 1); assert((a + b)[i - 1] == a[i - 1]); } }

pub struct VecArray<T>(pub Vec<T>);
impl<T> View for VecArray<T> { type V = Seq<T>; open spec fn view(&self) -> Seq<T> { self.0@ } }
impl VecArray<usize> {
    #[verifier::external_body]
    pub fn concatenate(&self, other: &Self) -> (r: Self) ensures r@ == self@ + other@ { unimplemented!() }
    #[verifier::external_body]
    pub fn add_scalar(n: usize, rhs: &Self) -> (r: Self)
        requires forall|i: int| 0 <= i < rhs@.len() ==> n + rhs@[i] <= usize::MAX,
        ensures r@.len() == rhs@.len(), forall|i: int| 0 <= i < rhs@.len() ==> r@[i] == n + rhs@[i] { unimplemented!() }
}

pub struct FiniteFunction { pub table: VecArray<usize>, pub target: usize }
impl FiniteFunction {
    pub open spec fn wf(&self) -> bool { forall|i: int| 0 <= i < self.table@.len() ==> (#[trigger] self.table@[i]) < self.target }
    pub open spec fn len(&self) -> int { self.table@.len() as int }

    // real body: impl Monoidal for FiniteFunction<K> :: tensor   (T1, T3)
    pub fn tensor(&self, other: &Self) -> (r: Self)
        requires self.wf(), other.wf(), self.target + other.target <= usize::MAX,
        ensures r.wf(), r.target == self.target + other.target,
            r.table@.len() == self.table@.len() + other.table@.len(),
            forall|i: int| 0 <= i < self.table@.len() ==> r.table@[i] == self.table@[i],
            forall|i: int| 0 <= i < other.table@.len() ==> r.table@[self.table@.len() + i] == self.target + other.table@[i],
    {
        // NOTE: this uses the `Add<&K::Index>` bound on `K::I` to compute offset piece without
        // unnecessary cloning.
        let table = self
            .table
            .concatenate(&(VecArray::<usize>::add_scalar(self.target.clone(), &other.table)));
        let target = self.target.clone() + other.target.clone();
        Self { table, target }
    }
}

pub struct IndexedCoproduct { pub sources: FiniteFunction, pub values: FiniteFunction }
impl IndexedCoproduct {
    /// the representation invariant of a segmented array (C05/C08)
    pub open spec fn wf(&self) -> bool {
        &&& self.sources.wf() && self.values.wf()
        &&& self.sources.target == psum(self.sources.table@, self.sources.len()) + 1
        &&& psum(self.sources.table@, self.sources.len()) == self.values.len()
    }

    // real body: IndexedCoproduct<K, FiniteFunction<K>>::tensor   (T1, T3)
    pub fn tensor(&self, other: &IndexedCoproduct) -> (r: IndexedCoproduct)
        requires self.wf(), other.wf(),
            self.values.target + other.values.target <= usize::MAX,
            self.sources.target + other.sources.target <= usize::MAX,
        ensures r.wf(),
            r.sources.table@ == self.sources.table@ + other.sources.table@,
            r.values.target == self.values.target + other.values.target,
            r.values.table@.len() == self.values.len() + other.values.len(),
            forall|i: int| 0 <= i < self.values.len() ==> r.values.table@[i] == self.values.table@[i],
            forall|i: int| 0 <= i < other.values.len() ==> r.values.table@[self.values.len() + i] == self.values.target + other.values.table@[i],
    {
        // build a new finite function for 'sources'. it consists of:
        //  - concatenated segment sizes
        //  - target equal to *total sum* (sum of targets)
        let table = self.sources.table.concatenate(&other.sources.table);
        let target = (self.sources.target.clone() + other.sources.target.clone()) - 1usize;

        proof {
            lemma_psum_concat(self.sources.table@, other.sources.table@, other.sources.len());
        }
        IndexedCoproduct {
            sources: FiniteFunction { table, target },
            values: self.values.tensor(&other.values),
        }
    }
}
}
fn main() {}
