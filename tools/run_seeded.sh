#!/bin/bash
# usage: tools/run_seeded.sh [ids...]   -- applies each seeded mutant to /repo, runs the quick check of the
# property it breaks, undoes it straight afterwards.  Results appended to /tmp/seeded_results.txt
cd /verif
export VERIF_EVIDENCE_DIR=/tmp/evidence_scratch
ids="$@"
if [ -z "$ids" ]; then ids=$(ls seeded | grep '^C'); fi
for id in $ids; do
  prop=${id:0:3}
  if ! git -C /repo apply /verif/seeded/$id/patch.diff 2>/dev/null; then echo "$id: PATCH DOES NOT APPLY"; continue; fi
  out=$(./check $prop --tier quick 2>&1); rc=$?
  git -C /repo checkout -- .
  viol=$(echo "$out" | grep -c '^VIOLATION')
  first=$(echo "$out" | grep -A1 '^VIOLATION' | sed -n 2p | cut -c1-150)
  lost=$(echo "$out" | grep -c 'proof-lost')
  obl=$(echo "$out" | grep '^  obligation' | sed 's/^  obligation \(\S*\) clause \(\S*\).*/\2@\1/' | sort -u | tr '\n' ' ')
  bnd=$(echo "$out" | grep -A1 '^VIOLATION' | grep -v '^VIOLATION' | grep -v '^--' | grep -v '^  obligation' | sed -n 1p | cut -c1-150)
  echo "$id: rc=$rc violations=$viol proof-lost=$lost | $first" | tee -a /tmp/seeded_results.txt
  echo "$id: VERUS[$obl] BOUNDED[$bnd]" >> /tmp/seeded_detail.txt
done
