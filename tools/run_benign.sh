#!/bin/bash
# applies each behaviour-preserving refactoring to /repo, runs EVERY quick check, undoes it.
# Any VIOLATION here is a false alarm of the machinery.  Results: /tmp/benign_results.txt
cd /verif
export VERIF_EVIDENCE_DIR=/tmp/evidence_scratch
: > /tmp/benign_results.txt
for d in seeded/benign/*/; do
  id=$(basename $d)
  if ! git -C /repo apply /verif/$d/patch.diff 2>/dev/null; then echo "$id: PATCH DOES NOT APPLY" | tee -a /tmp/benign_results.txt; continue; fi
  for p in $(python3 -c "import json; print(' '.join(c['property_id'] for c in json.load(open('MANIFEST.json'))['checks']))"); do
    out=$(./check $p --tier quick 2>&1); rc=$?
    viol=$(echo "$out" | grep -c '^VIOLATION')
    lost=$(echo "$out" | grep -c 'proof-lost')
    if [ $rc -ne 0 ] || [ $lost -ne 0 ]; then
      echo "$id $p: rc=$rc violations=$viol proof-lost=$lost | $(echo "$out" | grep -A1 '^VIOLATION' | sed -n 2p | cut -c1-140) $(echo "$out" | grep 'proof-lost' | head -2 | cut -c1-160)" | tee -a /tmp/benign_results.txt
    fi
  done
  git -C /repo checkout -- .
  echo "$id: done" | tee -a /tmp/benign_results.txt
done
